----------------------------- MODULE Stream -----------------------------
(* Design model (level D) of the stream entry points of minify.go, one action per
   linearisation point of each real goroutine (C12, C14).

     mode "writer"   M.Writer      producer --pipe--> worker --> sink
     mode "response" ResponseWriter / Middleware / MiddlewareWithError
                                      handler  --pipe--> worker --> http.ResponseWriter
                                      (or pass-through when no minifier is selected)
     mode "reader"   M.Reader      source --> worker --pipe--> consumer
     mode "plain"    M.Minify      source --> worker --> sink      (one goroutine)
     mode "bytes"    M.Bytes/String  = plain on in-memory buffers, no faults

   The worker is the same in every mode (every package's Minify): parse.NewInput =
   io.ReadAll of its reader, F(input) as an uninterpreted injective constructor,
   MaxOut output writes whose errors are ignored, one zero-length probe write
   `w.Write(nil)` whose error is the result.
   The pipe is Go's io.Pipe: a Write is a rendezvous with one or more Reads, a zero
   length Write still needs one Read (which returns 0, nil), Close of the read side
   makes a blocked or later Write fail with ErrClosedPipe, CloseWithError(e) on the
   write side makes later Reads return e (EOF for Close).

   Environment choices fixed in Init (they are what the harness controls in the real
   runs): the partition of the input into chunks, the position from which the sink
   fails, the position after which the source fails (with/without a short final
   read), whether a minifier is registered, the response headers and the handler's
   use of WriteHeader, the consumer's buffer size, and a gate that keeps the sink
   closed until Close is in flight.

   Every action also emits its observable events in the vocabulary of the harness
   (WriteCall, WriteRet, SinkWrite, hook.writer.exit, CloseRet, Commit, Read, ...);
   with Monitor = TRUE the property relation of the trace specification (StreamRel)
   runs over them as the history variable mon, and MonitorQuiet / MonitorFinal state
   that it never flags a behaviour of this design (D => A).                      *)
EXTENDS Integers, Sequences, FiniteSets, TLC, Json, StreamRel

CONSTANTS Input,        \* sequence of abstract byte ids, e.g. <<1,2,3>>
          MaxOut,       \* number of output pieces the minifier writes before the probe
          PieceLen,     \* abstract bytes per output piece (reader mode: a piece can be split over Reads)
          MaxBuf,       \* consumer buffer sizes 1..MaxBuf
          Modes,        \* subset of {"writer","response","reader","plain","bytes"}
          PatchCL,      \* TRUE: responseWriter.Write drops Content-Length when it selects a minifier (the code since commit c60263b); FALSE: before
          Mut,          \* "none", or a deliberately wrong design used to show that the invariants bite
          FullProduct,  \* TRUE: full product of the response-mode choices; FALSE: header choices and fault/gate choices factored
          RecordHist,   \* TRUE: hist records the action labels (generation); FALSE for model checking
          Monitor       \* TRUE: mon runs the property relation StreamRel over the events the actions emit (D => A)

VARIABLES mode, cfg,    \* fixed in Init
          chunks,       \* chunks the environment still has to offer (producer writes / source reads)
          cst,          \* client: producer, handler+middleware, consumer, or the caller of the plain call
          cres,         \* what the client has seen: results of Write, Close, Read, the plain call, errorFunc
          pipe,         \* io.Pipe
          wk,           \* worker goroutine (the minifier)
          sink,         \* underlying writer double
          src,          \* underlying reader double
          http,         \* response header state
          wgdone,       \* sync.WaitGroup of the writer wrapper
          hist,         \* history variable (hidden by the VIEW)
          mon           \* history variable: state of the property relation (StreamRel) over the emitted events
vars == <<mode, cfg, chunks, cst, cres, pipe, wk, sink, src, http, wgdone, hist, mon>>
View == <<mode, cfg, chunks, cst, cres, pipe, wk, sink, src, http, wgdone>>

In0 == <<>>          \* empty input: Cuts gives "no Write at all" and "one empty Write"
In1 == <<1>>
In2 == <<1, 2>>
In3 == <<1, 2, 3>>
In4 == <<1, 2, 3, 4>>
ModesAll == {"writer", "response", "reader", "plain", "bytes"}
ModesC12 == {"writer", "response", "reader", "bytes"}
ModesC14 == {"plain", "writer", "reader"}
ModesW == {"writer"}
ModesB == {"bytes"}
ModesWH == {"writer", "response"}
ModesH == {"response"}
ModesP == {"plain"}
ModesPR == {"plain", "reader"}

Min(a, b) == IF a < b THEN a ELSE b

\* all ways to cut s into consecutive chunks; empty chunks allowed (at most one in a row)
RECURSIVE Cuts(_, _)
Cuts(s, e) == (IF s = <<>> THEN {<<>>}
               ELSE UNION {{ <<SubSeq(s, 1, i)>> \o r : r \in Cuts(SubSeq(s, i+1, Len(s)), TRUE) } : i \in 1..Len(s)})
              \cup (IF e THEN { << <<>> >> \o r : r \in Cuts(s, FALSE) } ELSE {})

Known(t) == t \in {"K1", "K2"}
\* the property's selection rule: Content-Type if present, else the type of the request path extension
Chosen(c) == IF c.ct # "none" THEN c.ct ELSE c.ext

Piece(inb, by, i) == [j \in 1..PieceLen |-> [of |-> inb, by |-> by, p |-> i, j |-> j]]
Expected(inb, by) == [i \in 1..MaxOut |-> Piece(inb, by, i)]
Flat(ps) == [k \in 1..(Len(ps) * PieceLen) |-> ps[((k-1) \div PieceLen) + 1][((k-1) % PieceLen) + 1]]

Base == [failfrom |-> 0, srcfail |-> -1, srcshort |-> FALSE, notexist |-> FALSE, probeOnErr |-> TRUE,
         ct |-> "none", ext |-> "U", cl |-> "none", wh |-> "no", mw |-> "rw", gate |-> "none", cbuf |-> 1, after |-> FALSE, dirty |-> FALSE]
SrcFaults == {<<-1, FALSE>>} \cup {<<s, sh>> \in (0..Len(Input)) \X BOOLEAN : sh => s > 0}
\* after: the producer goes on after Close returned - one more Write, then Close again
CfgW == { [Base EXCEPT !.failfrom = f, !.notexist = ne, !.gate = g, !.after = a] :
            f \in 0..(MaxOut+1), ne \in BOOLEAN, g \in {"none", "close"}, a \in BOOLEAN }
CfgR == { [Base EXCEPT !.srcfail = s[1], !.srcshort = s[2], !.notexist = ne, !.probeOnErr = pe, !.cbuf = cb] :
            s \in SrcFaults, ne \in BOOLEAN, pe \in BOOLEAN, cb \in 1..MaxBuf }
CfgP == { [Base EXCEPT !.failfrom = f, !.srcfail = s[1], !.srcshort = s[2], !.notexist = ne, !.probeOnErr = pe] :
            f \in 0..(MaxOut+1), s \in SrcFaults, ne \in BOOLEAN, pe \in BOOLEAN }
\* dirty: an earlier helper call failed after it had produced output (call history of Bytes / String)
CfgB == { [Base EXCEPT !.notexist = ne, !.dirty = d] : ne \in BOOLEAN, d \in BOOLEAN }
CfgHFull == { [Base EXCEPT !.failfrom = f, !.ct = ct, !.ext = ex, !.cl = cl, !.wh = wh, !.mw = mw, !.gate = g] :
            f \in 0..(MaxOut+1), ct \in {"none", "K1", "K2", "U"}, ex \in {"K1", "U"}, cl \in {"none", "stale"},
            wh \in {"no", "first", "last"}, mw \in {"rw", "mwerr"}, g \in {"none", "close"} }
\* factored product (quick tier): header/selection choices without faults, fault/gate choices with fixed headers
CfgHFact == { [Base EXCEPT !.ct = ct, !.ext = ex, !.cl = cl, !.wh = wh, !.mw = mw] :
                ct \in {"none", "K1", "K2", "U"}, ex \in {"K1", "U"}, cl \in {"none", "stale"},
                wh \in {"no", "first", "last"}, mw \in {"rw", "mwerr"} }
            \cup { [Base EXCEPT !.failfrom = f, !.ct = "K1", !.cl = "stale", !.wh = wh, !.mw = mw, !.gate = g] :
                f \in 0..(MaxOut+1), wh \in {"no", "first"}, mw \in {"rw", "mwerr"}, g \in {"none", "close"} }
CfgH == IF FullProduct THEN CfgHFull ELSE CfgHFact
CfgOf(m) == CASE m = "writer" -> CfgW [] m = "reader" -> CfgR [] m = "plain" -> CfgP
              [] m = "bytes" -> CfgB [] m = "response" -> CfgH
ChunksOf(m) == IF m = "bytes" THEN {<<Input>>} ELSE Cuts(Input, TRUE)

-----------------------------------------------------------------------------
(* observable events, in the vocabulary of the harness (see StreamRel), and the session header of a model run *)
Cls(x) == CASE x = "nil" -> "nil" [] x = "ok" -> "nil" [] x = "ErrSink" -> "sink" [] x = "ErrSrc" -> "src"
            [] x = "ErrNotExist" -> "notexist" [] x = "ErrClosedPipe" -> "closedpipe" [] x = "EOF" -> "eof" [] OTHER -> x
Txt(x) == IF Cls(x) = "nil" THEN "" ELSE Cls(x)          \* one error text per error value
Ev(k, n, c, e, t, b) == [k |-> k, n |-> n, c |-> c, e |-> e, t |-> t, b |-> b]
E0(k) == Ev(k, 0, 0, "", "", <<>>)
EErr(k, x) == Ev(k, 0, 0, Cls(x), Txt(x), <<>>)
\* result of the plain call for mediatype class t (digest = the byte sequence itself)
WantOf(t) == IF Known(t) THEN [n |-> MaxOut * PieceLen, h |-> Flat(Expected(Input, t)), b |-> Flat(Expected(Input, t)), e |-> "nil", t |-> ""]
             ELSE [n |-> 0, h |-> <<>>, b |-> <<>>, e |-> "notexist", t |-> "notexist"]
Hdr == [mode |-> IF mode = "response" THEN (IF cfg.mw = "rw" THEN "response" ELSE "mwerr") ELSE mode,
        ff |-> cfg.failfrom, sf |-> cfg.srcfail, small |-> TRUE, in |-> Input, inn |-> Len(Input), inh |-> Input, h0 |-> <<>>,
        nwrite |-> mon.nwrite, after |-> cfg.after, want |-> IF cfg.notexist THEN WantOf("U") ELSE WantOf("K1"),
        ct |-> IF cfg.ct = "none" THEN "" ELSE cfg.ct, xt |-> cfg.ext, cl |-> IF cfg.cl = "stale" THEN Len(Input) ELSE -1,
        wct |-> WantOf(cfg.ct), wxt |-> WantOf(cfg.ext)]
Observe(m, e) == [m EXCEPT !.bad = @ \cup EventBad(m.st, e, Hdr), !.st = Apply(m.st, e, Hdr)]
RECURSIVE ObserveAll(_, _)
ObserveAll(m, es) == IF es = <<>> THEN m ELSE ObserveAll(Observe(m, Head(es)), Tail(es))
\* every action: label for hist, events for the monitor
Born == IF Mut = "addinside" THEN "spawned" ELSE "start"
Rec(a, es) == /\ hist' = IF RecordHist THEN Append(hist, a) ELSE hist
              /\ mon' = IF Monitor /\ mode # "plain" THEN ObserveAll(mon, es) ELSE mon
\* events of a Write on the underlying ResponseWriter / sink double: implicit header commit, then the write
CommitEv == IF mode = "response" /\ http.committed = "no"
            THEN <<Ev("Commit", 200, IF http.cl # "none" THEN Len(Input) ELSE -1, "", "", <<>>)>> ELSE <<>>
SinkEv(bytes, okay) == <<Ev("SinkWrite", Len(bytes), 0, IF okay THEN "nil" ELSE "sink",
                            IF okay THEN mon.st.b \o bytes ELSE mon.st.b, bytes)>>

Init == /\ mode \in Modes
        /\ cfg \in CfgOf(mode)
        /\ chunks \in ChunksOf(mode)
        /\ cst = CASE mode = "writer" -> "idle" [] mode = "reader" -> "cidle"
                   [] mode \in {"plain", "bytes"} -> "pcall" [] mode = "response" -> "hstart"
        /\ cres = [writes |-> <<>>, close |-> "none", got |-> <<>>, read |-> "none", ret |-> "none", errfunc |-> "none"]
        /\ pipe = [act |-> FALSE, buf |-> <<>>, once |-> FALSE, rclosed |-> FALSE, wclosed |-> "no"]
        \* wg.Add(1) happens before the go statement: the worker is born with its WaitGroup count (added); in the wrong
        \* design "addinside" the goroutine does the Add itself (state "spawned" until then)
        /\ wk = [st |-> IF mode = "response" THEN "none" ELSE Born, inbuf |-> <<>>, left |-> <<>>,
                 err |-> "nil", zerr |-> "nil", by |-> "K1", added |-> Mut # "addinside"]
        \* Bytes / String write into a fresh buffer per call; the wrong design "dirtybuf" reuses a pooled buffer that an
        \* earlier failed call left dirty
        /\ sink = [calls |-> 0, hit |-> FALSE, open |-> FALSE,
                   delivered |-> IF mode = "bytes" /\ cfg.dirty /\ Mut = "dirtybuf" THEN <<Piece(<<>>, "stale", 0)>> ELSE <<>>]
        /\ src = [given |-> 0, hit |-> FALSE]
        /\ http = [cl |-> cfg.cl, committed |-> "no", sel |-> "none", whdone |-> FALSE]
        /\ wgdone = FALSE
        /\ hist = <<>>
        /\ mon = [st |-> St0(<<>>), bad |-> {}, nwrite |-> Len(chunks)]

-----------------------------------------------------------------------------
(* producer side of the pipe: z.Write(chunk) = pw.Write(chunk)  (writer; response after selection) *)
PipeWriteBegin(c) == IF pipe.rclosed
                     THEN /\ cres' = [cres EXCEPT !.writes = Append(@, "ErrClosedPipe")]
                          /\ UNCHANGED <<pipe, cst>>
                     ELSE /\ pipe' = [pipe EXCEPT !.act = TRUE, !.buf = c, !.once = FALSE]
                          /\ cst' = "inwrite" /\ UNCHANGED cres
Piped == mode = "writer" \/ (mode = "response" /\ Known(http.sel))

PWriteCall == /\ Piped /\ cst = "idle" /\ chunks # <<>>
              /\ PipeWriteBegin(Head(chunks))
              /\ chunks' = Tail(chunks)
              /\ Rec("WriteCall", <<Ev("WriteCall", Len(Head(chunks)), 0, "", "", <<>>)>>
                                   \o IF pipe.rclosed THEN <<EErr("WriteRet", "ErrClosedPipe")>> ELSE <<>>)
              /\ UNCHANGED <<mode, cfg, wk, sink, src, http, wgdone>>
\* the blocked write returns when everything was handed over, or when the read side was closed
PWriteRet == /\ cst = "inwrite"
             /\ IF pipe.once /\ pipe.buf = <<>>
                THEN cres' = [cres EXCEPT !.writes = Append(@, "ok")]
                ELSE pipe.rclosed /\ cres' = [cres EXCEPT !.writes = Append(@, "ErrClosedPipe")]
             /\ pipe' = [pipe EXCEPT !.act = FALSE, !.buf = <<>>]
             /\ cst' = "idle"
             /\ Rec("WriteRet", <<EErr("WriteRet", IF pipe.once /\ pipe.buf = <<>> THEN "nil" ELSE "ErrClosedPipe")>>)
             /\ UNCHANGED <<mode, cfg, chunks, wk, sink, src, http, wgdone>>
\* writer.Close: z.WriteCloser.Close(), then z.wg.Wait()
PCloseCall == /\ mode = "writer" /\ cst = "idle" /\ chunks = <<>>
              /\ cst' = "waitwg" /\ pipe' = [pipe EXCEPT !.wclosed = "EOF"]
              /\ Rec("CloseCall", <<E0("CloseCall")>>)
              /\ UNCHANGED <<mode, cfg, chunks, cres, wk, sink, src, http, wgdone>>
\* wg.Wait returns when the counter is zero: after wg.Done - or when nobody has called wg.Add yet
PCloseRet == /\ cst = "waitwg" /\ (wgdone \/ ~wk.added \/ Mut = "nowait")
             /\ cst' = "done"
             /\ cres' = [cres EXCEPT !.close = wk.zerr,
                                     !.errfunc = IF cfg.mw = "mwerr" /\ wk.zerr # "nil" THEN wk.zerr ELSE @]
             /\ Rec("CloseRet", <<E0("hook.writer.closewaited")>>
                                 \o (IF cfg.mw = "mwerr" /\ wk.zerr # "nil" THEN <<EErr("ErrFunc", wk.zerr)>> ELSE <<>>)
                                 \o <<IF cfg.mw = "mwerr" THEN Ev("CloseRet", 0, 0, "unseen", "", <<>>) ELSE EErr("CloseRet", wk.zerr)>>)
             /\ UNCHANGED <<mode, cfg, chunks, pipe, wk, sink, src, http, wgdone>>

\* use after Close: pw.Write on the closed pipe fails with ErrClosedPipe and hands nothing on; a second Close returns
\* nil at once (z.closed)
PLateWrite == /\ mode = "writer" /\ cst = "done" /\ cfg.after
              /\ cst' = "late" /\ cres' = [cres EXCEPT !.writes = Append(@, "ErrClosedPipe")]
              /\ Rec("LateWrite", <<EErr("LateWriteRet", "ErrClosedPipe")>>)
              /\ UNCHANGED <<mode, cfg, chunks, pipe, wk, sink, src, http, wgdone>>
PClose2 == /\ cst = "late"
           /\ cst' = "done2"
           /\ Rec("Close2", <<EErr("Close2Ret", "nil")>>)
           /\ UNCHANGED <<mode, cfg, chunks, cres, pipe, wk, sink, src, http, wgdone>>

-----------------------------------------------------------------------------
(* handler + middleware (mode "response") *)
Commit(h, hascl) == IF h.committed = "no" THEN [h EXCEPT !.committed = IF hascl THEN "withcl" ELSE "nocl"] ELSE h
\* responseWriter.WriteHeader: delete Content-Length, then the underlying WriteHeader commits the headers
HWriteHeader(h) == Commit([h EXCEPT !.cl = "none", !.whdone = TRUE], FALSE)

HStart == /\ mode = "response" /\ cst = "hstart"
          /\ http' = IF cfg.wh = "first" THEN HWriteHeader(http) ELSE http
          /\ cst' = "idle"
          /\ Rec("HandlerStart", IF cfg.wh = "first" THEN <<Ev("Commit", 200, -1, "", "", <<>>)>> ELSE <<>>)
          /\ UNCHANGED <<mode, cfg, chunks, cres, pipe, wk, sink, src, wgdone>>
\* first Write: select the minifier (Content-Type, else the extension's type), start the worker or pass through
SelOf(c) == IF Mut = "extfirst" THEN (IF Known(c.ext) THEN c.ext ELSE c.ct) ELSE Chosen(c)
HSelect == /\ mode = "response" /\ cst = "idle" /\ chunks # <<>> /\ http.sel = "none"
           /\ LET mt == SelOf(cfg) IN
              IF Known(mt)
              THEN /\ http' = [http EXCEPT !.sel = mt, !.cl = IF PatchCL THEN "none" ELSE @]
                   /\ wk' = [wk EXCEPT !.st = Born, !.by = mt]
              ELSE /\ http' = [http EXCEPT !.sel = "pass"] /\ UNCHANGED wk
           /\ Rec("Select", <<Ev(IF Known(SelOf(cfg)) THEN "hook.response.select" ELSE "hook.response.passthrough", 0, 0, "nil", SelOf(cfg), <<>>)>>)
           /\ UNCHANGED <<mode, cfg, chunks, cst, cres, pipe, sink, src, wgdone>>
SinkOK == cfg.failfrom = 0 \/ sink.calls + 1 < cfg.failfrom
\* pass-through: the chunk goes straight to the underlying ResponseWriter (first Write commits the headers)
HPassWrite == /\ mode = "response" /\ cst = "idle" /\ chunks # <<>> /\ http.sel = "pass"
              /\ http' = Commit(http, http.cl # "none")
              /\ sink' = [sink EXCEPT !.calls = @ + 1, !.hit = @ \/ ~SinkOK,
                                      !.delivered = IF SinkOK THEN Append(@, Head(chunks)) ELSE @]
              /\ cres' = [cres EXCEPT !.writes = Append(@, IF SinkOK THEN "ok" ELSE "ErrSink")]
              /\ chunks' = Tail(chunks)
              /\ Rec("PassWrite", <<Ev("WriteCall", Len(Head(chunks)), 0, "", "", <<>>)>> \o CommitEv \o SinkEv(Head(chunks), SinkOK)
                                   \o <<EErr("WriteRet", IF SinkOK THEN "nil" ELSE "ErrSink")>>)
              /\ UNCHANGED <<mode, cfg, cst, pipe, wk, src, wgdone>>
HWriteHeaderLast == /\ mode = "response" /\ cst = "idle" /\ chunks = <<>> /\ cfg.wh = "last" /\ ~http.whdone
                    /\ http' = HWriteHeader(http)
                    /\ Rec("WriteHeaderLast", IF http.committed = "no" THEN <<Ev("Commit", 200, -1, "", "", <<>>)>> ELSE <<>>)
                    /\ UNCHANGED <<mode, cfg, chunks, cst, cres, pipe, wk, sink, src, wgdone>>
\* handler returns; the middleware (or the caller) calls responseWriter.Close
HClose == /\ mode = "response" /\ cst = "idle" /\ chunks = <<>> /\ (cfg.wh = "last" => http.whdone)
          /\ IF Known(http.sel)
             THEN /\ cst' = "waitwg" /\ pipe' = [pipe EXCEPT !.wclosed = "EOF"] /\ UNCHANGED cres
             ELSE /\ cst' = "done" /\ cres' = [cres EXCEPT !.close = "nil"] /\ UNCHANGED pipe
          /\ Rec("CloseCall", <<E0("CloseCall")>> \o (IF Known(http.sel) THEN <<>>
                                ELSE <<IF cfg.mw = "mwerr" THEN Ev("CloseRet", 0, 0, "unseen", "", <<>>) ELSE EErr("CloseRet", "nil")>>))
          /\ UNCHANGED <<mode, cfg, chunks, wk, sink, src, http, wgdone>>

-----------------------------------------------------------------------------
(* the worker: every package's Minify *)
WAdd == /\ wk.st = "spawned"                       \* only in the wrong design: wg.Add(1) inside the goroutine
        /\ wk' = [wk EXCEPT !.st = "start", !.added = TRUE]
        /\ Rec("WAdd", <<>>)
        /\ UNCHANGED <<mode, cfg, chunks, cst, cres, pipe, sink, src, http, wgdone>>
WStart == /\ wk.st = "start"
          /\ wk' = IF cfg.notexist THEN [wk EXCEPT !.st = "exiting", !.err = "ErrNotExist"]
                   ELSE [wk EXCEPT !.st = "reading"]
          /\ Rec("WStart", <<>>)
          /\ UNCHANGED <<mode, cfg, chunks, cst, cres, pipe, sink, src, http, wgdone>>
Computed(w) == [w EXCEPT !.left = Expected(w.inbuf, w.by), !.st = IF MaxOut = 0 THEN "probe" ELSE "writing"]
\* io.ReadAll over the pipe: take n >= 1 offered bytes (its buffer size is arbitrary), 0 for an empty write, or see EOF
WReadPipe == /\ wk.st = "reading" /\ mode \in {"writer", "response"}
             /\ \/ /\ pipe.act /\ ~(pipe.once /\ pipe.buf = <<>>)
                   /\ \E n \in (IF pipe.buf = <<>> THEN {0} ELSE 1..Len(pipe.buf)) :
                        /\ wk' = [wk EXCEPT !.inbuf = @ \o SubSeq(pipe.buf, 1, n)]
                        /\ pipe' = [pipe EXCEPT !.buf = SubSeq(@, n+1, Len(@)), !.once = TRUE]
                \/ /\ ~pipe.act /\ pipe.wclosed # "no"
                   /\ wk' = Computed(wk) /\ UNCHANGED pipe
             /\ Rec("WRead", <<>>)
             /\ UNCHANGED <<mode, cfg, chunks, cst, cres, sink, src, http, wgdone>>
\* io.ReadAll over the source double: next chunk, cut at the fault point; (n>0, err) if the final read is short
WReadSrc == /\ wk.st = "reading" /\ mode \in {"reader", "plain", "bytes"}
            /\ IF cfg.srcfail >= 0 /\ src.given = cfg.srcfail
               THEN /\ wk' = [wk EXCEPT !.st = "srcerr"] /\ src' = [src EXCEPT !.hit = TRUE] /\ UNCHANGED chunks
               ELSE IF chunks = <<>>
               THEN /\ wk' = Computed(wk) /\ UNCHANGED <<src, chunks>>
               ELSE LET c == Head(chunks)
                        room == IF cfg.srcfail < 0 THEN Len(c) ELSE Min(Len(c), cfg.srcfail - src.given)
                        witherr == cfg.srcfail >= 0 /\ src.given + room = cfg.srcfail /\ cfg.srcshort /\ room > 0
                    IN /\ src' = [given |-> src.given + room, hit |-> src.hit \/ witherr]
                       /\ wk' = [wk EXCEPT !.inbuf = @ \o SubSeq(c, 1, room), !.st = IF witherr THEN "srcerr" ELSE "reading"]
                       /\ chunks' = IF room = Len(c) THEN Tail(chunks) ELSE <<SubSeq(c, room+1, Len(c))>> \o Tail(chunks)
            /\ Rec("SrcRead", <<>>)
            /\ UNCHANGED <<mode, cfg, cst, cres, pipe, sink, http, wgdone>>
\* NewInput failed: the lexer reports the reader's error; every minifier but JS still does the probe write first
WSrcErr == /\ wk.st = "srcerr"
           /\ wk' = [wk EXCEPT !.err = IF Mut = "eofswallow" THEN "nil" ELSE "ErrSrc", !.left = <<>>,
                               !.st = IF cfg.probeOnErr THEN "probe" ELSE "exiting"]
           /\ Rec("WSrcErr", <<>>)
           /\ UNCHANGED <<mode, cfg, chunks, cst, cres, pipe, sink, src, http, wgdone>>
GateOK == cfg.gate = "none" \/ sink.open
\* intermediate writes: their errors are ignored by the minifiers
WWriteSink == /\ wk.st = "writing" /\ mode # "reader" /\ GateOK
              /\ sink' = [sink EXCEPT !.calls = @ + 1, !.hit = @ \/ ~SinkOK,
                                      !.delivered = IF SinkOK THEN Append(@, Head(wk.left)) ELSE @]
              /\ wk' = [wk EXCEPT !.left = Tail(@), !.st = IF Len(wk.left) = 1 THEN "probe" ELSE "writing"]
              /\ http' = IF mode = "response" THEN Commit(http, http.cl # "none") ELSE http
              /\ Rec("SinkWrite", CommitEv \o SinkEv(Flat(<<Head(wk.left)>>), SinkOK))
              /\ UNCHANGED <<mode, cfg, chunks, cst, cres, pipe, src, wgdone>>
\* w.Write(nil): its error is the minifier's result
WProbeSink == /\ wk.st = "probe" /\ mode # "reader" /\ GateOK
              /\ IF Mut = "noprobe" THEN UNCHANGED <<sink, http>> /\ wk' = [wk EXCEPT !.st = "exiting"]
                 ELSE /\ sink' = [sink EXCEPT !.calls = @ + 1, !.hit = @ \/ ~SinkOK]
                      /\ wk' = [wk EXCEPT !.st = "exiting", !.err = IF SinkOK THEN @ ELSE "ErrSink"]
                      /\ http' = IF mode = "response" THEN Commit(http, http.cl # "none") ELSE http
              /\ Rec("SinkProbe", IF Mut = "noprobe" THEN <<>> ELSE CommitEv \o SinkEv(<<>>, SinkOK))
              /\ UNCHANGED <<mode, cfg, chunks, cst, cres, pipe, src, wgdone>>
\* reader mode: output and probe go to the pipe; each Write is a rendezvous with the consumer's Reads
WPipeBegin == /\ mode = "reader" /\ wk.st \in {"writing", "probe"}
              /\ pipe' = [pipe EXCEPT !.act = TRUE, !.once = FALSE, !.buf = IF wk.st = "writing" THEN Head(wk.left) ELSE <<>>]
              /\ wk' = [wk EXCEPT !.st = IF wk.st = "writing" THEN "pwriting" ELSE "pprobing"]
              /\ Rec("PipeWriteBegin", <<>>)
              /\ UNCHANGED <<mode, cfg, chunks, cst, cres, sink, src, http, wgdone>>
WPipeEnd == /\ mode = "reader" /\ wk.st \in {"pwriting", "pprobing"} /\ pipe.once /\ pipe.buf = <<>>
            /\ pipe' = [pipe EXCEPT !.act = FALSE]
            /\ wk' = IF wk.st = "pwriting"
                     THEN [wk EXCEPT !.left = Tail(@), !.st = IF Len(wk.left) = 1 THEN "probe" ELSE "writing"]
                     ELSE [wk EXCEPT !.st = "exiting"]
            /\ Rec("PipeWriteEnd", <<>>)
            /\ UNCHANGED <<mode, cfg, chunks, cst, cres, sink, src, http, wgdone>>
\* Minify returned: store the error (hook "writer.exit"/"reader.exit" fires here), then release the pipe
WExit1 == /\ wk.st = "exiting"
          /\ LET z == IF Mut = "noerr" THEN "nil" ELSE wk.err IN
             CASE mode \in {"writer", "response"} ->
                    /\ wk' = [wk EXCEPT !.st = "closedpr", !.zerr = z]
                    /\ pipe' = [pipe EXCEPT !.rclosed = TRUE]          \* deferred pr.Close()
               [] mode = "reader" ->
                    /\ wk' = [wk EXCEPT !.st = "exited", !.zerr = z]
                    /\ pipe' = [pipe EXCEPT !.wclosed = IF z = "nil" THEN "EOF" ELSE z]   \* pw.CloseWithError
               [] OTHER ->
                    /\ wk' = [wk EXCEPT !.st = "exited", !.zerr = z] /\ UNCHANGED pipe
          /\ Rec("WExit", LET z == IF Mut = "noerr" THEN "nil" ELSE wk.err IN
                           CASE mode \in {"writer", "response"} -> <<EErr("hook.writer.exit", z)>>
                             [] mode = "reader" -> <<EErr("hook.reader.exit", z)>>
                             [] OTHER -> <<>>)
          /\ UNCHANGED <<mode, cfg, chunks, cst, cres, sink, src, http, wgdone>>
WExit2 == /\ wk.st = "closedpr"
          /\ wgdone' = TRUE /\ wk' = [wk EXCEPT !.st = "exited"]         \* deferred wg.Done()
          /\ Rec("WgDone", <<>>)
          /\ UNCHANGED <<mode, cfg, chunks, cst, cres, pipe, sink, src, http>>

-----------------------------------------------------------------------------
(* consumer of the reader wrapper: Read(buf[:cbuf]) until an error *)
CRead == /\ mode = "reader" /\ cst = "cidle"
         /\ \/ /\ pipe.act /\ ~(pipe.once /\ pipe.buf = <<>>)
               /\ LET n == Min(cfg.cbuf, Len(pipe.buf)) IN
                  /\ cres' = [cres EXCEPT !.got = @ \o SubSeq(pipe.buf, 1, n)]
                  /\ pipe' = [pipe EXCEPT !.buf = SubSeq(@, n+1, Len(@)), !.once = TRUE]
               /\ UNCHANGED cst
            \/ /\ ~pipe.act /\ pipe.wclosed # "no"
               /\ cres' = [cres EXCEPT !.read = pipe.wclosed] /\ cst' = "done" /\ UNCHANGED pipe
         /\ Rec("Read", IF pipe.act /\ ~(pipe.once /\ pipe.buf = <<>>)
                         THEN LET n == Min(cfg.cbuf, Len(pipe.buf)) IN
                              <<Ev("Read", n, cfg.cbuf, "nil", mon.st.b \o SubSeq(pipe.buf, 1, n), SubSeq(pipe.buf, 1, n))>>
                         ELSE <<Ev("Read", 0, cfg.cbuf, Cls(pipe.wclosed), Txt(pipe.wclosed), <<>>)>>)
         /\ UNCHANGED <<mode, cfg, chunks, wk, sink, src, http, wgdone>>
(* caller of the plain call / Bytes / String *)
PRet == /\ mode \in {"plain", "bytes"} /\ cst = "pcall" /\ wk.st = "exited"
        /\ cst' = "done" /\ cres' = [cres EXCEPT !.ret = wk.zerr]
        /\ Rec("Ret", <<Ev("Ret", Len(sink.delivered) * PieceLen, 0, Cls(wk.zerr),
                             IF wk.zerr = "nil" THEN Flat(sink.delivered) ELSE Txt(wk.zerr), Flat(sink.delivered))>>)
        /\ UNCHANGED <<mode, cfg, chunks, pipe, wk, sink, src, http, wgdone>>
(* harness: the sink gate opens only once Close is in flight *)
GateOpen == /\ cfg.gate = "close" /\ ~sink.open /\ cst \in {"waitwg", "done", "late", "done2"}
            /\ sink' = [sink EXCEPT !.open = TRUE]
            /\ Rec("GateOpen", <<E0("GateOpen")>>)
            /\ UNCHANGED <<mode, cfg, chunks, cst, cres, pipe, wk, src, http, wgdone>>

Client == PWriteCall \/ PWriteRet \/ PCloseCall \/ PCloseRet \/ PLateWrite \/ PClose2 \/ HStart \/ HSelect \/ HPassWrite
          \/ HWriteHeaderLast \/ HClose \/ CRead \/ PRet
Worker == WAdd \/ WStart \/ WReadPipe \/ WReadSrc \/ WSrcErr \/ WWriteSink \/ WProbeSink \/ WPipeBegin \/ WPipeEnd
          \/ WExit1 \/ WExit2
Finished == cst = (IF mode = "writer" /\ cfg.after THEN "done2" ELSE "done")
Terminated == Finished /\ wk.st \in {"none", "exited"} /\ (cfg.gate = "close" => sink.open)
Next == Client \/ Worker \/ GateOpen \/ (Terminated /\ UNCHANGED vars)
Spec == Init /\ [][Next]_vars /\ WF_vars(Client) /\ WF_vars(Worker) /\ WF_vars(GateOpen)
\* generator: only the initial states (the harness-controlled choices) are enumerated
GenSpec == Init /\ [][FALSE]_vars

-----------------------------------------------------------------------------
NoFault == cfg.failfrom = 0 /\ cfg.srcfail < 0
Done == cst \in {"done", "late", "done2"}         \* Close (the plain call, the consumer's last Read) has returned
PassExpected == [i \in 1..Len(sink.delivered) |-> sink.delivered[i]]
\* C12 "byte-identical output to the plain reader-to-writer call, regardless of how the input is split"
ChunkingInvariance ==
  (Done /\ NoFault /\ ~cfg.notexist) =>
     CASE mode = "writer" -> sink.delivered = Expected(Input, "K1") /\ cres.close = "nil"
       [] mode = "response" ->
            IF Known(Chosen(cfg)) THEN (\E i \in 1..Len(cres.writes) : TRUE) =>
                                         (sink.delivered = Expected(Input, Chosen(cfg)) /\ cres.close = "nil")
            ELSE Len(sink.delivered) = Len(cres.writes) /\ cres.close = "nil"
       [] mode = "reader" -> cres.got = Flat(Expected(Input, "K1")) /\ cres.read = "EOF"
       [] OTHER -> sink.delivered = Expected(Input, "K1") /\ cres.ret = "nil"
\* pass-through delivers exactly the chunks that were written, in order
PassThrough == (mode = "response" /\ http.sel = "pass" /\ cfg.failfrom = 0) =>
                  \A i \in 1..Len(sink.delivered) : Len(sink.delivered[i]) <= Len(Input)
\* C12 "deliver all output and the minifier's error by the time Close returns"
CloseWaits == (Done /\ mode \in {"writer", "response"} /\ wk.st # "none") => (wk.st = "exited" /\ cres.close = wk.err)
\* C12: nothing reaches the sink after Close returned (action property)
NoWriteAfterClose == [][(Done /\ mode \in {"writer", "response"}) => sink'.delivered = sink.delivered]_vars
\* C12 "the middleware removes a stale Content-Length": no minified response is committed with the handler's length
ContentLengthGone == http.committed = "withcl" => http.sel = "pass"
\* C12 "picks the minifier from Content-Type, falling back to the request path extension"
SelectionRule == http.sel # "none" => http.sel = (IF Known(Chosen(cfg)) THEN Chosen(cfg) ELSE "pass")
\* C14 "returns a non-nil error - the reader's error, or the writer's"; via the wrappers by Write, Close or Read
Surfaced == CASE mode \in {"plain", "bytes"} -> {cres.ret}
              [] mode = "reader" -> {cres.read}
              [] OTHER -> {cres.close} \cup {cres.writes[i] : i \in 1..Len(cres.writes)}
FaultSurfaces == (Done /\ (src.hit \/ sink.hit)) =>
                    /\ (src.hit /\ "ErrSrc" \in Surfaced) \/ (sink.hit /\ "ErrSink" \in Surfaced)
                    /\ mode \in {"plain", "bytes"} => cres.ret # "nil"
\* never silent truncation: success means complete output
NoSilentTruncation == (Done /\ mode = "plain" /\ cres.ret = "nil") => sink.delivered = Expected(Input, "K1")
NotExistSurfaces == (Done /\ cfg.notexist /\ mode = "writer") => (cres.close = "ErrNotExist" /\ sink.delivered = <<>>)
NoPartialInput == \A i \in 1..Len(sink.delivered) :
                     (mode # "response" \/ Known(http.sel)) => \A j \in 1..PieceLen : sink.delivered[i][j].of = Input
\* C12/C14 "Close always returns" (and the plain call, and the consumer sees the end)
CloseReturned == <>Finished

\* D => A: the property relation (StreamRel), run as a monitor over the events of every behaviour of the design,
\* never flags anything - in particular no clause of the trace specification rejects an interleaving that the
\* correct design can produce.  (With PatchCL = FALSE - the code before commit c60263b - the stale Content-Length
\* is flagged: Stream_mut_nodelcl.cfg expects exactly that.)
MonitorQuiet == Monitor => mon.bad = {}
MonitorFinal == (Monitor /\ Terminated /\ mode # "plain") => FinalBad(mon.st, Hdr) = {}

\* generation: one line per initial state (what the harness controls)
EmitInit == PrintT(<<"INIT", ToJson([mode |-> mode, cfg |-> cfg, sizes |-> [i \in 1..Len(chunks) |-> Len(chunks[i])]])>>)
=============================================================================
