----------------------------- MODULE JsStrQuote -----------------------------
(* C09 (syntax) and C01 (value), JavaScript: string literals that are re-quoted.

   minifyString counts the quotes, backticks, "${" and newline escapes a literal contains - written
   literally OR as an escape (\x22 ' \u{60} \42 \n \x0a \u000A ...) - picks the cheapest
   delimiter (a template literal when newline escapes dominate and the target version allows it) and
   replaceEscapes then DECODES escapes whose character is cheaper written literally.  Decoding is
   only correct if every decoded character that is active under the NEW delimiter is escaped
   again: the delimiter itself, a backslash, and under a template delimiter "$" directly before "{"
   (which would open a substitution) and a backtick.

   A state is (quote, pressure, escape, follower); the harness renders  x=Q<pressure><escape><follower>Q;
   where   pressure  drives the choice of delimiter (newline escapes, quotes of either kind),
           escape    is one way of writing $, backtick, a quote, a backslash or a line terminator,
           follower  is what comes directly after it ("{" makes a decoded "$" live in a template).
   The output must be accepted by V8 and acorn and by the minifier again (Closure.PipeInv, C09);
   the C01 literal family compares the VALUE.  DQ = double quote, SQ = single quote, BT = backtick,
   BS = backslash (placeholders: the module text is the single source of truth of the harness). *)
EXTENDS Integers, Sequences, FiniteSets, TLC

Quotes == {"DQ", "SQ", "BT"
}
Pressures == {"", "BSnBSn", "BSnBSnBSn", "BSnBSnDQSQ", "DQ", "SQ", "DQSQ", "DQSQBSn", "DQDQSQBSnBSn", "BSx0aBSu000ABSn", "BTBSnBSn", "BSu{a}BSu{00A}", "BS12BS12"
}
Escapes == {"$", "BS$", "BSu0024", "BSu{24}", "BSu{0024}", "BSx24", "BS44",
            "BSBT", "BSu0060", "BSu{60}", "BSx60", "BS140",
            "BSDQ", "BSu0022", "BSx22", "BSu{22}", "BS42", "BSSQ", "BSu0027", "BSx27", "BSu{27}", "BS47",
            "BSBS", "BSu005C", "BSx5c", "BSu{5C}", "BS134",
            "BSn", "BSx0A", "BSu000a", "BSu{A}", "BSr", "BSx0d", "BSu2028", "BSu{2029}", "BS0", "BSx00", "BSu0000"
}
Followers == {"", "{", "{a}", "{BSn", "x", "0", "8", "BSn", "$", "${", "BS{", "BSu007B", "BSx7b", "BSu{7b}a}"
}

VARIABLES q, pr, esc, fo
vars == <<q, pr, esc, fo>>
Init == q \in Quotes /\ pr \in Pressures /\ esc \in Escapes /\ fo \in Followers
Next == FALSE /\ UNCHANGED vars
Spec == Init /\ [][Next]_vars
TypeOK == q \in Quotes /\ pr \in Pressures /\ esc \in Escapes /\ fo \in Followers
=============================================================================
