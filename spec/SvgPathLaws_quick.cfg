SPECIFICATION Spec
CONSTANTS MaxN = 2
Coords <- C3
CtrlCoords <- C2
Radii <- R2
Rots <- C2
INVARIANTS Laws InRange
CHECK_DEADLOCK FALSE
