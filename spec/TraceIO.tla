----------------------------- MODULE TraceIO -----------------------------
(* Shared plumbing of every trace specification: the recorded execution of the real
   code is an ndjson file named by the environment variable TRACE; line l is the next
   event to be explained.  Reject(l, why) is used inside invariants as
        Holds(Trace[l]) \/ Reject(l, "clause")
   so that TLC evaluates the property relation in every state, reports every rejected
   line (not only the first) and the driver re-runs exactly those cases on the real code. *)
EXTENDS Integers, Sequences, TLC, Json, IOUtils

Trace == ndJsonDeserialize(IOEnv.TRACE)
N == Len(Trace)
Reject(l, why) == PrintT(<<"REJECT", l, why>>)
Has(r, f) == f \in DOMAIN r
\* acceptance for linear traces: one state per line plus the initial state
AcceptedLinear == TLCGet("stats").diameter = N + 1
=============================================================================
