SPECIFICATION Spec
INVARIANT ElemOK
INVARIANT AttrOK
INVARIANT ColourOK
INVARIANT UnitOK
INVARIANT MimeOK
INVARIANT CpOK
CHECK_DEADLOCK FALSE
