---------------------------- MODULE NumberModel ----------------------------
(* Design model (level D) of minify.Number in /repo/common.go: a transcription with 0-based
   indices, one action per block / printing case of the Go function, the slice mutated in
   place as in the code.  Generator: NumGen's automaton (exponents stay small in the bound,
   so the machine-integer guards of the Go code are out of the model's reach; they are
   covered by the edge-exponent family of the trace check).
   TLC checks D => A:  done => NumberOK(lex, prec, Out), no index outside the slice, and every
   finished behaviour is handed to the driver (EmitDone) to be replayed on the real function. *)
EXTENDS NumVal, TLC
CONSTANTS MaxLen, Alphabet, Precs
VARIABLES lex, st, pc, prec, num, neg, start, end, dot, origExp, i, inc, nd, normExp
vars == <<lex, st, pc, prec, num, neg, start, end, dot, origExp, i, inc, nd, normExp>>

Z == 48   NINE == 57   DOTC == 46   PLUS == 43   MINUS == 45   FIVE == 53   ONE == 49   LE == 101   UE == 69
ToFn(s) == [k \in 0..Len(s)-1 |-> s[k+1]]
Slice(f, a, b) == [k \in 1..(b-a) |-> f[a + k - 1]]
len == Len(lex)
InR(k) == k >= 0 /\ k < len
AllIn(S) == \A k \in S : InR(k)
Min2(a, b) == IF a < b THEN a ELSE b
MinOf(S) == CHOOSE k \in S : \A j \in S : k <= j
MaxOf(S) == CHOOSE k \in S : \A j \in S : k >= j
\* Go: copy(num[d:], num[s:e])  (memmove semantics, reads the old contents)
Copy(f, d, s, e) == LET cnt == Min2(e - s, len - d) IN
                    [k \in DOMAIN f |-> IF k >= d /\ k < d + cnt THEN f[s + (k - d)] ELSE f[k]]
CopyOK(d, s, e) == d >= 0 /\ d <= len /\ s >= 0 /\ s <= e /\ e <= len
Abs(x) == IF x < 0 THEN 0 - x ELSE x
LenInt(x) == LET a == Abs(x) IN IF a < 10 THEN 1 ELSE IF a < 100 THEN 2 ELSE IF a < 1000 THEN 3 ELSE IF a < 10000 THEN 4 ELSE 5
Pow10(k) == IF k = 0 THEN 1 ELSE IF k = 1 THEN 10 ELSE IF k = 2 THEN 100 ELSE IF k = 3 THEN 1000 ELSE 10000
\* digits of |v| written right-aligned into f[pos .. pos+w-1]   (for i := end+w-1; end <= i; i-- { num[i] = digit; v /= 10 })
WriteDigits(f, pos, w, v) == [k \in DOMAIN f |-> IF k >= pos /\ k < pos + w
                                                   THEN Z + ((Abs(v) \div Pow10(pos + w - 1 - k)) % 10) ELSE f[k]]
U == <<lex, st, prec>>

Init == /\ lex = <<>> /\ st = 0 /\ pc = "gen" /\ prec = 0 /\ num = <<>> /\ neg = FALSE /\ start = 0 /\ end = 0
        /\ dot = 0 /\ origExp = 0 /\ i = 0 /\ inc = FALSE /\ nd = 0 /\ normExp = 0

Gen == /\ pc = "gen" /\ Len(lex) < MaxLen
       /\ \E c \in Alphabet : /\ Delta(st, c) # -1 /\ lex' = Append(lex, c) /\ st' = Delta(st, c)
       /\ UNCHANGED <<pc, prec, num, neg, start, end, dot, origExp, i, inc, nd, normExp>>

\* entry: len(num) <= 1; sign; scan for '.', 'e'/'E'; parse the exponent
ExpVal(s) ==   \* value of the exponent text s (sequence of bytes, optional sign), small by construction
  LET sg == Len(s) > 0 /\ (s[1] = PLUS \/ s[1] = MINUS)
      ds == IF sg THEN SubSeq(s, 2, Len(s)) ELSE s
      v == FoldLeft(LAMBDA a, c : a * 10 + (c - Z), 0, ds)
  IN IF Len(s) > 0 /\ s[1] = MINUS THEN 0 - v ELSE v
Enter ==
  /\ pc = "gen" /\ st \in Accepting
  /\ \E p \in Precs : prec' = p
  /\ num' = ToFn(lex)
  /\ IF len <= 1 THEN /\ pc' = "done" /\ start' = 0 /\ end' = len /\ neg' = FALSE
                      /\ UNCHANGED <<dot, origExp>>
     ELSE LET s0 == IF lex[1] = PLUS \/ lex[1] = MINUS THEN 1 ELSE 0
              es == {k \in s0..len-1 : lex[k+1] = LE \/ lex[k+1] = UE}
              e0 == IF es = {} THEN len ELSE MinOf(es)
              ds == {k \in s0..e0-1 : lex[k+1] = DOTC}
          IN /\ neg' = (lex[1] = MINUS) /\ start' = s0 /\ end' = e0
             /\ dot' = IF ds = {} THEN e0 ELSE MaxOf(ds)      \* the loop keeps the last '.', a lexeme has at most one
             /\ origExp' = IF es = {} THEN 0 ELSE ExpVal(SubSeq(lex, e0 + 2, len))
             /\ pc' = "leadzeros"
  /\ UNCHANGED <<lex, st, i, inc, nd, normExp>>

LeadZeros == /\ pc = "leadzeros"
             /\ IF start < end - 1 /\ num[start] = Z THEN start' = start + 1 /\ UNCHANGED pc
                                                       ELSE pc' = "trailzeros" /\ UNCHANGED start
             /\ i' = end - 1
             /\ UNCHANGED <<lex, st, prec, num, neg, end, dot, origExp, inc, nd, normExp>>

TrailZeros == /\ pc = "trailzeros"
              /\ IF dot < i THEN IF num[i] # Z THEN end' = i + 1 /\ pc' = "aftertrail" /\ UNCHANGED i
                                                ELSE i' = i - 1 /\ UNCHANGED <<end, pc>>
                            ELSE pc' = "aftertrail" /\ UNCHANGED <<i, end>>
              /\ UNCHANGED <<lex, st, prec, num, neg, start, dot, origExp, inc, nd, normExp>>

AfterTrail ==
  /\ pc = "aftertrail"
  /\ IF i = dot
     THEN IF start = dot
          THEN IF ~InR(start) THEN pc' = "panic" /\ UNCHANGED <<num, end, neg>>
               ELSE num' = [num EXCEPT ![start] = Z] /\ end' = start + 1 /\ pc' = "done" /\ neg' = FALSE
          ELSE end' = dot /\ pc' = "precision" /\ UNCHANGED <<num, neg>>
     ELSE IF start = end - 1 /\ num[start] = Z
          THEN pc' = "done" /\ neg' = FALSE /\ UNCHANGED <<num, end>>
          ELSE pc' = "precision" /\ UNCHANGED <<num, end, neg>>
  /\ UNCHANGED <<lex, st, prec, start, dot, origExp, i, inc, nd, normExp>>

\* if 0 < prec { precEnd ...; if precEnd < end && (dot < end || 1 < dot-precEnd+origExp) { ... } }
Precision ==
  /\ pc = "precision"
  /\ IF 0 < prec
     THEN LET nz == {k \in start+1..end-1 : num[k] # Z}
              firstNZ == IF nz = {} THEN end ELSE MinOf(nz)
              precEnd == IF dot = start THEN firstNZ + prec
                         ELSE IF dot < start + prec THEN start + prec + 1 ELSE start + prec
          IN IF precEnd < end /\ (dot < end \/ 1 < dot - precEnd + origExp)
             THEN /\ end' = precEnd
                  /\ inc' = IF dot = precEnd THEN (precEnd + 1 < len /\ FIVE <= num[precEnd + 1]) ELSE FIVE <= num[precEnd]
                  /\ IF precEnd < dot THEN origExp' = origExp + (dot - precEnd) /\ dot' = precEnd
                                      ELSE UNCHANGED <<origExp, dot>>
                  /\ i' = precEnd - 1
                  /\ pc' = "round"
             ELSE pc' = "count" /\ UNCHANGED <<end, inc, origExp, dot, i>>
     ELSE pc' = "count" /\ UNCHANGED <<end, inc, origExp, dot, i>>
  /\ UNCHANGED <<lex, st, prec, num, neg, start, nd, normExp>>

Round ==
  /\ pc = "round"
  /\ IF start < i
     THEN IF i = dot THEN i' = i - 1 /\ UNCHANGED <<num, inc, pc>>
          ELSE IF inc /\ num[i] # NINE THEN num' = [num EXCEPT ![i] = num[i] + 1] /\ inc' = FALSE /\ pc' = "afterround" /\ UNCHANGED i
          ELSE IF ~inc /\ num[i] # Z THEN pc' = "afterround" /\ UNCHANGED <<num, inc, i>>
          ELSE i' = i - 1 /\ UNCHANGED <<num, inc, pc>>
     ELSE pc' = "afterround" /\ UNCHANGED <<num, inc, i>>
  /\ UNCHANGED <<lex, st, prec, neg, start, end, dot, origExp, nd, normExp>>

AfterRound ==
  /\ pc = "afterround"
  /\ LET e1 == i + 1
         oe == IF e1 < dot THEN origExp + (dot - e1) ELSE origExp
         d1 == IF e1 < dot THEN e1 ELSE dot
     IN /\ end' = e1
        /\ IF inc
           THEN IF d1 = start THEN num' = [num EXCEPT ![start] = ONE] /\ dot' = start + 1 /\ origExp' = oe
                ELSE IF num[start] = NINE THEN num' = [num EXCEPT ![start] = ONE] /\ origExp' = oe + 1 /\ dot' = d1
                ELSE num' = [num EXCEPT ![start] = num[start] + 1] /\ origExp' = oe /\ dot' = d1
           ELSE UNCHANGED num /\ origExp' = oe /\ dot' = d1
  /\ pc' = "count"
  /\ UNCHANGED <<lex, st, prec, neg, start, i, inc, nd, normExp>>

\* n (significant digits) and normExp; then normExp += origExp
Count ==
  /\ pc = "count"
  /\ IF dot = start
     THEN LET nz == {k \in dot+1..end-1 : num[k] # Z} IN
          IF nz = {} THEN nd' = 0 /\ normExp' = 0 + origExp /\ UNCHANGED end
          ELSE nd' = end - MinOf(nz) /\ normExp' = (dot - MinOf(nz) + 1) + origExp /\ UNCHANGED end
     ELSE IF dot = end
     THEN LET nz == {k \in start..end-1 : num[k] # Z} IN
          IF nz = {} THEN nd' = 0 /\ normExp' = (end - start) + origExp /\ UNCHANGED end
          ELSE nd' = MaxOf(nz) + 1 - start /\ end' = MaxOf(nz) + 1 /\ normExp' = (end - start) + origExp
     ELSE nd' = end - start - 1 /\ normExp' = (dot - start) + origExp /\ UNCHANGED end
  /\ pc' = "print"
  /\ UNCHANGED <<lex, st, prec, num, neg, start, dot, origExp, i, inc>>

intExp == normExp - nd
lenIntExp == LenInt(intExp)
lenNormExp == LenInt(normExp)
Fin(f, s, e) == /\ num' = f /\ start' = s /\ end' = e /\ pc' = "sign"
Panic == pc' = "panic" /\ UNCHANGED <<num, start, end>>
PU == UNCHANGED <<lex, st, prec, neg, dot, origExp, i, inc, nd, normExp>>

\* case 1: without decimals and with a positive exponent (large numbers: 5e4)
Case1 ==
  /\ pc = "print" /\ nd <= normExp
  /\ LET r1 == IF dot < end
               THEN IF dot = start THEN <<num, end - nd, end, TRUE>>
                    ELSE IF dot - start < end - dot - 1
                         THEN <<Copy(num, start + 1, start, dot), start + 1, end, CopyOK(start + 1, start, dot)>>
                         ELSE <<Copy(num, dot, dot + 1, end), start, end - 1, CopyOK(dot, dot + 1, end)>>
               ELSE <<num, start, end, TRUE>>
         f == r1[1]  s == r1[2]  e == r1[3]
     IN IF ~r1[4] THEN Panic
        ELSE IF nd + 3 <= normExp
             THEN IF ~AllIn(e..(e + lenIntExp)) THEN Panic
                  ELSE Fin(WriteDigits([f EXCEPT ![e] = LE], e + 1, lenIntExp, intExp), s, e + 1 + lenIntExp)
        ELSE IF nd + 2 = normExp
             THEN IF ~AllIn({e, e + 1}) THEN Panic ELSE Fin([f EXCEPT ![e] = Z, ![e + 1] = Z], s, e + 2)
        ELSE IF nd + 1 = normExp
             THEN IF ~InR(e) THEN Panic ELSE Fin([f EXCEPT ![e] = Z], s, e + 1)
        ELSE Fin(f, s, e)
  /\ PU

\* case 2: with decimals and with a negative exponent (.123456e-4)
Case2 ==
  /\ pc = "print" /\ ~(nd <= normExp) /\ normExp < -3 /\ lenNormExp < lenIntExp /\ dot < end
  /\ LET zeroes == (0 - normExp) + origExp
         r1 == IF 0 < zeroes THEN <<Copy(num, start + 1, start + 1 + zeroes, end), end - zeroes, CopyOK(start + 1, start + 1 + zeroes, end)>>
               ELSE IF zeroes < 0 THEN <<[Copy(num, start + 1, start, dot) EXCEPT ![start] = DOTC], end, CopyOK(start + 1, start, dot)>>
               ELSE <<num, end, TRUE>>
         f == r1[1]  e == r1[2]
     IN IF ~r1[3] \/ ~AllIn(e..(e + 1 + lenNormExp)) THEN Panic
        ELSE Fin(WriteDigits([f EXCEPT ![e] = LE, ![e + 1] = MINUS], e + 2, lenNormExp, normExp), start, e + 2 + lenNormExp)
  /\ PU

\* case 3: with decimals and without an exponent (5.6, .0012)
Case3 ==
  /\ pc = "print" /\ ~(nd <= normExp) /\ ~(normExp < -3 /\ lenNormExp < lenIntExp /\ dot < end)
  /\ (0 - lenIntExp) - 1 <= normExp
  /\ LET zeroes == 0 - normExp IN
     IF 0 < zeroes
     THEN LET newDot == end - nd - zeroes - 1 IN
          IF newDot # dot
          THEN LET d == start - newDot IN
               IF 0 < d
               THEN LET f1 == IF dot < end
                              THEN LET a == Copy(num, dot + 1 + d, dot + 1, end) IN
                                   IF start < dot THEN Copy(a, start + d + 1, start, dot) ELSE a
                              ELSE IF start < dot THEN Copy(num, start + d, start, dot) ELSE num
                        ok1 == IF dot < end THEN CopyOK(dot + 1 + d, dot + 1, end) /\ (start < dot => CopyOK(start + d + 1, start, dot))
                               ELSE (start < dot => CopyOK(start + d, start, dot))
                    IN IF ~ok1 \/ ~AllIn(start..(start + zeroes)) THEN Panic
                       ELSE Fin([k \in DOMAIN f1 |-> IF k = start THEN DOTC ELSE IF k > start /\ k <= start + zeroes THEN Z ELSE f1[k]],
                                start, end + d)
               ELSE IF ~AllIn(newDot..(newDot + zeroes)) THEN Panic
                    ELSE Fin([k \in DOMAIN num |-> IF k = newDot THEN DOTC ELSE IF k > newDot /\ k <= newDot + zeroes THEN Z ELSE num[k]],
                             start - d, end)
          ELSE Fin(num, start, end)
     ELSE LET r0 == IF dot = start THEN <<end - nd - 1, end - nd - 1, end>>          \* <<dot, start, end>>
                    ELSE IF end <= dot THEN <<end, start, end + 1>> ELSE <<dot, start, end>>
              d0 == r0[1]  s0 == r0[2]  e0 == r0[3]
              newDot == s0 + normExp
              f1 == IF d0 < newDot THEN Copy(num, d0, d0 + 1, newDot + 1)
                    ELSE IF newDot < d0 THEN Copy(num, newDot + 1, newDot, d0) ELSE num
              ok1 == IF d0 < newDot THEN CopyOK(d0, d0 + 1, newDot + 1)
                     ELSE IF newDot < d0 THEN CopyOK(newDot + 1, newDot, d0) ELSE TRUE
          IN IF ~ok1 \/ ~InR(newDot) THEN Panic ELSE Fin([f1 EXCEPT ![newDot] = DOTC], s0, e0)
  /\ PU

\* case 4: without decimals and with a negative exponent (123456e-9)
Case4 ==
  /\ pc = "print" /\ ~(nd <= normExp) /\ ~(normExp < -3 /\ lenNormExp < lenIntExp /\ dot < end)
  /\ ~((0 - lenIntExp) - 1 <= normExp)
  /\ LET newEnd == (IF dot = start THEN start + nd ELSE end - 1) + 2 + lenIntExp
         fits == newEnd < len
         r1 == IF fits /\ dot < end
               THEN IF dot = start THEN <<Copy(num, start, end - nd, end), start + nd, CopyOK(start, end - nd, end)>>
                                   ELSE <<Copy(num, dot, dot + 1, end), end - 1, CopyOK(dot, dot + 1, end)>>
               ELSE <<num, end, TRUE>>
         exp == IF fits THEN intExp ELSE origExp
         lenExp == IF fits THEN lenIntExp ELSE IF origExp <= -10 \/ 10 <= origExp THEN LenInt(origExp) ELSE 1
         f == r1[1]  e == r1[2]
     IN IF ~r1[3] \/ ~AllIn(e..(e + 1 + lenExp)) THEN Panic
        ELSE Fin(WriteDigits([f EXCEPT ![e] = LE, ![e + 1] = MINUS], e + 2, lenExp, exp), start, e + 2 + lenExp)
  /\ PU

Sign == /\ pc = "sign"
        /\ IF neg THEN IF ~InR(start - 1) THEN pc' = "panic" /\ UNCHANGED <<num, start>>
                       ELSE num' = [num EXCEPT ![start - 1] = MINUS] /\ start' = start - 1 /\ pc' = "done"
           ELSE pc' = "done" /\ UNCHANGED <<num, start>>
        /\ UNCHANGED <<lex, st, prec, neg, end, dot, origExp, i, inc, nd, normExp>>

Next == Gen \/ Enter \/ LeadZeros \/ TrailZeros \/ AfterTrail \/ Precision \/ Round \/ AfterRound \/ Count
        \/ Case1 \/ Case2 \/ Case3 \/ Case4 \/ Sign
Spec == Init /\ [][Next]_vars

Out == Slice(num, start, end)
NoPanic == pc # "panic"
SliceInside == pc = "done" => (0 <= start /\ start <= end /\ end <= len)
DoneOK == pc = "done" => NumberOK(lex, prec, Out)
EmitDone == pc = "done" => PrintT(<<"OUT", lex, prec, Out>>)
Alpha4E == {48, 49, 53, 57, 45, 46, 101}                 \* 0 1 5 9 - . e
PrecsQ == {0, 1, 2}
PrecsT == {-1, 0, 1, 2, 3, 4}
=============================================================================
