----------------------------- MODULE CssEq -----------------------------
(* The relation of property C04 between one item of the input text and the item at the same
   position of the minifier's output (items: at-rule, qualified rule, declaration, custom
   property, raw run, end of block - produced by the harness's own CSS Syntax 3 parser).

   Statement: "the output contains the same sequence of rules and at-rules with equivalent
   preludes and selectors, and in each block the same sequence of declarations (property,
   !important) whose values mean the same: ... Anything the minifier does not understand is
   passed through with only insignificant whitespace removed." *)
EXTENDS CssShorthand

(* ---------------- declarations ---------------- *)
TRBLProps == {"margin", "padding", "border-width"}
BorderProps == {"border", "border-top", "border-right", "border-bottom", "border-left"}
SideColorProps == {"border-top-color", "border-right-color", "border-bottom-color", "border-left-color",
                   "text-decoration-color", "text-emphasis-color"}

IsDelimCT(ct, c) == ct.c = "delim" /\ ct.b = <<c>>
IsAlphaFn(ct) == ct.c = "func" /\ ct.u = "alpha" /\ Len(ct.a) >= 1 /\ IsKwIn(ct.a[1], {"opacity"})
AlphaNorm(ct) == Mk("func", "alpha", <<>>, <<Kw("opacity")>> \o Tail(ct.a))
\* "progid:DXImageTransform.Microsoft.Alpha(Opacity="   and   "alpha(opacity="
ProgidAlpha == <<112,114,111,103,105,100,58,68,88,73,109,97,103,101,84,114,97,110,115,102,111,114,109,46,77,105,99,114,111,115,111,102,116,46,65,108,112,104,97,40,79,112,97,99,105,116,121,61>>
ShortAlpha == <<97,108,112,104,97,40,111,112,97,99,105,116,121,61>>
(* legacy Internet Explorer filters: alpha(opacity=N) is the short spelling of
   progid:DXImageTransform.Microsoft.Alpha(Opacity=N) (listed in DESIGN Appendix B) *)
MsFilter(cts) ==
  IF Len(cts) = 7 /\ IsKwIn(cts[1], {"progid"}) /\ cts[2].c = "colon" /\ IsKwIn(cts[3], {"dximagetransform"})
     /\ IsDelimCT(cts[4], 46) /\ IsKwIn(cts[5], {"microsoft"}) /\ IsDelimCT(cts[6], 46) /\ IsAlphaFn(cts[7])
  THEN <<AlphaNorm(cts[7])>>
  ELSE IF Len(cts) = 1 /\ IsAlphaFn(cts[1]) THEN <<AlphaNorm(cts[1])>>
  ELSE IF Len(cts) = 1 /\ cts[1].c = "str" /\ Len(cts[1].b) >= Len(ProgidAlpha) /\ SubSeq(cts[1].b, 1, Len(ProgidAlpha)) = ProgidAlpha
  THEN <<Mk("str", "", ShortAlpha \o SubSeq(cts[1].b, Len(ProgidAlpha) + 1, Len(cts[1].b)), <<>>)>>
  ELSE cts

DeclMeaning(pn, toks) ==
  LET nc == pn \notin {"font", "font-family"}
      \* in `flex` a unit-less zero is a <number>, so a zero <length> keeps its unit there
      cts == CanonList(toks, IF pn = "flex" THEN "keep" ELSE "top", nc)
  IN
  CASE pn \in TRBLProps -> TRBL(cts)
    [] pn \in BorderProps -> DropInitial(cts, {"none", "currentcolor", "medium"})
    [] pn = "outline" -> DropInitial(cts, {"none", "invert", "medium"})
    [] pn = "column-rule" -> DropInitial(cts, {"none", "currentcolor", "medium"})
    [] pn = "text-decoration" -> DropInitial(cts, {"none", "currentcolor", "solid"})
    [] pn = "text-emphasis" -> DropInitial(cts, {"none", "currentcolor"})
    [] pn = "border-color" -> BorderColor(cts)
    [] pn \in SideColorProps -> CC(InitialIs(cts, CurrentColor))
    [] pn = "background-color" -> InitialIs(cts, Transparent)
    [] pn = "background" -> Layers(cts, BgLayer)
    [] pn = "background-position" -> Layers(cts, BgPosLayer)
    [] pn = "background-size" -> Layers(cts, BgSizeLayer)
    [] pn = "background-repeat" -> Layers(cts, BgRepeatLayer)
    [] pn = "box-shadow" -> BoxShadow(cts)
    [] pn = "font" -> Font(cts)
    [] pn = "font-family" -> FontFamily(cts)
    [] pn = "font-weight" -> FontWeight(cts)
    [] pn = "flex" -> Flex(cts)
    [] pn = "flex-basis" -> FlexBasis(cts)
    [] pn \in {"flex-grow", "order"} -> InitialIs(cts, ZeroCT)
    [] pn = "flex-shrink" -> InitialIs(cts, One)
    [] pn = "unicode-range" -> UnicodeRange(cts)
    [] pn \in {"filter", "-ms-filter"} -> MsFilter(cts)
    [] OTHER -> cts

(* ---------------- selectors ---------------- *)
SqueezeWs(toks) ==
  LET n == Len(toks)
      keep == SelectSeq([i \in 1..n |-> i], LAMBDA i : ~(IsWs(toks[i]) /\ i < n /\ IsWs(toks[i + 1])))
  IN [j \in 1..Len(keep) |-> toks[keep[j]]]
IsComb(t) == t.k = "comma" \/ (t.k = "delim" /\ t.s \in {<<62>>, <<43>>, <<126>>})
IsNth(w) == w \in {"nth-child", "nth-last-child", "nth-of-type", "nth-last-of-type", "nth-col", "nth-last-col"}
RECURSIVE SelCanon(_, _)
SelTok(toks, i, inBr) ==
  LET t == toks[i]
      prev == IF i > 1 THEN toks[i - 1] ELSE [k |-> "none", s |-> <<>>]
      pnw == IF i > 2 /\ IsWs(prev) THEN toks[i - 2] ELSE prev          \* previous non-space token
      afterEq == pnw.k = "delim" /\ pnw.s = <<61>>
  IN
  CASE t.k = "ident" ->
         IF inBr THEN (IF afterEq THEN Mk("attrval", "", t.v, <<>>) ELSE Mk("ident", "", t.v, <<>>))
         ELSE IF prev.k = "delim" /\ prev.s = <<46>> THEN Mk("class", "", t.v, <<>>)
         \* type selectors, pseudo-class/element names: ASCII case-insensitive (Selectors 3, HTML)
         ELSE Mk("ident", "", LowerS(t.v), <<>>)
    [] t.k = "str" -> IF inBr THEN Mk("attrval", "", t.v, <<>>) ELSE Mk("str", "", t.v, <<>>)
    [] t.k = "func" ->
         IF IsNth(t.w) THEN
           \* An+B: white space between its tokens is not significant (CSS Syntax 3 section 6)
           LET a == t.a
               ofp == FindFirst(a, LAMBDA x : x.k = "ident" /\ x.w = "of")
               head == IF ofp = 0 THEN a ELSE SubSeq(a, 1, ofp - 1)
               blob == Flatten([j \in 1..Len(head) |-> IF IsWs(head[j]) THEN <<>> ELSE LowerS(head[j].s)])
           IN Mk("nth", t.w, blob, IF ofp = 0 THEN <<>> ELSE SelCanon(SubSeq(a, ofp + 1, Len(a)), FALSE))
         ELSE Mk("func", t.w, <<>>, SelCanon(t.a, FALSE))
    [] t.k = "[" -> Mk("blk", "[", <<>>, SelCanon(t.a, TRUE))
    [] t.k \in {"(", "{"} -> Mk("blk", t.k, <<>>, SelCanon(t.a, inBr))
    [] t.k = "hash" -> Mk("hash", "", t.v, <<>>)
    [] t.k \in {"num", "pct"} -> Mk(t.k, "", NumCanon(t.n), <<>>)
    [] t.k = "dim" -> Mk("dim", t.w, NumCanon(t.n), <<>>)
    [] t.k = "delim" -> Mk("delim", "", t.s, <<>>)
    [] OTHER -> Mk(t.k, "", IF t.k \in {"url", "badstr", "badurl", "urange", "at"} THEN t.s ELSE <<>>, <<>>)
SelCanon(toks0, inBr) ==
  LET toks == SqueezeWs(toks0)
      n == Len(toks)
      \* white space is a combinator unless it touches another combinator, a comma or an end
      sig(i) == ~inBr /\ i > 1 /\ i < n /\ ~IsComb(toks[i - 1]) /\ ~IsComb(toks[i + 1])
  IN Flatten([i \in 1..n |-> IF IsWs(toks[i]) THEN (IF sig(i) THEN <<Marker("ws")>> ELSE <<>>)
                             ELSE <<SelTok(toks, i, inBr)>>])

(* ---------------- at-rule preludes ---------------- *)
NonWs(toks) == SelectSeq(toks, LAMBDA t : ~IsWs(t))
PreludeCanon(pn, toks) ==
  LET nw == NonWs(toks) IN
  IF pn = "import" /\ Len(nw) >= 1 /\ (nw[1].k \in {"url", "str"} \/ (nw[1].k = "func" /\ nw[1].w = "url"))
  THEN \* @import "x" and @import url(x) name the same style sheet (CSS Cascade 3 section 2)
       LET f == CanonTok(nw[1], "keep", FALSE, FALSE, FALSE) IN
       <<Mk("target", "", f.b, <<>>)>> \o CanonList(Tail(nw), "keep", FALSE)
  ELSE CanonList(toks, "keep", FALSE)

(* ---------------- raw runs ---------------- *)
(* A run the parser could not read as a declaration (`*zoom:1`, `color red`) is compared token
   by token; the identifier standing where the property name stands (first token, or second
   after a `*`) is ASCII case-insensitive like a property name (CSS 2.1 section 4.1.3). *)
RawCanon(toks) ==
  LET m == CanonList(toks, "top", TRUE)
      k == IF Len(m) >= 2 /\ m[1].c = "delim" /\ m[1].b = <<42>> THEN 2 ELSE 1
  IN IF Len(m) >= k /\ m[k].c = "ident" THEN [m EXCEPT ![k] = Kw(m[k].u)] ELSE m

(* ---------------- items ---------------- *)
ItemVerdict(i, o) ==
  IF i.t # o.t THEN "same sequence of rules, at-rules and declarations"
  ELSE CASE i.t = "at" ->
              IF LowerS(i.name) # LowerS(o.name) \/ i.blk # o.blk THEN "same at-rule"
              ELSE LET m == PreludeCanon(i.pn, i.pre) IN
                   IF HasOOD(m) \/ m = PreludeCanon(o.pn, o.pre) THEN "" ELSE "equivalent at-rule prelude"
         [] i.t = "rule" ->
              IF SelCanon(i.pre, FALSE) = SelCanon(o.pre, FALSE) THEN "" ELSE "equivalent selectors"
         [] i.t = "decl" ->
              IF LowerS(i.name) # LowerS(o.name) THEN "same property"
              ELSE IF i.imp # o.imp THEN "same !important"
              ELSE LET m == DeclMeaning(i.pn, i.pre) IN
                   IF HasOOD(m) \/ m = DeclMeaning(o.pn, o.pre) THEN "" ELSE "declaration values mean the same"
         [] i.t = "cust" ->
              IF i.name # o.name THEN "same custom property"
              ELSE IF TrimBytes(i.raw) = TrimBytes(o.raw) THEN "" ELSE "custom property token stream verbatim"
         [] i.t = "raw" ->
              LET m == RawCanon(i.pre) IN
              IF HasOOD(m) \/ m = RawCanon(o.pre) THEN "" ELSE "passed through with only whitespace removed"
         [] OTHER -> ""
\* vacuity bookkeeping: the input value was outside the domain of the meaning functions
ItemOOD(i) ==
  CASE i.t = "decl" -> HasOOD(DeclMeaning(i.pn, i.pre))
    [] i.t = "raw" -> HasOOD(RawCanon(i.pre))
    [] i.t = "at" -> HasOOD(PreludeCanon(i.pn, i.pre))
    [] OTHER -> FALSE
=============================================================================
