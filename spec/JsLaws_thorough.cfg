SPECIFICATION Spec
CONSTANTS NOps = 7
EnvKinds = {1, 2, 3, 4, 5, 6, 7, 8, 9, 10}
INVARIANT LawHolds
CHECK_DEADLOCK FALSE
