SPECIFICATION Spec
INVARIANT EntityOK
INVARIANT RevEntityOK
INVARIANT EntProbeOK
INVARIANT RevProbeOK
INVARIANT ColourNameOK
INVARIANT ColourHexOK
INVARIANT ColourProbeOK
INVARIANT RefColourOK
INVARIANT SvgColourAttrOK
INVARIANT SvgAttrProbeOK
INVARIANT BooleanAttrOK
INVARIANT UrlAttrOK
INVARIANT AttrProbeOK
INVARIANT UrlWsProbeOK
INVARIANT RawTagOK
INVARIANT RawProbeOK
INVARIANT BlockTagOK
INVARIANT TagProbeOK
INVARIANT SideProbeOK
INVARIANT RawAfterProbeOK
INVARIANT ZeroUnitOK
INVARIANT UnitProbeOK
INVARIANT JsMimeOK
INVARIANT HashOK
POSTCONDITION AcceptedLinear
CHECK_DEADLOCK FALSE
