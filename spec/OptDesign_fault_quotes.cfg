SPECIFICATION Spec
CONSTANTS MaxLen = 2
Fault = "quotes"
INVARIANTS Refines
CHECK_DEADLOCK FALSE
