SPECIFICATION Spec
CONSTANTS MaxLen = 2
BitSets <- BitsAll
Fault = "quotes"
INVARIANTS Refines
CHECK_DEADLOCK FALSE
