SPECIFICATION Spec
CONSTANTS MaxLen = 6
Alphabet <- Alpha5
INVARIANTS DfaAgrees RepairOK JsonIsNormal NotJson
CHECK_DEADLOCK FALSE
