SPECIFICATION Spec
CONSTANTS Shared = TRUE
MaxCalls = 3
Form <- FormIn
INVARIANT EachCallOwnInput
CHECK_DEADLOCK FALSE
