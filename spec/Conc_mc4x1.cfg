SPECIFICATION Spec
CONSTANTS
  NG = 4
  MaxCalls = 1
  ShapeNames <- PairShapes
  AllowReg = FALSE
  CopyOpts = TRUE
  TightCap = TRUE
  CopyArgs = TRUE
  HtmlDep = FALSE
  LazyInit = FALSE
  PoolBuf = FALSE
VIEW View
INVARIANTS Deterministic SharedReadOnly NoBlocking LockSane
CHECK_DEADLOCK TRUE
