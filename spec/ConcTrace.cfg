SPECIFICATION TSpec
CONSTANTS
  NG = 4
  MaxCalls = 3
  ShapeNames <- AllShapes
  AllowReg = FALSE
  CopyOpts = TRUE
  TightCap = TRUE
  CopyArgs = TRUE
  HtmlDep = FALSE
  LazyInit = FALSE
  PoolBuf = FALSE
INVARIANT Conforms
POSTCONDITION AcceptedLinear
CHECK_DEADLOCK FALSE
