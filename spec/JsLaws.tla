----------------------------- MODULE JsLaws -----------------------------
(* C01, design level: the algebraic laws the minifier's rewrites rely on, checked against the TLA+ semantics
   (JsCore.Run) for ALL operand instantiations from Ops and ALL environments over the free names.

   A state of this specification is one (law, operand instantiation); TLC enumerates all of them and evaluates
   the invariant LawHolds in each: for every environment the two sides are observationally equivalent
   (or the run leaves the model).  Laws that the code uses although they are NOT valid are listed in
   KnownInvalid; for each of them TLC must find a counterexample (CounterexampleExists), which is then
   confirmed on the real engine by the generators of tools/props/c01_gen.py. *)
EXTENDS JsCore
CONSTANTS NOps,        \* how many operands of Ops are used (prefix of the list)
          EnvKinds     \* environment values tried for every free name
VARIABLES law, inst
vars == <<law, inst>>

\* ---- AST constructors
Nd(t, s, kids, n, x) == <<t, s, kids, n, x>>
Id(nm) == Nd("id", nm, <<>>, 0, <<>>)
LitN(n) == Nd("lit", "n", <<>>, n, <<>>)
LitS(x) == Nd("lit", "s", <<>>, 0, x)
LitNull == Nd("lit", "null", <<>>, 0, <<>>)
LitT == Nd("lit", "T", <<>>, 0, <<>>)
LitF == Nd("lit", "F", <<>>, 0, <<>>)
Un(op, a) == Nd("un", op, <<a>>, 0, <<>>)
Bin(op, a, b) == Nd("bin", op, <<a, b>>, 0, <<>>)
Lg(op, a, b) == Nd("log", op, <<a, b>>, 0, <<>>)
Cond(a, b, c) == Nd("cond", "", <<a, b, c>>, 0, <<>>)
SeqE(a, b) == Nd("seq", "", <<a, b>>, 0, <<>>)
Asg(nm, v) == Nd("asg", "=", <<Id(nm), v>>, 0, <<>>)
Call0(f) == Nd("call", "", <<f>>, 0, <<>>)
Call1(f, a) == Nd("call", "", <<f, a>>, 0, <<>>)
Mem(o, p) == Nd("mem", p, <<o>>, 0, <<>>)
OptMem(o, p) == Nd("chain", "", <<Nd("mem", p, <<o>>, 1, <<>>)>>, 0, <<>>)
Void0 == Un("void", LitN(0))
ExprS(e) == Nd("expr", "", <<e>>, 0, <<>>)
If1(c, s) == Nd("if", "", <<c, s>>, 0, <<>>)
If2(c, s, t) == Nd("if", "", <<c, s, t>>, 0, <<>>)
Ret(e) == Nd("ret", "", <<e>>, 0, <<>>)
Ret0 == Nd("ret", "", <<>>, 0, <<>>)
Block(l) == Nd("block", "", l, 0, <<>>)
Empty == Nd("empty", "", <<>>, 0, <<>>)
VarD(nm, e) == Nd("var", "var", <<Nd("decl", nm, <<e>>, 0, <<>>)>>, 0, <<>>)
Var2(n1, e1, n2, e2) == Nd("var", "var", <<Nd("decl", n1, <<e1>>, 0, <<>>), Nd("decl", n2, <<e2>>, 0, <<>>)>>, 0, <<>>)
Prog(l) == Nd("prog", "", l, 0, <<>>)
\* program that declares  function f(p){body}  and observes  out(f(c))
InFn(body) == Prog(<<Nd("func", "f", <<Nd("params", "", <<Id("p")>>, 0, <<>>), Block(body)>>, 0, <<>>),
                     ExprS(Call1(Id("out"), Call1(Id("f"), Id("c"))))>>)
Out(e) == ExprS(Call1(Id("out"), e))

\* ---- operands: identifiers, logging calls, a property read, an assignment, literals
Ops == << Id("a"), Call0(Id("a")), Id("b"), Call0(Id("b")), LitN(0), Mem(Id("a"), "b"), LitS(<<115>>), Asg("x", LitN(1)),
          Id("undefined"), LitNull, Un("!", Id("a")), Bin("+", Id("a"), Id("b")) >>
Op(i) == Ops[i]
Vars == <<Id("a"), Id("b")>>           \* operands that must be plain identifiers

\* ---- the laws: <<name, number of operands, lhs, rhs>> as operators of the instantiation i (a sequence of indices)
A(i) == Op(i[1])
B(i) == Op(i[2])
C(i) == Op(i[3])
VA(i) == Vars[((i[1] - 1) % 2) + 1]
LawNames == << "if-else->cond", "if->and", "ifnot->or", "ifempty-else->or", "demorgan-or", "demorgan-and", "notnot-cond",
               "cond-same-test->or", "cond-same-else->and", "nullish", "optchain", "optchain-void0", "stmt;return->comma",
               "if-return-return->cond", "else-after-return", "return-void0-at-end", "return-undefined-dropped", "var-merge",
               "expr-into-var", "cond-common-callee", "not-equality", "cond-true-false", "cond-bool-or", "cond-bool-and",
               "nested-cond-same-else", "comma-cond", "typeof-strict->loose", "null-or-undefined->==null", "void-pure",
               "isNaN->x!=x" >>
Lhs(n, i) ==
  CASE n = 1 -> Prog(<<If2(A(i), ExprS(B(i)), ExprS(C(i)))>>)
    [] n = 2 -> Prog(<<If1(A(i), ExprS(B(i)))>>)
    [] n = 3 -> Prog(<<If1(Un("!", A(i)), ExprS(B(i)))>>)
    [] n = 4 -> Prog(<<If2(A(i), Empty, ExprS(B(i)))>>)
    [] n = 5 -> Prog(<<Out(Un("!", Lg("||", A(i), B(i))))>>)
    [] n = 6 -> Prog(<<Out(Un("!", Lg("&&", A(i), B(i))))>>)
    [] n = 7 -> Prog(<<Out(Cond(Un("!", Un("!", Bin("==", A(i), B(i)))), C(i), LitN(1)))>>)
    [] n = 8 -> Prog(<<Out(Cond(VA(i), VA(i), B(i)))>>)
    [] n = 9 -> Prog(<<Out(Cond(VA(i), B(i), VA(i)))>>)
    [] n = 10 -> Prog(<<Out(Cond(Bin("==", VA(i), LitNull), B(i), VA(i)))>>)
    [] n = 11 -> Prog(<<Out(Cond(Bin("==", VA(i), LitNull), Id("undefined"), Mem(VA(i), "b")))>>)
    [] n = 12 -> Prog(<<Out(Cond(Lg("||", Bin("===", VA(i), LitNull), Bin("===", VA(i), Void0)), Void0, Mem(VA(i), "b")))>>)
    [] n = 13 -> InFn(<<ExprS(A(i)), Ret(B(i))>>)
    [] n = 14 -> InFn(<<If1(A(i), Ret(B(i))), Ret(C(i))>>)
    [] n = 15 -> InFn(<<If2(A(i), Block(<<Ret(B(i))>>), Block(<<ExprS(C(i))>>))>>)
    [] n = 16 -> InFn(<<Ret(SeqE(A(i), Void0))>>)
    [] n = 17 -> InFn(<<ExprS(A(i)), Ret(Id("undefined"))>>)
    [] n = 18 -> Prog(<<VarD("x", A(i)), VarD("y", B(i)), Out(Id("x")), Out(Id("y"))>>)
    [] n = 19 -> Prog(<<ExprS(A(i)), VarD("y", B(i)), Out(Id("y"))>>)
    [] n = 20 -> Prog(<<ExprS(Cond(A(i), Call1(VA(<<i[2]>>), B(i)), Call1(VA(<<i[2]>>), C(i))))>>)
    [] n = 21 -> Prog(<<Out(Un("!", Bin("==", A(i), B(i)))), Out(Un("!", Bin("!==", A(i), B(i))))>>)
    [] n = 22 -> Prog(<<Out(Cond(A(i), LitT, LitF)), Out(Cond(Bin("<", A(i), B(i)), LitT, LitF)), Out(Cond(A(i), LitF, LitT))>>)
    [] n = 23 -> Prog(<<Out(Cond(A(i), LitT, B(i))), Out(Cond(A(i), B(i), LitT))>>)
    [] n = 24 -> Prog(<<Out(Cond(A(i), LitF, B(i))), Out(Cond(A(i), B(i), LitF))>>)
    [] n = 25 -> Prog(<<Out(Cond(A(i), Cond(B(i), C(i), VA(i)), VA(i)))>>)
    [] n = 26 -> Prog(<<Out(Cond(VA(i), B(i), B(i)))>>)
    [] n = 27 -> Prog(<<Out(Bin("===", Un("typeof", A(i)), LitS(<<115>>))), Out(Bin("!==", LitS(<<115>>), Un("typeof", A(i))))>>)
    [] n = 28 -> Prog(<<Out(Lg("||", Bin("===", VA(i), LitNull), Bin("===", VA(i), Id("undefined")))),
                        Out(Lg("&&", Bin("!==", VA(i), Id("undefined")), Bin("!==", VA(i), LitNull)))>>)
    [] n = 29 -> Prog(<<Out(Un("void", A(i)))>>)
    [] OTHER -> Prog(<<Out(Call1(Id("isNaN"), VA(i)))>>)
Rhs(n, i) ==
  CASE n = 1 -> Prog(<<ExprS(Cond(A(i), B(i), C(i)))>>)
    [] n = 2 -> Prog(<<ExprS(Lg("&&", A(i), B(i)))>>)
    [] n = 3 -> Prog(<<ExprS(Lg("||", A(i), B(i)))>>)
    [] n = 4 -> Prog(<<ExprS(Lg("||", A(i), B(i)))>>)
    [] n = 5 -> Prog(<<Out(Lg("&&", Un("!", A(i)), Un("!", B(i))))>>)
    [] n = 6 -> Prog(<<Out(Lg("||", Un("!", A(i)), Un("!", B(i))))>>)
    [] n = 7 -> Prog(<<Out(Cond(Bin("==", A(i), B(i)), C(i), LitN(1)))>>)
    [] n = 8 -> Prog(<<Out(Lg("||", VA(i), B(i)))>>)
    [] n = 9 -> Prog(<<Out(Lg("&&", VA(i), B(i)))>>)
    [] n = 10 -> Prog(<<Out(Lg("??", VA(i), B(i)))>>)
    [] n = 11 -> Prog(<<Out(OptMem(VA(i), "b"))>>)
    [] n = 12 -> Prog(<<Out(OptMem(VA(i), "b"))>>)
    [] n = 13 -> InFn(<<Ret(SeqE(A(i), B(i)))>>)
    [] n = 14 -> InFn(<<Ret(Cond(A(i), B(i), C(i)))>>)
    [] n = 15 -> InFn(<<If1(A(i), Ret(B(i))), ExprS(C(i))>>)
    [] n = 16 -> InFn(<<ExprS(A(i))>>)
    [] n = 17 -> InFn(<<ExprS(A(i))>>)
    [] n = 18 -> Prog(<<Var2("x", A(i), "y", B(i)), Out(Id("x")), Out(Id("y"))>>)
    [] n = 19 -> Prog(<<Nd("var", "var", <<Nd("decl", "y", <<SeqE(A(i), B(i))>>, 0, <<>>)>>, 0, <<>>), Out(Id("y"))>>)
    [] n = 20 -> Prog(<<ExprS(Call1(VA(<<i[2]>>), Cond(A(i), B(i), C(i))))>>)
    [] n = 21 -> Prog(<<Out(Bin("!=", A(i), B(i))), Out(Bin("===", A(i), B(i)))>>)
    [] n = 22 -> Prog(<<Out(Un("!", Un("!", A(i)))), Out(Bin("<", A(i), B(i))), Out(Un("!", A(i)))>>)
    [] n = 23 -> Prog(<<Out(Lg("||", Un("!", Un("!", A(i))), B(i))), Out(Lg("||", Un("!", A(i)), B(i)))>>)
    [] n = 24 -> Prog(<<Out(Lg("&&", Un("!", A(i)), B(i))), Out(Lg("&&", Un("!", Un("!", A(i))), B(i)))>>)
    [] n = 25 -> Prog(<<Out(Cond(Lg("&&", A(i), B(i)), C(i), VA(i)))>>)
    [] n = 26 -> Prog(<<Out(SeqE(VA(i), B(i)))>>)
    [] n = 27 -> Prog(<<Out(Bin("==", Un("typeof", A(i)), LitS(<<115>>))), Out(Bin("!=", LitS(<<115>>), Un("typeof", A(i))))>>)
    [] n = 28 -> Prog(<<Out(Bin("==", VA(i), LitNull)), Out(Bin("!=", VA(i), LitNull))>>)
    [] n = 29 -> Prog(<<Out(IF NT(A(i)) \in {"lit", "un", "bin"} /\ ~(NT(A(i)) = "un" /\ NT(Kid(A(i), 1)) # "lit") /\ NT(A(i)) # "bin" THEN Void0 ELSE Un("void", A(i)))>>)
    [] OTHER -> Prog(<<Out(Bin("!=", VA(i), VA(i)))>>)
NLaws == Len(LawNames)
\* laws used by the code that are not valid in general (counterexamples expected)
KnownInvalid == {20, 30}

\* number of operands of each law, and the laws whose programs read the third free name c
Arity == <<3, 2, 2, 2, 2, 2, 3, 2, 2, 2, 1, 1, 2, 3, 3, 1, 1, 2, 2, 3, 2, 2, 2, 2, 3, 2, 1, 1, 1, 1>>
UsesC(n) == n \in 13..17

\* ---- environments
Names == <<"a", "b", "c">>
EnvVal(nm, k) ==
  CASE k = 1 -> Undef [] k = 2 -> Null [] k = 3 -> Num(0) [] k = 4 -> Num(1) [] k = 5 -> Str(<<115>>)
    [] k = 6 -> HostFn(nm, 1) [] k = 7 -> HostFn(nm, 0) [] k = 8 -> HostObj(nm) [] k = 9 -> Bool(FALSE) [] OTHER -> Unbound
Envs(n) == {[nm \in {"a", "b", "c", "out"} |->
               IF nm = "out" THEN HostFn("out", 0)
               ELSE IF nm = "c" /\ ~UsesC(n) THEN Unbound
               ELSE EnvVal(nm, ks[CHOOSE j \in 1..3 : Names[j] = nm])]
             : ks \in {k \in [1..3 -> EnvKinds] : UsesC(n) \/ k[3] = CHOOSE x \in EnvKinds : TRUE}}
Fuel == 20
Holds(n, i) == \A env \in Envs(n) :
  LET ra == Run(Lhs(n, i), env, Fuel) IN
  OutOfModel(ra) \/ LET rb == Run(Rhs(n, i), env, Fuel) IN OutOfModel(rb) \/ ObsEq(ra, rb)

\* instantiations of law n: operand indices for its operands, 1 for the unused positions
Insts(n) == {i \in [1..3 -> 1..NOps] : \A j \in 1..3 : j > Arity[n] => i[j] = 1}
\* three levels so that TLC's workers share the work: start -> pick a law -> pick an instantiation
Init == law = 0 /\ inst = <<>>
Next == \/ law = 0 /\ \E n \in 1..NLaws : law' = n /\ inst' = <<>>
        \/ law # 0 /\ inst = <<>> /\ \E i \in Insts(law) : inst' = i /\ law' = law
Spec == Init /\ [][Next]_vars
LawHolds == (law \in 1..NLaws /\ inst # <<>> /\ law \notin KnownInvalid)
              => (Holds(law, inst) \/ ~PrintT(<<"LAW FAILS", LawNames[law], inst>>))
\* the invalid laws really are invalid in this semantics (so the model is not vacuous about them)
CounterexampleExists == \A n \in KnownInvalid : \E i \in Insts(n) : ~Holds(n, i)
ASSUME CounterexampleExists
=============================================================================
