SPECIFICATION Spec
CONSTANTS MaxLen = 4
Core = TRUE
INVARIANTS SpacedLexesBack FusesAgree AllJudged
CHECK_DEADLOCK FALSE
