SPECIFICATION Spec
CONSTANTS MaxNodes = 4
MaxDepth = 2
DocMode = TRUE
Vocab <- VocabDoc
TextKinds <- TK3
OptSets <- Opts4
Bugs <- NoBugs
INVARIANTS BuilderSound DesignRefines EmitQuarter
CHECK_DEADLOCK FALSE
