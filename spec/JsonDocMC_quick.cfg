SPECIFICATION Spec
CONSTANTS MaxLen = 5
KindAlphabet <- Kinds8
INVARIANTS Agree DeadStaysDead DoneIsFinal Depth
CHECK_DEADLOCK FALSE
