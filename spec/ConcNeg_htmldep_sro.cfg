SPECIFICATION Spec
CONSTANTS
  NG = 1
  MaxCalls = 1
  ShapeNames <- HtmlOnly
  AllowReg = FALSE
  CopyOpts = TRUE
  TightCap = TRUE
  CopyArgs = TRUE
  HtmlDep = TRUE
  LazyInit = FALSE
  PoolBuf = FALSE
VIEW View
INVARIANT SharedReadOnly
CHECK_DEADLOCK FALSE
