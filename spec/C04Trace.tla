----------------------------- MODULE C04Trace -----------------------------
(* Trace validation for C04.  One line = one item position of one run of the real
   css.Minifier:  [id, idx, inline, css2, omal, err, panic, i, o]  where i / o are the items
   at position idx of the input / output text (t = "none" when that text has fewer items).
   Cases whose INPUT has CSS Syntax parse errors are not part of the checked domain and are
   not sent here. *)
EXTENDS CssEq, TraceIO
VARIABLE l
Init == l = 1
Next == l <= N /\ l' = l + 1
Spec == Init /\ [][Next]_l

Verdict(e) ==
  IF e.panic THEN "no panic"
  ELSE IF e.err # "" THEN "minifier accepts the input"
  ELSE IF e.omal THEN "output is well-formed CSS"
  ELSE ItemVerdict(e.i, e.o)
Note(e) == IF ItemOOD(e.i) THEN PrintT(<<"NOTE", l, "ood">>) ELSE TRUE
LineOK(e) == LET v == Verdict(e) IN (v = "" /\ Note(e)) \/ Reject(l, v)
Conforms == l <= N => LineOK(Trace[l])
=============================================================================
