SPECIFICATION Spec
CONSTANTS Shared = TRUE
MaxCalls = 3
Forms <- TempFileForms
INVARIANT EachCallOwnInput
CHECK_DEADLOCK FALSE
