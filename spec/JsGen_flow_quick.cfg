SPECIFICATION Spec
CONSTANTS MaxSym = 7
MaxS = 1
MaxE = 1
MaxList = 2
Enabled <- FlowNames
INVARIANTS WellFormed Bounded Emit
CHECK_DEADLOCK FALSE
