----------------------------- MODULE OptGen -----------------------------
(* Generator for property C16: the option product of each minifier (lang) crossed with documents that
   are built from fragments.  A state is one test case: an option configuration (bits = set of
   boolean options that are on, dl = template delimiter set, ver = ECMAScript version, prec =
   precision), a document shape (wrap) and the fragment sequence fr chosen so far; inp is the
   document that is handed to the real code: fr followed by one guarding fragment for every
   option that is on and whose guarded construct does not yet occur (Completion), so that no
   option relation of spec/Options.tla is evaluated on a document that cannot distinguish
   "option honoured" from "option ignored" (invariant Discriminating, checked by TLC over the
   whole product).  TLC enumerates the product exhaustively (-dump) and walks it at random to
   greater depth (-simulate); tools/props/c16.py renders the fragments (table FRAG there; the
   identifiers and the guard sets are defined here). *)
EXTENDS Integers, Sequences, FiniteSets, TLC

CONSTANTS Langs,       \* subset of {"html", "xml", "json", "css", "svg", "js"}
          MaxF,        \* [language |-> length bound of fr]
          Precs,       \* set of precisions
          Vers,        \* set of ECMAScript versions
          FullPairs,   \* TRUE: sequences of length >= 2 under every wrap/delimiter set
          AllBits      \* TRUE: all 2^7 HTML option sets; FALSE: a covering array of strength 3 (quick tier)
VARIABLES lang, bits, dl, wrap, ver, prec, fr, on, inp
vars == <<lang, bits, dl, wrap, ver, prec, fr, on, inp>>

BoolOptsOf(Lang) ==
  CASE Lang = "html" -> <<"KeepComments", "KeepSpecialComments", "KeepDefaultAttrVals", "KeepDocumentTags",
                          "KeepEndTags", "KeepQuotes", "KeepWhitespace">>
    [] Lang = "xml"  -> <<"KeepWhitespace">>
    [] Lang = "json" -> <<"KeepNumbers">>
    [] Lang = "css"  -> <<"KeepCSS2">>
    [] Lang = "svg"  -> <<"KeepComments">>
    [] Lang = "js"   -> <<"KeepVarNames">>
BoolOpts == BoolOptsOf(lang)
NB == Len(BoolOpts)
Pow2(n) == IF n = 0 THEN 1 ELSE IF n = 1 THEN 2 ELSE IF n = 2 THEN 4 ELSE IF n = 3 THEN 8 ELSE IF n = 4 THEN 16
           ELSE IF n = 5 THEN 32 ELSE IF n = 6 THEN 64 ELSE 128
Bit(b, i) == (b \div Pow2(i - 1)) % 2 = 1
OnSet(b) == {BoolOpts[i] : i \in {j \in 1..NB : Bit(b, j)}}

(* fragment tables: id, g = options whose guarded construct the fragment contains, tpl = uses
   template delimiters.  "Precision", "Version" and "TemplateDelims" are guard names too. *)
F(id, g) == [id |-> id, g |-> g, tpl |-> FALSE]
T(id, g) == [id |-> id, g |-> g \cup {"TemplateDelims"}, tpl |-> TRUE]
HtmlFrags == <<
  F("p", {"KeepEndTags"}), F("ptxt", {"KeepEndTags"}), F("ul", {"KeepEndTags"}),
  F("table", {"KeepEndTags", "KeepDefaultAttrVals", "KeepQuotes"}), F("dl", {"KeepEndTags"}),
  F("sel", {"KeepEndTags", "KeepQuotes"}), F("ruby", {"KeepEndTags"}),
  F("inl", {"KeepWhitespace"}), F("span", {"KeepWhitespace"}), F("emp", {"KeepWhitespace"}),
  F("blk", {"KeepEndTags"}), F("nl", {"KeepWhitespace"}),
  F("img", {"KeepWhitespace", "KeepDefaultAttrVals", "KeepQuotes"}),
  F("cmt", {"KeepComments"}), F("cmtws", {"KeepComments", "KeepWhitespace"}),
  F("cc", {"KeepComments", "KeepSpecialComments"}), F("ccrev", {"KeepComments", "KeepSpecialComments"}),
  F("ssi", {"KeepComments", "KeepSpecialComments"}),
  F("script", {"KeepDefaultAttrVals", "KeepQuotes"}), F("style", {"KeepDefaultAttrVals", "KeepQuotes"}),
  F("link", {"KeepDefaultAttrVals", "KeepQuotes"}), F("form", {"KeepDefaultAttrVals", "KeepQuotes"}),
  F("aq", {"KeepQuotes", "KeepWhitespace"}), F("auq", {}), F("area", {"KeepDefaultAttrVals", "KeepQuotes"}),
  F("col", {"KeepDefaultAttrVals", "KeepEndTags"}), F("pre", {}), F("ta", {}), F("ent", {"KeepWhitespace"}),
  F("br", {}), F("h", {"KeepWhitespace"}), F("styleattr", {"KeepQuotes"}), F("onattr", {"KeepQuotes"}),
  F("kw_template", {"KeepWhitespace"}), F("kw_noscript", {"KeepWhitespace"}), F("kw_pre", {"KeepWhitespace"}), F("kw_textarea", {"KeepWhitespace"}), F("kw_br", {"KeepWhitespace"}), F("kw_select", {"KeepWhitespace"}), F("kw_span", {"KeepWhitespace"}), F("kw_div", {"KeepWhitespace"}), F("kw_img", {"KeepWhitespace"}), F("kw_button", {"KeepWhitespace"}), F("kw_script", {"KeepWhitespace"}), F("kw_style", {"KeepWhitespace"}), F("kw_iframe", {"KeepWhitespace"}), F("kw_label", {"KeepWhitespace"}), F("kw_custom", {"KeepWhitespace"}), F("kw_code", {"KeepWhitespace"}), F("kw_q", {"KeepWhitespace"}), F("kw_ins", {"KeepWhitespace"}),
  T("tstmt", {}), T("tattr", {"KeepQuotes"}), T("tmix", {"KeepWhitespace"}) >>
XmlFrags == <<
  F("mix", {"KeepWhitespace"}), F("nest", {"KeepWhitespace"}), F("cm", {"KeepWhitespace"}),
  F("cd", {"KeepWhitespace"}), F("pi", {"KeepWhitespace"}), F("attr", {"KeepWhitespace"}),
  F("nl", {"KeepWhitespace"}), F("void", {"KeepWhitespace"}), F("ent", {"KeepWhitespace"}), F("tight", {}),
  F("wsonly", {"KeepWhitespace"}) >>
JsonFrags == <<
  F("arr", {"KeepNumbers", "Precision"}), F("obj", {"KeepNumbers", "Precision"}), F("top", {"KeepNumbers", "Precision"}),
  F("mixed", {"KeepNumbers", "Precision"}), F("neg", {"KeepNumbers", "Precision"}), F("nonum", {}) >>
CssFrags == <<
  F("w", {"Precision"}), F("two", {"Precision"}), F("pct", {"Precision"}), F("fn", {"Precision"}),
  F("big", {"KeepCSS2", "Precision"}), F("small", {"KeepCSS2", "Precision"}), F("transp", {"KeepCSS2"}),
  F("zidx", {}), F("media", {"Precision"}), F("color", {}), F("bigexp", {"Precision"}) >>
SvgFrags == <<
  F("rect", {"Precision"}), F("circle", {"Precision"}), F("cmt", {"KeepComments"}),
  F("gcmt", {"KeepComments", "Precision"}), F("unit", {"Precision"}), F("text", {}),
  F("vb", {"Precision"}), F("poly", {"Precision"}), F("bigexp", {"Precision"}) >>
JsFrags == <<
  F("nullish", {"Version"}), F("optchain", {"Version"}), F("catch", {"Version", "KeepVarNames"}),
  F("tmpl", {"Version"}), F("fn", {"KeepVarNames"}), F("closure", {"KeepVarNames"}), F("hoist", {"KeepVarNames"}),
  F("num", {"Precision"}), F("nums", {"Precision"}), F("arrow", {"KeepVarNames", "Version"}),
  F("letc", {"KeepVarNames", "Version"}), F("cls", {"KeepVarNames", "Version"}), F("in2020", {"Version"}),
  F("cond", {}), F("loop", {"KeepVarNames"}), F("obj", {}), F("str", {"Version"}),
  F("pow", {"Version"}), F("short", {"Version", "KeepVarNames"}),
  F("strkey", {"Precision"}), F("strdig", {"Precision"}), F("tpldig", {"Precision", "Version"}),
  F("bigint", {"Precision", "Version"}), F("optkey", {"Precision", "Version"}) >>
FragsOf(Lang) == CASE Lang = "html" -> HtmlFrags [] Lang = "xml" -> XmlFrags [] Lang = "json" -> JsonFrags
                  [] Lang = "css" -> CssFrags [] Lang = "svg" -> SvgFrags [] Lang = "js" -> JsFrags
Frags == FragsOf(lang)
FragIdx == 1..Len(Frags)
AllLangs == {"html", "xml", "json", "css", "svg", "js"}
FragMap == [L \in AllLangs |-> [id \in {FragsOf(L)[i].id : i \in 1..Len(FragsOf(L))} |->
                                  FragsOf(L)[CHOOSE i \in 1..Len(FragsOf(L)) : FragsOf(L)[i].id = id]]]
FragById(id) == FragMap[lang][id]

(* the fragment that is appended when an option is on but nothing in the document guards it *)
GuardFrag(o) ==
  LET Lang == lang IN
  CASE Lang = "html" ->
         (CASE o = "KeepComments" -> "cmt" [] o = "KeepSpecialComments" -> "cc" [] o = "KeepDefaultAttrVals" -> "form"
            [] o = "KeepEndTags" -> "ul" [] o = "KeepQuotes" -> "aq" [] o = "KeepWhitespace" -> "inl"
            [] o = "TemplateDelims" -> "tmix")
    [] Lang = "xml" -> "mix"
    [] Lang = "json" -> "arr"
    [] Lang = "css" -> (IF o = "KeepCSS2" THEN "big" ELSE "w")
    [] Lang = "svg" -> (IF o = "KeepComments" THEN "cmt" ELSE "rect")
    [] Lang = "js" -> (CASE o = "KeepVarNames" -> "fn" [] o = "Version" -> "nullish" [] o = "Precision" -> "num")

Dls == IF lang = "html" THEN 0..3 ELSE {0}              \* 0 none, 1 <% %>, 2 <? ?>, 3 {{ }}
Wraps == IF lang = "html" THEN 0..2 ELSE IF lang = "xml" THEN 0..1 ELSE {0}

\* the options that are "on" in the sense of having something to preserve
Active(b, d, v, p) ==
  OnSet(b) \cup (IF d # 0 THEN {"TemplateDelims"} ELSE {})
           \cup (IF p # 0 /\ lang \in {"json", "css", "svg", "js"} THEN {"Precision"} ELSE {})
           \cup (IF v # 0 /\ lang = "js" THEN {"Version"} ELSE {})
\* html: the document tags come with the wrapper, not with a fragment
NeedsFrag(o) == ~(lang = "html" /\ o = "KeepDocumentTags")
Guarded(o, s) == \E i \in 1..Len(s) : o \in FragById(s[i]).g
OptOrder == BoolOpts \o <<"TemplateDelims", "Precision", "Version">>
Completion(act, s) ==
  LET need == SelectSeq(OptOrder, LAMBDA o : o \in act /\ NeedsFrag(o) /\ ~Guarded(o, s))
  IN [i \in 1..Len(need) |-> GuardFrag(need[i])]
EffWrap(b, w) == IF lang = "html" /\ "KeepDocumentTags" \in OnSet(b) /\ w = 0 THEN 1 ELSE w

(* 16 of the 128 HTML option sets such that every combination of values of any THREE options occurs
   (the 2^(7-4) fractional factorial design of resolution IV: generators abc, abd, acd) *)
Xor3(a, b, c) == (a + b + c) % 2
Cover3 == {a + 2*b + 4*c + 8*d + 16*Xor3(a, b, c) + 32*Xor3(a, b, d) + 64*Xor3(a, c, d) :
             a \in {0, 1}, b \in {0, 1}, c \in {0, 1}, d \in {0, 1}}
Init ==
  /\ lang \in Langs
  /\ bits \in (IF lang = "html" /\ ~AllBits THEN Cover3 ELSE 0..(Pow2(NB) - 1))
  /\ dl \in Dls
  /\ wrap \in Wraps
  /\ ver \in (IF lang = "js" THEN Vers ELSE {0})
  /\ prec \in (IF lang \in {"json", "css", "svg", "js"} THEN Precs ELSE {0})
  /\ fr = <<>> /\ inp = <<>>
  /\ on = OnSet(bits)
Next ==
  /\ Len(fr) < MaxF[lang]
  /\ Len(fr) >= 1 => (FullPairs \/ (wrap = 0 /\ dl \in {0, 1}))   \* see Slice
  /\ \E i \in FragIdx :
       /\ Frags[i].tpl => dl # 0
       /\ fr' = Append(fr, Frags[i].id)
       /\ inp' = fr' \o Completion(Active(bits, dl, ver, prec), fr')
  /\ UNCHANGED <<lang, bits, dl, ver, prec, on>>
  /\ wrap' = EffWrap(bits, wrap)
Spec == Init /\ [][Next]_vars

\* longer sequences only for a slice of the document shapes unless FullPairs (keeps the
\* exhaustive product within the time budget; -simulate walks are not restricted)
Slice == FullPairs \/ Len(fr) < 2 \/ (wrap = 0 /\ dl \in {0, 1})      \* invariant: enforced by Next

SeqSet(s) == {s[i] : i \in 1..Len(s)}
TypeOK ==
  /\ on \subseteq SeqSet(BoolOpts)
  /\ \A i \in 1..Len(inp) : \E j \in FragIdx : Frags[j].id = inp[i]
\* every active option meets a construct it guards; template fragments only with delimiters
Discriminating ==
  Len(fr) > 0 =>
    /\ \A o \in Active(bits, dl, ver, prec) : NeedsFrag(o) => Guarded(o, inp)
    /\ ("KeepDocumentTags" \in on /\ lang = "html") => wrap # 0
    /\ \A i \in 1..Len(inp) : FragById(inp[i]).tpl => dl # 0
\* the covering array does cover: every triple of options takes all eight value combinations
CoverOK == \A i, j, k \in 1..7 : (i < j /\ j < k) =>
             \A x, y, z \in BOOLEAN : \E b \in Cover3 : Bit(b, i) = x /\ Bit(b, j) = y /\ Bit(b, k) = z
\* the completion never needs more than one fragment per option and is idempotent
CompletionSmall == Len(fr) > 0 => (Len(inp) <= Len(fr) + Len(OptOrder) /\ Completion(Active(bits, dl, ver, prec), inp) = <<>>)
MaxFQuick == [html |-> 1, js |-> 1, xml |-> 2, json |-> 2, css |-> 2, svg |-> 2]
MaxFThorough == [html |-> 2, js |-> 2, xml |-> 3, json |-> 2, css |-> 2, svg |-> 2]
MaxFSim == [html |-> 6, js |-> 6, xml |-> 6, json |-> 6, css |-> 6, svg |-> 6]
LangsAll == AllLangs
PrecsAll == 0..17
PrecsQuick == {0, 1, 2, 3, 5, 8, 15}
VersAll == {0, 5} \cup (2015..2022)
=============================================================================
