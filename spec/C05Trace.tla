----------------------------- MODULE C05Trace -----------------------------
(* Trace validation for C05.  Every line is one observation of the real SVG minifier
   (harness/cmd/c05), projected by parsers that are independent of it:

   kind "path"  one `d` attribute: in = the value in the input document, out = the value of the
                corresponding attribute of the output document.
                ok  = the output document could be read and has as many `d` attributes as the input
                geo = the input fits the fixed-point range of SvgPath (decided from the input only);
                      when it does not, only the grammar clause is evaluated
                gen = the input was rendered from the generator model (so it must be valid)
   kind "doc"   one document: ein / eout event sequences (see SvgDoc), wfin / wfout well-formedness,
                ok = the minifier returned without error.

   Clause names starting with "machinery" are never verdicts: the driver turns them into
   infrastructure errors (exit 2). *)
EXTENDS SvgPathPrint, SvgDoc, TraceIO
VARIABLE l
Init == l = 1
Next == l <= N /\ l' = l + 1
Spec == Init /\ [][Next]_l

GrammarVerdict(in, out) ==
  IF ~PathGrammar(in) THEN "input" ELSE IF PathGrammar(out) THEN "ok" ELSE "grammar"

PathLineOK(e) ==
  IF ~e.ok THEN Reject(l, "path-lost")
  ELSE LET v == IF e.geo THEN PathVerdict(e.in, e.out) ELSE GrammarVerdict(e.in, e.out) IN
       \/ v = "ok"
       \/ (v = "input" /\ ~e.gen)              \* "all valid path data": nothing is claimed otherwise
       \/ (v = "input" /\ Reject(l, "machinery-input"))
       \/ (v = "range" /\ Reject(l, "machinery-range"))
       \/ Reject(l, v)                         \* "grammar" | "geometry"

(* DRIFT (never a verdict): the byte-level design model SvgPathPrint predicts the output for integer path
   data; a difference is reported as clause "drift" and only counted by the driver. *)
DriftOK(e) == ~e.ok \/ NoDrift(e.in, e.out) \/ Reject(l, "drift")

DocLineOK(e) ==
  IF ~e.wfin THEN Reject(l, "machinery-input")            \* "all well-formed SVG documents"
  ELSE IF ~e.ok \/ ~e.wfout THEN Reject(l, "wf")          \* does not render at all
  ELSE LET sa == Strip(e.ein, e.css)  sb == Strip(e.eout, e.css)
           ta == Tree(sa)      tb == Tree(sb)
       IN IF ~ShapeEq(ta, tb) THEN Reject(l, "tree")
          ELSE /\ (AllElements(ta, tb, PrefixedKept) \/ Reject(l, "attr-prefixed"))
               /\ (AllElements(ta, tb, PlainKept) \/ Reject(l, "attr"))
               /\ (AllElements(ta, tb, ValuesKept) \/ Reject(l, "value"))
               /\ (Rendered(sa) = Rendered(sb) \/ Reject(l, "text"))

LineOK(e) == IF e.kind = "path" THEN PathLineOK(e) /\ DriftOK(e) ELSE DocLineOK(e)
Conforms == l <= N => LineOK(Trace[l])
=============================================================================
