SPECIFICATION Spec
CONSTANTS MaxLen = 4
Alphabet <- PAlpha5
Precs <- PrecsDesign
Fault = "digit"
INVARIANTS Rounds
CHECK_DEADLOCK FALSE
