SPECIFICATION Spec
CONSTANTS MaxNodes = 5
MaxDepth = 4
DocMode = FALSE
Vocab <- VocabTable
TextKinds <- TK3
OptSets <- Opts4
Bugs <- NoBugs
INVARIANTS BuilderSound DesignRefines EmitQuarter
CHECK_DEADLOCK FALSE
