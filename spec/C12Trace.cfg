SPECIFICATION Spec
INVARIANTS StepOK EndOK
POSTCONDITION AcceptedAll
CHECK_DEADLOCK FALSE
