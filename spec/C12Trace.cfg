SPECIFICATION Spec
INVARIANTS StepOK EndOK Design
POSTCONDITION AcceptedAll
CHECK_DEADLOCK FALSE
