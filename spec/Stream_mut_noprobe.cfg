SPECIFICATION Spec
CONSTANTS
 Input <- In2
 MaxOut = 2
 PieceLen = 2
 MaxBuf = 3
 Modes <- ModesP
 PatchCL = FALSE
 Mut = "noprobe"
 RecordHist = FALSE
 FullProduct = FALSE
VIEW View
INVARIANTS ChunkingInvariance PassThrough CloseWaits SelectionRule FaultSurfaces NoSilentTruncation NotExistSurfaces NoPartialInput
PROPERTIES NoWriteAfterClose CloseReturned
