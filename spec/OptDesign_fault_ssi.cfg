SPECIFICATION Spec
CONSTANTS MaxLen = 2
BitSets <- BitsAll
Fault = "ssi"
INVARIANTS Refines
CHECK_DEADLOCK FALSE
