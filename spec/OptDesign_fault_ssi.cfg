SPECIFICATION Spec
CONSTANTS MaxLen = 2
Fault = "ssi"
INVARIANTS Refines
CHECK_DEADLOCK FALSE
