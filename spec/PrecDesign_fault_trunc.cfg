SPECIFICATION Spec
CONSTANTS MaxLen = 4
Alphabet <- PAlpha5
Precs <- PrecsDesign
Fault = "trunc"
INVARIANTS Rounds
CHECK_DEADLOCK FALSE
