----------------------------- MODULE HtmlAttr -----------------------------
(* Design model (level D) and generator for the attribute / text rewriting of property C03:
   "every remaining attribute decodes to the same value whatever quoting and character
    references are chosen".

   GENERATOR  the state is a sequence of at most MaxLen pieces over the alphabet of the property
              (quotes, = < > backtick, blank, ampersand, semicolon, a letter, and character references
              with and without semicolon); every state is a value handed to the real code.
   MACHINE    RepEnt      = parse.ReplaceEntities / replaceEntities (parse/v2 common.go), restricted
                            to the references of the alphabet (EntitiesMap entries from html/table.go);
              CollapseRep = parse.ReplaceMultipleWhitespaceAndEntities;
              Escape      = parse/v2/html.EscapeAttrVal (quote selection).
   STANDARD   DecodeRefs  = character reference decoding of the tokenizer (13.2.5.72-80) for the same
                            references, with the attribute rule for legacy references;
              Inner       = attribute value syntax (13.1.2.3).
   Invariants: the written attribute is well formed and decodes to the same value (same words for
   attributes the minifier trims), for every source quoting and KeepQuotes; text decodes to the same
   words and no "<" is introduced. *)
EXTENDS HtmlDom, Json
CONSTANTS MaxLen, Pieces,
          Bugs     \* wrong-design switches (must violate): "amp-no-followcheck" = decode &amp; although what follows could start a reference
VARIABLE ps
Init == ps = <<>>
Next == Len(ps) < MaxLen /\ \E p \in 1..Len(Pieces) : ps' = Append(ps, p)
Spec == Init /\ [][Next]_ps

Concat(seqs) == FoldLeft(LAMBDA a, s : a \o s, <<>>, seqs)
Raw == Concat([i \in 1..Len(ps) |-> Pieces[ps[i]]])

AllPieces == <<
  <<34>>, <<39>>, <<61>>, <<60>>, <<62>>, <<96>>, <<32>>, <<38>>, <<59>>, <<97>>,
  <<38,97,109,112,59>>,                 \* &amp;
  <<38,113,117,111,116,59>>,            \* &quot;
  <<38,35,51,57,59>>,                   \* &#39;
  <<38,108,116,59>>,                    \* &lt;
  <<38,35,120,50,54,59>>,               \* &#x26;
  <<38,110,111,116,105,110,59>>,        \* &notin;
  <<97,109,112,59>>,                    \* amp;      (&amp;amp; = &amp; amp;)
  <<38,97,109,112>>,                    \* &amp      (legacy, no semicolon)
  <<38,110,111,116>>,                   \* &not      (legacy, no semicolon)
  <<38,110,111,116,105,110,118,97,59>>, \* &notinva; (rewritten to a numeric reference)
  <<38,35,54,48,59>>,                   \* &#60;
  <<38,103,116,59>>                     \* &gt;
>>

----------------------------------------------------------------------------
IsAlnum(c) == (c >= 48 /\ c <= 57) \/ (c >= 97 /\ c <= 122) \/ (c >= 65 /\ c <= 90)
IsDig(c) == c >= 48 /\ c <= 57
IsHex(c) == IsDig(c) \/ (c >= 97 /\ c <= 102) \/ (c >= 65 /\ c <= 70)
HexVal(c) == IF IsDig(c) THEN c - 48 ELSE IF c >= 97 THEN c - 87 ELSE c - 55
At(b, i) == IF i >= 1 /\ i <= Len(b) THEN b[i] ELSE -1
(* length of the longest prefix of b starting at i whose bytes satisfy P, capped *)
RunLen(b, i, P(_), cap) ==
  LET ok == {n \in 0..cap : \A k \in 0..(n - 1) : i + k <= Len(b) /\ P(b[i + k])} IN Max(ok)
DecDigits(n) ==   \* decimal spelling of a small natural
  LET F[m \in 0..n] == IF m < 10 THEN <<48 + m>> ELSE Append(F[m \div 10], 48 + (m % 10)) IN F[n]
Num(ds, base) == FoldLeft(LAMBDA a, c : IF a > 100000 THEN a ELSE a * base + HexVal(c), 0, ds)

(* ---- MACHINE: EntitiesMap restricted to the alphabet (html/table.go) ---- *)
NAmp == <<97,109,112>>  NQuot == <<113,117,111,116>>  NLt == <<108,116>>  NGt == <<103,116>>
NNotinva == <<110,111,116,105,110,118,97>>  NApos == <<97,112,111,115>>
EntMap(name) ==
  CASE name = NAmp -> <<38>> [] name = NQuot -> <<34>> [] name = NLt -> <<60>> [] name = NGt -> <<62>>
    [] name = NApos -> <<39>> [] name = NNotinva -> <<38,35,56,55,49,51,59>> [] OTHER -> <<-1>>
LtRef == <<38,108,116,59>>

(* one call of replaceEntities at 1-based position i (b[i] = "&", i + 3 <= Len(b));
   result [r |-> replacement or <<-1>> for "unchanged", nx |-> next position to scan] *)
RepAt(b, i, text) ==
  LET n == Len(b)
      fin(r, j) ==       \* common tail: j is at the semicolon
        IF ~(j <= n /\ b[j] = 59 /\ 2 < j + 1 - i) THEN [r |-> <<-1>>, nx |-> i + 1]
        ELSE IF Len(r) = 1 /\ text /\ r[1] = 60
             THEN (IF SubSeq(b, i, j) = LtRef THEN [r |-> <<-1>>, nx |-> j + 1] ELSE [r |-> LtRef, nx |-> j + 1])
        ELSE IF Len(r) = 1 /\ r[1] = 38 /\ j + 1 <= n /\ (IsAlnum(b[j + 1]) \/ b[j + 1] = 35) /\ "amp-no-followcheck" \notin Bugs
             THEN [r |-> <<-1>>, nx |-> j + 2]
        ELSE [r |-> r, nx |-> j + 1]
  IN
  IF b[i + 1] = 35 THEN
     IF b[i + 2] = 120 THEN
        LET m == RunLen(b, i + 3, IsHex, n)
            j == i + 3 + m
            c == Num(SubSeq(b, i + 3, j - 1), 16)
        IN IF m = 0 \/ c >= 10000 THEN [r |-> <<-1>>, nx |-> j]
           ELSE fin(IF c < 128 THEN <<c>> ELSE <<38, 35>> \o DecDigits(c) \o <<59>>, j)
     ELSE
        LET m0 == RunLen(b, i + 2, IsDig, n)
            \* the loop stops as soon as the value reaches 128
            ms == {k \in 0..m0 : Num(SubSeq(b, i + 2, i + 1 + k), 10) >= 128}
            m == IF ms = {} THEN m0 ELSE Min(ms)
            j == i + 2 + m
            c == Num(SubSeq(b, i + 2, j - 1), 10)
        IN IF m = 0 \/ c >= 128 THEN [r |-> <<-1>>, nx |-> j] ELSE fin(<<c>>, j)
  ELSE
     LET m == RunLen(b, i + 1, IsAlnum, 32)
         j == i + 1 + m
     IN IF j > n \/ m = 0 \/ b[j] # 59 THEN [r |-> <<-1>>, nx |-> i + 1]
        ELSE LET r == EntMap(SubSeq(b, i + 1, j - 1)) IN
             IF r = <<-1>> THEN [r |-> <<-1>>, nx |-> j + 1] ELSE fin(r, j)

(* parse.ReplaceEntities: left to right, replacements are not rescanned *)
RECURSIVE RepFrom(_, _, _, _)
RepFrom(b, i, out, text) ==
  IF i > Len(b) THEN out
  ELSE IF b[i] = 38 /\ i + 3 <= Len(b)
       THEN LET q == RepAt(b, i, text) IN
            IF q.r = <<-1>> THEN RepFrom(b, q.nx, out \o SubSeq(b, i, q.nx - 1), text)
            ELSE RepFrom(b, q.nx, out \o q.r, text)
       ELSE RepFrom(b, i + 1, Append(out, b[i]), text)
RepEnt(b, text) == RepFrom(b, 1, <<>>, text)
(* parse.ReplaceMultipleWhitespaceAndEntities: runs of literal white space collapse to one blank; references
   are replaced in the same pass (a decoded blank is not collapsed again) *)
CollapseWs(b) ==
  FoldLeft(LAMBDA a, c : IF IsWs(c) THEN (IF a # <<>> /\ a[Len(a)] = 32 THEN a ELSE Append(a, 32)) ELSE Append(a, c), <<>>, b)
CollapseRep(b, text) == RepEnt(CollapseWs(b), text)

(* parse/v2/html.EscapeAttrVal *)
NeedsQuote(c) == IsWs(c) \/ c \in {34, 39, 60, 61, 62, 96}
Count(b, c) == Cardinality({i \in 1..Len(b) : b[i] = c})
Escape(b, orig, must) ==
  LET unq == \A i \in 1..Len(b) : ~NeedsQuote(b[i])
      singles == Count(b, 39)
      doubles == Count(b, 34)
  IN IF unq /\ (~must \/ orig = 0) THEN b
     ELSE IF (singles = 0 /\ orig = 39) \/ (doubles = 0 /\ orig = 34) THEN <<orig>> \o b \o <<orig>>
     ELSE LET q == IF singles > doubles \/ (singles = doubles /\ orig # 39) THEN 34 ELSE 39
              esc == IF q = 34 THEN <<38,35,51,52,59>> ELSE <<38,35,51,57,59>>
          IN <<q>> \o Concat([i \in 1..Len(b) |-> IF b[i] = q THEN esc ELSE <<b[i]>>]) \o <<q>>

(* ---- STANDARD: character references (13.2.5.72 ff.) for the references of the alphabet ---- *)
(* names that may be matched, longest first; TRUE = legacy (may lack the semicolon) *)
RefNames == << [n |-> <<110,111,116,105,110,118,97,59>>, v |-> <<226,136,137>>],    \* notinva; U+2209
               [n |-> <<110,111,116,105,110,59>>, v |-> <<226,136,137>>],           \* notin;   U+2209
               [n |-> <<113,117,111,116,59>>, v |-> <<34>>], [n |-> <<113,117,111,116>>, v |-> <<34>>],
               [n |-> <<97,112,111,115,59>>, v |-> <<39>>],
               [n |-> <<97,109,112,59>>, v |-> <<38>>], [n |-> <<97,109,112>>, v |-> <<38>>],
               [n |-> <<110,111,116,59>>, v |-> <<194,172>>], [n |-> <<110,111,116>>, v |-> <<194,172>>],   \* not U+00AC
               [n |-> <<108,116,59>>, v |-> <<60>>], [n |-> <<108,116>>, v |-> <<60>>],
               [n |-> <<103,116,59>>, v |-> <<62>>], [n |-> <<103,116>>, v |-> <<62>>] >>
Utf8Of(c) == IF c < 128 THEN <<c>>
             ELSE IF c < 2048 THEN <<192 + (c \div 64), 128 + (c % 64)>>
             ELSE <<224 + (c \div 4096), 128 + ((c \div 64) % 64), 128 + (c % 64)>>
DecAt(b, i, attr) ==    \* [v |-> decoded bytes, nx |-> next position]
  LET n == Len(b) IN
  IF At(b, i + 1) = 35 THEN
     LET hex == At(b, i + 2) \in {120, 88}
         s == IF hex THEN i + 3 ELSE i + 2
         m == IF hex THEN RunLen(b, s, IsHex, n) ELSE RunLen(b, s, IsDig, n)
         c == Num(SubSeq(b, s, s + m - 1), IF hex THEN 16 ELSE 10)
         e == IF At(b, s + m) = 59 THEN s + m + 1 ELSE s + m
     IN IF m = 0 THEN [v |-> <<38>>, nx |-> i + 1] ELSE [v |-> Utf8Of(c), nx |-> e]
  ELSE
     LET ms == {k \in 1..Len(RefNames) : i + Len(RefNames[k].n) <= n /\ SubSeq(b, i + 1, i + Len(RefNames[k].n)) = RefNames[k].n}
     IN IF ms = {} THEN [v |-> <<38>>, nx |-> i + 1]
        ELSE LET k == Min(ms)           \* RefNames lists longer names first
                 e == i + Len(RefNames[k].n) + 1
                 semi == RefNames[k].n[Len(RefNames[k].n)] = 59
             IN IF attr /\ ~semi /\ (At(b, e) = 61 \/ (At(b, e) # -1 /\ IsAlnum(At(b, e))))
                THEN [v |-> <<38>>, nx |-> i + 1]
                ELSE [v |-> RefNames[k].v, nx |-> e]
RECURSIVE DecFrom(_, _, _, _)
DecFrom(b, i, out, attr) ==
  IF i > Len(b) THEN out
  ELSE IF b[i] = 38 THEN LET q == DecAt(b, i, attr) IN DecFrom(b, q.nx, out \o q.v, attr)
  ELSE DecFrom(b, i + 1, Append(out, b[i]), attr)
DecodeRefs(b, attr) == DecFrom(b, 1, <<>>, attr)

(* 13.1.2.3: written attribute value -> its raw value; <<-1>> when the written form is not a
   single well-formed value *)
Inner(w) ==
  IF w = <<>> THEN <<-1>>
  ELSE IF w[1] \in {34, 39}
       THEN IF Len(w) >= 2 /\ w[Len(w)] = w[1] /\ \A i \in 2..(Len(w) - 1) : w[i] # w[1] THEN SubSeq(w, 2, Len(w) - 1) ELSE <<-1>>
       ELSE IF \A i \in 1..Len(w) : ~NeedsQuote(w[i]) THEN w ELSE <<-1>>

----------------------------------------------------------------------------
(* source quoting under which Raw is a conforming attribute value *)
SrcQuotes == {q \in {0, 34, 39} :
                IF q = 0 THEN Raw # <<>> /\ \A i \in 1..Len(Raw) : ~NeedsQuote(Raw[i])
                ELSE \A i \in 1..Len(Raw) : Raw[i] # q}
PlainOK ==
  \A q \in SrcQuotes, must \in BOOLEAN :
    LET v == RepEnt(Raw, FALSE) IN
    IF v = <<>> THEN DecodeRefs(Raw, TRUE) = <<>>
    ELSE LET w == Escape(v, q, must) IN Inner(w) # <<-1>> /\ DecodeRefs(Inner(w), TRUE) = DecodeRefs(Raw, TRUE)
TrimOK ==
  \A q \in SrcQuotes, must \in BOOLEAN :
    LET v == Trim(CollapseRep(Raw, FALSE)) IN
    IF v = <<>> THEN WsNorm(DecodeRefs(Raw, TRUE)) = <<>>
    ELSE LET w == Escape(v, q, must) IN
         Inner(w) # <<-1>> /\ WsNorm(DecodeRefs(Inner(w), TRUE)) = WsNorm(DecodeRefs(Raw, TRUE))
(* text: conforming text has no raw "<"; the rewritten text must not contain one either *)
TextOK ==
  (\A i \in 1..Len(Raw) : Raw[i] # 60) =>
    LET v == CollapseRep(Raw, TRUE) IN
    /\ \A i \in 1..Len(v) : v[i] # 60
    /\ WsNorm(DecodeRefs(v, FALSE)) = WsNorm(DecodeRefs(Raw, FALSE))
NoBugs == {}
BugAmp == {"amp-no-followcheck"}
Emit == PrintT("VAL " \o ToJson(Raw))
=============================================================================
