----------------------------- MODULE JsonSepFn -----------------------------
(* The design model JsonSep of the separator logic once more, as a function: DIter is one
   iteration of the loop in json.Minify (Parser.Next + separator + write) on a state record
   [pos, pst, nc, sc, out, mode]; DRun iterates it to the end.  JsonSep checks, as an action
   property over its whole state space, that every step of the action system is DIter
   (StepsAgree), so both are the same model; the trace specification C07Trace uses DRun to
   compare the model's prediction - for valid AND for structurally invalid inputs, where the
   parser is tolerant (`[1,]`) or stops with an error after a partial output - with what
   the real code wrote.  A difference is DRIFT: the model no longer describes the code.
   It is reported as information and is never a verdict. *)
EXTENDS JsonDoc

DSetTop(s, v) == [s EXCEPT ![Len(s)] = v]
DPopFix(s) == LET q == SubSeq(s, 1, Len(s) - 1) IN IF q[Len(q)] = "O" THEN DSetTop(q, "K") ELSE q
DInit == [pos |-> 1, pst |-> <<"V">>, nc |-> FALSE, sc |-> TRUE, out |-> <<>>, mode |-> "run"]

DIter(inp, s) ==
  LET peek(i) == IF i <= Len(inp) THEN inp[i] ELSE "eof"
      state == s.pst[Len(s.pst)]
      comma == peek(s.pos) = ","
      pos1 == IF comma THEN s.pos + 1 ELSE s.pos
      nc1 == IF comma THEN FALSE ELSE s.nc
      c == peek(pos1)
      fail == [s EXCEPT !.mode = "err"]
      emit(gt) == s.out \o (IF ~s.sc /\ gt \notin {"}", "]"}
                            THEN (IF state \in {"K", "A"} THEN <<",">> ELSE IF state = "O" THEN <<":">> ELSE <<>>)
                            ELSE <<>>) \o <<gt>>
      step(pst2, pos2, nc2, gt) == [pos |-> pos2, pst |-> pst2, nc |-> nc2, sc |-> (gt \in {"{", "["}),
                                    out |-> emit(gt), mode |-> "run"]
  IN IF comma /\ state \notin {"A", "K"} THEN fail
     ELSE IF nc1 /\ c \notin {"}", "]", "eof"} THEN fail
     ELSE IF c = "{" THEN step(Append(s.pst, "K"), pos1 + 1, nc1, "{")
     ELSE IF c = "}" THEN (IF state # "K" THEN fail ELSE step(DPopFix(s.pst), pos1 + 1, TRUE, "}"))
     ELSE IF c = "[" THEN step(Append(s.pst, "A"), pos1 + 1, nc1, "[")
     ELSE IF c = "]" THEN (IF state # "A" THEN fail ELSE step(DPopFix(s.pst), pos1 + 1, TRUE, "]"))
     ELSE IF state = "K" THEN (IF c = "str" /\ peek(pos1 + 1) = ":"
                               THEN step(DSetTop(s.pst, "O"), pos1 + 2, nc1, "str") ELSE fail)
     ELSE IF IsScalar(c) THEN step(IF state = "O" THEN DSetTop(s.pst, "K") ELSE s.pst, pos1 + 1, TRUE, c)
     ELSE IF c = "eof" THEN [s EXCEPT !.mode = "end"]
     ELSE fail

\* every iteration consumes a token or ends the loop: Len(inp) + 1 iterations suffice
DRun(inp) == FoldLeft(LAMBDA s, i : IF s.mode = "run" THEN DIter(inp, s) ELSE s, DInit,
                      [i \in 1..(Len(inp) + 1) |-> i])
=============================================================================
