SPECIFICATION MSpec
CONSTANTS MaxRegs = 2
MaxDepth = 2
Locked = TRUE
UpdatePos = TRUE
WholeInput = TRUE
INVARIANTS MTypeOK SameDispatch ServedByLookup RegistryStable ErrorLocated SameBytes
CHECK_DEADLOCK FALSE
