SPECIFICATION Spec
CONSTANTS MaxLen = 2
Fault = "defaults"
INVARIANTS Refines
CHECK_DEADLOCK FALSE
