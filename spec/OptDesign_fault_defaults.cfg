SPECIFICATION Spec
CONSTANTS MaxLen = 2
BitSets <- BitsAll
Fault = "defaults"
INVARIANTS Refines
CHECK_DEADLOCK FALSE
