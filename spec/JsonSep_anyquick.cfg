SPECIFICATION Spec
CONSTANTS MaxRaw = 4
AnyInput = TRUE
PROPERTY StepsAgree
INVARIANTS RunAgrees TypeOK NoError OutIsPrefix FinalOutput Progress Mirrors Lenient
CHECK_DEADLOCK FALSE
