SPECIFICATION Spec
CONSTANTS MaxRaw = 4
AnyInput = TRUE
INVARIANTS TypeOK NoError OutIsPrefix FinalOutput Progress Mirrors Lenient
CHECK_DEADLOCK FALSE
