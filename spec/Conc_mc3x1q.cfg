SPECIFICATION Spec
CONSTANTS
  NG = 3
  MaxCalls = 1
  ShapeNames <- SmallShapes
  AllowReg = FALSE
  CopyOpts = TRUE
  TightCap = TRUE
  CopyArgs = TRUE
  HtmlDep = FALSE
  LazyInit = FALSE
  PoolBuf = FALSE
VIEW View
INVARIANTS Deterministic SharedReadOnly NoBlocking LockSane
CHECK_DEADLOCK TRUE
