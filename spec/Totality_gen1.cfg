SPECIFICATION GenSpec
CONSTANTS MaxOps = 1
Ops2 <- NoOps
InjectBytes <- InjAll
Depths <- DepthsQuick
AllowInPlace = FALSE
INVARIANTS TypeOK DocBound
CHECK_DEADLOCK FALSE
