SPECIFICATION Spec
CONSTANTS MaxLen = 2
Pieces <- AllPieces
INVARIANTS PlainOK TrimOK TextOK Emit
CHECK_DEADLOCK FALSE
