----------------------------- MODULE SvgPathDesign -----------------------------
(* C05 - design model (level D of DESIGN.md section 2): the rewrite DECISIONS of the path
   shortener, one action per decision, transcribed from svg/pathdata.go copyInstruction at the
   level of abstract numbers (no bytes: which spelling is shorter is abstracted into a
   nondeterministic choice between the absolute and the relative twin).  The model keeps the
   shortener's own cursor (x, y, x0, y0) and its own idea of the previous control points
   (cx, cy / qx, qy with a NaN flag), exactly the fields of PathData.

   TLC checks D => A: running the interpreter of SvgPath on the input command and on the command(s)
   the design emits, from the respective interpreter states, yields the same normalised segments
   (invariant Refines, a step-wise simulation: same current point, same sub-path start, and the
   segments of every step equal under Norm).  What a FOLLOWING smooth command reflects is
   compared when it is used, not before.

   The code has three decision-level defects (known findings of C05).  Each is guarded by a
   constant that restricts the INPUTS to those the decisions are right for; with a guard lifted TLC
   finds the counterexample (cfgs SvgPathDesign_noZ / _noDeg / _noZeroL, run by the check as a
   sensitivity self-test of this model, expected to fail):
     GuardZ      after closepath only moveto/closepath   (Z keeps cx,cy,qx,qy: `...Z C` -> `z S`)
     GuardDeg    no smooth command after a degenerate curve that was turned into a line
     GuardZeroL  no lineto / curve that simplifies to a zero-length line directly after a curve (it is
                 dropped and the next command, possibly rewritten to a smooth one, follows the curve)
   A mismatch between this model and the code is DRIFT information, never a verdict.          *)
EXTENDS SvgPath
CONSTANTS MaxN, Coords, CtrlCoords, Letters, GuardZ, GuardDeg, GuardZeroL
VARIABLES si, so, d, n, last, ok
vars == <<si, so, d, n, last, ok>>

\* d: the shortener's state.  last: what the guards need to know about the previous input group.
D0 == [x |-> 0, y |-> 0, x0 |-> 0, y0 |-> 0, cnan |-> TRUE, cx |-> 0, cy |-> 0, qnan |-> TRUE, qx |-> 0, qy |-> 0]
Last0 == [z |-> FALSE, degc |-> FALSE, degq |-> FALSE]

Pairs(S) == {<<a, b>> : a \in S, b \in S}
Args(u) ==
  CASE u \in {77, 76, 84} -> Pairs(Coords)
    [] u \in {72, 86} -> {<<a>> : a \in Coords}
    [] u \in {83, 81} -> {<<p[1], p[2], q[1], q[2]>> : p \in Pairs(CtrlCoords), q \in Pairs(Coords)}
    [] u = 67 -> {<<p[1], p[2], q[1], q[2], r[1], r[2]>> : p \in Pairs(CtrlCoords), q \in Pairs(CtrlCoords), r \in Pairs(Coords)}
    [] u = 65 -> {<<1, 2, 0, f, 1 - f, q[1], q[2]>> : f \in {0, 1}, q \in Pairs(Coords)}
    [] OTHER -> {<<>>}
Upper == {77, 76, 72, 86, 67, 83, 81, 84, 65, 90}

---------------------------------------------------------------------------
(* copyInstruction for ONE coordinate set.  c = command letter, v = its numbers, multi = the set is
   part of a command with several sets ("only change to a line if we start with s/S and none
   follow"), alt = emit the other-case twin.  Result: new shortener state and the emitted command
   (letter 0 = nothing emitted).                                                     *)
Shift(u, v, dx, dy) ==                       \* shortenAltPosInstruction: which numbers are shifted
  CASE u \in {76, 84, 77} -> <<v[1] + dx, v[2] + dy>>
    [] u = 72 -> <<v[1] + dx>>
    [] u = 86 -> <<v[1] + dy>>
    [] u \in {83, 81} -> <<v[1] + dx, v[2] + dy, v[3] + dx, v[4] + dy>>
    [] u = 67 -> <<v[1] + dx, v[2] + dy, v[3] + dx, v[4] + dy, v[5] + dx, v[6] + dy>>
    [] u = 65 -> <<v[1], v[2], v[3], v[4], v[5], v[6] + dx, v[7] + dy>>
    [] OTHER -> v
Emit(cmd, v, rel, alt, p) ==
  IF ~alt THEN [c |-> cmd, a |-> v]
  ELSE IF rel THEN [c |-> cmd - 32, a |-> Shift(cmd - 32, v, p.x, p.y)]
       ELSE [c |-> cmd + 32, a |-> Shift(cmd, v, 0 - p.x, 0 - p.y)]

Copy(p, c, v, multi, alt) ==
  LET rel == IsRel(c)
      u == IF rel THEN c - 32 ELSE c
      lo(k) == IF rel THEN k + 32 ELSE k                    \* same case as the input command
      di == Len(v)
      ax == IF u = 72 THEN v[1] + (IF rel THEN p.x ELSE 0) ELSE IF u = 86 THEN p.x ELSE v[di - 1] + (IF rel THEN p.x ELSE 0)
      ay == IF u = 72 THEN p.y ELSE IF u = 86 THEN v[1] + (IF rel THEN p.y ELSE 0) ELSE v[di] + (IF rel THEN p.y ELSE 0)
      bx == IF rel THEN p.x ELSE 0
      by == IF rel THEN p.y ELSE 0
      \* --- cubic family
      isCub == u \in {67, 83}
      rcx == IF p.cnan THEN p.x ELSE 2 * p.x - p.cx          \* "p.cx, p.cy = 2*p.x-p.cx, 2*p.y-p.cy"
      rcy == IF p.cnan THEN p.y ELSE 2 * p.y - p.cy
      cp2x == IF isCub THEN v[di - 3] + bx ELSE 0
      cp2y == IF isCub THEN v[di - 2] + by ELSE 0
      c1x == IF u = 67 THEN v[1] + bx ELSE rcx
      c1y == IF u = 67 THEN v[2] + by ELSE rcy
      toS == u = 67 /\ c1x = rcx /\ c1y = rcy                 \* "switch from C to S whenever possible"
      cmdC == IF toS THEN 83 ELSE u
      vC == IF toS THEN SubSeq(v, 3, 6) ELSE v
      cubLine == /\ isCub
                 /\ (cmdC = 67 \/ ~multi)
                 /\ ((c1x = p.x /\ c1y = p.y) \/ (c1x = ax /\ c1y = ay))
                 /\ ((cp2x = p.x /\ cp2y = p.y) \/ (cp2x = ax /\ cp2y = ay))
      \* --- quadratic family
      isQ == u \in {81, 84}
      rqx == IF p.qnan THEN p.x ELSE 2 * p.x - p.qx
      rqy == IF p.qnan THEN p.y ELSE 2 * p.y - p.qy
      qpx == IF u = 81 THEN v[1] + bx ELSE rqx
      qpy == IF u = 81 THEN v[2] + by ELSE rqy
      toT == u = 81 /\ qpx = rqx /\ qpy = rqy
      cmdQ == IF toT THEN 84 ELSE u
      vQ == IF toT THEN SubSeq(v, 3, 4) ELSE v
      qLine == /\ isQ
               /\ (cmdQ = 81 \/ ~multi)
               /\ ((qpx = p.x /\ qpy = p.y) \/ (qpx = ax /\ qpy = ay))
      \* --- command and numbers after the curve decisions
      cmd1 == IF cubLine \/ qLine THEN 76 ELSE IF isCub THEN cmdC ELSE IF isQ THEN cmdQ ELSE u
      v1 == IF cubLine \/ qLine THEN SubSeq(v, di - 1, di) ELSE IF isCub THEN vC ELSE IF isQ THEN vQ ELSE v
      \* --- "switch from L to H or V whenever possible", zero-length line dropped
      isL == cmd1 = 76
      dropL == isL /\ ax = p.x /\ ay = p.y
      cmd2 == IF isL /\ ~dropL /\ ax = p.x THEN 86 ELSE IF isL /\ ~dropL /\ ay = p.y THEN 72 ELSE cmd1
      v2 == IF cmd2 = 86 /\ isL THEN <<v1[2]>> ELSE IF cmd2 = 72 /\ isL THEN <<v1[1]>> ELSE v1
      np == [p EXCEPT !.x = ax, !.y = ay,
                      !.x0 = IF u = 77 THEN ax ELSE @, !.y0 = IF u = 77 THEN ay ELSE @,
                      !.cnan = ~isCub \/ cubLine, !.cx = IF isCub /\ ~cubLine THEN cp2x ELSE 0,
                      !.cy = IF isCub /\ ~cubLine THEN cp2y ELSE 0,
                      !.qnan = ~isQ \/ qLine, !.qx = IF isQ /\ ~qLine THEN qpx ELSE 0,
                      !.qy = IF isQ /\ ~qLine THEN qpy ELSE 0]
  IN [p |-> np,
      out |-> IF dropL THEN [c |-> 0, a |-> <<>>] ELSE Emit(lo(cmd2), v2, rel, alt, p),
      line |-> cubLine \/ qLine, dropped |-> dropL]

CopyZ(p) == [p |-> [p EXCEPT !.x = p.x0, !.y = p.y0], out |-> [c |-> 122, a |-> <<>>]]   \* cx, cy, qx, qy untouched

---------------------------------------------------------------------------
Init == si = S0 /\ so = S0 /\ d = D0 /\ n = 0 /\ last = Last0 /\ ok = TRUE

Smooth(u) == u \in {83, 84}
InputAllowed(u) ==
  /\ n = 0 => u = 77
  /\ (GuardZ /\ last.z) => u \in {77, 90}
  /\ (GuardDeg /\ last.degc) => u # 83
  /\ (GuardDeg /\ last.degq) => u # 84

SegsEq(a, b) == PathEq(Norm(a), Norm(b), 0)

Step(u, v, rel, multi, alt) ==
  LET c == IF rel THEN u + 32 ELSE u
      ri == StepGroup(si, c, v)
  IN IF u = 90
     THEN LET r == CopyZ(d)  ro == StepGroup(so, r.out.c, <<>>) IN
          /\ si' = ri.st /\ so' = ro.st /\ d' = r.p
          /\ ok' = (SegsEq(<<ri.seg>>, <<ro.seg>>) /\ ri.st.x = ro.st.x /\ ri.st.y = ro.st.y)
          /\ last' = [Last0 EXCEPT !.z = TRUE]
     ELSE LET r == Copy(d, c, v, multi, alt)
              ro == IF r.out.c = 0 THEN [st |-> so, seg |-> <<"L", so.x, so.y, so.x, so.y, 0, 0, 0, 0, 0>>]
                    ELSE StepGroup(so, r.out.c, r.out.a)
          IN
          /\ GuardZeroL => ~(si.pk # "N" /\ ZeroLine(Simplify(ri.seg)) /\ u \in {76, 67, 83, 81, 84})
          /\ si' = ri.st /\ so' = ro.st /\ d' = r.p
          /\ ok' = /\ SegsEq(<<ri.seg>>, <<ro.seg>>)
                   /\ ri.st.x = ro.st.x /\ ri.st.y = ro.st.y /\ ri.st.sx = ro.st.sx /\ ri.st.sy = ro.st.sy
                   /\ r.p.x = ri.st.x /\ r.p.y = ri.st.y            \* the shortener's cursor is the current point
          /\ last' = [z |-> FALSE, degc |-> DegCubic(ri.seg), degq |-> DegQuad(ri.seg)]

Next == /\ n < MaxN /\ ok
        /\ \E u \in Letters : InputAllowed(u) /\
             \E v \in Args(u) : \E rel \in BOOLEAN : \E multi \in BOOLEAN : \E alt \in BOOLEAN :
                /\ (multi => u \in {67, 81, 83, 84})  \* only matters for curves (C -> S, Q -> T inside a run)
                /\ Step(u, v, rel, multi, alt)
                /\ n' = n + 1
Spec == Init /\ [][Next]_vars

Refines == ok
InRange == ~si.bad /\ ~so.bad

LettersAll == Upper
LettersZ == {77, 67, 90}              \* M C Z
LettersDeg == {77, 67, 83, 81, 84}     \* M C S Q T
LettersZeroL == {77, 67, 76, 83}       \* M C L S
C4 == {-1, 0, 1, 2}
C3 == {0, 1, 2}
C2 == {0, 1}
=============================================================================
