----------------------------- MODULE SvgPathDesign -----------------------------
(* C05 - design model (level D of DESIGN.md section 2): the rewrite DECISIONS of the path
   shortener, one action per decision, transcribed from svg/pathdata.go copyInstruction at the
   level of abstract numbers (no bytes: which spelling is shorter is abstracted into a
   nondeterministic choice between the absolute and the relative twin).  The model keeps the
   shortener's own cursor (x, y, x0, y0) and its own idea of the previous control points
   (cx, cy / qx, qy with a NaN flag), exactly the fields of PathData.

   TLC checks D => A: running the interpreter of SvgPath on the input command and on the command(s)
   the design emits, from the respective interpreter states, yields the same normalised segments
   (invariant Refines, a step-wise simulation: same current point, same sub-path start, and the
   segments of every step equal under Norm).  What a FOLLOWING smooth command reflects is
   compared when it is used, not before.

   The decisions modelled are those of the code AFTER the fix commits 06800a3 (closepath resets the
   control points), ed5d06b (a degenerate curve stays a curve when the following command is smooth
   and would reflect a control point other than the end point), 2008ad3 (a zero-length line directly
   after a curve is kept).  The old decisions are kept as switches: with FixZ / FixDeg / FixZeroL =
   FALSE - or ForgetCp = FALSE, the design in which the control point of a curve that was turned into
   a line is not forgotten - the model is a WRONG design and TLC must find the counterexample (cfgs
   SvgPathDesign_noZ / _noDeg / _noZeroL / _noForget, run by the check as vacuity guards of Refines:
   expected to fail).  A mismatch between this model and the code is DRIFT information, never a
   verdict.                                                                              *)
EXTENDS SvgPathDecide
CONSTANTS MaxN, Coords, CtrlCoords, Letters
VARIABLES si, so, d, n, exp, ok
vars == <<si, so, d, n, exp, ok>>

\* d: the shortener's state.  exp: what the previous step assumed about this one (the shortener decides about
\* the last coordinate set of a command knowing the NEXT command letter - a one-letter look-ahead).
Exp0 == [cls |-> "any", same |-> FALSE, u |-> 0, rel |-> FALSE]

Pairs(S) == {<<a, b>> : a \in S, b \in S}
Args(u) ==
  CASE u \in {77, 76, 84} -> Pairs(Coords)
    [] u \in {72, 86} -> {<<a>> : a \in Coords}
    [] u \in {83, 81} -> {<<p[1], p[2], q[1], q[2]>> : p \in Pairs(CtrlCoords), q \in Pairs(Coords)}
    [] u = 67 -> {<<p[1], p[2], q[1], q[2], r[1], r[2]>> : p \in Pairs(CtrlCoords), q \in Pairs(CtrlCoords), r \in Pairs(Coords)}
    [] u = 65 -> {<<1, 2, 0, f, 1 - f, q[1], q[2]>> : f \in {0, 1}, q \in Pairs(Coords)}
    [] OTHER -> {<<>>}
Upper == {77, 76, 72, 86, 67, 83, 81, 84, 65, 90}

---------------------------------------------------------------------------
Init == si = S0 /\ so = S0 /\ d = D0 /\ n = 0 /\ exp = Exp0 /\ ok = TRUE

SegsEq(a, b) == PathEq(Norm(a), Norm(b), 0)

\* lastg: the coordinate set is the last one of its command; nxt: class of the command letter that follows
\* (the set that follows a non-last set belongs to the same command)
Step(u, v, rel, multi, lastg, nxt, alt) ==
  LET c == IF rel THEN u + 32 ELSE u
      ri == StepGroup(si, c, v)
  IN IF u = 90
     THEN LET r == CopyZ(d)  ro == StepGroup(so, r.out.c, <<>>) IN
          /\ si' = ri.st /\ so' = ro.st /\ d' = r.p
          /\ ok' = (SegsEq(<<ri.seg>>, <<ro.seg>>) /\ ri.st.x = ro.st.x /\ ri.st.y = ro.st.y)
          /\ exp' = [Exp0 EXCEPT !.cls = nxt]
     ELSE LET r == Copy(d, c, v, multi, lastg, nxt, alt)
              ro == IF r.out.c = 0 THEN [st |-> so, seg |-> <<"L", so.x, so.y, so.x, so.y, 0, 0, 0, 0, 0>>]
                    ELSE StepGroup(so, r.out.c, r.out.a)
          IN
          /\ si' = ri.st /\ so' = ro.st /\ d' = r.p
          /\ ok' = /\ SegsEq(<<ri.seg>>, <<ro.seg>>)
                   /\ ri.st.x = ro.st.x /\ ri.st.y = ro.st.y /\ ri.st.sx = ro.st.sx /\ ri.st.sy = ro.st.sy
                   /\ r.p.x = ri.st.x /\ r.p.y = ri.st.y            \* the shortener's cursor is the current point
          /\ exp' = IF lastg THEN [Exp0 EXCEPT !.cls = nxt] ELSE [cls |-> Class(u), same |-> TRUE, u |-> u, rel |-> rel]

Expected(u, rel, multi) ==
  /\ n = 0 => u = 77
  /\ exp.cls = "any" \/ exp.cls = Class(u)
  /\ exp.same => (u = exp.u /\ rel = exp.rel /\ multi)

Next == /\ n < MaxN /\ ok
        /\ \E u \in Letters : \E v \in Args(u) : \E rel \in BOOLEAN : \E multi \in BOOLEAN : \E lastg \in BOOLEAN :
             \E nxt \in {"S", "T", "O"} : \E alt \in BOOLEAN :
                /\ (multi => u \in {67, 81, 83, 84})  \* only matters for curves (C -> S, Q -> T inside a run)
                /\ (~multi => lastg)                  \* a command with one coordinate set
                /\ (~lastg => nxt = "O")              \* (unused then)
                /\ Expected(u, rel, multi)
                /\ Step(u, v, rel, multi, lastg, nxt, alt)
                /\ n' = n + 1
Spec == Init /\ [][Next]_vars

Refines == ok
InRange == ~si.bad /\ ~so.bad

LettersAll == Upper
LettersZ == {77, 67, 90}              \* M C Z
LettersDeg == {77, 67, 83, 81, 84}     \* M C S Q T
LettersForget == {77, 67}              \* M C
LettersZeroL == {77, 67, 76, 83}       \* M C L S
C4 == {-1, 0, 1, 2}
C3 == {0, 1, 2}
C2 == {0, 1}
=============================================================================
