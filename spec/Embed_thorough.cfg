SPECIFICATION ESpec
CONSTANTS MaxRegs = 2
MaxSlots = 2
INVARIANTS ETypeOK NoLeak UnconsumedTypeDoesNotLeak OneEnterPerServedSlot FailStops AbsentPassesThrough EEmitAll
CHECK_DEADLOCK FALSE
