SPECIFICATION RSpec
CONSTANTS MaxRegs = 8
INVARIANTS TypeOK AbstractionAgrees AgreesWithRef LiteralWins FirstPatternWins ReRegisterReplaces NotExistIffNothing Emit
CHECK_DEADLOCK FALSE
