----------------------------- MODULE SvgPathGen -----------------------------
(* C05 - generator automaton of SVG path data, one TOKEN per step (a command letter or one
   number), so that TLC can enumerate every valid path up to MaxTok tokens (BFS, state dump) and
   walk far beyond that bound (-simulate).  The automaton carries the interpreter state of
   SvgPath (on the abstract coordinates) because the constructs that were excluded while three
   known findings were open are geometric.  All three are fixed (06800a3, ed5d06b, 2008ad3) and the
   switches are FALSE in every configuration the check uses; they are kept so that an exclusion can
   be switched back on, narrowly, should such a finding reopen:

     ExclZ     a closepath is followed only by a moveto or a closepath
     ExclDeg   no EXPLICIT smooth curveto directly after a curve whose control points coincide
               exactly with its end points
     ExclZeroL no lineto or curve that is (after simplification) a zero-length line directly
               after a curve

   Token encoding: a command letter is its byte (65..122); a number is 1000000 + v where v is the
   abstract coordinate (an integer; the driver decides how many decimals it stands for and in
   which notation it is written).  Arc flags are numbers 0/1. *)
EXTENDS SvgPath, Json
CONSTANTS MaxTok, MaxGroups, Coords, MCoords, Radii, Rots, Letters, Modes, ExclZ, ExclDeg, ExclZeroL
VARIABLES toks, cmd, k, g, ng, vals, st, fl, mode
vars == <<toks, cmd, k, g, ng, vals, st, fl, mode>>

\* fl: what the exclusions need to know about the previous group
\*   dc/dq  it was an exactly degenerate cubic / quadratic
Fl0 == [dc |-> FALSE, dq |-> FALSE]

Init == toks = <<>> /\ cmd = 0 /\ k = 0 /\ g = 0 /\ ng = 0 /\ vals = <<>> /\ st = S0 /\ fl = Fl0 /\ mode = "free"

AtBoundary == cmd = 0 \/ Arity(cmd) = 0 \/ (k = 0 /\ g > 0)
Accepting2 == cmd # 0 /\ (Arity(cmd) = 0 \/ (k = 0 /\ g > 0))

SmoothC(c) == c \in {83, 115}
SmoothQ(c) == c \in {84, 116}
(* Exclusions are as narrow as the pinned defects: an EXPLICIT smooth command (or the implicit
   repetition of one) after a degenerate curve.  A degenerate curve followed by a full C / Q whose
   first control point is the mirror image of the degenerate curve's last one - where the
   shortener itself has to decide about S / T - is generated (mode "mirror" below). *)
Allowed(c) ==
  /\ cmd = 0 => c \in {77, 109}
  /\ (ExclZ /\ IsClose(cmd)) => c \in {77, 109, 90, 122}
  /\ (ExclDeg /\ fl.dc) => ~SmoothC(c)
  /\ (ExclDeg /\ fl.dq) => ~SmoothQ(c)

FlagsAfter(old, seg) == [dc |-> DegCubic(seg), dq |-> DegQuad(seg)]
\* a lineto, or a curve that simplifies to a line, of length zero directly after a curve: the
\* shortener drops it and lets the next command follow the curve (H, V, A, M are never dropped)
ZeroAfterCurve(old, letter, seg) ==
  /\ old.pk # "N" /\ ZeroLine(Simplify(seg))
  /\ letter \in {76, 108, 67, 99, 83, 115, 81, 113, 84, 116}

(* Modes: the rewrites of a path shortener fire on COINCIDENCES (a control point that is the mirror
   image of the previous one, that lies on an end point, ...), which uniformly chosen coordinates
   rarely produce.  A curve command may therefore be generated from a template that forces some
   of its numbers:
     mirror   first control point = what a smooth command would reflect here (C, Q)
     degSS degSE degES degEE   cubic whose control points lie on its Start / End point
     degS degE                 S: second control point, Q: control point on the Start / End point *)
ModesOf(c) ==
  LET u == IF IsRel(c) THEN c - 32 ELSE c IN
  CASE u = 67 -> {"free", "mirror", "degSS", "degSE", "degES", "degEE"}
    [] u = 83 -> {"free", "degS", "degE"}
    [] u = 81 -> {"free", "mirror", "degS", "degE"}
    [] OTHER -> {"free"}
ModesAll == {"free", "mirror", "degSS", "degSE", "degES", "degEE", "degS", "degE"}
ModesFree == {"free"}
ModesForced == ModesAll \ {"free"}
ModeAllowed(c, md) == md \in ModesOf(c) /\ (md \in Modes \/ ModesOf(c) = {"free"})

GReflC == IF st.pk = "C" THEN <<2 * st.x - st.px, 2 * st.y - st.py>> ELSE <<st.x, st.y>>
GReflQ == IF st.pk = "Q" THEN <<2 * st.x - st.px, 2 * st.y - st.py>> ELSE <<st.x, st.y>>
\* token value that puts an x (y) coordinate on the absolute value t
TokX(t) == IF IsRel(cmd) THEN t - st.x ELSE t
TokY(t) == IF IsRel(cmd) THEN t - st.y ELSE t
None == <<>>
\* the forced value of argument j of the current group (None: free choice)
Forced(j) ==
  LET u == IF IsRel(cmd) THEN cmd - 32 ELSE cmd IN
  CASE u = 67 /\ mode = "mirror" /\ j = 1 -> <<TokX(GReflC[1])>>
    [] u = 67 /\ mode = "mirror" /\ j = 2 -> <<TokY(GReflC[2])>>
    [] u = 67 /\ mode \in {"degSS", "degSE"} /\ j = 1 -> <<TokX(st.x)>>
    [] u = 67 /\ mode \in {"degSS", "degSE"} /\ j = 2 -> <<TokY(st.y)>>
    [] u = 67 /\ mode \in {"degSS", "degES"} /\ j = 3 -> <<TokX(st.x)>>
    [] u = 67 /\ mode \in {"degSS", "degES"} /\ j = 4 -> <<TokY(st.y)>>
    [] u = 67 /\ mode = "degEE" /\ j \in {3, 5} -> <<vals[1]>>
    [] u = 67 /\ mode = "degEE" /\ j = 4 -> <<vals[2]>>
    [] u = 67 /\ mode = "degEE" /\ j = 6 -> <<vals[2]>>
    [] u = 67 /\ mode = "degES" /\ j = 5 -> <<vals[1]>>
    [] u = 67 /\ mode = "degES" /\ j = 6 -> <<vals[2]>>
    [] u = 67 /\ mode = "degSE" /\ j = 5 -> <<vals[3]>>
    [] u = 67 /\ mode = "degSE" /\ j = 6 -> <<vals[4]>>
    [] u = 83 /\ mode = "degS" /\ j = 1 -> <<TokX(st.x)>>
    [] u = 83 /\ mode = "degS" /\ j = 2 -> <<TokY(st.y)>>
    [] u = 83 /\ mode = "degE" /\ j = 3 -> <<vals[1]>>
    [] u = 83 /\ mode = "degE" /\ j = 4 -> <<vals[2]>>
    [] u = 81 /\ mode = "mirror" /\ j = 1 -> <<TokX(GReflQ[1])>>
    [] u = 81 /\ mode = "mirror" /\ j = 2 -> <<TokY(GReflQ[2])>>
    [] u = 81 /\ mode = "degS" /\ j = 1 -> <<TokX(st.x)>>
    [] u = 81 /\ mode = "degS" /\ j = 2 -> <<TokY(st.y)>>
    [] u = 81 /\ mode = "degE" /\ j = 3 -> <<vals[1]>>
    [] u = 81 /\ mode = "degE" /\ j = 4 -> <<vals[2]>>
    [] OTHER -> None

Letter(c, md) ==
  /\ AtBoundary /\ Allowed(c) /\ c \in Letters /\ ModeAllowed(c, md) /\ ng < MaxGroups
  /\ toks' = Append(toks, c) /\ cmd' = c /\ k' = 0 /\ g' = 0 /\ vals' = <<>> /\ mode' = md
  /\ IF IsClose(c) THEN /\ st' = StepGroup(st, c, <<>>).st
                        /\ fl' = Fl0 /\ ng' = ng + 1
     ELSE UNCHANGED <<st, fl, ng>>

ArgDomain(c, j) == IF IsArc(c) THEN (CASE j \in {1, 2} -> Radii [] j = 3 -> Rots [] j \in {4, 5} -> {0, 1} [] OTHER -> Coords)
                   ELSE IF c \in {77, 109} /\ g = 0 THEN MCoords        \* where the (first) moveto goes
                   ELSE Coords
ArgChoices == IF cmd = 0 \/ Arity(cmd) = 0 THEN {}
              ELSE IF Forced(k + 1) # None THEN {Forced(k + 1)[1]} ELSE ArgDomain(cmd, k + 1)

Number(v) ==
  /\ cmd # 0 /\ Arity(cmd) > 0
  /\ (k = 0 /\ g > 0) => (Allowed(GroupLetter(cmd, g + 1)) /\ ng < MaxGroups)   \* implicit repetition starts a new group
  /\ toks' = Append(toks, 1000000 + v)
  /\ cmd' = cmd /\ mode' = mode
  /\ IF k + 1 = Arity(cmd)
     THEN LET r == StepGroup(st, GroupLetter(cmd, g + 1), Append(vals, v)) IN
          /\ ExclZeroL => ~ZeroAfterCurve(st, GroupLetter(cmd, g + 1), r.seg)
          /\ st' = r.st /\ fl' = FlagsAfter(st, r.seg) /\ k' = 0 /\ g' = g + 1 /\ ng' = ng + 1 /\ vals' = <<>>
     ELSE /\ k' = k + 1 /\ vals' = Append(vals, v) /\ UNCHANGED <<st, g, ng, fl>>

Next == /\ Len(toks) < MaxTok
        /\ \/ \E c \in CmdBytes : \E md \in ModesAll : Letter(c, md)
           \/ \E v \in ArgChoices : Number(v)
Spec == Init /\ [][Next]_vars

---------------------------------------------------------------------------
(* Design-level sanity, checked in every state of the exhaustive run.             *)
\* the abstract values never leave the fixed-point range
InRange == ~st.bad
\* the counters describe the token string: k numbers of an unfinished group are pending
Counters == /\ k = Len(vals) /\ (cmd # 0 => k < Max2(1, Arity(cmd)))
            /\ (cmd = 0 <=> toks = <<>>)
\* the incremental interpreter state agrees with interpreting the token string from scratch
CmdsOf(ts) ==
  FoldLeft(LAMBDA a, t : IF t < 1000 THEN Append(a, [c |-> t, a |-> <<>>])
                         ELSE [a EXCEPT ![Len(a)].a = Append(@, t - 1000000)],
           <<>>, ts)
InterpAbs(cmds) ==
  FoldLeft(LAMBDA s, cm :
             LET ar == Arity(cm.c) IN
             IF ar = 0 THEN StepGroup(s, cm.c, <<>>).st
             ELSE FoldLeft(LAMBDA s2, i : StepGroup(s2, GroupLetter(cm.c, i),
                                                    [j \in 1..ar |-> cm.a[(i - 1) * ar + j]]).st,
                           s, [i \in 1..(Len(cm.a) \div ar) |-> i]),
           S0, cmds)
Incremental == Accepting2 => st = InterpAbs(CmdsOf(toks))

\* emitted by -simulate runs: the token string of every walk that reached the bound
Emit == Len(toks) = MaxTok => PrintT(ToJson(toks))
EmitAcc == Accepting2 => PrintT(ToJson(toks))

LettersAll == CmdBytes
LettersCurvePairs == {77, 67, 99, 83, 115, 81, 113, 84, 116, 76}    \* M C c S s Q q T t L
CoordsLex == 0..6                \* indices into the driver's table of shortest spellings (compact family)
RadiiLex == {0, 1, 3, 5, 6}
CoordsTiny == {0, 1}
CoordsZero == {0}
CoordsSmall == {-1, 0, 1, 2}
RadiiSmall == {0, 1, 2}
RotsSmall == {0, 1}
CoordsSim == {-1, 0, 1, 2, 3, 5, -5, 10, 25, -25, 50, 75, 100, -100, 150, 250, 333, 1000, -1000, 1234, 12345, -9999}
RadiiSim == {0, 1, 2, 5, 25, 100, 150, 1000}
RotsSim == {0, 1, -30, 45, 90, 180, 3600}
=============================================================================
