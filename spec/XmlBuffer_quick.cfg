SPECIFICATION Spec
CONSTANTS N = 5
MaxPeek = 5
Depth = 5
EmitMod = 4
Emit = TRUE
INVARIANTS TypeOK RefinesQueue Emitted
CHECK_DEADLOCK FALSE
