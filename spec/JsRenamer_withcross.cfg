SPECIFICATION Spec
CONSTANTS
 MaxUnits = 2
 LocalNames = {"x", "y"}
 FreeNames = {"a"}
 Top = {"b"}
 MaxParams = 1
 MaxDecl = 2
 Start <- StartAB
 Cont <- ContABC
 DReserved = {"aa"}
 AllowWith = TRUE
 AllowVars = FALSE
 MaxUses = 2
 AllowFlat = FALSE
 MoveAfterRename = FALSE
 OldWith = TRUE
 RestoreOwn = FALSE
INVARIANTS WithCross
CHECK_DEADLOCK FALSE
