----------------------------- MODULE C12Trace -----------------------------
(* Trace validation for C12 (abstract level A: what the property states, nothing about how
   the wrappers are built).  One ndjson line = one session of the real code on one entry
   point: its parameters, the result of the plain reader-to-writer call on the same input
   (want / wct / wxt: byte count, digest, bytes when small, error class and text), and the
   totally ordered event log `ev` (harness events + hook events of minify.VerifTrace).
   The spec steps through the events (one TLC state per event); `st` is the abstract
   session state; the property's clauses (module StreamRel, shared with the design model
   Stream.tla) are invariants evaluated in every state. *)
EXTENDS TraceIO, SequencesExt, StreamRel
VARIABLES l, i, st

Start(k) == IF k <= N THEN St0(Trace[k].h0) ELSE St0("")
Init == l = 1 /\ i = 1 /\ st = Start(1)
Next == /\ l <= N
        /\ IF i <= Len(Trace[l].ev)
           THEN /\ st' = Apply(st, Trace[l].ev[i], Trace[l]) /\ i' = i + 1 /\ l' = l
           ELSE /\ l' = l + 1 /\ i' = 1 /\ st' = Start(l + 1)
Spec == Init /\ [][Next]_<<l, i, st>>

\* clauses evaluated when an event is about to be consumed (state before the event)
StepOK == (l <= N /\ i <= Len(Trace[l].ev)) => \A w \in EventBad(st, Trace[l].ev[i], Trace[l]) : Reject(l, w)
\* clauses evaluated at the end of a session
EndOK == (l <= N /\ i = Len(Trace[l].ev) + 1) => \A w \in FinalBad(st, Trace[l]) : Reject(l, w)
\* design conformance: information only
Drift(k, what) == PrintT(<<"DRIFT", k, what>>)
Design == (l <= N /\ i <= Len(Trace[l].ev)) => \A w \in DesignBad(st, Trace[l].ev[i], Trace[l]) : Drift(l, w)

Total == FoldSeq(LAMBDA x, acc : acc + Len(x.ev) + 1, 0, Trace)
AcceptedAll == TLCGet("stats").diameter = Total + 1
=============================================================================
