----------------------------- MODULE C12Trace -----------------------------
(* Trace validation for C12 (abstract level A: what the property states, nothing about how
   the wrappers are built).  One ndjson line = one session of the real code on one entry
   point: its parameters, the result of the plain reader-to-writer call on the same input
   (want / wct / wxt: byte count, digest, bytes when small, error class and text), and the
   totally ordered event log `ev` (harness events + hook events of minify.VerifTrace).
   The spec steps through the events (one TLC state per event); `st` is the abstract
   session state; the property's clauses are invariants evaluated in every state.

   events  [k, n, c, e, t, b]:
     WriteCall n | WriteRet n e t | CloseCall | CloseRet e t | SinkWrite n e t(digest so far) b
     Read n c e t b | SrcRead n e | Ret n e t b | Commit n(status) c(Content-Length, -1 none) t
     ErrFunc n e t | HandlerRet | GateOpen | Blocked | Panic
     hook.writer.exit e t | hook.reader.exit e t | hook.writer.closewaited
     hook.response.select t | hook.response.passthrough t                                *)
EXTENDS TraceIO, SequencesExt
VARIABLES l, i, st

St0(h0) == [n |-> 0, h |-> h0, b |-> <<>>,
            closecall |-> FALSE, closeret |-> FALSE, closee |-> "", closet |-> "", lastn |-> -1, waited |-> FALSE,
            exit |-> FALSE, exite |-> "", exitt |-> "",
            late |-> FALSE, commit |-> FALSE, ccl |-> -1,
            sel |-> "", selt |-> "",
            ret |-> FALSE, rete |-> "", rett |-> "",
            readend |-> "", readt |-> "",
            errfunc |-> FALSE, erre |-> "", errt |-> "", errsame |-> 0]
Start(k) == IF k <= N THEN St0(Trace[k].h0) ELSE St0("")

Apply(s, e, S) ==
  CASE e.k = "SinkWrite" ->
         IF e.e = "nil"
         THEN [s EXCEPT !.n = @ + e.n, !.h = e.t, !.b = IF S.small THEN @ \o e.b ELSE @,
                        !.late = @ \/ (s.closeret /\ e.n > 0), !.lastn = e.n]
         ELSE [s EXCEPT !.late = @ \/ (s.closeret /\ e.n > 0), !.lastn = e.n]
    [] e.k = "Read" ->
         IF e.e = "nil"
         THEN [s EXCEPT !.n = @ + e.n, !.h = e.t, !.b = IF S.small THEN @ \o e.b ELSE @]
         ELSE [s EXCEPT !.readend = e.e, !.readt = e.t]
    [] e.k = "Ret" ->
         [s EXCEPT !.ret = TRUE, !.rete = e.e, !.rett = e.t, !.n = e.n,
                   !.h = IF e.e = "nil" THEN e.t ELSE @, !.b = IF S.small THEN e.b ELSE @]
    [] e.k = "CloseCall" -> [s EXCEPT !.closecall = TRUE]
    [] e.k = "hook.writer.closewaited" -> [s EXCEPT !.waited = TRUE]
    [] e.k = "CloseRet" -> [s EXCEPT !.closeret = TRUE, !.closee = e.e, !.closet = e.t]
    [] e.k \in {"hook.writer.exit", "hook.reader.exit"} -> [s EXCEPT !.exit = TRUE, !.exite = e.e, !.exitt = e.t]
    [] e.k = "hook.response.select" -> [s EXCEPT !.sel = "select", !.selt = e.t]
    [] e.k = "hook.response.passthrough" -> [s EXCEPT !.sel = "passthrough", !.selt = e.t]
    [] e.k = "Commit" -> IF s.commit THEN s ELSE [s EXCEPT !.commit = TRUE, !.ccl = e.c]
    [] e.k = "ErrFunc" -> [s EXCEPT !.errfunc = TRUE, !.erre = e.e, !.errt = e.t, !.errsame = e.n]
    [] OTHER -> s

Init == l = 1 /\ i = 1 /\ st = Start(1)
Next == /\ l <= N
        /\ IF i <= Len(Trace[l].ev)
           THEN /\ st' = Apply(st, Trace[l].ev[i], Trace[l]) /\ i' = i + 1 /\ l' = l
           ELSE /\ l' = l + 1 /\ i' = 1 /\ st' = Start(l + 1)
Spec == Init /\ [][Next]_<<l, i, st>>

-----------------------------------------------------------------------------
RespModes == {"response", "mw", "mwerr"}
FF(S) == S.ff = 0 /\ S.sf < 0                      \* no fault injected in this session
Same(s, w, S) == s.n = w.n /\ s.h = w.h /\ (S.small => s.b = w.b)
Nothing(S) == [n |-> 0, h |-> S.h0, b |-> <<>>]
Pass(S) == [n |-> S.inn, h |-> S.inh, b |-> S.in]   \* pass-through: the bytes written, unchanged
\* the property's selection rule: "picks the minifier from Content-Type, falling back to the request
\* path extension" (xt = mime.TypeByExtension(path.Ext(RequestURI)), computed by the standard library)
ByCT(S) == S.ct # ""
Sel(S) == IF ByCT(S) THEN S.wct ELSE S.wxt          \* plain call with the mediatype the rule selects
Minifies(S) == Sel(S).e # "notexist"
\* Content-Type present but without a minifier while the extension has one: the sentence can be read
\* either way (fall back, or pass through), so both outcomes are accepted
Ambiguous(S) == ByCT(S) /\ S.wct.e = "notexist" /\ S.wxt.e # "notexist"
\* what the plain reader-to-writer call produces for this session
Ref(S) == IF S.mode \in RespModes
          THEN IF S.nwrite = 0 THEN Nothing(S) ELSE IF Minifies(S) THEN Sel(S) ELSE Pass(S)
          ELSE S.want
RefErr(S) == IF S.mode \in RespModes THEN (IF S.nwrite = 0 \/ ~Minifies(S) THEN [e |-> "nil", t |-> ""] ELSE [e |-> Sel(S).e, t |-> Sel(S).t])
             ELSE [e |-> S.want.e, t |-> S.want.t]
Delivered(s, S) == IF S.mode \in RespModes /\ Ambiguous(S) /\ S.nwrite > 0
                   THEN Same(s, Pass(S), S) \/ Same(s, S.wxt, S)
                   ELSE Same(s, Ref(S), S)
Worker(s, S) == S.mode = "writer" \/ (S.mode \in RespModes /\ s.sel = "select")

\* ---- clauses evaluated when an event is about to be consumed (state before the event) ----
EventOK(s, e, S) ==
  CASE e.k = "SinkWrite" ->
         \* C12 "deliver all output ... by the time Close returns"
         (~(s.closeret /\ e.n > 0)) \/ Reject(l, "NoWriteAfterClose: output reached the sink after Close returned")
    [] e.k = "CloseRet" /\ S.mode \in (RespModes \cup {"writer"}) ->
         /\ (Worker(s, S) => s.exit) \/ Reject(l, "CloseWaits: Close returned before the minifier finished")
         \* C12 "... and the minifier's error by the time Close returns" (hook: error stored by the worker)
         /\ (Worker(s, S) /\ s.exit /\ e.e # "unseen" => (e.e = s.exite /\ e.t = s.exitt))
              \/ Reject(l, "CloseWaits: Close did not return the minifier's error")
         \* C12 "byte-identical output to the plain reader-to-writer call", complete when Close returns
         /\ (FF(S) => Delivered(s, S)) \/ Reject(l, "ChunkingInvariance: bytes delivered when Close returned differ from the plain call")
    [] e.k = "Blocked" -> Reject(l, "CloseReturned: the call blocked")
    [] e.k = "Panic" -> Reject(l, "panic")
    [] OTHER -> TRUE
StepOK == (l <= N /\ i <= Len(Trace[l].ev)) => EventOK(st, Trace[l].ev[i], Trace[l])

\* ---- clauses evaluated at the end of a session ----
FinalOK(s, S) ==
  LET r == RefErr(S) IN
  CASE S.mode = "writer" ->
         /\ s.closeret \/ Reject(l, "CloseReturned: Close did not return")
         /\ (FF(S) => (s.closee = r.e /\ s.closet = r.t)) \/ Reject(l, "CloseWaits: Close result differs from the plain call's error")
         /\ (FF(S) => Delivered(s, S)) \/ Reject(l, "ChunkingInvariance: final bytes differ from the plain call")
    [] S.mode = "reader" ->
         /\ s.readend # "" \/ Reject(l, "CloseReturned: the consumer never saw the end of the stream")
         /\ (FF(S) => Delivered(s, S)) \/ Reject(l, "ChunkingInvariance: bytes read differ from the plain call")
         /\ (FF(S) => IF r.e = "nil" THEN s.readend = "eof" ELSE (s.readend = r.e /\ s.readt = r.t))
              \/ Reject(l, "ChunkingInvariance: reader ended differently from the plain call")
    [] S.mode \in RespModes ->
         /\ s.closeret \/ Reject(l, "CloseReturned: Close / ServeHTTP did not return")
         /\ (FF(S) => Delivered(s, S)) \/ Reject(l, "SelectionRule/ChunkingInvariance: response body differs from the plain call with the selected mediatype")
         /\ (FF(S) /\ S.mode = "response" /\ ~Ambiguous(S) => (s.closee = r.e /\ s.closet = r.t))
              \/ Reject(l, "CloseWaits: Close result differs from the plain call's error")
         /\ (FF(S) /\ S.mode = "mwerr" /\ ~Ambiguous(S) => IF r.e = "nil" THEN ~s.errfunc ELSE (s.errfunc /\ s.erre = r.e /\ s.errt = r.t))
              \/ Reject(l, "CloseWaits: MiddlewareWithError did not hand the minifier's error to the error function")
         \* C12 "the middleware removes a stale Content-Length": committed length absent, or not stale
         /\ (FF(S) /\ S.mode \in {"mw", "mwerr"} /\ s.commit /\ r.e = "nil" => (s.ccl = -1 \/ s.ccl = s.n))
              \/ Reject(l, "ContentLengthGone: response committed with a Content-Length that differs from the body")
    [] S.mode \in {"bytes", "string"} ->
         /\ s.ret \/ Reject(l, "CloseReturned: no result")
         /\ (IF r.e = "nil" THEN s.rete = "nil" /\ Same(s, S.want, S) ELSE (s.rete = r.e /\ s.rett = r.t))
              \/ Reject(l, "ChunkingInvariance: helper result differs from the plain call")
    [] OTHER -> Reject(l, "unknown mode")
EndOK == (l <= N /\ i = Len(Trace[l].ev) + 1) => FinalOK(st, Trace[l])

\* ---- design conformance (level D, information only: never a verdict) ----
\* Facts of the design model Stream.tla that are visible in the event order.  A mismatch means the model no longer
\* describes the code (DRIFT in the evidence); the property itself is judged by StepOK / EndOK only.
Drift(k, what) == PrintT(<<"DRIFT", k, what>>)
DesignOK(s, e, S) ==
  CASE e.k = "SinkWrite" /\ Worker(s, S) ->
         /\ s.closecall \/ Drift(l, "output before end of input")      \* WReadPipe: EOF only after the write side is closed
         /\ ~s.exit \/ Drift(l, "sink write after worker exit")         \* WExit1 follows the probe
    [] e.k = "hook.writer.exit" ->
         (e.e # "nil" \/ s.lastn = 0) \/ Drift(l, "no zero-length probe")   \* WProbeSink is the last sink call
    [] e.k = "hook.writer.closewaited" -> s.exit \/ Drift(l, "Close passed wg.Wait before worker exit")   \* PCloseRet needs wgdone
    [] e.k = "CloseRet" /\ Worker(s, S) -> s.waited \/ Drift(l, "CloseRet without closewaited")
    [] OTHER -> TRUE
Design == (l <= N /\ i <= Len(Trace[l].ev)) => DesignOK(st, Trace[l].ev[i], Trace[l])

Total == FoldSeq(LAMBDA x, acc : acc + Len(x.ev) + 1, 0, Trace)
AcceptedAll == TLCGet("stats").diameter = Total + 1
=============================================================================
