SPECIFICATION Spec
CONSTANTS MaxLen = 2
BitSets <- BitsAll
Fault = "crosstalk"
INVARIANTS Refines
CHECK_DEADLOCK FALSE
