----------------------------- MODULE SvgDocGen -----------------------------
(* C05 - generator automaton of SVG documents, one abstract token per step:
      <<1, e, 0>>  start tag of element e          <<2, a, v>>  attribute a with its v-th value
      <<3, t, 0>>  character data number t         <<4, 0, 0>>  end of the innermost open element
   The element and attribute vocabularies are the rows of the tables in tools/props/c05.py
   (ELEMENTS / ATTRS: how an abstract token is spelled, in which lexical variants, is decided there
   with the seed); this module owns the STRUCTURE: which element may contain which, which
   attribute may sit on which element, no duplicate attributes, proper nesting, depth.  TLC
   enumerates all documents up to MaxTok tokens over a reduced vocabulary (BFS) and walks the full
   vocabulary randomly (-simulate).

   Element ids:  1 svg  2 g  3 path  4 rect  5 text  6 tspan  7 defs  8 metadata  9 use  10 style
                 11 linearGradient  12 stop  13 ed:note (editor namespace)  14 svg:g  15 foreignObject
                 16 circle  17 a  18 title  19 svg:rect  20 polyline
   Attribute ids: see AttrsOf.                                                            *)
EXTENDS Integers, Sequences, FiniteSets, TLC, Json
CONSTANTS MaxTok, MinTok, MaxDepth, MaxAttrs, Els, Ats, NVals, NTexts, SvgPrefixChildren
VARIABLES toks, stack, intag, used, lastText
vars == <<toks, stack, intag, used, lastText>>

Leaves == {3, 4, 9, 12, 15, 16, 19, 20}
Shapes == {3, 4, 16, 20, 19}
GroupKids == {1, 2, 3, 4, 5, 7, 8, 9, 10, 11, 13, 14, 15, 16, 17, 18, 19, 20}
ChildrenOf(e) ==
  CASE e \in {1, 2, 7, 17} -> GroupKids
    [] e = 14 -> IF SvgPrefixChildren THEN GroupKids ELSE {}
    [] e = 8 -> {13, 3, 2}
    [] e = 11 -> {12}
    [] e \in {5, 6} -> {6}
    [] e = 13 -> {13}
    [] OTHER -> {}
TextIn == {5, 6, 10, 18, 13, 2}

(* Attribute ids:
   1 id  2 fill  3 stroke  4 width  5 height  6 x  7 y  8 viewBox  9 version  10 preserveAspectRatio
   11 baseProfile  12 d  13 transform  14 class  15 style  16 ed:attr (editor namespace)
   17 xlink:href  18 xml:space  19 points  20 opacity  21 stroke-width  22 offset  23 stop-color
   24 href  25 contentScriptType  26 contentStyleType  27 type  28 xml:lang  29 r  30 cx
   31 font-size  32 x1                                                                  *)
Common == {1, 2, 3, 13, 14, 15, 16, 20, 21}
AttrsOf(e) ==
  CASE e = 1 -> Common \cup {4, 5, 6, 7, 8, 9, 10, 11, 25, 26, 18, 28}
    [] e \in {2, 14, 17} -> Common \cup {18, 28} \cup (IF e = 17 THEN {17, 24} ELSE {})
    [] e = 3 -> Common \cup {12}
    [] e \in {4, 19} -> Common \cup {4, 5, 6, 7}
    [] e \in {5, 6} -> Common \cup {6, 7, 18, 28, 31}
    [] e = 7 -> {1, 16}
    [] e = 8 -> {1, 16}
    [] e = 9 -> Common \cup {6, 7, 4, 5, 17, 24}
    [] e = 10 -> {27, 1}
    [] e = 11 -> {1, 17, 24, 32, 13}
    [] e = 12 -> {22, 23, 15, 1}
    [] e = 13 -> {1, 16, 2}
    [] e = 15 -> {4, 5, 6, 7, 1}
    [] e = 16 -> Common \cup {29, 30}
    [] e = 18 -> {1}
    [] e = 20 -> Common \cup {19}
    [] OTHER -> {}

\* NVals: number of value variants per attribute (columns of ATTRS in c05.py; the driver maps an
\* index to a row entry modulo the row length)

Init == toks = <<<<1, 1, 0>>>> /\ stack = <<1>> /\ intag = TRUE /\ used = {} /\ lastText = FALSE

Top == stack[Len(stack)]
Open(e) ==
  /\ stack # <<>> /\ e \in Els /\ e \in ChildrenOf(Top) /\ Len(stack) < MaxDepth
  /\ toks' = Append(toks, <<1, e, 0>>) /\ stack' = Append(stack, e)
  /\ intag' = TRUE /\ used' = {} /\ lastText' = FALSE
Attr(a, v) ==
  /\ stack # <<>> /\ intag /\ a \in Ats /\ a \in AttrsOf(Top) /\ a \notin used /\ Cardinality(used) < MaxAttrs
  /\ toks' = Append(toks, <<2, a, v>>) /\ used' = used \cup {a}
  /\ UNCHANGED <<stack, intag, lastText>>
Text(t) ==
  /\ stack # <<>> /\ Top \in TextIn /\ ~lastText
  /\ toks' = Append(toks, <<3, t, 0>>) /\ intag' = FALSE /\ used' = {} /\ lastText' = TRUE
  /\ UNCHANGED stack
Close ==
  /\ stack # <<>>
  /\ Len(stack) = 1 => Len(toks) >= MinTok          \* (random walks: do not finish the document too early)
  /\ toks' = Append(toks, <<4, 0, 0>>) /\ stack' = SubSeq(stack, 1, Len(stack) - 1)
  /\ intag' = FALSE /\ used' = {} /\ lastText' = FALSE

\* there must be room left to close what is open
Room(k) == Len(toks) + Len(stack) + k <= MaxTok
Next == \/ (Room(2) /\ \E e \in Els : Open(e))
        \/ (Room(1) /\ \E a \in Ats : \E v \in 1..NVals : Attr(a, v))
        \/ (Room(1) /\ \E t \in 1..NTexts : Text(t))
        \/ Close
Spec == Init /\ [][Next]_vars

(* design-level sanity of the generator itself *)
Balanced == LET opens == Cardinality({i \in 1..Len(toks) : toks[i][1] = 1})
                closes == Cardinality({i \in 1..Len(toks) : toks[i][1] = 4})
            IN opens - closes = Len(stack)
Nesting == \A i \in 2..Len(stack) : stack[i] \in ChildrenOf(stack[i - 1])
Fits == Len(toks) + Len(stack) <= MaxTok
EmitDone == stack = <<>> => PrintT(ToJson(toks))

ElsSmall == {2, 3, 5, 6, 7, 8, 13, 19}
AtsSmall == {1, 2, 16}
ElsAll == 1..20
AtsAll == 1..32
AtsNoPrefixed == AtsAll \ {17, 18, 28}        \* without xlink:href, xml:space, xml:lang
AtsNoXlink == AtsAll \ {17}
AtsNoXml == AtsAll \ {18, 28}
=============================================================================
