----------------------------- MODULE StreamRel -----------------------------
(* The property relation of C12 (abstract level A), written once and used twice:
     - C12Trace.tla evaluates it on the event logs recorded from the real code (code => A);
     - Stream.tla carries it as a monitor over the events its own actions emit, and TLC checks
       that no behaviour of the design model is ever flagged (D => A, all interleavings), so a
       clause can only reject what the correct design cannot do.
   A session is a header S (parameters + the result of the plain reader-to-writer call on the
   same input: want / wct / wxt = [n, h, b, e, t]) and a totally ordered sequence of events
   [k, n, c, e, t, b].  `s` is the abstract session state; EventBad / FinalBad return the set
   of violated clauses (empty = accepted).

   events:
     WriteCall n | WriteRet n e t | CloseCall | CloseRet e t | SinkWrite n e t(digest so far) b
     Read n c e t b | SrcRead n e | Ret n e t b | Commit n(status) c(Content-Length, -1 none) t
     ErrFunc n e t | HandlerRet | GateOpen | Blocked | Panic | LateWriteRet n e t | Close2Ret e t
     hook.writer.exit e t | hook.reader.exit e t | hook.writer.closewaited
     hook.response.select t | hook.response.passthrough t                                *)
EXTENDS Integers, Sequences

St0(h0) == [n |-> 0, h |-> h0, b |-> <<>>,
            closecall |-> FALSE, closeret |-> FALSE, closee |-> "", closet |-> "", lastn |-> -1, waited |-> FALSE,
            exit |-> FALSE, exite |-> "", exitt |-> "",
            late |-> FALSE, commit |-> FALSE, ccl |-> -1,
            sel |-> "", selt |-> "",
            ret |-> FALSE, rete |-> "", rett |-> "",
            readend |-> "", readt |-> "",
            errfunc |-> FALSE, erre |-> "", errt |-> "", errsame |-> 0, close2 |-> FALSE]

Apply(s, e, S) ==
  CASE e.k = "SinkWrite" ->
         IF e.e = "nil"
         THEN [s EXCEPT !.n = @ + e.n, !.h = e.t, !.b = IF S.small THEN @ \o e.b ELSE @,
                        !.late = @ \/ (s.closeret /\ e.n > 0), !.lastn = e.n]
         ELSE [s EXCEPT !.late = @ \/ (s.closeret /\ e.n > 0), !.lastn = e.n]
    [] e.k = "Read" ->
         IF e.e = "nil"
         THEN [s EXCEPT !.n = @ + e.n, !.h = e.t, !.b = IF S.small THEN @ \o e.b ELSE @]
         ELSE [s EXCEPT !.readend = e.e, !.readt = e.t]
    [] e.k = "Ret" ->
         [s EXCEPT !.ret = TRUE, !.rete = e.e, !.rett = e.t, !.n = e.n,
                   !.h = IF e.e = "nil" THEN e.t ELSE @, !.b = IF S.small THEN e.b ELSE @]
    [] e.k = "CloseCall" -> [s EXCEPT !.closecall = TRUE]
    [] e.k = "hook.writer.closewaited" -> [s EXCEPT !.waited = TRUE]
    [] e.k = "CloseRet" -> [s EXCEPT !.closeret = TRUE, !.closee = e.e, !.closet = e.t]
    [] e.k \in {"hook.writer.exit", "hook.reader.exit"} -> [s EXCEPT !.exit = TRUE, !.exite = e.e, !.exitt = e.t]
    [] e.k = "hook.response.select" -> [s EXCEPT !.sel = "select", !.selt = e.t]
    [] e.k = "hook.response.passthrough" -> [s EXCEPT !.sel = "passthrough", !.selt = e.t]
    [] e.k = "Commit" -> IF s.commit THEN s ELSE [s EXCEPT !.commit = TRUE, !.ccl = e.c]
    [] e.k = "Close2Ret" -> [s EXCEPT !.close2 = TRUE]
    [] e.k = "ErrFunc" -> [s EXCEPT !.errfunc = TRUE, !.erre = e.e, !.errt = e.t, !.errsame = e.n]
    [] OTHER -> s

-----------------------------------------------------------------------------
RespModes == {"response", "mw", "mwerr"}
FF(S) == S.ff = 0 /\ S.sf < 0                      \* no fault injected in this session
Same(s, w, S) == s.n = w.n /\ s.h = w.h /\ (S.small => s.b = w.b)
Nothing(S) == [n |-> 0, h |-> S.h0, b |-> <<>>]
Pass(S) == [n |-> S.inn, h |-> S.inh, b |-> S.in]   \* pass-through: the bytes written, unchanged
\* the property's selection rule: "picks the minifier from Content-Type, falling back to the request
\* path extension" (xt = type of the request path's extension, computed by the standard library)
ByCT(S) == S.ct # ""
Sel(S) == IF ByCT(S) THEN S.wct ELSE S.wxt          \* plain call with the mediatype the rule selects
Minifies(S) == Sel(S).e # "notexist"
\* Content-Type present but without a minifier: the Content-Type still decides (the extension is the fallback only
\* when there is no Content-Type; README: "or, if the header is empty, by the request URI file extension"), so the
\* body passes through even if the extension has a minifier
\* what the plain reader-to-writer call produces for this session
Ref(S) == IF S.mode \in RespModes
          THEN IF S.nwrite = 0 THEN Nothing(S) ELSE IF Minifies(S) THEN Sel(S) ELSE Pass(S)
          ELSE S.want
RefErr(S) == IF S.mode \in RespModes
             THEN (IF S.nwrite = 0 \/ ~Minifies(S) THEN [e |-> "nil", t |-> ""] ELSE [e |-> Sel(S).e, t |-> Sel(S).t])
             ELSE [e |-> S.want.e, t |-> S.want.t]
Delivered(s, S) == Same(s, Ref(S), S)
HasWorker(s, S) == S.mode = "writer" \/ (S.mode \in RespModes /\ s.sel = "select")
If(cond, name) == IF cond THEN {} ELSE {name}

\* ---- clauses evaluated when an event is about to be consumed (s = state before the event) ----
EventBad(s, e, S) ==
  CASE e.k = "SinkWrite" ->
         \* C12 "deliver all output ... by the time Close returns"
         If(~(s.closeret /\ e.n > 0), "NoWriteAfterClose: output reached the sink after Close returned")
    [] e.k = "CloseRet" /\ S.mode \in (RespModes \cup {"writer"}) ->
         If(HasWorker(s, S) => s.exit, "CloseWaits: Close returned before the minifier finished")
         \* C12 "... and the minifier's error by the time Close returns" (hook: error stored by the worker)
         \cup If(HasWorker(s, S) /\ s.exit /\ e.e # "unseen" => (e.e = s.exite /\ e.t = s.exitt),
                 "CloseWaits: Close did not return the minifier's error")
         \* C12 "byte-identical output to the plain reader-to-writer call", complete when Close returns
         \cup If(FF(S) => Delivered(s, S), "ChunkingInvariance: bytes delivered when Close returned differ from the plain call")
    [] e.k = "Blocked" -> {"CloseReturned: the call blocked"}
    [] e.k = "Panic" -> {"panic"}
    [] OTHER -> {}

\* ---- clauses evaluated at the end of a session ----
FinalBad(s, S) ==
  LET r == RefErr(S) IN
  CASE S.mode = "writer" ->
         If(s.closeret, "CloseReturned: Close did not return")
         \* C14 "Close always returns" - also when it is called again after a late Write
         \cup If(S.after => s.close2, "CloseReturned: second Close did not return")
         \cup If(FF(S) => (s.closee = r.e /\ s.closet = r.t), "CloseWaits: Close result differs from the plain call's error")
         \cup If(FF(S) => Delivered(s, S), "ChunkingInvariance: final bytes differ from the plain call")
    [] S.mode = "reader" ->
         If(s.readend # "", "CloseReturned: the consumer never saw the end of the stream")
         \cup If(FF(S) => Delivered(s, S), "ChunkingInvariance: bytes read differ from the plain call")
         \cup If(FF(S) => IF r.e = "nil" THEN s.readend = "eof" ELSE (s.readend = r.e /\ s.readt = r.t),
                 "ChunkingInvariance: reader ended differently from the plain call")
    [] S.mode \in RespModes ->
         If(s.closeret, "CloseReturned: Close / ServeHTTP did not return")
         \cup If(S.after => s.close2, "CloseReturned: second Close did not return")
         \cup If(FF(S) => Delivered(s, S),
                 "SelectionRule/ChunkingInvariance: response body differs from the plain call with the selected mediatype")
         \cup If(FF(S) /\ S.mode = "response" => (s.closee = r.e /\ s.closet = r.t),
                 "CloseWaits: Close result differs from the plain call's error")
         \cup If(FF(S) /\ S.mode = "mwerr" =>
                    IF r.e = "nil" THEN ~s.errfunc ELSE (s.errfunc /\ s.erre = r.e /\ s.errt = r.t),
                 "CloseWaits: MiddlewareWithError did not hand the minifier's error to the error function")
         \* C12 "the middleware removes a stale Content-Length": committed length absent, or not stale
         \cup If(FF(S) /\ S.mode \in {"mw", "mwerr"} /\ s.commit /\ r.e = "nil" => (s.ccl = -1 \/ s.ccl = s.n),
                 "ContentLengthGone: response committed with a Content-Length that differs from the body")
    [] S.mode \in {"bytes", "string"} ->
         If(s.ret, "CloseReturned: no result")
         \cup If(IF r.e = "nil" THEN s.rete = "nil" /\ Same(s, S.want, S) ELSE (s.rete = r.e /\ s.rett = r.t),
                 "ChunkingInvariance: helper result differs from the plain call")
    [] OTHER -> {"unknown mode"}

\* ---- design conformance (level D, information only: never a verdict) ----
\* Facts of the design model Stream.tla that are visible in the event order.  A mismatch means the model no
\* longer describes the code (DRIFT in the evidence); the property itself is judged by EventBad / FinalBad only.
DesignBad(s, e, S) ==
  CASE e.k = "SinkWrite" /\ HasWorker(s, S) ->
         If(s.closecall, "output before end of input")           \* WReadPipe: EOF only after the write side is closed
         \cup If(~s.exit, "sink write after worker exit")          \* WExit1 follows the probe
    [] e.k = "hook.writer.exit" -> If(e.e # "nil" \/ s.lastn = 0, "no zero-length probe")   \* WProbeSink is the last sink call
    [] e.k = "hook.writer.closewaited" -> If(s.exit, "Close passed wg.Wait before worker exit")   \* PCloseRet needs wgdone
    [] e.k = "CloseRet" /\ HasWorker(s, S) -> If(s.waited, "CloseRet without closewaited")
    [] e.k = "LateWriteRet" -> If(e.e = "closedpipe", "Write after Close is not ErrClosedPipe")    \* PLateWrite
    [] e.k = "Close2Ret" -> If(e.e = "nil", "second Close is not nil")                               \* PClose2
    [] e.k = "ErrFunc" -> If(e.n = 1, "error function not called with the wrapped ResponseWriter")
    [] OTHER -> {}
=============================================================================
