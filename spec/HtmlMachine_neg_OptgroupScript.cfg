SPECIFICATION Spec
CONSTANTS MaxNodes = 4
MaxDepth = 3
DocMode = FALSE
Vocab <- VocabNeg
TextKinds <- TK3
OptSets <- Opts1
Bugs <- BugOptgroupScript
INVARIANTS BuilderSound DesignRefines
CHECK_DEADLOCK FALSE
