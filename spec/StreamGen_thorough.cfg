SPECIFICATION GenSpec
CONSTANTS
 Input <- In3
 MaxOut = 2
 PieceLen = 1
 MaxBuf = 3
 Modes <- ModesAll
 PatchCL = TRUE
 Mut = "none"
 RecordHist = FALSE
 Monitor = FALSE
 FullProduct = TRUE
 MaxN = 8
INVARIANT EmitInit
CHECK_DEADLOCK FALSE
