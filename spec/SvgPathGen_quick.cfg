SPECIFICATION Spec
CONSTANTS MaxTok = 7
MaxGroups = 1000
Letters <- LettersAll
Modes <- ModesFree
Coords <- CoordsSmall
Radii <- RadiiSmall
Rots <- RotsSmall
ExclZ = TRUE
ExclDeg = TRUE
ExclZeroL = TRUE
INVARIANTS InRange Counters Incremental EmitAcc
CHECK_DEADLOCK FALSE
