SPECIFICATION Spec
CONSTANTS Shared = FALSE
MaxCalls = 3
Form <- FormInOut
INVARIANT EachCallOwnInput
CHECK_DEADLOCK FALSE
