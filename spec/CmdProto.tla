----------------------------- MODULE CmdProto -----------------------------
(* Design model of the temp-file protocol of minify's command minifier (AddCmd / AddCmdRegexp,
   minify.go cmdMinifier.Minify).  CmdProto.cfg (Shared = FALSE) is the protocol of the code since
   fix fd040d4: the argument vector is copied per call.  CmdProto_shared.cfg (Shared = TRUE) is the
   earlier, wrong design (vector shared with the registered command); TLC must find it violating
   EachCallOwnInput - it is kept as the vacuity guard of that invariant.

   A registered command has an argument vector in which "$in" / "$out" stand for temp files.
   Every call   copies the exec.Cmd struct and (Shared = FALSE) its argument vector; with Shared = TRUE
                the vector of the copy IS the registered one (the defect fixed by fd040d4),
                replaces "$in" by a fresh input file holding the call's input (else the input goes
                to stdin) and "$out" by a fresh output file (else stdout is the writer),
                runs the command (`cat`: copies the named input file, or stdin, to the named output
                file, or stdout), and finally copies the output file to the writer.
   Property     every call returns its own input (EachCallOwnInput), for any number of calls. *)
EXTENDS Integers, Sequences, TLC

CONSTANTS Shared,      \* FALSE: argument vector copied per call (the code); TRUE: shared vector (wrong design, guard)
          Forms,       \* argument vectors explored: sequences over {ArgIn, ArgOut, ArgLit} ("$in", "$out", any other
                       \* argument), each marker at most once
          MaxCalls

ArgIn == -1  ArgOut == -2  ArgLit == 0      \* markers; positive numbers are temp file names

VARIABLES form,        \* the argument vector as registered (never changes; the command script knows it by position)
          regArgs,     \* the registered command's argument vector (backing array)
          files,       \* temp files: sequence of contents (index = file name)
          results      \* per call: [inp, out]
vars == <<form, regArgs, files, results>>

Init == form \in Forms /\ regArgs = form /\ files = <<>> /\ results = <<>>

\* the command itself (e.g. sh -c 'cat "$0" > "$1"' $in $out) takes its file names by argument POSITION:
\* where the registered form says $in it reads the file named there, where it says $out it writes there
Pos(what) == IF \E i \in DOMAIN form : form[i] = what THEN CHOOSE i \in DOMAIN form : form[i] = what ELSE 0

Call(inp) ==
  /\ Len(results) < MaxCalls
  /\ LET args0   == regArgs                                   \* *cmd = *c.cmd : Args shares the backing array
         subIn   == \E i \in DOMAIN args0 : args0[i] = ArgIn  \* strings.Index(arg, "$in") != -1 in this call
         subOut  == \E i \in DOMAIN args0 : args0[i] = ArgOut
         inFile  == Len(files) + 1
         outFile == Len(files) + (IF subIn THEN 2 ELSE 1)
         args1   == [i \in DOMAIN args0 |-> IF args0[i] = ArgIn THEN inFile ELSE IF args0[i] = ArgOut THEN outFile ELSE args0[i]]
         files1  == IF subIn THEN Append(files, inp) ELSE files    \* io.Copy(in, r); otherwise cmd.Stdin = r
         files2  == IF subOut THEN Append(files1, <<>>) ELSE files1
         data    == IF Pos(ArgIn) # 0 THEN files2[args1[Pos(ArgIn)]] ELSE inp      \* what the command reads
         files3  == IF Pos(ArgOut) # 0 THEN [files2 EXCEPT ![args1[Pos(ArgOut)]] = data] ELSE files2
         stdout  == IF Pos(ArgOut) # 0 THEN <<>> ELSE data
         written == IF subOut THEN files3[outFile] ELSE stdout     \* defer io.Copy(w, out); otherwise cmd.Stdout = w
     IN /\ form' = form
        /\ files' = files3
        /\ results' = Append(results, [inp |-> inp, out |-> written])
        /\ regArgs' = IF Shared THEN args1 ELSE regArgs            \* cmd.Args[i] = ... writes through the shared array
Next == \E inp \in {<<1>>, <<2>>, <<3>>} : Call(inp)
Spec == Init /\ [][Next]_vars

AllForms == {<<ArgLit, ArgIn, ArgOut>>, <<ArgLit, ArgIn>>, <<ArgLit, ArgOut>>, <<ArgLit>>, <<ArgOut, ArgLit, ArgIn>>}
TempFileForms == AllForms \ {<<ArgLit>>}
EachCallOwnInput == \A k \in DOMAIN results : results[k].out = results[k].inp
=============================================================================
