----------------------------- MODULE C03Trace -----------------------------
(* Trace validation for C03.  One line = one call of the real html.Minifier.Minify
   (only text/html registered) on one document:
     [id, opts, frag, err, panic, in, out]
   in/out = DOM event lists of input and output text as built by golang.org/x/net/html
   (harness/cmd/c03).  The relation HtmlEq of HtmlDom is evaluated clause by clause so that a
   rejected line names the clause. *)
EXTENDS HtmlDom, TraceIO
VARIABLE l
Init == l = 1
Next == l <= N /\ l' = l + 1
Spec == Init /\ [][Next]_l

LineOK(e) ==
  /\ (~e.panic \/ Reject(l, "panic"))
  /\ (~e.err \/ Reject(l, "error"))
  /\ (e.panic \/ e.err \/
      \E A \in {Norm(e.in)} : \E Bn \in {Norm(e.out)} :     \* (bound once: TLC re-evaluates LET definitions per mention)
      /\ (ShapeEq(A, Bn) \/ Reject(l, "shape"))
      /\ (RenderEq(A, Bn) \/ Reject(l, "render"))
      /\ (~ShapeEq(A, Bn) \/
          /\ (CommentEq(e.in, e.out) \/ Reject(l, "comment"))
          /\ (TextEq(A, Bn) \/ Reject(l, "text"))
          /\ (AttrEq(A, Bn) \/ Reject(l, "attr"))))
Conforms == l <= N => LineOK(Trace[l])
=============================================================================
