SPECIFICATION Spec
CONSTANTS D = 3
INVARIANTS ChainAccepted ChainValid
CHECK_DEADLOCK FALSE
