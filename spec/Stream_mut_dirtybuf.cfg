SPECIFICATION Spec
CONSTANTS
 Input <- In2
 MaxOut = 2
 PieceLen = 2
 MaxBuf = 3
 Modes <- ModesB
 PatchCL = TRUE
 Mut = "dirtybuf"
 RecordHist = FALSE
 Monitor = TRUE
 FullProduct = FALSE
INVARIANTS ChunkingInvariance PassThrough CloseWaits ContentLengthGone SelectionRule FaultSurfaces NoSilentTruncation NotExistSurfaces NoPartialInput MonitorQuiet MonitorFinal
PROPERTIES NoWriteAfterClose CloseReturned
