SPECIFICATION Spec
CONSTANTS MaxNodes = 14
MaxDepth = 5
DocMode = FALSE
Vocab <- VocabFrag
TextKinds <- TK6
OptSets <- Opts4
Bugs <- NoBugs
INVARIANTS BuilderSound DesignRefines EmitToks
CHECK_DEADLOCK FALSE
