SPECIFICATION Spec
CONSTANTS MaxNodes = 3
MaxDepth = 3
DocMode = FALSE
Vocab <- VocabSmall
TextKinds <- TK3
OptSets <- Opts4
INVARIANTS BuilderSound DesignRefines
CHECK_DEADLOCK FALSE
