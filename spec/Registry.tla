----------------------------- MODULE Registry -----------------------------
(* C15 (and the base of C11/Embed): the media type registry of minify.M.

   State       lit   : function  mimetype bytes -> entry       (M.literal)
               pats  : sequence of [pat, id, kind, cmd]          (M.pattern, registration order)
               hist  : the registration history (history variable; only the reference
                       model RefLookup and the generator look at it)
   Actions     Add / AddFunc / AddCmd  (replace the literal entry)
               AddRegexp / AddFuncRegexp / AddCmdRegexp  (append a pattern)
   Queries     Match(q), Minify(q) are functions of the state: Lookup(lit, pats, Split(q).mime)

   All media types are sequences of byte codes (TLA+ strings are atomic).  Patterns are
   identified by an index; PatMatch gives each index the meaning of one concrete regular
   expression that the harness registers (harness/cmd/c15, harness/cmd/c11 use the same table). *)
EXTENDS Integers, Sequences, FiniteSets, TLC, SequencesExt, Functions

CONSTANTS MaxRegs       \* bound on the number of registrations explored by the design model

VARIABLES lit, pats, hist
rvars == <<lit, pats, hist>>

-----------------------------------------------------------------------------
(* byte constants *)
SP == 32   SEMI == 59   EQ == 61   SLASH == 47   PLUS == 43

bTextCss    == <<116,101,120,116,47,99,115,115>>                              \* text/css
bSvg        == <<105,109,97,103,101,47,115,118,103,43,120,109,108>>           \* image/svg+xml
bTextXml    == <<116,101,120,116,47,120,109,108>>                             \* text/xml
bAppXml     == <<97,112,112,108,105,99,97,116,105,111,110,47,120,109,108>>    \* application/xml
bTextPlain  == <<116,101,120,116,47,112,108,97,105,110>>                      \* text/plain
bAppJson    == <<97,112,112,108,105,99,97,116,105,111,110,47,106,115,111,110>> \* application/json
bTextCSSuc  == <<84,101,120,116,47,67,83,83>>                                 \* Text/CSS
bTextStar   == <<116,101,120,116,47,42>>                                      \* text/*
bStarStar   == <<42,47,42>>                                                   \* */*
bTextSl     == <<116,101,120,116,47>>                                         \* text/
bXml        == <<120,109,108>>                                                \* xml
bJson       == <<106,115,111,110>>                                            \* json
bImageSl    == <<105,109,97,103,101,47>>                                      \* image/
bCharset    == <<99,104,97,114,115,101,116>>                                  \* charset
bUtf8       == <<85,84,70,45,56>>                                             \* UTF-8
bVersion    == <<118,101,114,115,105,111,110>>                                \* version
b20         == <<50,46,48>>                                                   \* 2.0
bBase64     == <<98,97,115,101,54,52>>                                        \* base64
bInline     == <<105,110,108,105,110,101>>                                    \* inline
b1          == <<49>>                                                         \* 1
JsTypes == { <<97,112,112,108,105,99,97,116,105,111,110,47,106,97,118,97,115,99,114,105,112,116>>,          \* application/javascript
             <<116,101,120,116,47,106,97,118,97,115,99,114,105,112,116>>,                                   \* text/javascript
             <<97,112,112,108,105,99,97,116,105,111,110,47,101,99,109,97,115,99,114,105,112,116>>,          \* application/ecmascript
             <<116,101,120,116,47,101,99,109,97,115,99,114,105,112,116>>,                                   \* text/ecmascript
             <<97,112,112,108,105,99,97,116,105,111,110,47,120,45,106,97,118,97,115,99,114,105,112,116>>,   \* application/x-javascript
             <<116,101,120,116,47,120,45,106,97,118,97,115,99,114,105,112,116>>,                            \* text/x-javascript
             <<97,112,112,108,105,99,97,116,105,111,110,47,120,45,101,99,109,97,115,99,114,105,112,116>>,   \* application/x-ecmascript
             <<116,101,120,116,47,120,45,101,99,109,97,115,99,114,105,112,116>> }                           \* text/x-ecmascript

BHasPrefix(b, p) == Len(b) >= Len(p) /\ SubSeq(b, 1, Len(p)) = p
BHasSuffix(b, p) == Len(b) >= Len(p) /\ SubSeq(b, Len(b) - Len(p) + 1, Len(b)) = p
HasSub(b, p) == \E i \in 1..(Len(b) - Len(p) + 1) : SubSeq(b, i, i + Len(p) - 1) = p

-----------------------------------------------------------------------------
(* Patterns.  Index -> meaning of the Go regular expression registered by the harness
   (RE2 semantics: unanchored search, '$' only at the end of the text, '.*' matches the
   empty string and therefore always succeeds). *)
NPat == 6
PatMatch(p, b) ==
  CASE p = 1 -> BHasPrefix(b, bTextSl)                                          \* ^text/
    [] p = 2 -> \E c \in {SLASH, PLUS} : BHasSuffix(b, <<c>> \o bXml)           \* [/+]xml$
    [] p = 3 -> TRUE                                                            \* .*
    [] p = 4 -> b \in JsTypes                          \* ^(application|text)/(x-)?(java|ecma)script$
    [] p = 5 -> HasSub(b, bImageSl)                                           \* image/.*   (README example)
    [] p = 6 -> \E c \in {SLASH, PLUS} : BHasSuffix(b, <<c>> \o bJson)          \* [/+]json$

-----------------------------------------------------------------------------
(* Split: the documented form  type/subtype; key1=val1; key2=val2  (README "Mediatypes";
   parse.Mediatype: "splits the mimetype from the parameters"; its test table fixes blanks:
   leading blanks dropped, blanks allowed around ';' and '=', a key without '=' has the
   empty value, anything after the mimetype that is not a ';' ends the media type).
   No case folding, no unquoting.  A one-pass automaton over the bytes:
     0 leading blanks   1 mimetype   2 blanks after mimetype   3 blanks before key   4 key
     5 blanks after key 6 blanks after '='   7 value   8 blanks after value   9 rest ignored *)
SetParam(ps, k, v) == Append(SelectSeq(ps, LAMBDA p : p[1] # k), <<k, v>>)     \* a map: last one wins
Flush(s) == [s EXCEPT !.params = SetParam(s.params, s.key, s.val), !.key = <<>>, !.val = <<>>]
SplitStep(s, c) ==
  CASE s.ph = 0 -> IF c = SP THEN s ELSE [s EXCEPT !.ph = 1, !.mime = <<c>>]
    [] s.ph = 1 -> IF c = SEMI THEN [s EXCEPT !.ph = 3] ELSE IF c = SP THEN [s EXCEPT !.ph = 2]
                   ELSE [s EXCEPT !.mime = Append(s.mime, c)]
    [] s.ph = 2 -> IF c = SP THEN s ELSE IF c = SEMI THEN [s EXCEPT !.ph = 3] ELSE [s EXCEPT !.ph = 9]
    [] s.ph = 3 -> IF c = SP THEN s ELSE IF c = EQ THEN [s EXCEPT !.ph = 6]
                   ELSE IF c = SEMI THEN [Flush(s) EXCEPT !.ph = 3] ELSE [s EXCEPT !.ph = 4, !.key = <<c>>]
    [] s.ph = 4 -> IF c = SP THEN [s EXCEPT !.ph = 5] ELSE IF c = EQ THEN [s EXCEPT !.ph = 6]
                   ELSE IF c = SEMI THEN [Flush(s) EXCEPT !.ph = 3] ELSE [s EXCEPT !.key = Append(s.key, c)]
    [] s.ph = 5 -> IF c = SP THEN s ELSE IF c = EQ THEN [s EXCEPT !.ph = 6]
                   ELSE IF c = SEMI THEN [Flush(s) EXCEPT !.ph = 3] ELSE [Flush(s) EXCEPT !.ph = 9]
    [] s.ph = 6 -> IF c = SP THEN s ELSE IF c = SEMI THEN [Flush(s) EXCEPT !.ph = 3]
                   ELSE [s EXCEPT !.ph = 7, !.val = <<c>>]
    [] s.ph = 7 -> IF c = SEMI THEN [Flush(s) EXCEPT !.ph = 3] ELSE IF c = SP THEN [s EXCEPT !.ph = 8]
                   ELSE [s EXCEPT !.val = Append(s.val, c)]
    [] s.ph = 8 -> IF c = SP THEN s ELSE IF c = SEMI THEN [Flush(s) EXCEPT !.ph = 3] ELSE [Flush(s) EXCEPT !.ph = 9]
    [] OTHER   -> s
Split(b) ==
  LET s0 == [ph |-> 0, mime |-> <<>>, key |-> <<>>, val |-> <<>>, params |-> <<>>]
      e  == FoldLeft(SplitStep, s0, b)
      f  == IF e.ph \in 3..8 THEN Flush(e) ELSE e
  IN [mime |-> f.mime, params |-> f.params]
ParamSet(ps) == {ps[i] : i \in DOMAIN ps}                \* set of <<key, value>> pairs

-----------------------------------------------------------------------------
(* The registry proper *)
LitKinds == {"Add", "AddFunc", "AddCmd"}
PatKinds == {"AddRegexp", "AddFuncRegexp", "AddCmdRegexp"}
None == [id |-> 0, kind |-> "none", cmd |-> 0, via |-> 0]

\* Add/AddFunc/AddCmd: "re-registering a literal type replaces the earlier minifier"
RegLit(kind, mime, id, cmd) ==
  /\ lit' = (mime :> [id |-> id, kind |-> kind, cmd |-> cmd]) @@ lit
  /\ pats' = pats
\* AddRegexp/AddFuncRegexp/AddCmdRegexp: patterns are kept in registration order
RegPat(kind, p, id, cmd) ==
  /\ pats' = Append(pats, [pat |-> p, id |-> id, kind |-> kind, cmd |-> cmd])
  /\ lit' = lit

\* "served by the minifier registered literally for type/subtype if there is one, otherwise by the
\*  first-registered pattern that matches it, otherwise it fails with the not-exist error"
LookupIn(l, ps, mime) ==
  IF mime \in DOMAIN l THEN [id |-> l[mime].id, kind |-> l[mime].kind, cmd |-> l[mime].cmd, via |-> 0]
  ELSE LET ms == SelectSeq(ps, LAMBDA p : PatMatch(p.pat, mime))
       IN IF ms = <<>> THEN None
          ELSE [id |-> ms[1].id, kind |-> ms[1].kind, cmd |-> ms[1].cmd, via |-> ms[1].pat]
Lookup(mime) == LookupIn(lit, pats, mime)

-----------------------------------------------------------------------------
(* Design model: every registration history up to MaxRegs over 3 literal types and 3 patterns
   with overlapping match sets. *)
LitType == <<bTextCss, bSvg, bTextXml>>
DesignPats == {1, 2, 3}

RInit == lit = <<>> /\ pats = <<>> /\ hist = <<>>
Register(kind, t) ==
  /\ Len(hist) < MaxRegs
  /\ LET id == Len(hist) + 1 IN
       IF kind \in LitKinds THEN RegLit(kind, LitType[t], id, 0) ELSE RegPat(kind, t, id, 0)
  /\ hist' = Append(hist, [k |-> kind, t |-> t])
RNext == \E kind \in LitKinds \cup PatKinds, t \in 1..3 : Register(kind, t)
RSpec == RInit /\ [][RNext]_rvars

(* Query strings: 8 mimetypes x 5 decorations = 40 media type strings (case, blanks,
   parameters, wildcards).  Each is built from (mime, params) so that Split can be checked
   against its construction. *)
QMimes == <<bTextCss, bSvg, bTextXml, bAppXml, bTextPlain, bAppJson, bTextCSSuc, bTextStar, bStarStar>>
QDecor == 1..5
QParams(d) ==
  CASE d = 1 -> <<>>
    [] d = 2 -> <<>>
    [] d = 3 -> << <<bCharset, bUtf8>> >>
    [] d = 4 -> << <<bCharset, bUtf8>>, <<bVersion, b20>> >>
    [] d = 5 -> << <<bInline, <<>> >>, <<bBase64, <<>> >> >>
QBytes(m, d) ==
  CASE d = 1 -> m                                                                 \* text/css
    [] d = 2 -> <<SP, SP>> \o m \o <<SP>>                                         \* "  text/css "
    [] d = 3 -> m \o <<SEMI>> \o bCharset \o <<EQ>> \o bUtf8                      \* text/css;charset=UTF-8
    [] d = 4 -> <<SP>> \o m \o <<SP, SP, SEMI, SP>> \o bCharset \o <<SP, EQ, SP>> \o bUtf8 \o
                <<SP, SEMI>> \o bVersion \o <<EQ>> \o b20 \o <<SP>>              \* " text/css  ; charset = UTF-8 ;version=2.0 "
    [] d = 5 -> m \o <<SEMI>> \o bInline \o <<EQ, SEMI>> \o bBase64              \* text/css;inline=;base64
Queries == {<<i, d>> : i \in DOMAIN QMimes, d \in QDecor}

(* The 10-line reference model of the documented rules, stated over the history alone. *)
RefLookup(h, mime) ==
  LET L == {i \in DOMAIN h : h[i].k \in LitKinds /\ LitType[h[i].t] = mime}
      P == {i \in DOMAIN h : h[i].k \in PatKinds /\ PatMatch(h[i].t, mime)}
  IN IF L # {} THEN CHOOSE i \in L : \A j \in L : j <= i            \* last registration of the literal
     ELSE IF P # {} THEN CHOOSE i \in P : \A j \in P : i <= j       \* first registered matching pattern
     ELSE 0

\* Split recovers exactly what each query string was built from (constant-level, checked once)
SplitTable == \A q \in Queries :
  LET s == Split(QBytes(QMimes[q[1]], q[2])) IN s.mime = QMimes[q[1]] /\ s.params = QParams(q[2])
ASSUME SplitTable
\* ... hence parameters, blanks and the spelling of the query never influence dispatch beyond the mimetype bytes,
\* and the invariants below quantify over the mimetypes of the queries.
QM == {QMimes[i] : i \in DOMAIN QMimes}
IsLitReg(r, m) == r.k \in LitKinds /\ LitType[r.t] = m
IsPatReg(r, m) == r.k \in PatKinds /\ PatMatch(r.t, m)
\* the state machine agrees with the reference model on every query
AgreesWithRef == \A m \in QM : Lookup(m).id = RefLookup(hist, m)
LiteralWins == \A m \in QM :
  (\E i \in DOMAIN hist : IsLitReg(hist[i], m)) => Lookup(m).via = 0 /\ Lookup(m).id # 0
FirstPatternWins == \A m \in QM : LET e == Lookup(m) IN
  e.via # 0 => /\ hist[e.id].k \in PatKinds /\ hist[e.id].t = e.via /\ PatMatch(e.via, m)
               /\ \A j \in 1..(e.id - 1) : ~IsPatReg(hist[j], m)
               /\ \A j \in DOMAIN hist : ~IsLitReg(hist[j], m)
ReRegisterReplaces == \A t \in 1..3 : LET m == LitType[t] e == Lookup(m) IN
  e.via = 0 /\ e.id # 0 => /\ hist[e.id].k = e.kind /\ hist[e.id].t = t
                           /\ \A j \in (e.id + 1)..Len(hist) : ~IsLitReg(hist[j], m)
NotExistIffNothing == \A m \in QM :
  Lookup(m) = None <=> \A j \in DOMAIN hist : ~IsLitReg(hist[j], m) /\ ~IsPatReg(hist[j], m)
\* bridge to RegistryTyped.tla (Apalache, unbounded histories): the literal map + ordered list give the same
\* answer as "id of the literal entry, else the smallest first-occurrence id among the matching patterns"
AbsLitId(m) == IF m \in DOMAIN lit THEN lit[m].id ELSE 0
AbsPatFirst(p) == LET ix == {i \in DOMAIN pats : pats[i].pat = p}
                  IN IF ix = {} THEN 0 ELSE pats[CHOOSE i \in ix : \A j \in ix : i <= j].id
AbsLookupId(m) == LET c == {p \in DesignPats : AbsPatFirst(p) # 0 /\ PatMatch(p, m)}
                  IN IF AbsLitId(m) # 0 THEN AbsLitId(m)
                     ELSE IF c = {} THEN 0 ELSE AbsPatFirst(CHOOSE p \in c : \A q \in c : AbsPatFirst(p) <= AbsPatFirst(q))
AbstractionAgrees == \A m \in QM : Lookup(m).id = AbsLookupId(m)
\* ... and RegistryTyped.MatchTable is the match relation of the three design patterns on the nine query mimetypes
ASSUME {pm \in DesignPats \X DOMAIN QMimes : PatMatch(pm[1], QMimes[pm[2]])} =
       { <<1, 1>>, <<1, 3>>, <<1, 5>>, <<1, 8>>, <<2, 2>>, <<2, 3>>, <<2, 4>>,
         <<3, 1>>, <<3, 2>>, <<3, 3>>, <<3, 4>>, <<3, 5>>, <<3, 6>>, <<3, 7>>, <<3, 8>>, <<3, 9>> }
TypeOK == /\ Len(hist) <= MaxRegs
          /\ \A i \in DOMAIN pats : pats[i].id \in 1..Len(hist) /\ (i > 1 => pats[i-1].id < pats[i].id)
          /\ \A m \in DOMAIN lit : lit[m].id \in 1..Len(hist)

(* Generator: every reachable history is printed (PrintT is TRUE); codes kind*10+target. *)
KindCode(k) == CASE k = "Add" -> 1 [] k = "AddFunc" -> 2 [] k = "AddCmd" -> 3
                 [] k = "AddRegexp" -> 4 [] k = "AddFuncRegexp" -> 5 [] k = "AddCmdRegexp" -> 6
EmitTables(unused) == /\ \A t \in 1..3 : PrintT(<<"LIT", t, LitType[t]>>)
              /\ \A q \in Queries : PrintT(<<"QUERY", q[1], q[2], QMimes[q[1]], QBytes(QMimes[q[1]], q[2])>>)
Emit == /\ PrintT(<<"HIST", [i \in DOMAIN hist |-> KindCode(hist[i].k) * 10 + hist[i].t]>>)
        /\ hist # <<>> \/ EmitTables(hist)
\* MC view that forgets the history (used for the state-machine-only invariants)
NoHistView == <<lit, pats>>
=============================================================================
