----------------------------- MODULE TableAudit -----------------------------
(* Trace validation for C17 "Built-in replacement tables agree with the standards".
   One trace line = one entry of a built-in table of the real code (dumped through the
   exported variables / the verif-tagged read-only accessors), or one black-box probe of
   that entry through the public minifier (input, real output, and the projection of both
   by a parser that is independent of the code under test).  The standards' side is
   Tables.tla; the text operators are TableText.tla.  The driver is harness/cmd/c17.

   Line kinds (field `kind`):
     direct dump   entity reventity colourname colourhex tagtrait attrtrait zerounit jsmime
                   svgcolourattr hash            (+ refcolour: self-test of Tables.CssColours)
     probes        tagprobe sideprobe rawprobe rawafter attrprobe unitprobe colourprobe svgattrprobe entprobe revprobe
     notes         tablenote (an entry of a source-read map the driver could not evaluate; no clause, reported)
   Every invariant has the form  l <= N => (kind # k \/ Holds(Trace[l]) \/ Reject(l, clause)). *)
EXTENDS TableText, TraceIO

(* Reject codes (kept short so that TLC prints each REJECT tuple on one line); the long texts are
   CLAUSES in tools/props/c17.py:
     EntityOK/name      EntityOK: name is not a named character reference of the standard
     EntityOK/attr      EntityOK: replacement does not decode to the reference's text (attribute value)
     EntityOK/text      EntityOK: replacement does not decode to the reference's text (text)
     EntityOK/markup    EntityOK: literal markup character as replacement in text
     EntityOK/rev       EntityOK: reverse entry does not decode to the character it replaces
     RevProbe/text      EntityOK(probe): numeric reference to a reverse-mapped character decodes differently
     RevProbe/raw       EntityOK(probe): a character XML does not allow written literally
     EntProbe/parse     EntityOK(probe): output no longer parses
     EntProbe/text      EntityOK(probe): decoded text differs
     EntProbe/attr      EntityOK(probe): decoded attribute value differs
     ColourOK/keyword   ColourOK: keyword is not a CSS named colour
     ColourOK/value     ColourOK: hex value is not the keyword's sRGB colour
     ColourProbe        ColourOK(probe): value rewritten to a different colour / non-colour rewritten
     SELFTEST/colour    SELFTEST: Tables.CssColours disagrees with x/image/colornames
     SvgColourAttrOK    ColourOK: SVG attribute treated as colour-valued is not a <color>/<paint> attribute
     SvgAttrProbe       ColourOK(probe): colour rewritten in a non-colour SVG attribute
     BooleanAttrOK      BooleanAttrOK: not a boolean attribute of the HTML standard
     UrlAttrOK          UrlAttrOK: not a URL-valued attribute of the HTML standard
     BoolProbe          BooleanAttrOK(probe): value dropped from a non-boolean attribute
     UrlProbe           UrlAttrOK(probe): URL rewrite applied to a non-URL attribute
     UrlWsProbe         UrlAttrOK(probe): whitespace inside the value of a URL-valued attribute changed (another URL)
     RawTagOK           RawTagOK: element treated as raw text is not a raw-text element
     RawProbe           RawTagOK(probe): content of a non-raw-text element copied as raw text
     BlockTagOK         BlockTagOK: whitespace-dropping element is not block-level / table part / line break / not rendered
     TagProbe           BlockTagOK(probe): whitespace dropped next to an inline-level element
     SideProbe/before   BlockTagOK(probe): blank before an atomic inline-level box dropped
     SideProbe/after    BlockTagOK(probe): blank after an atomic inline-level box dropped
     RawAfterProbe      RawTagOK(probe): text after an element, inside a non-raw parent, copied as raw text
     ZeroUnitOK         ZeroUnitOK: unit is neither a length nor an angle unit
     UnitProbe          ZeroUnitOK(probe): unit dropped from a zero that is neither length nor angle
     JsMimeOK           JsMimeOK: not a JavaScript MIME type essence
     HashOK/tohash      HashOK: ToHash(name) is not the name's hash
     HashOK/string      HashOK: Hash.String() is not the declared name
     HashOK/length      HashOK: hash does not encode the name length
     HashOK/collision   HashOK: two names share a hash
     HashOK/duplicate   HashOK: name occurs twice
 *)
VARIABLES l, seenVal, seenStr
vars == <<l, seenVal, seenStr>>
E == Trace[l]
IsKind(k) == l <= N /\ E.kind = k

Init == l = 1 /\ seenVal = {} /\ seenStr = {}
(* abstract state: the (package, hash value) and (package, name) pairs of the perfect-hash
   tables seen so far, for the distinctness clause of HashOK *)
Next == /\ l <= N
        /\ l' = l + 1
        /\ IF E.kind = "hash"
           THEN seenVal' = seenVal \cup {<<E.pkg, E.val>>} /\ seenStr' = seenStr \cup {<<E.pkg, E.str>>}
           ELSE UNCHANGED <<seenVal, seenStr>>
Spec == Init /\ [][Next]_vars

----------------------------------------------------------------------------
(* "each named character reference replacement decodes to the same Unicode text as the
    reference it replaces (in text and in attribute values)"

   A replacement r (record [b, iname, inames, iknown, iref]: its bytes; when it has the shape
   &name; the inner name, and the reference code points of &name; supplied by the Go standard
   library's HTML5 entity table) decodes to:
     &#ddd;  / &#xhh;   the numeric reference's code point (HTML 13.2.5.80; XML 4.1)
     &name;             the reference table's code points for name
     anything else without '&', or exactly "&":  its UTF-8 decoding (literal text)
   An unterminated reference is never acceptable: in attribute values HTML does not decode a
   named reference without ';' that is followed by '=' or an alphanumeric, so such a
   replacement would not mean the same in text and in attribute values. *)
Undecodable == <<-2>>
Mixed == <<-3>>
DecodeRepl(r, lang) ==
  IF IsDecRef(r.b) THEN
     LET v == DecValue(SubSeq(r.b, 3, Len(r.b) - 1)) IN
     IF lang = "html" THEN <<HtmlNumericCP(v)>> ELSE IF XmlCharOK(v) THEN <<v>> ELSE Undecodable
  ELSE IF IsHexRef(r.b) THEN
     LET v == HexValue(SubSeq(r.b, 4, Len(r.b) - 1)) IN
     IF lang = "html" THEN <<HtmlNumericCP(v)>> ELSE IF XmlCharOK(v) THEN <<v>> ELSE Undecodable
  ELSE IF IsNamedRef(r.b) THEN
     IF r.b # <<38>> \o r.iname \o <<59>> THEN Undecodable            \* the driver's inner name must be the one written in the replacement
     ELSE IF lang = "html" THEN (IF r.iknown THEN r.iref ELSE Undecodable)
     ELSE (IF r.inames \in DOMAIN XmlPredefined THEN XmlPredefined[r.inames] ELSE Undecodable)
  ELSE IF IsUnterminatedRef(r.b) THEN Undecodable
  ELSE IF r.b = <<38>> THEN <<38>>
  ELSE IF HasAmp(r.b) THEN Mixed      \* literal text mixed with references: not modelled here, left to the entprobe lines
  ELSE U8Decode(r.b)

RefOf(e) == IF e.table = "xml"
            THEN (IF e.name \in DOMAIN XmlPredefined THEN XmlPredefined[e.name] ELSE Undecodable)
            ELSE (IF e.known THEN e.ref ELSE Undecodable)
SameText(d, ref) == d = Mixed \/ (d # Undecodable /\ ref # Undecodable /\ d = ref /\ \A i \in 1..Len(d) : d[i] >= 0)

(* e.a = the table's replacement as used in attribute values (no reverse map there);
   e.t = what the pair EntitiesMap + TextRevEntitiesMap yields in text (a one-byte replacement
   that has a reverse entry is written as that entry).  In text a literal '<' would be markup
   (XML: also '&'), so it is not an acceptable text replacement. *)
EntityOK == IsKind("entity") =>
  /\ (RefOf(E) # Undecodable \/ Reject(l, "EntityOK/name"))
  /\ (RefOf(E) = Undecodable \/ SameText(DecodeRepl(E.a, E.table), RefOf(E))
        \/ Reject(l, "EntityOK/attr"))
  /\ (RefOf(E) = Undecodable \/ SameText(DecodeRepl(E.t, E.table), RefOf(E))
        \/ Reject(l, "EntityOK/text"))
  /\ ((E.t.b # <<60>> /\ (E.table = "html" \/ E.t.b # <<38>>))
        \/ Reject(l, "EntityOK/markup"))

(* TextRevEntitiesMap: byte -> reference written instead of it; same clause, other direction *)
(* An entry may also map a character to a numeric reference to exactly that code point even where the
   language does not allow the character at all (xml: U+0000 -> &#0;, "never decode to a NUL byte"): a
   document that referenced the code point keeps referencing the same code point - the identity, which is
   meaning-preserving also on ill-formed input - whereas the literal byte would be a different document. *)
RevNumericSelf(r, ch) ==
  \/ (IsDecRef(r.b) /\ DecValue(SubSeq(r.b, 3, Len(r.b) - 1)) = ch)
  \/ (IsHexRef(r.b) /\ HexValue(SubSeq(r.b, 4, Len(r.b) - 1)) = ch)
RevEntityOK == IsKind("reventity") =>
  \/ RevNumericSelf(E.r, E.ch)
  \/ (SameText(DecodeRepl(E.r, E.table), <<E.ch>>) /\ DecodeRepl(E.r, E.table) # Mixed)
  \/ Reject(l, "EntityOK/rev")
(* probe <a>1&#N;2</a> for every character N of the text reverse map and <a b="1&#N;2"/> for every character of the
   attribute reverse map, through the XML minifier (the context the entry is used in; what happens to a
   character without an entry is not a table question):
   where the input is well-formed, the text and the attribute value an independent parser (encoding/xml)
   sees are unchanged; and a character that XML does not allow (U+0000, ...) never appears literally in the
   output unless it was literally in the input *)
CountOf(s, c) == Cardinality({i \in 1..Len(s) : s[i] = c})
RevProbeOK == IsKind("revprobe") =>
  /\ (E.inok => (E.outok /\ E.intext = E.outtext /\ E.inattr = E.outattr) \/ Reject(l, "RevProbe/text"))
  /\ ((~XmlCharOK(E.ch) /\ E.ch < 128) => (CountOf(E.outb, E.ch) <= CountOf(E.inb, E.ch) \/ Reject(l, "RevProbe/raw")))

(* through the public minifier: the text (and the attribute value) an independent parser
   (golang.org/x/net/html, encoding/xml) sees is the same before and after minification *)
EntProbeOK == IsKind("entprobe") =>
  /\ (E.inok => E.outok \/ Reject(l, "EntProbe/parse"))
  /\ (E.inok /\ E.outok => E.intext = E.outtext \/ Reject(l, "EntProbe/text"))
  /\ (E.inok /\ E.outok => E.inattr = E.outattr \/ Reject(l, "EntProbe/attr"))

----------------------------------------------------------------------------
(* "each colour keyword/hex pair denotes the same sRGB colour and every keyword is a real CSS colour" *)
ColourNameOK == IsKind("colourname") =>
  /\ (E.name \in ColourNames \/ Reject(l, "ColourOK/keyword"))
  /\ (E.name \notin ColourNames \/ HexRGBA(E.hex) = NamedRGBA(E.name)
        \/ Reject(l, "ColourOK/value"))
ColourHexOK == IsKind("colourhex") =>
  /\ (E.name \in ColourNames \/ Reject(l, "ColourOK/keyword"))
  /\ (E.name \notin ColourNames \/ HexRGBA(E.hex) = NamedRGBA(E.name)
        \/ Reject(l, "ColourOK/value"))
(* probe: a{color:X} / fill="X".  A rewrite by the colour tables shows as an output that is spelled as
   a colour: a hex colour, or a named colour keyword.  Then the input must have been a colour too and
   both must denote the same sRGB colour (an input that is not a colour, e.g. an unknown keyword, must
   not become one: turning an invalid declaration into a valid one changes the cascade).  Outputs that
   are not colour spellings (initial, "0 0", ...) come from property-specific rewrites that are not
   table entries and are not judged here. *)
ColourOf(s, b) == IF Len(b) > 0 /\ b[1] = 35 THEN HexRGBA(b) ELSE NamedRGBA(s)
ColourSpelled(s, b) == (Len(b) > 0 /\ b[1] = 35) \/ s \in ColourNames
(* inrgba: for functional spellings (rgb(), rgba(), hsl(), hsla()) the <<r,g,b,a>> the driver rendered the
   spelling from; empty for hex / keyword inputs, which are decoded here.  Every hex notation (#rgb, #rgba,
   #rrggbb, #rrggbbaa) carries its alpha: the colour AND the alpha must be unchanged. *)
(* two colours with alpha 0 are the same colour: fully transparent (CSS Color 4 section 4: the colour channels of a
   fully transparent colour do not contribute; interpolation is premultiplied) - #rrggbb00 -> #0000 is not a change *)
SameColour(x, y) == x = y \/ (x # NoColour /\ y # NoColour /\ x[4] = 0 /\ y[4] = 0)
ColourIn(e) == IF Len(e.inrgba) = 4 THEN e.inrgba ELSE ColourOf(e.inlow, e.inb)
ColourProbeOK == IsKind("colourprobe") =>
  \/ E.outb = E.inb
  \/ ~ColourSpelled(E.outlow, E.outb)
  \/ (ColourIn(E) # NoColour /\ SameColour(ColourOf(E.outlow, E.outb), ColourIn(E)))
  \/ Reject(l, "ColourProbe")
(* self-test of the transcription against an independent machine source (rejection = exit 2) *)
RefColourOK == IsKind("refcolour") =>
  (E.name \in ColourNames /\ CssColours[E.name] = E.rgb) \/ Reject(l, "SELFTEST/colour")

(* lead sentence "Every entry of the built-in rewrite tables is meaning-preserving", for the SVG
   table that decides where the colour maps are applied: the attribute must be colour-valued *)
SvgColourAttrOK == IsKind("svgcolourattr") =>
  E.attr \in SvgColourAttrs \/ Reject(l, "SvgColourAttrOK")
SvgAttrProbeOK == IsKind("svgattrprobe") =>
  ((E.present /\ E.outval # E.inval /\ ColourOf(E.outlow, E.outval) # NoColour) => (E.attr \in SvgColourAttrs \/ Reject(l, "SvgAttrProbe")))

----------------------------------------------------------------------------
(* "every attribute treated as boolean or URL-valued is defined so by the HTML standard" *)
BooleanAttrOK == IsKind("attrtrait") =>
  (E.boolean => E.attr \in BooleanAttrs \/ Reject(l, "BooleanAttrOK"))
UrlAttrOK == IsKind("attrtrait") =>
  (E.url => E.attr \in UrlAttrs \/ Reject(l, "UrlAttrOK"))
(* probes.  boolean treatment = the attribute survives but its value (which was the attribute's
   own name) is gone.  URL treatment = a rewrite that is only valid for URLs: the scheme
   "HTTP" lower-cased with everything else intact, or a data: URI re-encoded. *)
HttpLower == <<104, 116, 116, 112>>
SchemeLowered(in, out) ==
  LET t == TrimWs(in) IN
  /\ Len(t) > 4 /\ Len(out) = Len(t)
  /\ SubSeq(t, 1, 4) # HttpLower /\ SubSeq(out, 1, 4) = HttpLower
  /\ SubSeq(out, 5, Len(out)) = SubSeq(t, 5, Len(t))
BoolTreated(e) == e.probe = "bool" /\ e.present /\ Len(e.inval) > 0 /\ e.outval = <<>>
UrlTreated(e)  == \/ e.probe = "http" /\ e.present /\ SchemeLowered(e.inval, e.outval)
                  \/ e.probe = "data" /\ e.present /\ e.outval # e.inval /\ Len(e.outval) >= 5
                     /\ SubSeq(e.outval, 1, 5) = <<100, 97, 116, 97, 58>>       \* still "data:..." but re-encoded
AttrProbeOK == IsKind("attrprobe") =>
  /\ (BoolTreated(E) => E.attr \in BooleanAttrs \/ Reject(l, "BoolProbe"))
  /\ (UrlTreated(E) => E.attr \in UrlAttrs \/ Reject(l, "UrlProbe"))
(* the other direction, for the code that uses the URL trait: the value of an attribute that IS URL-valued by the
   standard must stay the same URL.  URL Standard 4.4 "basic URL parser": leading and trailing C0 control or
   space are removed, then every ASCII tab or newline is removed - spaces inside are kept (they are later
   percent-encoded, every one of them), so a collapsed run of spaces is a different URL. *)
UrlNorm(v) ==
  LET w == SelectSeq(v, LAMBDA c : c \notin {9, 10, 13})
      a == SelectInSeq(w, LAMBDA c : c > 32)
      b == SelectLastInSeq(w, LAMBDA c : c > 32)
  IN IF a = 0 THEN <<>> ELSE SubSeq(w, a, b)
UrlWsProbeOK == IsKind("attrprobe") =>
  ((E.probe = "urlws" /\ E.attr \in UrlAttrs /\ E.present) =>
      (UrlNorm(E.outval) = UrlNorm(E.inval) \/ Reject(l, "UrlWsProbe")))

----------------------------------------------------------------------------
(* "every element treated as raw text is a raw-text or escapable-raw-text element"
   (Tables.RawOKElements documents which elements that is) *)
RawTagOK == IsKind("tagtrait") =>
  (E.raw => E.tag \in RawOKElements \/ Reject(l, "RawTagOK"))
(* probe <T>1  &quot;  2</T>: the raw source of T's text child is byte-for-byte unchanged although it
   holds collapsible whitespace and a shortenable reference = T's content was treated as raw text *)
RawProbeOK == IsKind("rawprobe") =>
  ((E.found /\ E.inraw = E.outraw) =>
     (E.tag \in RawOKElements \cup PreformattedElements \/ Reject(l, "RawProbe")))

(* "every element next to which whitespace is dropped is one whose boundary makes that whitespace
    insignificant for rendering (block-level, table part, line break, or not rendered)" *)
BlockTagOK == IsKind("tagtrait") =>
  (E.block => BlockOKTag(E.tag) \/ Reject(l, "BlockTagOK"))
(* probe "1 <T> 2 </T> 3" (and "1 <T> 2"): flat = the output as the independent tokenizer sees it,
   text bytes as they are, T's start tag as -1, its end tag as -2, any other tag as -9.
   The input has whitespace on both sides of each tag of T.  CSS collapses consecutive white space
   across inline element boundaries (CSS Text 3, 4.1.1: a collapsible space following another
   collapsible space, "even one outside the boundary of the inline", is removed), and the property
   allows that documented collapsing; so whitespace next to T counts as dropped only if NO
   whitespace at all is left between two neighbouring digits, i.e. nothing but tag markers
   separates them ("1<T>2"), whether or not T's own tags were kept in the output. *)
ProbeDigits == {49, 50, 51}
WsDropped(flat) == \E i \in 1..Len(flat) : \E j \in (i+1)..Len(flat) :
                      /\ flat[i] \in ProbeDigits /\ flat[j] \in ProbeDigits
                      /\ \A k \in (i+1)..(j-1) : flat[k] < 0
TagProbeOK == IsKind("tagprobe") =>
  (WsDropped(E.flat) => BlockOKTag(E.tag) \/ Reject(l, "TagProbe"))

(* probe <p>1[ ]<T>[ ]2[ ]</T>[ ]3</p> (all 16 combinations of the four blanks) and <T> with a block child as fallback,
   for the code that USES the whitespace trait: for an atomic inline-level box (inline-block or replaced element) a
   blank directly outside the box - before its start tag / after its end tag (after the start tag of a void element)
   - that was there in the input must still be there, because the blank inside is not rendered next to it.  For
   other elements the weaker TagProbe rule (some blank left between the neighbouring words) applies to these
   probes as well. *)
IsBlank(x) == x \in {9, 10, 12, 13, 32}
PosOf(flat, m) == SelectInSeq(flat, LAMBDA x : x = m)
BoxEnd(flat, tag) == IF tag \in VoidElements \/ PosOf(flat, -2) = 0 THEN PosOf(flat, -1) ELSE PosOf(flat, -2)
BlankBefore(flat) == LET i == PosOf(flat, -1) IN i > 1 /\ IsBlank(flat[i-1])
BlankAfter(flat, tag) == LET j == BoxEnd(flat, tag) IN j > 0 /\ j < Len(flat) /\ IsBlank(flat[j+1])
SideProbeOK == IsKind("sideprobe") =>
  /\ ((AtomicInlineTag(E.tag) /\ PosOf(E.flat, -1) > 0 /\ PosOf(E.inflat, -1) > 0) =>
        /\ ((BlankBefore(E.inflat) => BlankBefore(E.flat)) \/ Reject(l, "SideProbe/before"))
        /\ ((BlankAfter(E.inflat, E.tag) => BlankAfter(E.flat, E.tag)) \/ Reject(l, "SideProbe/after")))
  /\ ((~AtomicInlineTag(E.tag) /\ E.form < 100 /\ ~WsDropped(E.inflat) /\ WsDropped(E.flat)) =>
        (BlockOKTag(E.tag) \/ Reject(l, "TagProbe")))
(* probe <div><T></T>1  &quot;  2</div> and <div><T>x</T>1  &quot;  2</div>, with and without JS/CSS minifiers
   registered: the text after T belongs to the div - "every element treated as raw text is a raw-text or escapable-raw-
   text element" - so it must not come back byte for byte (it holds collapsible blanks and a shortenable reference). *)
RawAfterProbeOK == IsKind("rawafter") =>
  ((E.found /\ E.inraw = E.outraw) => Reject(l, "RawAfterProbe"))

----------------------------------------------------------------------------
(* "the units dropped from zero values are length or angle units" *)
ZeroUnitOK == IsKind("zerounit") =>
  ZeroUnitOKUnit(E.unit) \/ Reject(l, "ZeroUnitOK")
UnitProbeOK == IsKind("unitprobe") =>
  ((E.outval = <<48>> /\ E.inval # <<48>>) => (ZeroUnitOKUnit(E.unit) \/ Reject(l, "UnitProbe")))

(* lead sentence, for the table of script types whose type attribute is dropped as default *)
JsMimeOK == IsKind("jsmime") =>
  E.mime \in JsMimeTypes \/ Reject(l, "JsMimeOK")

----------------------------------------------------------------------------
(* perfect-hash name tables: every name round-trips (String -> ToHash -> same hash), the
   hash encodes the name's length, and names / hashes are pairwise distinct per package *)
HashOK == IsKind("hash") =>
  /\ (E.tohash = E.val \/ Reject(l, "HashOK/tohash"))
  /\ (E.str = E.comment \/ Reject(l, "HashOK/string"))
  /\ (E.val % 256 = E.strlen \/ Reject(l, "HashOK/length"))
  /\ (<<E.pkg, E.val>> \notin seenVal \/ Reject(l, "HashOK/collision"))
  /\ (<<E.pkg, E.str>> \notin seenStr \/ Reject(l, "HashOK/duplicate"))
=============================================================================
