SPECIFICATION Spec
CONSTANTS MaxTok = 8
MinTok = 0
MaxDepth = 4
Els <- ElsSmall
Ats <- AtsSmall
NVals = 3
MaxAttrs = 2
NTexts = 2
SvgPrefixChildren = TRUE
INVARIANTS Balanced Nesting Fits EmitDone
CHECK_DEADLOCK FALSE
