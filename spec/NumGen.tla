----------------------------- MODULE NumGen -----------------------------
(* Generator automaton of the number grammar (C08, C07, C04, C05): the reachable
   states are exactly the viable prefixes of length <= MaxLen over Alphabet, the
   accepting ones are the lexemes handed to the real code.  TLC enumerates it
   exhaustively; the invariants are the design-level sanity of NumVal itself. *)
EXTENDS NumVal
CONSTANTS MaxLen, Alphabet
VARIABLES lex, st
vars == <<lex, st>>
Init == lex = <<>> /\ st = 0
Next == /\ Len(lex) < MaxLen
        /\ \E c \in Alphabet : /\ Delta(st, c) # -1
                               /\ lex' = Append(lex, c)
                               /\ st' = Delta(st, c)
Spec == Init /\ [][Next]_vars
\* the incremental DFA state agrees with the recogniser run from scratch
DfaAgrees == st = RunDFA(lex)
\* the meaning functions are total on lexemes and reflexive
MeaningTotal == st \in Accepting => (ValueEq(lex, lex) /\ WithinHalfUlp(lex, 1, lex) /\ NumberOK(lex, 0, lex))
\* decimal lexemes are number lexemes
DecimalSubset == IsDecimal(lex) => IsNumber(lex)
Alpha5 == {48, 49, 52, 53, 57, 43, 45, 46, 101}        \* 0 1 4 5 9 + - . e
Alpha5E == Alpha5 \cup {69}
AlphaAll == (48..57) \cup {43, 45, 46, 101, 69}
=============================================================================
