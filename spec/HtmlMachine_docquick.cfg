SPECIFICATION Spec
CONSTANTS MaxNodes = 3
MaxDepth = 2
DocMode = TRUE
Vocab <- VocabDoc
TextKinds <- TK3
OptSets <- Opts4
Bugs <- NoBugs
INVARIANTS BuilderSound DesignRefines Emit
CHECK_DEADLOCK FALSE
