----------------------------- MODULE JsonDocMC -----------------------------
(* Design-level check of JsonDoc (C07): the push-down recogniser that judges real
   executions (ValidKinds) and the recursive descent over the RFC 8259 productions
   (RDValid) agree on EVERY kind sequence up to MaxLen - valid and invalid ones -, and the
   lexical classifier is consistent on a table of positive and negative lexemes. *)
EXTENDS JsonDoc, TLC, FiniteSets
CONSTANTS MaxLen, KindAlphabet
VARIABLE ks
Init == ks = <<>>
Next == Len(ks) < MaxLen /\ \E k \in KindAlphabet : ks' = Append(ks, k)
Spec == Init /\ [][Next]_ks

Agree == ValidKinds(ks) = RDValid(ks)
\* a valid text is never a proper prefix of a valid text, and the recogniser dies for good
DeadStaysDead == RunPDA(ks).ph = "bad" => \A k \in KindAlphabet : RunPDA(Append(ks, k)).ph = "bad"
DoneIsFinal == RunPDA(ks).ph = "done" => \A k \in KindAlphabet : RunPDA(Append(ks, k)).ph = "bad"
\* the depth of the stack is the number of unmatched openers
Depth == RunPDA(ks).ph # "bad" =>
           Len(RunPDA(ks).stk) = Cardinality({i \in 1..Len(ks) : ks[i] \in {"{", "["}})
                                 - Cardinality({i \in 1..Len(ks) : ks[i] \in {"}", "]"}})

Kinds8 == {"{", "}", "[", "]", ":", ",", "str", "num"}
Kinds10 == KindNames

\* lexical table: <<bytes, expected kind>>
LexCases == <<
  <<<<48>>, "num">>, <<<<45, 48>>, "num">>, <<<<49, 46, 48>>, "num">>, <<<<49, 101, 50>>, "num">>,
  <<<<49, 69, 43, 50>>, "num">>, <<<<48, 46, 53, 48>>, "num">>, <<<<49, 48, 48>>, "num">>,
  <<<<49, 101, 45, 48, 48>>, "num">>, <<<<48, 101, 48>>, "num">>, <<<<45, 48, 46, 48, 69, 45, 49>>, "num">>,
  <<<<46, 53>>, "junk">>, <<<<45, 46, 53>>, "junk">>, <<<<48, 49>>, "junk">>, <<<<43, 49>>, "junk">>,
  <<<<49, 46>>, "junk">>, <<<<49, 46, 101, 49>>, "junk">>, <<<<49, 101>>, "junk">>, <<<<49, 101, 43>>, "junk">>,
  <<<<45>>, "junk">>, <<<<45, 45, 49>>, "junk">>, <<<<48, 120, 49>>, "junk">>, <<<<49, 101, 49, 46, 53>>, "junk">>,
  <<<<34, 34>>, "str">>, <<<<34, 97, 34>>, "str">>, <<<<34, 92, 34, 34>>, "str">>, <<<<34, 92, 117, 48, 48, 52, 49, 34>>, "str">>,
  <<<<34, 92, 92, 34>>, "str">>, <<<<34, 195, 169, 34>>, "str">>, <<<<34, 127, 34>>, "str">>, <<<<34, 47, 92, 47, 34>>, "str">>,
  <<<<34>>, "junk">>, <<<<34, 97>>, "junk">>, <<<<34, 92, 34>>, "junk">>, <<<<34, 9, 34>>, "junk">>, <<<<34, 10, 34>>, "junk">>,
  <<<<34, 92, 120, 34>>, "junk">>, <<<<34, 92, 117, 48, 48, 52, 34>>, "junk">>, <<<<34, 92, 117, 48, 48, 52, 103, 34>>, "junk">>,
  <<<<34, 97, 34, 34>>, "junk">>, <<<<34, 0, 34>>, "junk">>, <<<<34, 92, 39, 34>>, "junk">>,
  <<LitTrue, "lit">>, <<LitFalse, "lit">>, <<LitNull, "lit">>,
  <<<<84, 114, 117, 101>>, "junk">>, <<<<110, 117, 108>>, "junk">>, <<<<116, 114, 117, 101, 49>>, "junk">>,
  <<<<78, 97, 78>>, "junk">>, <<<<39, 97, 39>>, "junk">>, <<<<>>, "junk">>,
  <<<<123>>, "{">>, <<<<125>>, "}">>, <<<<91>>, "[">>, <<<<93>>, "]">>, <<<<58>>, ":">>, <<<<44>>, ",">>,
  <<<<123, 125>>, "junk">>, <<<<0>>, "junk">>, <<<<11>>, "junk">> >>
ASSUME \A i \in 1..Len(LexCases) :
          Kind(LexCases[i][1]) = LexCases[i][2] \/ PrintT(<<"LEXCASE FAILS", i, LexCases[i], Kind(LexCases[i][1])>>) = FALSE
=============================================================================
