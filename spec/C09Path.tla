----------------------------- MODULE C09Path -----------------------------
(* C09, SVG: recogniser of the path data grammar of SVG 1.1 section 8.3.9 on byte sequences

     svg-path ::= wsp* moveto-drawto-command-groups? wsp*
     each command letter is followed by one or more complete argument groups (Z by none),
     the first command is a moveto, comma-wsp only between numbers, arc flags are single 0/1.

   One step per byte; the number lexeme automaton is NumVal.Delta (shared with C08).
   The harness carries the same machine in Go (judge.PathValid) for path data too long for
   TLC; C09Trace cross-checks the two on every short path (disagreement = machinery error). *)
EXTENDS NumVal

Argc(c) == CASE c \in {77, 109, 76, 108, 84, 116} -> 2        \* M m L l T t
             [] c \in {72, 104, 86, 118} -> 1                 \* H h V v
             [] c \in {67, 99} -> 6                           \* C c
             [] c \in {83, 115, 81, 113} -> 4                 \* S s Q q
             [] c \in {65, 97} -> 7                           \* A a
             [] c \in {90, 122} -> 0                          \* Z z
             [] OTHER -> 0 - 1
IsWsp(c) == c \in {32, 9, 10, 13, 12}
PInit == [bad |-> FALSE, cmd |-> 0, n |-> 0, k |-> 0, cnt |-> 0, num |-> 0, comma |-> FALSE]

\* a number lexeme ended
Finish(s) == IF s.num \notin Accepting THEN [s EXCEPT !.bad = TRUE]
             ELSE LET k2 == s.k + 1 IN
                  IF k2 = s.n THEN [s EXCEPT !.num = 0, !.comma = FALSE, !.k = 0, !.cnt = s.cnt + 1]
                  ELSE [s EXCEPT !.num = 0, !.comma = FALSE, !.k = k2]
\* one byte outside a number lexeme
Plain(s, c) ==
  IF IsWsp(c) THEN s
  ELSE IF c = 44 THEN
       IF s.comma \/ s.cmd = 0 \/ s.n = 0 \/ (s.k = 0 /\ s.cnt = 0) THEN [s EXCEPT !.bad = TRUE] ELSE [s EXCEPT !.comma = TRUE]
  ELSE IF IsSign(c) \/ IsDot(c) \/ IsDigit(c) THEN
       IF s.cmd = 0 \/ s.n = 0 THEN [s EXCEPT !.bad = TRUE]
       ELSE IF s.cmd \in {65, 97} /\ s.k \in {3, 4} THEN                        \* arc flags
            IF c \in {48, 49} THEN [s EXCEPT !.comma = FALSE, !.k = s.k + 1] ELSE [s EXCEPT !.bad = TRUE]
       ELSE [s EXCEPT !.num = Delta(0, c)]
  ELSE IF Argc(c) >= 0 THEN
       IF s.comma \/ s.k # 0 \/ (s.cmd = 0 /\ c \notin {77, 109}) \/ (s.cmd # 0 /\ s.n # 0 /\ s.cnt = 0) THEN [s EXCEPT !.bad = TRUE]
       ELSE [s EXCEPT !.cmd = c, !.n = Argc(c), !.k = 0, !.cnt = 0]
  ELSE [s EXCEPT !.bad = TRUE]
PStep(s, c) ==
  IF s.bad THEN s
  ELSE IF s.num # 0 THEN
       IF Delta(s.num, c) # 0 - 1 THEN [s EXCEPT !.num = Delta(s.num, c)]
       ELSE LET f == Finish(s) IN IF f.bad THEN f ELSE Plain(f, c)
  ELSE Plain(s, c)
PathValid(b) ==
  LET s == FoldLeft(PStep, PInit, b)
      e == IF s.bad \/ s.num = 0 THEN s ELSE Finish(s)
  IN ~e.bad /\ ~e.comma /\ e.k = 0 /\ (e.cmd = 0 \/ e.n = 0 \/ e.cnt > 0)
=============================================================================
