SPECIFICATION Spec
CONSTANTS MaxLen = 7
Alphabet <- Alpha5
INVARIANTS DfaAgrees MeaningTotal DecimalSubset
CHECK_DEADLOCK FALSE
