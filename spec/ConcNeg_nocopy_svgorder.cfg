SPECIFICATION Spec
CONSTANTS
  NG = 2
  MaxCalls = 1
  ShapeNames <- SvgOrder
  AllowReg = FALSE
  CopyOpts = FALSE
  TightCap = TRUE
  CopyArgs = TRUE
  HtmlDep = FALSE
  LazyInit = FALSE
  PoolBuf = FALSE
VIEW View
INVARIANT Deterministic
CHECK_DEADLOCK FALSE
