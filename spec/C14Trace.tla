----------------------------- MODULE C14Trace -----------------------------
(* Trace validation for C14.  One line = one run of the real code with injected I/O faults:
     mode plain   m.Minify(mediatype, sinkDouble, sourceDouble)
     mode writer  m.Writer(mediatype, sinkDouble): Write(chunk)*, Close
     mode reader  m.Reader(mediatype, sourceDouble): Read* until an error
   record: sf (source fails after sf bytes, -1 never), short, serr, ff (sink fails from its ff-th
   call on, 0 never), rhit / whit (the double actually returned its error to the code), ret (class
   of the call's own result: plain return value, Close result, final Read error), res (classes
   of every result surfaced: WriteRet*, CloseRet / Ret / final Read), closed (the call returned),
   deln/delh (bytes accepted by the sink / read by the consumer), wantn/wanth/wante (fault-free
   plain call), panic, blocked.  Error classes are computed with errors.Is against the injected
   sentinel values: "src" the reader's error, "sink" the writer's. *)
EXTENDS TraceIO
VARIABLE l
Init == l = 1
Next == l <= N /\ l' = l + 1
Spec == Init /\ [][Next]_l

In(x, seq) == \E k \in 1..Len(seq) : seq[k] = x
Hit(r) == r.rhit \/ r.whit
\* where the statement says the error must show up
Seen(r) == IF r.mode = "writer" THEN r.res ELSE <<r.ret>>      \* "returned by Write or Close"
Success(r) == CASE r.mode = "writer" -> \A k \in 1..Len(r.res) : r.res[k] = "nil"
                [] r.mode = "reader" -> r.ret = "eof"
                [] OTHER -> r.ret = "nil"
FaultSurfaces(r) ==
  \* "instead of reporting success, panicking, or blocking"; "Close always returns"
  \* (a panic of the fault-free run is not an I/O matter: such inputs are not enumerated, see c14.py)
  /\ (~r.panic \/ ~Hit(r)) \/ Reject(l, "FaultSurfaces: panicked")
  /\ (~r.blocked /\ r.closed) \/ Reject(l, "FaultSurfaces: blocked (the call / Close did not return)")
  /\ (r.panic \/ r.blocked \/ ~r.closed) \/
     /\ (Hit(r) => ~Success(r)) \/ Reject(l, "FaultSurfaces: an I/O fault was reported as success")
     \* "the reader's error, or the writer's" - for inputs whose fault-free run succeeds (otherwise a parse
     \* error may legitimately come first and only non-nil is required)
     /\ (Hit(r) /\ r.wante = "nil" => ((r.rhit /\ In("src", Seen(r))) \/ (r.whit /\ In("sink", Seen(r)))))
          \/ Reject(l, "FaultSurfaces: the error returned is neither the reader's nor the writer's")
     \* "never as silent truncation": success means the complete output was delivered
     /\ (Success(r) /\ r.wante = "nil" => (r.deln = r.wantn /\ r.delh = r.wanth))
          \/ Reject(l, "FaultSurfaces: success reported but the output is not the complete output")
Conforms == l <= N => FaultSurfaces(Trace[l])
=============================================================================
