SPECIFICATION Spec
CONSTANTS MaxN = 4
Coords <- C2
CtrlCoords <- C2
Letters <- LettersZeroL
FixZ = TRUE
FixDeg = TRUE
FixZeroL = FALSE
ForgetCp = TRUE
INVARIANTS Refines InRange
CHECK_DEADLOCK FALSE
