SPECIFICATION Spec
CONSTANTS MaxN = 4
Coords <- C2
CtrlCoords <- C2
Letters <- LettersZeroL
GuardZ = TRUE
GuardDeg = TRUE
GuardZeroL = FALSE
INVARIANTS Refines InRange
CHECK_DEADLOCK FALSE
