SPECIFICATION GenSpec
CONSTANTS MaxOps = 2
Ops2 <- SecondOps
InjectBytes <- InjAll
Depths <- DepthsQuick
AllowInPlace = FALSE
INVARIANTS TypeOK DocBound
CHECK_DEADLOCK FALSE
