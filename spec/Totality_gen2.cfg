SPECIFICATION GenSpec
CONSTANTS MaxOps = 2
Ops2 <- SecondOps
InjectBytes <- InjAll
Depths <- DepthsQuick
AllowInPlace = FALSE
SeedsUsed <- ShortSeeds
INVARIANTS TypeOK DocBound
CHECK_DEADLOCK FALSE
