----------------------------- MODULE CliPath -----------------------------
(* Byte-sequence paths for the CLI specifications (C19, C20).  TLA+ strings are atomic, so
   every text the specification has to look inside (paths, file names, glob patterns) is a
   sequence of byte codes.  A path is handled either as its byte sequence ("d/c.js") or as
   its sequence of components (<<"d","c.js">>, each component a byte sequence).            *)
EXTENDS Integers, Sequences, FiniteSets, SequencesExt, FiniteSetsExt, TLC

SLASH == 47
DOT   == 46
STAR  == 42
DotDot == <<46, 46>>
BakSuffix == <<46, 98, 97, 107>>            \* ".bak"

MinI(a, b) == IF a < b THEN a ELSE b

\* lexicographic order on byte sequences
BytesLess(a, b) ==
  LET n == MinI(Len(a), Len(b))
      d == {i \in 1..n : a[i] # b[i]}
  IN IF d = {} THEN Len(a) < Len(b) ELSE LET i == Min(d) IN a[i] < b[i]

\* split at every occurrence of byte c (empty pieces kept)
SplitOn(s, c) ==
  LET n == Len(s)
      cuts == <<0>> \o SetToSortSeq({i \in 1..n : s[i] = c}, <) \o <<n + 1>>
  IN [k \in 1..(Len(cuts) - 1) |-> SubSeq(s, cuts[k] + 1, cuts[k + 1] - 1)]

\* filepath.Clean on a relative path, as components: "" and "." dropped, ".." pops
PushComp(acc, c) ==
  IF c = <<>> \/ c = <<DOT>> THEN acc
  ELSE IF c = DotDot /\ acc # <<>> /\ acc[Len(acc)] # DotDot THEN SubSeq(acc, 1, Len(acc) - 1)
  ELSE Append(acc, c)
CleanOnto(base, s) == FoldLeft(PushComp, base, SplitOn(s, SLASH))
Comps(s) == CleanOnto(<<>>, s)

\* components -> "a/b/c" ; the empty component list is "."
JoinComps(cs) ==
  IF cs = <<>> THEN <<DOT>>
  ELSE FoldLeft(LAMBDA acc, c : IF acc = <<>> THEN c ELSE acc \o <<SLASH>> \o c, <<>>, cs)

TrailingSlash(s) == Len(s) > 0 /\ s[Len(s)] = SLASH
\* IsPrefix(p, q) comes from SequencesExt
DropPrefix(p, q) == SubSeq(q, Len(p) + 1, Len(q))
FrontOf(cs) == IF cs = <<>> THEN <<>> ELSE SubSeq(cs, 1, Len(cs) - 1)

\* order of a depth-first, name-sorted directory walk (component-wise lexicographic)
CompsLess(a, b) ==
  LET n == MinI(Len(a), Len(b))
      d == {i \in 1..n : a[i] # b[i]}
  IN IF d = {} THEN Len(a) < Len(b) ELSE LET i == Min(d) IN BytesLess(a[i], b[i])

Hidden(name) == Len(name) > 0 /\ name[1] = DOT
\* extension of a file name: the bytes after the last dot ("" if there is no dot)
ExtOf(name) ==
  LET d == {i \in 1..Len(name) : name[i] = DOT}
  IN IF d = {} THEN <<>> ELSE SubSeq(name, Max(d) + 1, Len(name))

(* Glob match as the CLI documentation describes it: the pattern must match the whole text,
   `*` matches any run of bytes other than '/', `**` matches any run of bytes.  Only patterns
   made of literal bytes and stars are used by the generators (no ? [ ] ~ \).               *)
StarKind(p, i) ==
  IF p[i] # STAR THEN "lit"
  ELSE IF (i > 1 /\ p[i - 1] = STAR) \/ (i < Len(p) /\ p[i + 1] = STAR) THEN "dstar" ELSE "star"
GlobMatch(p, s) ==
  LET n == Len(p)
      kind == [i \in 1..n |-> StarKind(p, i)]
      \* state j = "pattern bytes 1..j-1 are consumed"; stars may match nothing
      Clo(S) == {j \in 1..(n + 1) : \E i \in S : i <= j /\ \A k \in i..(j - 1) : kind[k] # "lit"}
      Step(S, ch) == Clo({i + 1 : i \in {x \in S : x <= n /\ kind[x] = "lit" /\ p[x] = ch}}
                         \cup {i \in S : i <= n /\ ((kind[i] = "star" /\ ch # SLASH) \/ kind[i] = "dstar")})
  IN (n + 1) \in FoldLeft(Step, Clo({1}), s)

\* concatenation of byte sequences with a separator between consecutive items
JoinBytes(items, sep) ==
  FoldLeft(LAMBDA acc, k : IF k = 1 THEN items[k] ELSE acc \o sep \o items[k], <<>>,
           [k \in 1..Len(items) |-> k])
=============================================================================
