SPECIFICATION Spec
CONSTANTS
  NWorkers = 2
  MaxChunks = 1
  FaultTasks = 1
  SetupIds = {"inplace2", "separate", "bundle", "bundleinplace", "sync", "syncinplace", "alias", "hard", "overwrite"}
INVARIANTS NeverLost ReadOnlyUntouched OthersUntouched DoneClean DestinationsComplete NoDescriptorLeak
PROPERTY BakRemovedOnlyAfterComplete
CHECK_DEADLOCK FALSE
