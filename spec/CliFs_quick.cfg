SPECIFICATION Spec
CONSTANTS
  NWorkers = 2
  MaxChunks = 1
  Protocol = "fixed2"
  FaultTasks = 1
  SetupIds = {"inplace2", "separate", "bundle", "bundleinplace", "sync", "syncinplace", "alias", "hard", "overwrite", "bak", "bakinput"}
INVARIANTS NeverLost ReadOnlyUntouched OthersUntouched DoneClean NoLeftoverBackup DestinationsComplete NoDescriptorLeak
PROPERTY BakRemovedOnlyAfterComplete
CHECK_DEADLOCK FALSE
