SPECIFICATION Spec
CONSTANTS
  NWorkers = 2
  MaxChunks = 1
  Protocol = "fixed"
  FaultTasks = 1
  SetupIds = {"inplace2", "separate", "bundle", "bundleinplace", "sync", "syncinplace", "alias", "hard", "overwrite", "bak"}
INVARIANTS NeverLost ReadOnlyUntouched OthersUntouched DoneClean NoLeftoverBackup DestinationsComplete NoDescriptorLeak
PROPERTY BakRemovedOnlyAfterComplete
CHECK_DEADLOCK FALSE
