SPECIFICATION Spec
INVARIANTS NeverLost ReadOnly Applicable SnapOK
POSTCONDITION AcceptedLinear
CHECK_DEADLOCK FALSE
