\* known finding (known/C20.txt "bakrace"): the protocol of /repo HEAD with two parallel workers - NeverLost is violated
SPECIFICATION Spec
CONSTANTS
  NWorkers = 2
  MaxChunks = 1
  FaultTasks = 0
  Protocol = "fixed"
  SetupIds = {"bakinput"}
INVARIANTS NeverLost ReadOnlyUntouched OthersUntouched
CHECK_DEADLOCK FALSE
