\* vacuity guard: the protocol of bdbfbd6 (test <src>.bak, then rename) with two parallel workers races for the name - NeverLost MUST be violated (fixed by f452f5d)
SPECIFICATION Spec
CONSTANTS
  NWorkers = 2
  MaxChunks = 1
  FaultTasks = 0
  Protocol = "fixed"
  SetupIds = {"bakinput"}
INVARIANTS NeverLost ReadOnlyUntouched OthersUntouched
CHECK_DEADLOCK FALSE
