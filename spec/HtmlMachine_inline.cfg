SPECIFICATION Spec
CONSTANTS MaxNodes = 4
MaxDepth = 3
DocMode = FALSE
Vocab <- VocabInline
TextKinds <- TK6
OptSets <- Opts4
INVARIANTS BuilderSound DesignRefines Emit
CHECK_DEADLOCK FALSE
