SPECIFICATION Spec
CONSTANTS MaxNodes = 4
MaxDepth = 3
DocMode = FALSE
Vocab <- VocabInline
TextKinds <- TK4
OptSets <- Opts4
Bugs <- NoBugs
INVARIANTS BuilderSound DesignRefines EmitQuarter
CHECK_DEADLOCK FALSE
