SPECIFICATION Spec
CONSTANTS MaxTok = 5
INVARIANTS DesignOK DesignIdem DesignShrinkOK AsIsOKOutsideKnown
CHECK_DEADLOCK FALSE
