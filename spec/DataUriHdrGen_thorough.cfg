SPECIFICATION Spec
CONSTANTS MaxTok = 5
INVARIANTS DesignOK DesignIdem DesignShrinkOK
CHECK_DEADLOCK FALSE
