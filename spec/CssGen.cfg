SPECIFICATION Spec
INVARIANTS DesignTrbl DesignDrop DesignPair DesignSwap DesignShadow DesignFlex Reflexive ColourRange
CHECK_DEADLOCK FALSE
