SPECIFICATION Spec
INVARIANTS DesignTrbl DesignDrop DesignPair DesignSwap Reflexive ColourRange
CHECK_DEADLOCK FALSE
