----------------------------- MODULE DataUriGen -----------------------------
(* C18 generator + design model.

   Generator: the reachable states are all data URIs  data:<MT[mt]>[;base64],<pay>  with the
   payload bytes drawn from Alphabet, |pay| <= MaxLen (TLC enumerates them exhaustively, the
   state dump is the input set handed to the real minify.DataURI; -simulate walks far beyond
   the bound with a larger alphabet).

   Design model: Design(in, kind) is the helper's algorithm as it is meant to work (decode,
   sub-minify, pick the shorter of base64 / percent-encoding, drop the default media type
   parts, never grow a validly encoded input), written as a function on byte sequences.  TLC
   checks in every generated state that the design satisfies the abstract relation DataUriOK
   (D => A) for every kind of registered minifier, plus the sanity of the codecs themselves. *)
EXTENDS DataUriDesign, DataUriAsIs, TLC
CONSTANTS MaxLen, Alphabet, Kinds
VARIABLES mt, enc, pay, kind
vars == <<mt, enc, pay, kind>>

MT == <<
   <<>>,
   <<116, 101, 120, 116, 47, 112, 108, 97, 105, 110>>,
   <<116, 101, 120, 116, 47, 99, 115, 115>>,
   <<84, 69, 88, 84, 47, 80, 76, 65, 73, 78, 59, 99, 104, 97, 114, 115, 101, 116, 61, 85, 83, 45, 65, 83, 67, 73, 73>>,
   <<105, 109, 97, 103, 101, 47, 115, 118, 103, 43, 120, 109, 108, 59, 120, 61, 121>>,
   <<116, 101, 120, 116, 47, 112, 108, 97, 105, 110, 59, 99, 104, 97, 114, 115, 101, 116, 61, 117, 116, 102, 45, 56>>,
   <<59, 99, 104, 97, 114, 115, 101, 116, 61, 117, 115, 45, 97, 115, 99, 105, 105>>,
   <<116, 101, 120, 116, 47, 120, 32, 59, 32, 97, 32, 61, 32, 98>>,
   <<116, 101, 120, 116, 47, 112, 108, 97, 105, 110, 59, 99, 104, 97, 114, 115, 101, 116, 61, 117, 115, 45, 97, 115, 99, 105, 105, 59, 120, 61, 121>>,
   <<97, 112, 112, 108, 105, 99, 97, 116, 105, 111, 110, 47, 106, 115, 111, 110>>,
   <<116, 101, 120, 116, 47, 99, 115, 115, 59, 99, 104, 97, 114, 115, 101, 116, 61, 117, 115, 45, 97, 115, 99, 105, 105>>,
   <<116, 101, 120, 116, 47, 120, 59, 67, 72, 65, 82, 83, 69, 84, 61, 85, 83, 45, 65, 83, 67, 73, 73, 59, 81, 61, 34, 65, 98, 34>>,
   <<84, 101, 120, 116, 47, 88>>,
   <<116, 101, 120, 116, 47, 120>> >>
(*  1 (none)  2 text/plain  3 text/css  4 TEXT/PLAIN;charset=US-ASCII  5 image/svg+xml;x=y
    6 text/plain;charset=utf-8  7 ;charset=us-ascii  8 "text/x ; a = b"  9 text/plain;charset=us-ascii;x=y
    10 application/json  11 text/css;charset=us-ascii  12 text/x;CHARSET=US-ASCII;Q="Ab"  13 Text/X  14 text/x *)

Uri(m, e, p) == Data5 \o MT[m] \o (IF e = 1 THEN <<59>> \o Base64Tok ELSE <<>>) \o <<44>> \o p

Init == mt \in 1..Len(MT) /\ enc \in {0, 1} /\ kind \in Kinds /\ pay = <<>>
Next == /\ Len(pay) < MaxLen
        /\ \E c \in Alphabet : pay' = Append(pay, c)
        /\ UNCHANGED <<mt, enc, kind>>
Spec == Init /\ [][Next]_vars
\* random walks (TLC -simulate): one seeded successor per step instead of one per alphabet symbol
NextSim == /\ Len(pay) < MaxLen
           /\ pay' = Append(pay, RandomElement(Alphabet))
           /\ UNCHANGED <<mt, enc, kind>>
SpecSim == Init /\ [][NextSim]_vars

Branch(in, k) ==                                               \* which design branch a state exercises
  LET pi == Parse(in) IN
  IF ~pi.ok THEN "D1" ELSE LET d == Decode(pi) IN IF pi.b64 /\ ~d.strict THEN "D2" ELSE
  LET o == Design(in, k) IN IF o = in THEN "D7/D8" ELSE IF Parse(o).b64 THEN "D5" ELSE "D6"

U == Uri(mt, enc, pay)
TypeLow == MediatypeNorm(Parse(U).mt).type
Regs == IF kind = "none" THEN {} ELSE {TypeLow}
Calls == LET pi == Parse(U)  d == Decode(pi) IN
         IF kind = "none" \/ ~pi.ok \/ (pi.b64 /\ ~d.strict) THEN <<>>
         ELSE << [in |-> d.payload, out |-> SubFn(kind, d.payload), err |-> FALSE] >>

\* D => A : the design satisfies the property's relation
DesignOK == DataUriOK(U, Design(U, kind), Regs, Calls)
\* the design is a projection: a second pass changes nothing (no minifier registered)
DesignIdem == kind = "none" => Design(Design(U, kind), kind) = Design(U, kind)
(* the transcription of the current code (DataUriAsIs) violates the relation only on the narrow construct
   of the remaining pinned finding K4, for every kind of registered minifier *)
AsIsOKOutsideKnown ==
  LET o == AsIsUri(U, kind # "none", LAMBDA x : SubFn(kind, x))
      c == IF kind = "none" THEN <<>> ELSE AsIsCalls(U, LAMBDA x : SubFn(kind, x))
  IN ~DataUriOK(U, o, Regs, c) => KnownUri(U)
\* codecs: encode/decode round trips, encoders produce validly encoded text of the predicted length
CodecOK == /\ B64Strict(B64Encode(pay)) /\ B64Decode(B64Encode(pay)) = pay
           /\ PctValid(PctEncodeWith(pay, MustEscape)) /\ PctDecode(PctEncodeWith(pay, MustEscape)) = pay
           /\ PctDecode(PctEncodeWith(pay, PolicyEscape)) = pay
           /\ Len(PctEncodeWith(pay, MustEscape)) = Len(pay) + 2 * KMin(pay)
           /\ CostLo(pay) <= CostHi(pay)
\* the relation is reflexive on outputs of the design (an accepted output, fed back, may be returned as is)
ReflexiveOK == kind = "none" => DataUriOK(Design(U, kind), Design(U, kind), {}, <<>>)

Alpha11 == {97, 32, 37, 35, 34, 60, 0, 255, 43, 47, 61}        \* a space % # " < NUL 0xFF + / =
Alpha14 == Alpha11 \cup {50, 70, 38}                           \* + 2 F &
AlphaAll == 0..255
KindsAll == {"none", "id", "shrink", "grow3", "grow64"}
KindsNone == {"none"}
KindsQuick == {"id", "shrink", "grow3", "grow64"}     \* quick: kind "none" is checked by the (longer) generator run itself
=============================================================================
