SPECIFICATION Spec
CONSTANTS MaxNodes = 3
MaxDepth = 2
DocMode = TRUE
Vocab <- VocabDoc
TextKinds <- TK3
OptSets <- Opts1
Bugs <- BugBody
INVARIANTS BuilderSound DesignRefines
CHECK_DEADLOCK FALSE
