SPECIFICATION Spec
CONSTANTS N = 8
MaxPeek = 6
Depth = 6
EmitMod = 16
Emit = TRUE
INVARIANTS TypeOK RefinesQueue Emitted
CHECK_DEADLOCK FALSE
