\* window family (see VocabWindow in XmlMachine.tla)
SPECIFICATION Spec
CONSTANTS MaxLen = 8
EmitMod = 1
Prefix <- PrefixOpenTextOpen
Emit = TRUE
Vocab <- VocabWindow
INVARIANTS TypeOK DesignRefinesInfoset EmitCase
CHECK_DEADLOCK FALSE
