----------------------------- MODULE C01Ast -----------------------------
(* C01, spec recorder: trace validation of program pairs inside the fragment of JsCore.

   One line = one program (acorn AST of the input text) and the text the real js.Minifier
   made of it (acorn AST of the output), both as JsCore nodes, plus what V8 observed for some
   environments of the spec's environment space:
     [id, free : sequence of free names, inp, outp : node,
      v8 : sequence of [env : sequence of environment indices (one per free name), a, b : observation]]
   For EVERY environment over the free names TLC evaluates Run on both ASTs and requires ObsEq.
   Runs that leave the model (unsupported construct, fuel, TDZ) are not judged; they are counted.
   Wherever V8 executed the same environment, Run must reproduce V8's observation exactly -
   a disagreement is a bug of this specification ("SPECBUG", infrastructure error), never a verdict. *)
EXTENDS JsCore, TraceIO
VARIABLE l
Init == l = 1
Next == l <= N /\ l' = l + 1
Spec == Init /\ [][Next]_l

Fuel == 40
\* the environment space: what a free identifier may be bound to
EnvVal(nm, k) ==
  CASE k = 1 -> Undef [] k = 2 -> Null [] k = 3 -> Num(0) [] k = 4 -> Num(1) [] k = 5 -> Str(<<115>>)
    [] k = 6 -> HostFn(nm, 1) [] k = 7 -> HostFn(nm, 0) [] k = 8 -> HostObj(nm) [] k = 9 -> Bool(FALSE) [] OTHER -> Unbound
NEnv == 10
EnvOf(free, ks) == [nm \in {free[i] : i \in 1..Len(free)} |-> EnvVal(nm, ks[CHOOSE i \in 1..Len(free) : free[i] = nm])]

\* V8's record of an observation in the vocabulary of JsCore.Run
V8Obs(o) == [calls |-> o.calls, globals |-> {o.globals[i] : i \in 1..Len(o.globals)}, comp |-> o.comp]
SameAsV8(r, o) == r.calls = o.calls /\ r.globals = {o.globals[i] : i \in 1..Len(o.globals)} /\ r.comp = o.comp

Judged(e, ks) ==
  LET env == EnvOf(e.free, ks)
      ra == Run(e.inp, env, Fuel)
  IN IF OutOfModel(ra) THEN "skip-in"
     ELSE LET rb == Run(e.outp, env, Fuel)
          IN IF OutOfModel(rb) THEN "skip-out" ELSE IF ObsEq(ra, rb) THEN "ok" ELSE "bad"

\* cross-check of the semantics against the engine
V8Agrees(e, w) ==
  LET env == EnvOf(e.free, w.env)
      ra == Run(e.inp, env, Fuel)
      rb == Run(e.outp, env, Fuel)
  IN /\ (OutOfModel(ra) \/ SameAsV8(ra, w.a))
     /\ (OutOfModel(ra) \/ OutOfModel(rb) \/ w.b.comp[1] = "syntax" \/ SameAsV8(rb, w.b))

\* the environment space of a line: the names in e.vary (at most three) range over all NEnv values, the sink "out" is the
\* logging host function returning undefined, every other free name stays undeclared
InVary(e, nm) == \E j \in 1..Len(e.vary) : e.vary[j] = nm
KsFor(e) == {[i \in 1..Len(e.free) |->
                IF e.free[i] = "out" THEN 7
                ELSE IF InVary(e, e.free[i]) THEN v[CHOOSE j \in 1..Len(e.vary) : e.vary[j] = e.free[i]]
                ELSE 10]
             : v \in [1..Len(e.vary) -> 1..NEnv]}

LineOK(e) ==
  \* (a set of pairs is enumerated once; a function [ks |-> Judged] would be re-evaluated at every application)
  LET res == {<<ks, Judged(e, ks)>> : ks \in KsFor(e)}
      bad == {p \in res : p[2] = "bad"}
      nok == Cardinality({p \in res : p[2] = "ok"})
  IN /\ PrintT(<<"STAT", l, nok, Cardinality(bad), Cardinality({p \in res : p[2] = "skip-in"}), Cardinality({p \in res : p[2] = "skip-out"})>>)
     /\ (\A i \in 1..Len(e.v8) : V8Agrees(e, e.v8[i])) \/ Reject(l, "SPECBUG")
     /\ bad = {} \/ (PrintT(<<"WITNESS", l, (CHOOSE p \in bad : TRUE)[1]>>) /\ Reject(l, "ObsEq under the TLA+ semantics"))
Conforms == l <= N => LineOK(Trace[l])
=============================================================================
