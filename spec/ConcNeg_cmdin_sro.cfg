SPECIFICATION Spec
CONSTANTS
  NG = 1
  MaxCalls = 1
  ShapeNames <- CmdIn
  AllowReg = FALSE
  CopyOpts = TRUE
  TightCap = TRUE
  CopyArgs = FALSE
  HtmlDep = FALSE
  LazyInit = FALSE
  PoolBuf = FALSE
VIEW View
INVARIANT SharedReadOnly
CHECK_DEADLOCK FALSE
