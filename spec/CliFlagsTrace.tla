----------------------------- MODULE CliFlagsTrace -----------------------------
(* Trace validation, command line side of C16.  One line = one run of the real `minify`
   binary with the flags e.exp.fl on a file, next to the library's output for the same input
   under the options in e.o (e.out) and under default options (e.dflt). *)
EXTENDS CliFlags, TraceIO
VARIABLE l
Init == l = 1
Next == l <= N /\ l' = l + 1
Spec == Init /\ [][Next]_l
LineOK(e) ==
  /\ OptionsAgree(e) \/ Reject(l, "library run does not use the documented options")
  /\ (e.clirc = 0 /\ ~e.err /\ ~e.panic) \/ Reject(l, "binary or library failed")
  /\ e.cli = e.out \/ Reject(l, "binary output differs from library output under the documented options")
  /\ e.cli # e.dflt \/ Reject(l, "flag has no effect on a discriminating input")
TypeLineOK(e) ==
  /\ TypeArgOK(e) \/ Reject(l, "type case does not follow the documented table")
  /\ (e.clirc = 0 /\ ~e.err /\ ~e.panic) \/ Reject(l, "binary or library failed")
  /\ e.cli = e.out \/ Reject(l, "binary output differs from the documented minifier's output")
  /\ e.cli # e.in \/ Reject(l, "documented type is not minified")
IsTypeCase(e) == "ty" \in DOMAIN e.exp
Conforms == l <= N => (IF IsTypeCase(Trace[l]) THEN TypeLineOK(Trace[l]) ELSE LineOK(Trace[l]))
=============================================================================
