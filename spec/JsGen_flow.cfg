SPECIFICATION Spec
CONSTANTS MaxSym = 9
MaxS = 1
MaxE = 1
MaxList = 3
Enabled <- FlowNames
INVARIANTS WellFormed Bounded Emit
CHECK_DEADLOCK FALSE
