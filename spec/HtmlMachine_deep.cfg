SPECIFICATION Spec
CONSTANTS MaxNodes = 4
MaxDepth = 3
DocMode = FALSE
Vocab <- VocabSmall
TextKinds <- TK3
OptSets <- Opts4
INVARIANTS BuilderSound DesignRefines EmitSample
CHECK_DEADLOCK FALSE
