SPECIFICATION Spec
CONSTANTS MaxLen = 6
EmitMod = 4
Prefix <- PrefixNone
Emit = TRUE
Vocab <- VocabThorough
INVARIANTS TypeOK DesignRefinesInfoset EmitCase
CHECK_DEADLOCK FALSE
