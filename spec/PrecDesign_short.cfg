SPECIFICATION Spec
CONSTANTS MaxLen = 5
Alphabet <- PAlpha5
Precs <- PrecsDesign
Fault = "short"
INVARIANTS Rounds
CHECK_DEADLOCK FALSE
