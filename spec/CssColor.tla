----------------------------- MODULE CssColor -----------------------------
(* Meaning of CSS colour notations as sRGB 8-bit channels plus alpha (property C04:
   "equal sRGB colour and alpha").  Sources: CSS Color Level 3/4 - hex notations (#rgb #rgba
   #rrggbb #rrggbbaa), rgb()/rgba() with numbers or percentages (clamped), hsl()/hsla()
   (CSS Color 3 section 4.2.4 algorithm, evaluated exactly in integer arithmetic), named
   colours (CssColorTable), `transparent`.

   A colour is a tuple of integers  <<r, g, b>> \o alpha  with alpha
       <<>>            opaque (alpha >= 1 or absent)
       <<0, 0>>        alpha <= 0
       <<1, e>> \o m   functional alpha = m * 10^e   (m decimal digits, exact)
       <<2, aa>>       hex alpha aa/255 (0 < aa < 255)

   Outcome "ood" (outside the domain of this arithmetic) is decided from the notation alone:
   channel numbers that are not integers, percentages with more than 3 decimals, hsl()
   arguments that are not integers or whose exact channel value is a rounding tie.  The
   relation holds vacuously for such INPUT tokens (stated limit), never "on mismatch". *)
EXTENDS NumVal, CssColorTable

LowerC(c) == IF c >= 65 /\ c <= 90 THEN c + 32 ELSE c
LowerS(s) == [i \in 1..Len(s) |-> LowerC(s[i])]

IsHexC(c) == (c >= 48 /\ c <= 57) \/ (c >= 97 /\ c <= 102) \/ (c >= 65 /\ c <= 70)
HexVal(c) == IF c <= 57 THEN c - 48 ELSE IF c >= 97 THEN c - 87 ELSE c - 55
AllHex(s) == \A i \in 1..Len(s) : IsHexC(s[i])

HexAlpha(aa) == IF aa = 255 THEN <<>> ELSE IF aa = 0 THEN <<0, 0>> ELSE <<2, aa>>
\* v = the name of a hash token (without '#')
IsHexColour(v) == Len(v) \in {3, 4, 6, 8} /\ AllHex(v)
HexColour(v) ==
  LET h(i) == HexVal(v[i]) IN
  CASE Len(v) = 3 -> <<17 * h(1), 17 * h(2), 17 * h(3)>>
    [] Len(v) = 4 -> <<17 * h(1), 17 * h(2), 17 * h(3)>> \o HexAlpha(17 * h(4))
    [] Len(v) = 6 -> <<16 * h(1) + h(2), 16 * h(3) + h(4), 16 * h(5) + h(6)>>
    [] OTHER      -> <<16 * h(1) + h(2), 16 * h(3) + h(4), 16 * h(5) + h(6)>> \o HexAlpha(16 * h(7) + h(8))

Pow10(n) == <<1, 10, 100, 1000, 10000, 100000, 1000000, 10000000, 100000000>>[n + 1]

(* number information of a lexeme: value = (-1)^neg * mant * 10^e *)
NI(lex) ==
  LET c == Canon(lex)  se == Small(c.exp) IN
  [zero |-> c.zero, neg |-> c.neg, mant |-> c.mant, e |-> IF IsFar(se) THEN 0 ELSE se + c.k, far |-> IsFar(se) /\ ~c.zero]
Mag(ni) == Len(ni.mant) + ni.e            \* value in [10^(Mag-1), 10^Mag)

\* rgb() number channel: integer, clamped to 0..255
ChanNum(ni) ==
  IF ni.far THEN [ok |-> FALSE, v |-> 0]
  ELSE IF ni.zero \/ ni.neg THEN [ok |-> TRUE, v |-> 0]
  ELSE IF Mag(ni) > 3 THEN [ok |-> TRUE, v |-> 255]
  ELSE IF ni.e < 0 THEN [ok |-> FALSE, v |-> 0]
  ELSE LET x == NatToInt(ni.mant, 1, 0) * Pow10(ni.e) IN [ok |-> TRUE, v |-> IF x > 255 THEN 255 ELSE x]
\* rgb() percentage channel: p% of 255, rounded half up (CSS Color 4 section 4.2)
ChanPct(ni) ==
  IF ni.far THEN [ok |-> FALSE, v |-> 0]
  ELSE IF ni.zero \/ ni.neg THEN [ok |-> TRUE, v |-> 0]
  ELSE IF Mag(ni) > 3 THEN [ok |-> TRUE, v |-> 255]
  ELSE IF ni.e < -3 THEN [ok |-> FALSE, v |-> 0]
  ELSE LET P == NatToInt(ni.mant, 1, 0) * Pow10(ni.e + 3) IN
       [ok |-> TRUE, v |-> IF P >= 100000 THEN 255 ELSE (P * 255 + 50000) \div 100000]

\* alpha from a number (shift = 0) or percentage (shift = -2) token
AlphaOf(ni, shift) ==
  IF ni.far THEN [ok |-> FALSE, b |-> <<>>]
  ELSE IF ni.zero \/ ni.neg THEN [ok |-> TRUE, b |-> <<0, 0>>]
  ELSE IF Mag(ni) + shift >= 1 THEN [ok |-> TRUE, b |-> <<>>]
  ELSE [ok |-> TRUE, b |-> <<1, ni.e + shift>> \o ni.mant]

\* integer in 0..cap-ish from an integer-valued lexeme (for hsl arguments)
IntOf(ni) == NatToInt(ni.mant, 1, 0) * Pow10(ni.e)
\* percentage of hsl(): integer percent clamped to 0..100
PctInt(ni) ==
  IF ni.far THEN [ok |-> FALSE, v |-> 0]
  ELSE IF ni.zero \/ ni.neg THEN [ok |-> TRUE, v |-> 0]
  ELSE IF Mag(ni) > 3 THEN [ok |-> TRUE, v |-> 100]
  ELSE IF ni.e < 0 THEN [ok |-> FALSE, v |-> 0]
  ELSE LET x == IntOf(ni) IN [ok |-> TRUE, v |-> IF x > 100 THEN 100 ELSE x]
HueInt(ni) ==
  IF ni.far THEN [ok |-> FALSE, v |-> 0]
  ELSE IF ni.zero THEN [ok |-> TRUE, v |-> 0]
  ELSE IF ni.e < 0 \/ Mag(ni) > 8 THEN [ok |-> FALSE, v |-> 0]
  ELSE LET x == IntOf(ni) % 360 IN [ok |-> TRUE, v |-> IF ni.neg THEN (360 - x) % 360 ELSE x]

(* CSS Color 3, 4.2.4: HSL -> RGB.  H in degrees 0..359, S and L in percent 0..100.
   m2 and m1 carry scale 10^4, a channel carries scale 6*10^5. *)
HslChan(m1, m2, hk) ==
  IF hk < 60 THEN m1 * 60 + (m2 - m1) * hk
  ELSE IF hk < 180 THEN m2 * 60
  ELSE IF hk < 240 THEN m1 * 60 + (m2 - m1) * (240 - hk)
  ELSE m1 * 60
HslToRgb(H, S, L) ==
  LET m2 == IF L <= 50 THEN L * (S + 100) ELSE (L + S) * 100 - L * S
      m1 == 2 * L * 100 - m2
      ch(hk) == HslChan(m1, m2, hk % 360)
      V == <<ch(H + 120), ch(H), ch(H + 240)>>
      tie == \E i \in 1..3 : (V[i] * 255) % 600000 = 300000
  IN [tie |-> tie, rgb |-> [i \in 1..3 |-> (V[i] * 255 + 300000) \div 600000]]

(* Colour of a function token (record with fields w = lower-cased name, a = arguments).
   st = "no": not a numeric colour function (compared structurally instead);
   st = "ood": numeric colour function outside the arithmetic domain; st = "ok". *)
ColourArgs(t) == SelectSeq(t.a, LAMBDA x : ~(x.k = "ws" \/ x.k = "comma" \/ (x.k = "delim" /\ x.s = <<47>>)))
IsColourFn(t) == t.k = "func" /\ t.w \in {"rgb", "rgba", "hsl", "hsla"}
FuncColour(t) ==
  LET args == ColourArgs(t)
      n == Len(args)
      no == [st |-> "no", b |-> <<>>]
      ood == [st |-> "ood", b |-> <<>>]
  IN
  IF ~IsColourFn(t) THEN no
  ELSE IF n \notin {3, 4} \/ \E i \in 1..n : args[i].k \notin {"num", "pct"} THEN no
  ELSE
    LET ni == [i \in 1..n |-> NI(args[i].n)]
        al == IF n = 3 THEN [ok |-> TRUE, b |-> <<>>]
              ELSE AlphaOf(ni[4], IF args[4].k = "pct" THEN -2 ELSE 0)
    IN
    IF t.w \in {"rgb", "rgba"} THEN
      LET ch == [i \in 1..3 |-> IF args[i].k = "pct" THEN ChanPct(ni[i]) ELSE ChanNum(ni[i])] IN
      IF ~al.ok \/ \E i \in 1..3 : ~ch[i].ok THEN ood
      ELSE [st |-> "ok", b |-> <<ch[1].v, ch[2].v, ch[3].v>> \o al.b]
    ELSE
      \* legacy (comma) syntax: hue number, saturation and lightness percentages (CSS Color 3);
      \* modern (space) syntax also takes plain numbers for them, 50 = 50% (CSS Color 4 section 7)
      LET commas == \E i \in 1..Len(t.a) : t.a[i].k = "comma" IN
      IF args[1].k # "num" \/ (commas /\ (args[2].k # "pct" \/ args[3].k # "pct")) THEN ood
      ELSE LET h == HueInt(ni[1])  s == PctInt(ni[2])  l == PctInt(ni[3]) IN
           IF ~al.ok \/ ~h.ok \/ ~s.ok \/ ~l.ok THEN ood
           ELSE LET c == HslToRgb(h.v, s.v, l.v) IN
                IF c.tie THEN ood ELSE [st |-> "ok", b |-> <<c.rgb[1], c.rgb[2], c.rgb[3]>> \o al.b]
=============================================================================
