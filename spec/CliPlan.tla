----------------------------- MODULE CliPlan -----------------------------
(* C19.  Plan(sc): what the command-line tool is DOCUMENTED to do (cmd/minify/README.md and the
   property text) for a scenario sc = [tree, inv]:

     tree : sequence of entries [p, k, c, t]   p path ("d/c.js", bytes), k kind "f" file / "d" directory /
                                               "l" symbolic link with text t / "h" hard link to the file t,
                                               c content bytes.  Every directory has its own entry.
     inv  : the invocation in abstract form
            inputs  sequence of input arguments as typed (bytes; "d/" keeps its trailing slash)
            output  -o argument as typed (bytes, <<>> = standard output)
            stdin   TRUE = no inputs, read standard input
            r a b s                  --recursive --all --bundle --sync
            type    "" | a filetype name of the documented table ("js") | a media type ("text/css")
            match   sequence of patterns (bytes)      filters sequence of [inc, pat]   (--include/--exclude in order)
            ext     sequence of [e, t]  --ext.<e>=<t>  preserve  sequence of strings (-p), <<>> = not given

   The result is [tasks, unspec, hazard, known]:
     tasks   sequence of [srcs, dst, mode, type, sep]   dst = <<>> is standard output, a source <<>> is
             standard input; mode "min" (library output for `type`, bundle = sources joined with sep),
             "copy" (verbatim, sync mode), "link" (symbolic link recreated, -p links in sync mode)
     unspec  set of reasons why the documentation does not determine the outcome (such scenarios are
             never run: nothing is claimed about them)
     hazard  set of reasons why the planned tasks interfere with each other or with existing entries
     known   set of narrow constructs with a confirmed, unfixed defect (none at present)
     refuse  tasks that cannot be carried out without harming another file (<source>.bak exists): they must fail cleanly

   Nothing in this module is derived from cmd/minify/*.go except where the property text itself fixes
   a detail the README leaves open (the ";\n" separator of JavaScript bundles).                         *)
EXTENDS CliPath

JS   == "application/javascript"
\* README "Types": default extension mapping to mimetype "(and thus minifier)"; webmanifest/rss are not used by generators;
\* xhtml: application/xhtml+xml (RFC 3236; the code since b1ff844)
ExtTable == {
  [e |-> <<99, 115, 115>>,          t |-> "text/css"],
  [e |-> <<104, 116, 109>>,         t |-> "text/html"],
  [e |-> <<104, 116, 109, 108>>,    t |-> "text/html"],
  [e |-> <<106, 115>>,              t |-> JS],
  [e |-> <<106, 115, 111, 110>>,    t |-> "application/json"],
  [e |-> <<109, 106, 115>>,         t |-> JS],
  [e |-> <<114, 115, 115>>,         t |-> "application/rss+xml"],
  [e |-> <<115, 118, 103>>,         t |-> "image/svg+xml"],
  [e |-> <<120, 104, 116, 109, 108>>, t |-> "application/xhtml+xml"],
  [e |-> <<120, 109, 108>>,         t |-> "text/xml"] }
MimeByName == [css |-> "text/css", htm |-> "text/html", html |-> "text/html", js |-> JS,
               json |-> "application/json", mjs |-> JS, rss |-> "application/rss+xml",
               svg |-> "image/svg+xml", xhtml |-> "application/xhtml+xml", xml |-> "text/xml"]
\* extensions that are certainly not mapped to a minifier (anything else makes the scenario unspecified,
\* because the tool knows more extensions than its README lists)
SafeUnknownExt == { <<>>, <<116, 120, 116>>, <<98, 97, 107>>, <<100, 97, 116>>, <<109, 100>> }
TypeMime(t) == IF t \in DOMAIN MimeByName THEN MimeByName[t] ELSE t
JsSep == <<59, 10>>                       \* ";\n"

NoEntry   == [p |-> <<>>, k |-> "none", c |-> <<>>, t |-> <<>>]
RootEntry == [p |-> <<DOT>>, k |-> "d", c |-> <<>>, t |-> <<>>]
Lookup(T, p) ==
  IF p = <<DOT>> THEN RootEntry
  ELSE LET m == {i \in DOMAIN T : T[i].p = p} IN IF m = {} THEN NoEntry ELSE T[Min(m)]

(* Path resolution.  done = components already resolved (a real path), todo = what is left.  A symbolic
   link met on the way (or at the end when followLast) is replaced by its text, relative to its directory. *)
RECURSIVE Res(_, _, _, _, _)
Res(T, done, todo, followLast, fuel) ==
  IF todo = <<>> THEN [ok |-> TRUE, cs |-> done]
  ELSE IF fuel = 0 THEN [ok |-> FALSE, cs |-> <<>>]
  ELSE LET cand == Append(done, Head(todo))
           e == Lookup(T, JoinComps(cand))
       IN IF e.k = "l" /\ (Len(todo) > 1 \/ followLast)
          THEN Res(T, <<>>, CleanOnto(done, e.t) \o Tail(todo), followLast, fuel - 1)
          ELSE Res(T, cand, Tail(todo), followLast, fuel - 1)
RealOf(T, cs, follow) == Res(T, <<>>, cs, follow, 24)
\* kind, real path, file identity ("inode": hard links share it), content, link text of a spelled path
Stat(T, cs, follow) ==
  LET r == RealOf(T, cs, follow)
      e == IF r.ok THEN Lookup(T, JoinComps(r.cs)) ELSE NoEntry
      tgt == IF e.k = "h" THEN Lookup(T, JoinComps(Comps(e.t))) ELSE e
  IN [k |-> IF e.k = "h" THEN "f" ELSE e.k, real |-> r.cs,
      ino |-> IF e.k = "h" THEN Comps(e.t) ELSE r.cs, c |-> tgt.c, t |-> e.t]

ChildNames(T, dir) ==
  {cs[Len(dir) + 1] : cs \in {x \in {Comps(T[i].p) : i \in DOMAIN T} : Len(x) = Len(dir) + 1 /\ IsPrefix(dir, x)}}

\* everything a recursive walk of the spelled directories in `frontier` visits (hidden names skipped unless all)
RECURSIVE WalkR(_, _, _, _, _, _)
WalkR(T, frontier, acc, all, follow, fuel) ==
  IF frontier = {} \/ fuel = 0 THEN acc
  ELSE LET kids == UNION {{Append(sp, n) : n \in ChildNames(T, Stat(T, sp, TRUE).real)} : sp \in frontier}
           vis == {x \in kids : all \/ ~Hidden(x[Len(x)])}
           found == {[sp |-> x, k |-> Stat(T, x, follow).k] : x \in vis}
       IN WalkR(T, {f.sp : f \in {g \in found : g.k = "d"}}, acc \cup {g \in found : g.k # "d"}, all, follow, fuel - 1)

Plan(sc) ==
  LET T == sc.tree
      I == sc.inv
      plinks == \E i \in DOMAIN I.preserve : I.preserve[i] \in {"links", "all"}
      typ == TypeMime(I.type)
      ExtMime(e) ==
        LET ov == SelectSeq(I.ext, LAMBDA x : x.e = e)
            tb == {r \in ExtTable : r.e = e}
        IN IF ov # <<>> THEN TypeMime(ov[Len(ov)].t)
           ELSE IF tb # {} THEN (CHOOSE r \in tb : TRUE).t ELSE ""
      \* --match on the base name; --include/--exclude on the whole path, the last matching one decides
      Filter(cs) ==
        /\ (I.match = <<>> \/ \E i \in DOMAIN I.match : GlobMatch(I.match[i], cs[Len(cs)]))
        /\ FoldLeft(LAMBDA acc, x : IF GlobMatch(x.pat, JoinComps(cs)) THEN x.inc ELSE acc, TRUE, I.filters)
      MimeFor(cs) == IF typ # "" THEN typ ELSE ExtMime(ExtOf(cs[Len(cs)]))
      nIn == Len(I.inputs)
      inC == [i \in 1..nIn |-> Comps(I.inputs[i])]
      inSt == [i \in 1..nIn |-> Stat(T, inC[i], ~plinks)]
      \* README: "A trailing slash in the source path will copy all files inside the directory, while
      \* omitting the trailing slash will copy the directory as well"
      \* ... Both `src/` and `src/.` are equivalent"
      Inside(s) == TrailingSlash(s) \/ (Len(s) >= 2 /\ s[Len(s)] = DOT /\ s[Len(s) - 1] = SLASH)
      root == [i \in 1..nIn |-> IF Inside(I.inputs[i]) THEN inC[i] ELSE FrontOf(inC[i])]
      walked == [i \in 1..nIn |-> IF inSt[i].k = "d" /\ I.r THEN WalkR(T, {inC[i]}, {}, I.a, ~plinks, 8) ELSE {}]
      ItemsOf(i) ==
        IF inSt[i].k \in {"f", "l"} THEN <<[sp |-> inC[i], root |-> root[i], k |-> inSt[i].k, explicit |-> TRUE]>>
        ELSE SetToSortSeq({[sp |-> w.sp, root |-> root[i], k |-> w.k, explicit |-> FALSE] : w \in walked[i]},
                          LAMBDA x, y : CompsLess(x.sp, y.sp))
      items == FoldLeft(LAMBDA acc, i : acc \o ItemsOf(i), <<>>, [i \in 1..nIn |-> i])
      \* what happens to an item: minified, copied verbatim (sync), recreated as link, or left alone
      KindOf(x) ==
        IF x.k = "l" THEN (IF I.s THEN "link" ELSE "drop")
        ELSE IF x.k # "f" THEN "drop"
        ELSE IF Filter(x.sp) /\ MimeFor(x.sp) # "" THEN "min"
        ELSE IF Filter(x.sp) /\ x.explicit /\ ~I.s THEN "min"       \* explicit file of unknown type: flagged unspecified below
        \* README -s: "Copy all files to destination directory and minify when filetype matches"
        ELSE IF I.s THEN "copy" ELSE "drop"
      kept == SelectSeq(items, LAMBDA x : KindOf(x) # "drop")
      mins == SelectSeq(items, LAMBDA x : KindOf(x) = "min")
      toStdout == I.output = <<>>
      lst1dir == nIn = 1 /\ Stat(T, inC[1], FALSE).k = "d"
      \* README: "A trailing slash in the destination path forces writing into a directory"; several inputs
      \* or a directory input without --bundle can only go to a directory
      outDirish == ~toStdout /\ (TrailingSlash(I.output) \/ I.output = <<DOT>> \/ (~I.b /\ (nIn > 1 \/ lst1dir)))
      outC == Comps(I.output)
      DstOf(x) == IF toStdout THEN <<>>
                  ELSE IF outDirish THEN JoinComps(outC \o DropPrefix(x.root, x.sp)) ELSE JoinComps(outC)
      tasks ==
        IF I.stdin THEN <<[srcs |-> << <<>> >>, dst |-> IF toStdout THEN <<>> ELSE JoinComps(outC),
                           mode |-> "min", type |-> typ, sep |-> <<>>]>>
        ELSE IF I.b THEN
          IF mins = <<>> THEN <<>>
          ELSE <<[srcs |-> [k \in 1..Len(mins) |-> JoinComps(mins[k].sp)],
                  dst |-> IF toStdout THEN <<>> ELSE JoinComps(outC), mode |-> "min",
                  type |-> MimeFor(mins[1].sp),
                  \* property text: "concatenated in order with the documented separator"
                  sep |-> IF MimeFor(mins[1].sp) = JS THEN JsSep ELSE <<>>]>>
        ELSE [k \in 1..Len(kept) |->
                [srcs |-> <<JoinComps(kept[k].sp)>>, dst |-> DstOf(kept[k]), mode |-> KindOf(kept[k]),
                 type |-> IF KindOf(kept[k]) = "min" THEN MimeFor(kept[k].sp) ELSE "", sep |-> <<>>]]
      fileNames == {LET cs == Comps(T[i].p) IN cs[Len(cs)] : i \in {j \in DOMAIN T : T[j].k \in {"f", "h", "l"}}}
      unspec ==
           (IF I.stdin /\ (typ = "" \/ I.b \/ I.r \/ I.s \/ I.preserve # <<>> \/ nIn > 0) THEN {"stdin needs --type and nothing else"} ELSE {})
        \cup (IF ~I.stdin /\ nIn = 0 THEN {"no input"} ELSE {})
        \cup (IF toStdout /\ (I.s \/ I.preserve # <<>> \/ (I.r /\ ~I.b) \/ (~I.b /\ nIn > 1)) THEN {"stdout with sync/preserve/recursive/many"} ELSE {})
        \cup (IF typ # "" /\ I.s THEN {"sync with type"} ELSE {})
        \cup (IF I.b /\ (I.s \/ (~toStdout /\ (TrailingSlash(I.output) \/ I.output = <<DOT>>))) THEN {"bundle into a directory"} ELSE {})
        \cup (IF \E i \in 1..nIn : inSt[i].k \notin {"f", "d", "l"} THEN {"input missing"} ELSE {})
        \cup (IF \E i \in 1..nIn : inSt[i].k = "l" /\ ~I.s THEN {"explicit symlink with -p links without sync"} ELSE {})
        \cup (IF \E i \in 1..nIn : inSt[i].k = "d" /\ inC[i] # <<>> /\ Hidden(inC[i][Len(inC[i])]) /\ ~I.a THEN {"hidden directory as input"} ELSE {})
        \cup (IF \E i \in 1..nIn : inSt[i].k = "f" /\ TrailingSlash(I.inputs[i]) THEN {"file with trailing slash"} ELSE {})
        \cup (IF \E i \in 1..Len(items) : items[i].explicit /\ items[i].k = "f" /\ ~Filter(items[i].sp) THEN {"explicit input filtered out"} ELSE {})
        \cup (IF \E i \in 1..Len(items) : items[i].explicit /\ KindOf(items[i]) = "min" /\ MimeFor(items[i].sp) = "" THEN {"explicit input of unknown type"} ELSE {})
        \cup (IF \E i \in 1..Len(items) : items[i].k \notin {"f", "l"} THEN {"walk meets a dangling link"} ELSE {})
        \cup (IF \E n \in fileNames : ExtMime(ExtOf(n)) = "" /\ ExtOf(n) \notin SafeUnknownExt THEN {"extension outside the documented table"} ELSE {})
        \cup (IF I.b /\ \E i \in 1..Len(mins) : MimeFor(mins[i].sp) # MimeFor(mins[1].sp) THEN {"bundle of different types"} ELSE {})
        \cup (IF nIn = 1 /\ ~lst1dir /\ inSt[1].k = "d" /\ ~outDirish THEN {"symlinked directory to a file output"} ELSE {})
        \cup (IF toStdout /\ Len(tasks) > 1 THEN {"several tasks to stdout"} ELSE {})
      \* ---- interference between tasks and with what exists -------------------------------------------
      nT == Len(tasks)
      dstC == [k \in 1..nT |-> Comps(tasks[k].dst)]
      dstReal == [k \in 1..nT |-> IF tasks[k].dst = <<>> THEN <<>> ELSE RealOf(T, dstC[k], TRUE).cs]
      dstSt == [k \in 1..nT |-> Stat(T, dstC[k], FALSE)]
      SrcIno(k, j) == Stat(T, Comps(tasks[k].srcs[j]), TRUE).ino
      fileDst == {k \in 1..nT : tasks[k].dst # <<>>}
      \* a task whose destination is (the same file as) one of its own sources
      InPlace(k) == k \in fileDst /\ dstSt[k].k # "none"
                    /\ \E j \in 1..Len(tasks[k].srcs) : tasks[k].srcs[j] # <<>> /\ SrcIno(k, j) = Stat(T, dstC[k], TRUE).ino
      \* A file minified onto itself is kept as <source>.bak while the new content is written (C20: "a sibling backup
      \* (<name>.bak) holds them").  When something already has that name the backup cannot be made without modifying
      \* another file (C19: "modifies no other file"): the only outcome consistent with both is that minifying this file
      \* fails - "the destination receives the original bytes ... and the exit status is non-zero".
      OntoSrc(k) == {j \in 1..Len(tasks[k].srcs) : tasks[k].srcs[j] # <<>> /\ SrcIno(k, j) = Stat(T, dstC[k], TRUE).ino}
      Refused(k) == InPlace(k) /\ tasks[k].mode = "min"
                    /\ Stat(T, Comps(tasks[k].srcs[Min(OntoSrc(k))] \o BakSuffix), FALSE).k # "none"
      SpelledSame(k) == \E j \in 1..Len(tasks[k].srcs) : tasks[k].srcs[j] = tasks[k].dst
      hazard ==
           (IF \E k1, k2 \in fileDst : k1 # k2 /\ dstReal[k1] = dstReal[k2] THEN {"two tasks share a destination"} ELSE {})
        \cup (IF \E k1, k2 \in fileDst : k1 # k2 /\ Len(dstReal[k1]) < Len(dstReal[k2]) /\ IsPrefix(dstReal[k1], dstReal[k2]) THEN {"destination inside another destination"} ELSE {})
        \cup (IF \E k1 \in fileDst, k2 \in 1..nT : k1 # k2 /\ \E j \in 1..Len(tasks[k2].srcs) :
                    tasks[k2].srcs[j] # <<>> /\ SrcIno(k2, j) = Stat(T, dstC[k1], TRUE).ino /\ dstSt[k1].k # "none"
              THEN {"destination is the source of another task"} ELSE {})
        \cup (IF \E k \in fileDst : dstSt[k].k \in {"d", "l"} THEN {"destination is a directory or a symbolic link"} ELSE {})
        \cup (IF \E k \in fileDst : \E n \in 1..(Len(dstReal[k]) - 1) :
                    Lookup(T, JoinComps(SubSeq(dstReal[k], 1, n))).k \in {"f", "h"} THEN {"destination below a file"} ELSE {})
        \cup (IF \E k \in fileDst : dstSt[k].k = "f" /\ ~InPlace(k) /\
                    (Lookup(T, JoinComps(dstReal[k])).k = "h" \/ \E i \in DOMAIN T : T[i].k = "h" /\ Comps(T[i].t) = dstReal[k])
              THEN {"destination exists and has a second name"} ELSE {})
      \* narrow constructs with a confirmed, not yet fixed defect (left to pinned witnesses).  Empty since the fixes
      \* bdbfbd6 (stale <name>.bak: refuse), 282e2ab (backup cleaned up for aliased outputs), ec8cfb8 (sync copies a
      \* named file of unknown type), f8787e2 (`src/.` = `src/`): these constructs are generated again.
      \* (f452f5d: a task whose backup name belongs to another task of the run is not started; 38012cd: sync leaves a file
      \* alone that it would copy onto itself through another spelling - both constructs are generated again.)
      \* (b1ff844: xhtml is mapped to application/xhtml+xml as the README's "(and thus minifier)" requires - generated again.)
      known == {}
  IN [tasks |-> tasks, unspec |-> unspec, hazard |-> hazard, known |-> known,
      inplace |-> {k \in fileDst : InPlace(k)}, refuse |-> {k \in fileDst : Refused(k)}, dstReal |-> [k \in 1..nT |-> JoinComps(dstReal[k])]]
=============================================================================
