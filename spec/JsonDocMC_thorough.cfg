SPECIFICATION Spec
CONSTANTS MaxLen = 7
KindAlphabet <- Kinds8
INVARIANTS Agree DeadStaysDead DoneIsFinal Depth
CHECK_DEADLOCK FALSE
