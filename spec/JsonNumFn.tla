----------------------------- MODULE JsonNumFn -----------------------------
(* The number branch of json.Minify as functions (design model, see JsonNumFix which checks
   them over the generator automaton of the number grammar): Repair is what the minifier does
   to the result of minify.Number before writing it, NormalForm is what it silently assumes
   about that result.  C07Trace uses them to predict the output lexeme of every number from
   the observed result of the public minify.Number on the same lexeme (drift = information). *)
EXTENDS JsonDoc

Repair(t) == IF t[1] = 46 THEN <<48>> \o t
             ELSE IF Len(t) > 1 /\ t[1] = 45 /\ t[2] = 46 THEN <<45, 48>> \o SubSeq(t, 2, Len(t))
             ELSE t

HasDot(t) == \E i \in 1..Len(t) : t[i] = 46
NormalForm(t) ==
  LET p == Parts(t) IN
  /\ t[1] # 43
  /\ Len(p.ip) <= 1 \/ p.ip[1] # 0
  /\ HasDot(t) => p.fp # <<>>
=============================================================================
