SPECIFICATION Spec
INVARIANT TypeOK
CHECK_DEADLOCK FALSE
