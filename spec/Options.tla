----------------------------- MODULE Options -----------------------------
(* Property C16: "Each Keep*/Version/Precision option does what its documentation says and
   nothing else: kept constructs (variable names, end tags, document tags, quotes, default
   attribute values, comments, whitespace between inline content, number lexemes, CSS2-only
   syntax) appear in the output as in the input, output for a target ECMAScript version uses
   no syntax newer than that version unless the input already did ..."

   One relation per option, on the TOKEN STREAMS of input and output.  The streams come from
   tokenizers that are independent of the code under test (x/net/html, encoding/xml, acorn,
   two small lexers for JSON and CSS; see harness/cmd/c16 and js/c16_features.js).  A token
   is a record [k, n, t, v, q, b]:
     html  S start tag (n name)   E end tag   A attribute (n key, t owner tag, v lower-cased
           trimmed value, q 0 no value / 1 unquoted / 2 "double" / 3 'single')   T text
           (b decoded bytes)   R raw text (script, style, textarea, title, pre)   C comment
           (b data)   D doctype
     xml/svg  S E T C as above, P processing instruction, D directive, A attribute,
           AN attribute whose value is number+unit (b number lexeme, v unit, q element ordinal)
     json  p punctuation (n)  str  num (b lexeme)  lit (n)
     css   num (b lexeme, v unit)  id (n)  fn (n)  hash  at  str  url  cmt  p
   The reference for every clause is README.md / cmd/minify/README.md of the repository (the
   option's documentation) and the standards' tables transcribed below - never the code. *)
EXTENDS NumVal, FiniteSets

Max2(a, b) == IF a > b THEN a ELSE b
SeqMap(f(_), s) == [i \in 1..Len(s) |-> f(s[i])]
Kind(toks, k) == SelectSeq(toks, LAMBDA t : t.k = k)
CountIf(toks, P(_)) == Len(SelectSeq(toks, P))

\* a is a subsequence of b (greedy scan, one pass over b)
IsSubseq(a, b) ==
  FoldLeft(LAMBDA i, x : IF i <= Len(a) /\ a[i] = x THEN i + 1 ELSE i, 1, b) = Len(a) + 1

HasPrefixB(s, p) == Len(s) >= Len(p) /\ SubSeq(s, 1, Len(p)) = p
HasSuffixB(s, p) == Len(s) >= Len(p) /\ SubSeq(s, Len(s) - Len(p) + 1, Len(s)) = p

(***************************************************************************)
(* HTML                                                                    *)
(***************************************************************************)
HtmlWs == {32, 9, 10, 12, 13}
DocTags == {"html", "head", "body"}
(* Elements whose default rendering is inline text-level (HTML Standard 15.3 "Phrasing
   content", UA style sheet display:inline) and that have no optional tags.  Everything else
   is treated as a possible block boundary, where the documentation promises nothing. *)
InlineTags == {"a", "abbr", "b", "bdi", "bdo", "cite", "code", "data", "dfn", "em", "i", "kbd", "mark",
               "q", "s", "samp", "small", "span", "strong", "sub", "sup", "time", "u", "var", "label",
               "font", "tt", "big"}
ObjectTags == {"img", "input"}                      \* replaced inline content: behaves like a word

IsTag(t) == t.k = "S" \/ t.k = "E"
EndNames(toks, X) == SeqMap(LAMBDA t : t.n, SelectSeq(toks, LAMBDA t : t.k = "E" /\ t.n \notin X))
NStart(toks, n) == CountIf(toks, LAMBDA t : t.k = "S" /\ t.n = n)
NEnd(toks, n) == CountIf(toks, LAMBDA t : t.k = "E" /\ t.n = n)

(* KeepEndTags: "preserve all end tags".  The default documentation lists two different
   minifications: "strip unrequired tags (html, head, body, ...)" - whole tags, governed by
   KeepDocumentTags - and "strip unrequired end tags (tr, td, li, ... and often p)", which is
   what this option switches off.  Hence: the end tags of the output are the end tags of the
   input, in order, except that an end tag may disappear together with its start tag (whole
   element removed: html/head/body/colgroup, an empty script or style element). *)
KeepEndTagsOK(in, out, keepDoc) ==
  LET X == (IF keepDoc THEN {} ELSE DocTags) \cup {"colgroup"}
      ei == EndNames(in, X)  eo == EndNames(out, X)
  IN /\ IsSubseq(eo, ei)
     /\ \A n \in ToSet(ei) : NEnd(in, n) - NEnd(out, n) <= Max2(0, NStart(in, n) - NStart(out, n))

(* KeepDocumentTags: "preserve html, head and body tags" *)
DocTagSeq(toks) == SeqMap(LAMBDA t : <<t.k, t.n>>, SelectSeq(toks, LAMBDA t : IsTag(t) /\ t.n \in DocTags))
KeepDocumentTagsOK(in, out) == DocTagSeq(out) = DocTagSeq(in)

(* KeepQuotes: "preserve quotes around attribute values": an attribute that was quoted and
   still has a value is still quoted, i.e. per (element, attribute) name the number of
   unquoted values does not grow. *)
UnqKeys(toks) == {<<a.t, a.n>> : a \in ToSet(SelectSeq(toks, LAMBDA t : t.k = "A" /\ t.q = 1))}
NUnq(toks, key) == CountIf(toks, LAMBDA t : t.k = "A" /\ t.q = 1 /\ t.t = key[1] /\ t.n = key[2])
KeepQuotesOK(in, out) == \A key \in UnqKeys(out) : NUnq(out, key) <= NUnq(in, key)

(* KeepDefaultAttrVals: "preserve default attribute values such as
   <script type="application/javascript">".  Default values by the HTML Standard (4.12.1
   script@type JavaScript MIME type essence match, 4.2.6 style@type / style@media, 4.10.5
   input@type, 4.10.6 button@type, 4.10.3 form@method / form@enctype, 4.9.11 colspan/rowspan,
   4.9.3/4.9.4 span, 4.8.14 area@shape, 4.2.4 link@type of a style sheet). *)
JsMime == {"text/javascript", "application/javascript", "text/ecmascript", "application/ecmascript",
           "application/x-javascript", "application/x-ecmascript", "text/x-javascript", "text/x-ecmascript",
           "text/jscript", "text/livescript", "text/javascript1.0", "text/javascript1.1", "text/javascript1.2",
           "text/javascript1.3", "text/javascript1.4", "text/javascript1.5"}
IsDefaultAttr(a) ==
  \/ a.t = "script" /\ a.n = "type" /\ a.v \in JsMime
  \/ a.t \in {"style", "link"} /\ a.n = "type" /\ a.v = "text/css"
  \/ a.t = "style" /\ a.n = "media" /\ a.v = "all"
  \/ a.t = "input" /\ a.n = "type" /\ a.v = "text"
  \/ a.t = "button" /\ a.n = "type" /\ a.v = "submit"
  \/ a.t = "form" /\ a.n = "method" /\ a.v = "get"
  \/ a.t = "form" /\ a.n = "enctype" /\ a.v = "application/x-www-form-urlencoded"
  \/ a.t \in {"td", "th"} /\ a.n \in {"colspan", "rowspan"} /\ a.v = "1"
  \/ a.t \in {"col", "colgroup"} /\ a.n = "span" /\ a.v = "1"
  \/ a.t = "area" /\ a.n = "shape" /\ a.v = "rect"
DefaultAttrSeq(toks) == SeqMap(LAMBDA a : <<a.t, a.n, a.v>>, SelectSeq(toks, LAMBDA t : t.k = "A" /\ IsDefaultAttr(t)))
KeepDefaultAttrValsOK(in, out) == DefaultAttrSeq(out) = DefaultAttrSeq(in)

(* Comments.  Default: "strip all comments (including conditional comments ...)".
   KeepComments (cmd/minify: "Preserve all comments"): comment tokens verbatim, in order.
   KeepSpecialComments: "preserve all special comments, including Server Side Includes such
   as <!--#include file="header.html" --> and IE conditional comments such as
   <!--[if IE 6]><![endif]--> and <![if IE 6]><![endif]>".  A downlevel-hidden conditional
   comment carries markup; its delimiters are preserved, the markup inside may be minified.
   With <? ?> as template delimiters a "<?...?>" stretch is template text, not a comment. *)
BIf == <<91, 105, 102, 32>>                            \* "[if "
BEndif == <<91, 101, 110, 100, 105, 102, 93>>          \* "[endif]"
BHiddenEnd == <<60, 33, 91, 101, 110, 100, 105, 102, 93>>  \* "<![endif]"
IsSSI(b) == Len(b) > 1 /\ b[1] = 35
IsConditional(b) == HasPrefixB(b, BIf) \/ HasSuffixB(b, BEndif)
IsSpecial(b) == IsSSI(b) \/ IsConditional(b)
IsHidden(b) == HasPrefixB(b, BIf) /\ HasSuffixB(b, BHiddenEnd) /\ \E i \in 1..Len(b) : b[i] = 62
CondHead(b) == SubSeq(b, 1, CHOOSE i \in 1..Len(b) : b[i] = 62 /\ \A j \in 1..(i-1) : b[j] # 62)
SpecialMatch(a, b) == a = b \/ (IsHidden(a) /\ IsHidden(b) /\ CondHead(a) = CondHead(b))
IsPhpDelims(d) == Len(d) = 2 /\ d[1] = "<?"
Comments(toks, d) ==
  SeqMap(LAMBDA t : t.b, SelectSeq(toks, LAMBDA t : t.k = "C" /\ ~(IsPhpDelims(d) /\ Len(t.b) > 0 /\ t.b[1] = 63)))
CommentsOK(in, out, keepAll, keepSpecial, d) ==
  LET ci == Comments(in, d)  co == Comments(out, d) IN
  IF keepAll THEN co = ci
  ELSE IF keepSpecial
       THEN LET s == SelectSeq(ci, IsSpecial)
            IN Len(co) = Len(s) /\ \A i \in 1..Len(s) : SpecialMatch(s[i], co[i])
       ELSE co = <<>>

(* KeepWhitespace: "preserve whitespace between inline tags but still collapse multiple
   whitespace characters into one" (HTML and XML).  Signature of a document: the sequence of
   items (every non-blank text byte; 0 for an inline tag, whose <<kind, name>> goes to `names`;
   1 for replaced inline content) and, between consecutive items, a gap: 0 nothing, 1 blank,
   2 a tag that may start or end a block (the documentation promises nothing there).  The
   blanks before the first and after the last item (document edges) are not part of it. *)
SigInit == [items |-> <<>>, gaps |-> <<>>, names |-> <<>>, pend |-> 0]
Push(acc, code) == [acc EXCEPT !.items = Append(@, code),
                               !.gaps = IF acc.items = <<>> THEN <<>> ELSE Append(@, acc.pend),
                               !.pend = 0]
SigText(acc, b, ws) ==
  FoldLeft(LAMBDA a, c : IF c \in ws THEN [a EXCEPT !.pend = Max2(@, 1)] ELSE Push(a, c), acc, b)
HtmlSig(toks) ==
  FoldLeft(LAMBDA acc, t :
     IF t.k = "T" THEN SigText(acc, t.b, HtmlWs)
     ELSE IF IsTag(t) THEN
            IF t.n \in InlineTags THEN [Push(acc, 0) EXCEPT !.names = Append(@, <<t.k, t.n>>)]
            ELSE IF t.n \in ObjectTags THEN Push(acc, 1)
            ELSE [acc EXCEPT !.pend = 2]
     ELSE acc, SigInit, toks)
XmlWs == {32, 9, 10, 13}
XmlSig(toks) ==
  FoldLeft(LAMBDA acc, t :
     IF t.k = "T" THEN SigText(acc, t.b, XmlWs)
     ELSE IF IsTag(t) THEN [Push(acc, 0) EXCEPT !.names = Append(@, <<t.k, t.n>>)]
     ELSE acc, SigInit, toks)
SigKept(a, b) ==
  /\ a.items = b.items
  /\ a.names = b.names
  /\ \A i \in 1..Len(a.gaps) : a.gaps[i] = 1 => b.gaps[i] = 1
\* "... but still collapse multiple whitespace characters into one"
Collapsed(toks, ws) ==
  \A t \in ToSet(Kind(toks, "T")) : \A i \in 1..(Len(t.b) - 1) : ~(t.b[i] \in ws /\ t.b[i+1] \in ws)
(* cmd/minify/README.md, --html-keep-whitespace: "Preserve whitespace characters but still collapse multiple
   into one" - wider than "between inline tags".  Second signature: EVERY tag is an item.  When the items
   and tag names are the same on both sides (tags with optional start/end tags aside, see below), a blank between text and a tag - block tags included - is still there.  Blanks between two
   tags are claimed for inline tags only (above): between e.g. <select> and <option>, <ul> and <li> they are
   inter-element white space of content models without text. *)
(* Tags that the documented minifications may drop ("strip unrequired tags (html, head, body, ...)", "strip
   unrequired end tags (tr, td, li, ... and often p)": the elements with optional tags of HTML 13.1.2.4) are
   not items of this signature - a gap that contains one is of kind 2 (nothing claimed) - so that the rest of
   a document is still judged when some optional tag was dropped. *)
OptionalEnd == {"li", "dt", "dd", "p", "rt", "rp", "rb", "rtc", "optgroup", "option", "colgroup", "caption",
                "thead", "tbody", "tfoot", "tr", "td", "th", "html", "head", "body"}
OptionalStart == {"html", "head", "body", "colgroup", "tbody"}
Droppable(t) == (t.k = "E" /\ t.n \in OptionalEnd) \/ (t.k = "S" /\ t.n \in OptionalStart)
HtmlSigAll(toks) ==
  FoldLeft(LAMBDA acc, t :
     IF t.k = "T" THEN SigText(acc, t.b, HtmlWs)
     ELSE IF IsTag(t) THEN
            IF Droppable(t) THEN [acc EXCEPT !.pend = 2]
            ELSE [Push(acc, 0) EXCEPT !.names = Append(@, <<t.k, t.n>>)]
     ELSE acc, SigInit, toks)
TextGapsKept(a, b) ==
  (a.items = b.items /\ a.names = b.names) =>
     \A i \in 1..Len(a.gaps) : (a.gaps[i] = 1 /\ (a.items[i] # 0 \/ a.items[i+1] # 0)) => b.gaps[i] = 1
HtmlKeepWhitespaceOK(in, out, d) ==
  /\ SigKept(HtmlSig(in), HtmlSig(out))
  /\ TextGapsKept(HtmlSigAll(in), HtmlSigAll(out))
  /\ (d = <<>> => Collapsed(out, HtmlWs))
XmlKeepWhitespaceOK(in, out) == SigKept(XmlSig(in), XmlSig(out)) /\ Collapsed(out, XmlWs)

(* TemplateDelims: "preserve context within and surrounding the given opening and closing
   delimiters": the delimited spans are the same strings in the same order. *)
TemplateOK(si, so) == so = si

(* "... and nothing else": KeepComments / KeepSpecialComments / KeepDefaultAttrVals / KeepQuotes decide
   about comments, default attributes and quoting only.  Compared with the output tz of the same document
   under the same configuration with these four switched off, the output has the same tags, the same other
   attributes with the same values, the same raw text and the same text signature (items, inline tag names
   and gaps) once what the switched-on options govern (comments; default-valued attributes; quoting) is disregarded.  (KeepEndTags,
   KeepDocumentTags and KeepWhitespace legitimately change the white space state of the token loop, so
   they stay as they are on both sides.) *)
QClass(q) == IF q <= 1 THEN q ELSE 2                     \* no value / unquoted / quoted
Skeleton(toks, o) ==
  SeqMap(LAMBDA t : <<t.k, t.n, t.t, t.v, IF o.KeepQuotes THEN 0 ELSE QClass(t.q)>>,
         SelectSeq(toks, LAMBDA t : IsTag(t) \/ (t.k = "A" /\ ~(o.KeepDefaultAttrVals /\ IsDefaultAttr(t)))))
SameSig(a, b) == a.items = b.items /\ a.names = b.names /\ a.gaps = b.gaps
NothingElseOK(out, tz, o) ==
  /\ Skeleton(out, o) = Skeleton(tz, o)
  /\ SeqMap(LAMBDA t : t.b, Kind(out, "R")) = SeqMap(LAMBDA t : t.b, Kind(tz, "R"))
  /\ SameSig(HtmlSig(out), HtmlSig(tz))
AttrCommentOpts(o) == o.KeepComments \/ o.KeepSpecialComments \/ o.KeepDefaultAttrVals \/ o.KeepQuotes

(* All HTML clauses for one configuration o (record of the option fields): "option is on =>
   its relation holds".  Used by the trace specification (real code) and by the design model. *)
Cl(name, ok) == [name |-> name, ok |-> ok]
HtmlClauses(in, out, o, si, so, tz) == <<
  Cl("KeepEndTags", o.KeepEndTags => KeepEndTagsOK(in, out, o.KeepDocumentTags)),
  Cl("KeepDocumentTags", o.KeepDocumentTags => KeepDocumentTagsOK(in, out)),
  Cl("KeepQuotes", o.KeepQuotes => KeepQuotesOK(in, out)),
  Cl("KeepDefaultAttrVals", o.KeepDefaultAttrVals => KeepDefaultAttrValsOK(in, out)),
  Cl("KeepWhitespace", o.KeepWhitespace => HtmlKeepWhitespaceOK(in, out, o.Delims)),
  \* KeepConditionalComments is a deprecated alias: exercised through the command line table only
  Cl("Comments", ~o.KeepConditionalComments => CommentsOK(in, out, o.KeepComments, o.KeepSpecialComments, o.Delims)),
  Cl("TemplateDelims", o.Delims # <<>> => TemplateOK(si, so)),
  Cl("NothingElse", (AttrCommentOpts(o) /\ ~o.KeepConditionalComments) => NothingElseOK(out, tz, o)) >>

(***************************************************************************)
(* Precision (CSS, JS, JSON, SVG): "number of significant digits to        *)
(* preserve for numbers, 0 means no trimming".                             *)
(***************************************************************************)
(* At least min(p, sig(in)) significant digits survive: |out - in| <= 1/2 * 10^(E-p+1) with E
   the decimal exponent of in's leading digit; a number that has no more than p significant
   digits is reproduced exactly.  (The helper's own wording - half a unit of the last digit it
   retains - is C08's relation; this one is about the option.)  Positions are relative to
   in's written exponent, mantissas are digit sequences (BigNat), never machine integers. *)
PrecisionOK(in, p, out) ==
  /\ IsNumber(out)
  /\ \/ ValueEq(in, out)
     \/ /\ p > 0
        /\ LET x == Canon(in)  y == Canon(out)
               r == Small(SSub(y.exp, x.exp))
           IN /\ ~x.zero
              /\ Len(x.mant) > p
              /\ ~IsFar(r)
              /\ (y.zero \/ x.neg = y.neg)
              /\ LET kin == x.k
                     qw == r + y.q
                     Q == kin + Len(x.mant) - p          \* position E-p+1, > kin here
                     topIn == kin + Len(x.mant) - 1
                     topOut == qw + Len(y.full) - 1
                 IN /\ (y.zero \/ (topIn - topOut <= 1 /\ topOut - topIn <= 1))
                    /\ (~y.zero \/ (qw - topIn <= 2 /\ topIn - qw <= 400))
                    /\ LET m == IF kin < qw THEN kin ELSE qw
                           A == ShiftL(x.mant, kin - m)
                           B == ShiftL(y.full, qw - m)
                       IN LeqNat(DblNat(AbsDiffNat(A, B)), ShiftL(<<1>>, Q - m))

Lexemes(toks, k) == SeqMap(LAMBDA t : t.b, Kind(toks, k))
\* numbers correspond position by position (the generated documents contain no construct
\* whose documented minification adds, removes or reorders numbers)
NumsPrecisionOK(ni, p, no) ==
  /\ Len(no) = Len(ni)
  /\ \A i \in 1..Len(ni) : IsNumber(ni[i]) => PrecisionOK(ni[i], p, no[i])

(***************************************************************************)
(* JSON                                                                    *)
(***************************************************************************)
\* KeepNumbers: "do not minify numbers if set to true" / "Preserve original numbers instead of minifying them"
JsonKeepNumbersOK(in, out) == Lexemes(out, "num") = Lexemes(in, "num")
JsonPrecisionOK(in, p, out) == NumsPrecisionOK(Lexemes(in, "num"), p, Lexemes(out, "num"))

(***************************************************************************)
(* CSS                                                                     *)
(***************************************************************************)
(* KeepCSS2: "prohibits using CSS3 syntax (such as exponents in numbers, or rgba( -> rgb( ),
   might be incomplete".  CSS 2.1 (4.1.1) numbers have no exponent part and CSS 2.1 has no
   `initial` keyword (CSS Cascade 3); checked are exactly these two, because the documentation
   disclaims completeness: none of them appears in the output unless the input already had it. *)
KeepCSS2OK(in, out) ==
  /\ (\E t \in ToSet(Kind(out, "num")) : HasExp(t.b)) => (\E t \in ToSet(Kind(in, "num")) : HasExp(t.b))
  /\ (\E t \in ToSet(Kind(out, "id")) : t.n = "initial") => (\E t \in ToSet(Kind(in, "id")) : t.n = "initial")
CssPrecisionOK(in, p, out) == NumsPrecisionOK(Lexemes(in, "num"), p, Lexemes(out, "num"))

(***************************************************************************)
(* SVG                                                                     *)
(***************************************************************************)
\* KeepComments: "Preserve all comments" (cmd/minify)
SvgKeepCommentsOK(in, out) == Lexemes(out, "C") = Lexemes(in, "C")
\* Precision on attributes whose value is a number with an optional unit: the attribute of the
\* same element ordinal and name in the output, if it is still there, carries the trimmed number
SvgPrecisionOK(in, p, out) ==
  \A a \in ToSet(Kind(in, "AN")) :
    \A b \in ToSet(SelectSeq(out, LAMBDA t : t.k \in {"A", "AN"} /\ t.q = a.q /\ t.n = a.n /\ t.t = a.t)) :
       b.k = "AN" /\ PrecisionOK(a.b, p, b.b)

(***************************************************************************)
(* JS                                                                      *)
(***************************************************************************)
(* Version: "ECMAScript version to use for output, 0 is the latest".  Year of the edition
   that introduced each syntactic feature (ECMA-262 editions 6..13). *)
FeatureYear == [
  arrow |-> 2015, class |-> 2015, template |-> 2015, letconst |-> 2015, forof |-> 2015, generator |-> 2015,
  assignpattern |-> 2015, rest |-> 2015, spread |-> 2015, destructuring |-> 2015, shorthandprop |-> 2015,
  method |-> 2015, computedkey |-> 2015, binoctal |-> 2015, newtarget |-> 2015, super |-> 2015,
  exp |-> 2016,
  async |-> 2017,
  objrest |-> 2018, objspread |-> 2018, forawait |-> 2018,
  optcatch |-> 2019,
  nullish |-> 2020, optchain |-> 2020, bigint |-> 2020, dynimport |-> 2020, importmeta |-> 2020,
  logicalassign |-> 2021, numsep |-> 2021,
  classfield |-> 2022, private |-> 2022, staticblock |-> 2022 ]
\* "uses no syntax newer than that version unless the input already did"
NewFeatures(fi, fo) == ToSet(fo) \ ToSet(fi)
JsVersionOK(fi, fo, v, except) ==
  v = 0 \/ \A f \in NewFeatures(fi, fo) \ except : f \in DOMAIN FeatureYear /\ FeatureYear[f] <= v
(* Features whose ungated introduction is a known finding: none at present (`**` from Math.pow and
   shorthand properties were fixed by 50d13b0 / 77a0171).  A feature listed here would be disregarded
   for the repository's own test inputs only; generated documents are judged on every feature. *)
KnownUngated == {}
\* the same sentence, read off an independent parser's edition switch: the least edition that
\* accepts the output is not above max(v, least edition that accepts the input)
JsEditionOK(pvi, pvo, v) == v = 0 \/ pvo <= Max2(pvi, Max2(v, 5))
(* KeepVarNames: "keeps variable names as they are and omits shortening variable names":
   no identifier spelling appears that the input did not have, neither as a binding nor as a
   reference (statements may be reordered or merged, so spellings are compared as sets). *)
\* constant folding may spell a value property of the global object (ECMA-262 19.1): new code, not a renamed variable
GlobalValueNames == {"NaN", "Infinity", "undefined"}
JsKeepVarNamesOK(idi, ido, dci, dco) ==
  /\ ToSet(ido) \subseteq (ToSet(idi) \cup GlobalValueNames)
  /\ ToSet(dco) \subseteq ToSet(dci)
(* Precision in JS: documented rewrites introduce numeric literals of their own ("shorten true,
   false, and undefined to !0, !1 and void 0") and reorder declarations ("move var declarations to
   the top of the global/function scope"), so literals are not paired by position: every literal of
   the input has a literal in the output that is its value trimmed as PrecisionOK allows, and no
   literal is lost. *)
JsPrecisionOK(ni, p, no) ==
  /\ Len(no) >= Len(ni)
  /\ \A i \in 1..Len(ni) : IsNumber(ni[i]) => \E j \in 1..Len(no) : PrecisionOK(ni[i], p, no[j])
(* "... and nothing else" for Precision in JS: compared with the output of the same program under the same
   options with Precision = 0, the output has the same tokens (strings, templates, names, property names,
   BigInt and regular expression literals, punctuators - sk and sk0, with "#" in place of a numeric literal)
   and a numeric literal differs only if it is a trimmed numeric LITERAL OF THE INPUT: its untrimmed value
   occurs as a numeric literal in the input (a number that the minifier made out of something else, e.g. the
   string key in o["12345"], is none and stays as it is).  An input literal that is not decimal (hex, octal,
   binary) may reappear as any decimal number. *)
JsPrecisionOnlyOK(ni, p, nos, no0, sk, sk0) ==
  /\ sk = sk0
  /\ Len(nos) = Len(no0)
  /\ \A i \in 1..Len(no0) :
        \/ nos[i] = no0[i]
        \/ /\ IsNumber(no0[i])
           /\ \E j \in 1..Len(ni) : ~IsNumber(ni[j]) \/ ValueEq(ni[j], no0[i])
           /\ PrecisionOK(no0[i], p, nos[i])
=============================================================================
