SPECIFICATION Spec
CONSTANTS FixZ = TRUE
FixDeg = TRUE
FixZeroL = TRUE
ForgetCp = TRUE
INVARIANT Conforms
POSTCONDITION AcceptedLinear
CHECK_DEADLOCK FALSE
