SPECIFICATION Spec
CONSTANTS
 Input <- In4
 MaxOut = 3
 PieceLen = 2
 MaxBuf = 3
 Modes <- ModesC14
 PatchCL = TRUE
 Mut = "none"
 RecordHist = FALSE
 Monitor = FALSE
 FullProduct = TRUE
VIEW View
INVARIANTS FaultSurfaces NoSilentTruncation CloseWaits NotExistSurfaces NoPartialInput
PROPERTIES NoWriteAfterClose CloseReturned
