SPECIFICATION Spec
CONSTANTS
 Input <- In4
 MaxOut = 3
 PieceLen = 2
 MaxBuf = 3
 Modes <- ModesC14
 PatchCL = FALSE
 Mut = "none"
 RecordHist = FALSE
 Monitor = FALSE
 FullProduct = TRUE
VIEW View
INVARIANTS FaultSurfaces NoSilentTruncation CloseWaits NotExistSurfaces NoPartialInput
PROPERTIES NoWriteAfterClose CloseReturned
