SPECIFICATION Spec
CONSTANTS MaxLen = 3
Alphabet <- Alpha11
Kinds <- KindsNone
INVARIANTS DesignOK DesignIdem CodecOK ReflexiveOK AsIsOKOutsideKnown
CHECK_DEADLOCK FALSE
