SPECIFICATION Spec
CONSTANTS MaxLen = 3
Alphabet <- Alpha11
Kinds <- KindsNone
CHECK_DEADLOCK FALSE
