----------------------------- MODULE JsRewrite -----------------------------
(* C09, JavaScript: rewrite triggers x operand precedence classes.

   The minifier rewrites expressions and statements (conditional -> || / && / ??, ! folding and
   De Morgan, ?. folding, boolean branches, common callee, if -> conditional / && / ||, comma
   merging into return / throw / if / for, while -> for, parenthesis removal by precedence).
   Every rewrite builds a NEW operator around operands it did not parse in that position, so its
   validity depends on the precedence class of the operands - and on the mixing restrictions of
   the grammar (?? may not be mixed with || or && without parentheses, a unary expression may not
   be the base of **, an arrow / yield / assignment / comma operand needs parentheses almost
   everywhere).

   A state is (rewrite trigger, operand X, operand Y, which of the two is written inside
   parentheses in the input); TLC enumerates all of them, the harness renders the program by
   substitution (@Z is the fixed operand c; programs containing yield / await are wrapped in a
   generator / async function) and the real minifier's output must stay valid JavaScript and be
   accepted again (Closure.PipeInv; V8 script + module goals, acorn). *)
EXTENDS Integers, Sequences, FiniteSets, TLC

Rewrites == {
  "x=@X?@X:@Y;",                         \* c?c:Y  ->  c||Y
  "x=@X?@Y:@X;",                         \* c?Y:c  ->  c&&Y
  "x=@X?@Y:@Y;",
  "x=!@X?@Y:@Z;",
  "x=!!@X?@Y:@Z;",
  "x=@X?true:false;",
  "x=@X?false:true;",
  "x=@X?true:@Y;",
  "x=@X?@Y:true;",
  "x=@X?false:@Y;",
  "x=@X?@Y:false;",
  "x=@X==null?@Y:@X;",                   \* -> ??
  "x=@X!=null?@X:@Y;",
  "x=(@X===null||@X===undefined)?@Y:@X;",
  "x=@X==null?undefined:@X.p;",          \* -> ?.
  "x=@X!=null?@X.p:void 0;",
  "x=@X==null?undefined:@X(@Y);",
  "x=@X==null?undefined:@X[@Y];",
  "x=@X?@Y:@Z?@Y:w;",
  "x=@X?f(@Y):f(@Z);",                   \* common callee
  "x=!(@X&&@Y);",
  "x=!(@X||@Y);",
  "x=!(!@X||!@Y);",
  "x=!(@X==@Y);",
  "x=!(@X<@Y);",
  "x=!(@X);",
  "x=!!(@X);",
  "x=-(@X);",
  "x=-(-(@X));",
  "x=+(@X);",
  "x=typeof(@X)==='string';",
  "x=void(@X);",
  "x=(@X)&&(@Y);",
  "x=(@X)||(@Y);",
  "x=(@X)??(@Y);",
  "x=(@X)&&((@Y)&&@Z);",
  "x=(@X)||((@Y)||@Z);",
  "x=((@X)??(@Y))??@Z;",
  "x=(@X)**(@Y);",
  "x=(@X)**((@Y)**@Z);",
  "x=((@X)**(@Y))**@Z;",
  "x=(@X)+((@Y)+@Z);",
  "x=(@X)*(@Y);",
  "x=(@X)<(@Y);",
  "x=(@X)in(@Y);",
  "x=(@X)===(@Y);",
  "x=((@X),(@Y))&&@Z;",
  "x=(@X)?(@Y):(@Z);",
  "x=(@X)();",
  "x=(@X)(@Y);",
  "x=new(@X);",
  "x=new(@X)(@Y);",
  "x=(@X).p;",
  "x=(@X)?.p;",
  "x=(@X)[@Y];",
  "x=(@X)`t`;",
  "x=[...(@X),(@Y)];",
  "x={p:(@X),...(@Y)};",
  "x=`${@X}${@Y}`;",
  "(@X)=>(@Y);",
  "x=z=>(@X);",
  "x=z=>{return(@X)};",
  "x=(z=(@X))=>z;",
  "x=(@X)?.[@Y];",
  "x=@Z=(@X);",
  "x=@Z+=(@X);",
  "x=@Z??=(@X);",
  "if(@X)@Y;",
  "if(!(@X))@Y;",
  "if(@X)@Y;else @Z;",
  "if(@X);else @Y;",
  "if(@X)a=@Y;else a=@Z;",
  "if(@X)f(@Y);else f(@Z);",
  "if(@X){if(@Y)@Z}",
  "if(@X)@Y;else if(@Z)w();",
  "function f(){if(@X)return @X;return @Y}",
  "function f(){if(@X)return @Y;return @X}",
  "function f(){if(@X)return @Y;else return @Z}",
  "function f(){if(@X)return @Y;return @Z}",
  "function f(){if(@X)return;@Y}",
  "function f(){if(@X){@Y;return}@Z}",
  "function f(){@X;@Y;return @Z}",
  "function f(){@X;return}",
  "function f(){return @X,void 0}",
  "function f(){@X;throw @Y}",
  "function f(){if(@X)throw @Y;throw @Z}",
  "@X;@Y;",
  "@X;@Y;if(@Z)w();",
  "@X;for(;@Y;);",
  "@X;for(var i=@Y;;);",
  "@X;while(@Y);",
  "@X;switch(@Y){}",
  "@X;with(@Y);",
  "var v=@X;v=@Y;",
  "var v;v=@X;@Y;",
  "while(@X)@Y;",
  "do @X;while(@Y)",
  "for(;@X;)@Y;",
  "for(@X;;)@Y;",
  "for(var i in @X)@Y;",
  "for(var i of(@X))@Y;",
  "switch(@X){case @Y:break;default:@Z}",
  "label:{@X;break label}",
  "try{@X}catch(e){@Y}finally{@Z}"
}

\* one representative per precedence class / grammatical restriction (written without parentheses)
Operands == {
  "a", "a.b", "a[b]", "a()", "a?.b", "a`t`", "new a", "new a()", "this", "null", "undefined", "true", "1", "'s'", "/r/", "[a]",
  "{}", "function(){}", "class{}",
  "a++", "++a", "-a", "!a", "typeof a", "void 0", "delete a.b", "await a",
  "a**b", "a*b", "a+b", "a<<b", "a<b", "a in b", "a instanceof b", "a==b", "a===null", "a&b", "a^b", "a|b", "a&&b", "a||b", "a??b",
  "a?b:d", "a=b", "a+=b", "a??=b", "a=>b", "async a=>b", "()=>{}", "yield a", "yield", "a,b"
}

VARIABLES rw, x, y, par
vars == <<rw, x, y, par>>
Init == rw \in Rewrites /\ x \in Operands /\ y \in Operands /\ par \in 0..3     \* bit 0: X in parentheses, bit 1: Y in parentheses
Next == FALSE /\ UNCHANGED vars
Spec == Init /\ [][Next]_vars
TypeOK == rw \in Rewrites /\ x \in Operands /\ y \in Operands /\ par \in 0..3
=============================================================================
