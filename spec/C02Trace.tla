----------------------------- MODULE C02Trace -----------------------------
(* Trace validation for C02.  Reject reasons are short clause codes (TLC wraps long tuples over
   several lines); the sentence of the property each one implements is quoted in JsScope.tla:
     CaptureFree/scope|grouping|with  PublicUnchanged/free|pub|top|topset  NoCollision/count  NoReserved[/lex]
     WithUnchanged/own  KeepUnchanged  Behaviour (V8 cross-check)  Unparseable
  One line = one program minified twice by the real js.Minifier
   (KeepVarNames on / off), both outputs projected by js/scope.js (acorn) to the facts of JsScope.
     st = "ok"        both outputs parse to the same tree up to identifier spelling: every clause is evaluated
     st = "mismatch"  trees differ in structure (outside the renamer): only the spelling-level clauses
     st = "lex"       the shortened output does not parse although the name-keeping output does
     st = "rejected"  the minifier refused the input in both modes (outside the quantifier)
     st = "error"/"keepbad"/"unsupported"  never produced for a judged line (the driver turns them into exit 2 or skips by input syntax)
   exec = TRUE: obsk/obsr are the observation sequences of executing both outputs (V8). *)
EXTENDS JsScope, TraceIO
VARIABLES l, rk, rr
vars == <<l, rk, rr>>

Judged(e) == e.st = "ok"
ResK(e) == IF Judged(e) THEN ResolveAll(e, World(e, "keep")) ELSE <<>>
ResR(e) == IF Judged(e) THEN ResolveAll(e, World(e, "ren")) ELSE <<>>

Init == /\ l = 1
        /\ rk = IF N >= 1 THEN ResK(Trace[1]) ELSE <<>>
        /\ rr = IF N >= 1 THEN ResR(Trace[1]) ELSE <<>>
Next == /\ l <= N
        /\ l' = l + 1
        /\ rk' = IF l + 1 <= N THEN ResK(Trace[l + 1]) ELSE <<>>
        /\ rr' = IF l + 1 <= N THEN ResR(Trace[l + 1]) ELSE <<>>
Spec == Init /\ [][Next]_vars

Dbg == "C02DEBUG" \in DOMAIN IOEnv     \* development aid: print the offending indices
Ok(S, why) == S = {} \/ (PrintT(<<"REJECT", l, why>>) /\ (IF Dbg THEN PrintT(<<"DETAIL", why, S>>) ELSE TRUE))

\* token level: a name of the keep output became a keyword token in the shortened output
LexReserved(e) == /\ Len(e.tk) = Len(e.tr)
                  /\ \E i \in DOMAIN e.tk : e.tk[i][1] = "n" /\ e.tr[i][1] = "k"

FullOK(e) ==
  /\ Ok(BadScope(rk, rr), "CaptureFree/scope")
  /\ Ok(BadFree(e, rk, rr), "PublicUnchanged/free")
  /\ (Bijective(Pairs(e, rk, rr)) \/ Reject(l, "CaptureFree/grouping"))
  /\ (SameBindingCount(e) \/ Reject(l, "NoCollision/count"))
  /\ Ok(BadPublic(e), "PublicUnchanged/pub")
  /\ Ok(BadTop(e, rk), "PublicUnchanged/top")
  /\ (TopNames(e, World(e, "keep")) = TopNames(e, World(e, "ren")) \/ Reject(l, "PublicUnchanged/topset"))
  /\ Ok(BadWithOwn(e, rk), "WithUnchanged/own")
  /\ Ok(BadWithCross(e, rk), "CaptureFree/with")

NameOK(e) ==
  /\ Ok(BadReserved(e), "NoReserved")
  /\ Ok(BadKept(e), "KeepUnchanged")

ExecOK(e) == e.exec => (e.obsk = e.obsr \/ Reject(l, "Behaviour"))

LineOK(e) ==
  CASE e.st = "ok"       -> FullOK(e) /\ NameOK(e) /\ ExecOK(e)
    [] e.st = "mismatch" -> NameOK(e) /\ ExecOK(e)
    [] e.st = "lex"      -> IF LexReserved(e) THEN Reject(l, "NoReserved/lex")
                            ELSE Reject(l, "Unparseable")
    [] e.st = "rejected" -> TRUE
    [] OTHER             -> Reject(l, "unjudgeable")
Conforms == l <= N => LineOK(Trace[l])
=============================================================================
