----------------------------- MODULE C06BufTrace -----------------------------
(* Replay of XmlBuffer's call histories on the real xml.TokenBuffer (harness/cmd/c06 -buffer).
   One line = one history: [n, ops, rets]; ops[j] = -1 for Shift, i >= 0 for Peek(i); rets[j] = number of the
   token the real buffer returned (0 = ErrorToken).  Expected: the plain queue over 1..n, Err, Err, ... *)
EXTENDS Integers, Sequences, SequencesExt, TraceIO
VARIABLE l
Init == l = 1
Next == l <= N /\ l' = l + 1
Spec == Init /\ [][Next]_l
Tok(n, i) == IF i <= n THEN i ELSE 0
QueueRets(n, ops) ==
  FoldLeft(LAMBDA st, op : IF op = -1 THEN [k |-> st.k + 1, r |-> Append(st.r, Tok(n, st.k + 1))]
                           ELSE [k |-> st.k, r |-> Append(st.r, Tok(n, st.k + 1 + op))],
           [k |-> 0, r |-> <<>>], ops).r
LineOK(e) == e.rets = QueueRets(e.n, e.ops) \/ Reject(l, "token buffer differs from a queue")
Conforms == l <= N => LineOK(Trace[l])
=============================================================================
