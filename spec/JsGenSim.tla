----------------------------- MODULE JsGenSim -----------------------------
(* JsGen with all productions enabled, for TLC -simulate walks far beyond the exhaustive bounds
   (a module of its own so that this run can go on side by side with the exhaustive JsGen runs) *)
EXTENDS JsGen
=============================================================================
