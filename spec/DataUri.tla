------------------------------ MODULE DataUri ------------------------------
(* C18.  RFC 2397 data URIs and media type strings on byte sequences, and the two
   relations of the property:

     DataUriWhy(in, out, regs, calls)  = "" iff the helper's result is acceptable
     MediatypeWhy(in, out)             = "" iff the media type helper's result is acceptable

   (the *Why operators return the name of the first clause that fails, so that the trace
   specification can report it; DataUriOK / MediatypeOK are `Why = ""`).

   Everything here is written from RFC 2397 / RFC 2396 (urlchar) / RFC 2045 (base64,
   quoted-string) and the property text - not from the code under test. *)
EXTENDS Integers, Sequences, FiniteSets, SequencesExt

\* ---------------------------------------------------------------- bytes
IsWs(c) == c \in {9, 10, 12, 13, 32}
IsUpper(c) == c >= 65 /\ c <= 90
IsLowerAl(c) == c >= 97 /\ c <= 122
IsDigit(c) == c >= 48 /\ c <= 57
Lower(c) == IF IsUpper(c) THEN c + 32 ELSE c
LowerSeq(s) == [i \in 1..Len(s) |-> Lower(s[i])]
StripWs(s) == SelectSeq(s, LAMBDA c : ~IsWs(c))
Trim(s) == LET a == SelectInSeq(s, LAMBDA c : ~IsWs(c))
               b == SelectLastInSeq(s, LAMBDA c : ~IsWs(c))
           IN IF a = 0 THEN <<>> ELSE SubSeq(s, a, b)
IsHex(c) == IsDigit(c) \/ (c >= 65 /\ c <= 70) \/ (c >= 97 /\ c <= 102)
HexVal(c) == IF IsDigit(c) THEN c - 48 ELSE IF c <= 70 THEN c - 55 ELSE c - 87
Min2(a, b) == IF a <= b THEN a ELSE b
Count(s, P(_)) == Cardinality({i \in 1..Len(s) : P(s[i])})
Idx(s) == [i \in 1..Len(s) |-> i]

Data5 == <<100, 97, 116, 97, 58>>                                   \* data:
TextPlain == <<116, 101, 120, 116, 47, 112, 108, 97, 105, 110>>     \* text/plain
Base64Tok == <<98, 97, 115, 101, 54, 52>>                           \* base64
CharsetAscii == <<99, 104, 97, 114, 115, 101, 116, 61, 117, 115, 45, 97, 115, 99, 105, 105>>  \* charset=us-ascii

(* RFC 2397: data := *urlchar, urlchar imported from RFC 2396: uric = reserved | unreserved |
   escaped.  A byte may stand for itself iff it is reserved or unreserved; every other byte
   (including "%" itself) has to be written as %XX. *)
UricLit == {59, 47, 63, 58, 64, 38, 61, 43, 36, 44}               \* reserved  ; / ? : @ & = + $ ,
           \cup {45, 95, 46, 33, 126, 42, 39, 40, 41}             \* mark      - _ . ! ~ * ' ( )
           \cup (48..57) \cup (65..90) \cup (97..122)
MustEscape(c) == c \notin UricLit

\* ---------------------------------------------------------------- percent-encoding
(* Decoding: %XX with two hex digits is one byte; any other byte - including a "%" that is
   not followed by two hex digits, and "+" - stands for itself (RFC 2396 section 2.4; "+" is
   only a space in application/x-www-form-urlencoded, which RFC 2397 does not use). *)
PctDecode(s) ==
  FoldLeft(LAMBDA st, i :
             IF st.skip > 0 THEN [st EXCEPT !.skip = @ - 1]
             ELSE IF s[i] = 37 /\ i + 2 <= Len(s) /\ IsHex(s[i+1]) /\ IsHex(s[i+2])
                  THEN [skip |-> 2, acc |-> Append(st.acc, 16 * HexVal(s[i+1]) + HexVal(s[i+2]))]
                  ELSE [skip |-> 0, acc |-> Append(st.acc, s[i])],
           [skip |-> 0, acc |-> <<>>], Idx(s)).acc
\* "validly encoded": only urlchars, every "%" starts an escape
PctValid(s) ==
  \A i \in 1..Len(s) :
     IF s[i] = 37 THEN i + 2 <= Len(s) /\ IsHex(s[i+1]) /\ IsHex(s[i+2]) ELSE s[i] \in UricLit
HexDigit(v) == IF v < 10 THEN 48 + v ELSE 55 + v
PctEncodeWith(p, Esc(_)) ==
  FoldLeft(LAMBDA acc, c : IF Esc(c) THEN acc \o <<37, HexDigit(c \div 16), HexDigit(c % 16)>> ELSE Append(acc, c),
           <<>>, p)

\* ---------------------------------------------------------------- base64 (RFC 2045 6.8)
Sextet(c) == IF IsUpper(c) THEN c - 65 ELSE IF IsLowerAl(c) THEN c - 71 ELSE IF IsDigit(c) THEN c + 4
             ELSE IF c = 43 THEN 62 ELSE IF c = 47 THEN 63 ELSE 0 - 1
B64Pad(raw) == LET n == Len(raw) IN
  IF n >= 2 /\ raw[n] = 61 /\ raw[n-1] = 61 THEN 2 ELSE IF n >= 1 /\ raw[n] = 61 THEN 1 ELSE 0
\* strict: alphabet only, length a multiple of four, at most two "=" and only at the end
B64Strict(raw) == /\ Len(raw) % 4 = 0
                  /\ \A i \in 1..(Len(raw) - B64Pad(raw)) : Sextet(raw[i]) >= 0
B64Decode(raw) ==
  LET n == Len(raw)
      outLen == 3 * (n \div 4) - B64Pad(raw)
      v(i) == IF raw[i] = 61 THEN 0 ELSE Sextet(raw[i])
      word(k) == v(4*k-3) * 262144 + v(4*k-2) * 4096 + v(4*k-1) * 64 + v(4*k)
      byte(j) == LET w == word((j-1) \div 3 + 1)  r == (j-1) % 3 IN
                 IF r = 0 THEN w \div 65536 ELSE IF r = 1 THEN (w \div 256) % 256 ELSE w % 256
  IN [j \in 1..outLen |-> byte(j)]
(* lenient reading (RFC 2045: characters outside the alphabet are ignored; many decoders also
   accept missing padding): used only to decide whether an input that is NOT strictly valid
   may nevertheless be decoded by the helper. *)
B64Clean(raw) ==
  LET c == SelectSeq(raw, LAMBDA x : Sextet(x) >= 0 \/ x = 61)
      m == Len(c) % 4
  IN IF m = 0 \/ B64Pad(c) > 0 THEN c ELSE IF m = 2 THEN c \o <<61, 61>> ELSE IF m = 3 THEN Append(c, 61) ELSE c
B64Sym(v) == IF v < 26 THEN 65 + v ELSE IF v < 52 THEN 71 + v ELSE IF v < 62 THEN v - 4 ELSE IF v = 62 THEN 43 ELSE 47
B64Len(n) == 4 * ((n + 2) \div 3)
B64Encode(p) ==
  LET n == Len(p)
      b(i) == IF i <= n THEN p[i] ELSE 0
      word(k) == b(3*k-2) * 65536 + b(3*k-1) * 256 + b(3*k)
      sym(j) == LET k == (j-1) \div 4 + 1  r == (j-1) % 4  w == word(k)
                    avail == n - 3 * (k - 1)              \* payload bytes in this group (1..3 or more)
                IN IF r = 0 THEN B64Sym(w \div 262144)
                   ELSE IF r = 1 THEN B64Sym((w \div 4096) % 64)
                   ELSE IF r = 2 THEN (IF avail >= 2 THEN B64Sym((w \div 64) % 64) ELSE 61)
                   ELSE (IF avail >= 3 THEN B64Sym(w % 64) ELSE 61)
  IN [j \in 1..B64Len(n) |-> sym(j)]

\* ---------------------------------------------------------------- RFC 2397 syntax
(* dataurl := "data:" [ mediatype ] [ ";base64" ] "," data.   The header ends at the first
   comma; ";base64" is the marker only as the last ";"-separated item directly before the comma
   (blanks around it tolerated: the property compares "up to whitespace"). *)
Bad == [ok |-> FALSE, mt |-> <<>>, b64 |-> FALSE, raw |-> <<>>]
Parse(u) ==
  IF ~(Len(u) >= 5 /\ SubSeq(u, 1, 5) = Data5) THEN Bad
  ELSE LET comma == SelectInSeq(u, LAMBDA c : c = 44) IN
       IF comma = 0 THEN Bad
       ELSE LET head == SubSeq(u, 6, comma - 1)
                semi == SelectLastInSeq(head, LAMBDA c : c = 59)
                b64 == semi > 0 /\ Trim(SubSeq(head, semi + 1, Len(head))) = Base64Tok
            IN [ok |-> TRUE, mt |-> IF b64 THEN SubSeq(head, 1, semi - 1) ELSE head,
                b64 |-> b64, raw |-> SubSeq(u, comma + 1, Len(u))]

\* strict |-> the payload was validly encoded; lenient |-> some decoder reading can decode it
Decode(p) ==
  IF p.b64 THEN
     IF B64Strict(p.raw) THEN [strict |-> TRUE, lenient |-> TRUE, payload |-> B64Decode(p.raw)]
     ELSE LET c == B64Clean(p.raw) IN
          IF B64Strict(c) THEN [strict |-> FALSE, lenient |-> TRUE, payload |-> B64Decode(c)]
          ELSE [strict |-> FALSE, lenient |-> FALSE, payload |-> <<>>]
  ELSE [strict |-> PctValid(p.raw), lenient |-> TRUE, payload |-> PctDecode(p.raw)]

Split(s, sep) ==
  FoldLeft(LAMBDA acc, c : IF c = sep THEN Append(acc, <<>>) ELSE [acc EXCEPT ![Len(acc)] = Append(@, c)],
           << <<>> >>, s)
(* "the same media type (up to case, whitespace and dropping the default text/plain and
   charset=us-ascii)": type and parameter list after lower-casing and removing blanks; an omitted
   type is text/plain (RFC 2397: "text/plain can be omitted but the charset parameter supplied");
   charset=us-ascii and empty parameters carry nothing. *)
MediatypeNorm(mt) ==
  LET segs == Split(StripWs(LowerSeq(mt)), 59)
  IN [type |-> IF segs[1] = <<>> THEN TextPlain ELSE segs[1],
      params |-> SelectSeq(Tail(segs), LAMBDA p : p # <<>> /\ p # CharsetAscii)]
TypeOf(mt) == Trim(Split(mt, 59)[1])                       \* type as written (blanks trimmed)
\* length of the shortest spelling of a normalised media type
MinMtLen(n) == (IF n.type = TextPlain THEN 0 ELSE Len(n.type))
               + FoldLeft(LAMBDA a, p : a + 1 + Len(p), 0, n.params)
               + (IF n.params # <<>> /\ n.params[Len(n.params)] = Base64Tok THEN 1 ELSE 0)   \* ";base64;" - else it would be the marker

\* ---------------------------------------------------------------- the relation
KMin(p) == Count(p, MustEscape)
KAmp(p) == Count(p, LAMBDA c : c = 38)
(* cost of the part after "data:<mediatype>" ( [;base64] "," data ), minus the comma.  Percent-
   encoding must escape the non-urlchars; "&" may additionally be escaped (RFC 2397 section 5:
   "&" needs care when the URL is embedded in SGML/HTML), nothing else. *)
CostLo(p) == Min2(7 + B64Len(Len(p)), Len(p) + 2 * KMin(p))
CostHi(p) == Min2(7 + B64Len(Len(p)), Len(p) + 2 * (KMin(p) + KAmp(p)))
EncCost(out, po) == Len(out) - 6 - Len(po.mt)

\* clauses for "out is a spelling of media type ti with payload q"
SpellsWhy(in, validIn, out, ti, q) ==
  LET po == Parse(out) IN
  IF ~po.ok THEN "result is not a data URI"
  ELSE LET d == Decode(po) IN
       IF ~d.lenient \/ (po.b64 /\ ~d.strict) THEN "result payload is not validly encoded"
       ELSE IF MediatypeNorm(po.mt) # ti THEN "media type changed"
       ELSE IF d.payload # q THEN "payload changed"
       ELSE IF EncCost(out, po) > CostHi(q) THEN "not the shorter encoding"
       ELSE IF validIn /\ Len(out) > Len(in) THEN "longer than a validly encoded input"
       ELSE ""

(* regs  : the media types (byte sequences) for which a minifier is registered
   calls : what the registered minifier was observed to receive and produce during this call,
           a sequence of [in, out, err] (outermost calls only; err = it returned an error) *)
DataUriWhy(in, out, regs, calls) ==
  LET pi == Parse(in) IN
  IF ~pi.ok THEN (IF out = in THEN "" ELSE "not a data URI but changed")
  ELSE
  LET d == Decode(pi) IN
  IF ~d.lenient THEN (IF out = in THEN "" ELSE "undecodable payload but changed")
  ELSE IF pi.b64 /\ ~d.strict /\ out = in THEN ""          \* malformed base64 may be left alone
  ELSE
  LET ti == MediatypeNorm(pi.mt)
      p == d.payload
      called == Len(calls) > 0
      q == IF called /\ ~calls[1].err THEN calls[1].out ELSE p   \* a failing minifier produces nothing
      (* "to the payload the registered minifier produces for it - the identical bytes when
         none is registered" *)
      callWhy == IF called /\ ~(ti.type \in regs) THEN "minifier called for unregistered type"
                 ELSE IF Len(calls) > 1 THEN "minifier called more than once"
                 ELSE IF called /\ calls[1].in # p THEN "minifier got other than decoded payload"
                 ELSE IF ~called /\ (IF TypeOf(pi.mt) = <<>> THEN TextPlain ELSE TypeOf(pi.mt)) \in regs THEN "registered minifier not called"
                 ELSE ""
  IN IF callWhy # "" THEN callWhy
     ELSE LET w == SpellsWhy(in, d.strict, out, ti, q) IN
          IF w = "" THEN ""
          (* "never returns more bytes than it was given": when even the shortest spelling of the
             minified payload would be longer than the input, the helper may fall back to the
             input itself or to the payload as given *)
          ELSE IF Len(in) < 6 + MinMtLen(ti) + CostHi(q)
                  /\ (out = in \/ SpellsWhy(in, d.strict, out, ti, p) = "") THEN ""
          ELSE w
DataUriOK(in, out, regs, calls) == DataUriWhy(in, out, regs, calls) = ""

\* ---------------------------------------------------------------- media type strings
(* RFC 2045 / RFC 7231: quoted-string = <"> *(qtext | quoted-pair) <">, quoted-pair = "\" CHAR.
   mode 0 outside, 1 inside a quoted string, 2 inside directly after a backslash. *)
QStep(mode, c) == IF mode = 0 THEN (IF c = 34 THEN 1 ELSE 0)
                  ELSE IF mode = 1 THEN (IF c = 92 THEN 2 ELSE IF c = 34 THEN 0 ELSE 1)
                  ELSE 1
\* "lowercases and strips whitespace outside quoted strings"
MtExpected(in) ==
  FoldLeft(LAMBDA st, c :
             [mode |-> QStep(st.mode, c),
              acc |-> IF st.mode # 0 THEN Append(st.acc, c)
                      ELSE IF IsWs(c) THEN st.acc ELSE Append(st.acc, Lower(c))],
           [mode |-> 0, acc |-> <<>>], in).acc
(* An opening quote that is never closed is not a quoted-string of the grammar: from there to the
   end the text is malformed and the property does not say how it is to be treated, so there the
   helper may or may not lower-case / strip.  UnterminatedAt = index of that quote, 0 if none. *)
UnterminatedAt(in) ==
  LET r == FoldLeft(LAMBDA st, i : [mode |-> QStep(st.mode, in[i]),
                                    open |-> IF st.mode = 0 /\ in[i] = 34 THEN i ELSE st.open],
                    [mode |-> 0, open |-> 0], Idx(in))
  IN IF r.mode = 0 THEN 0 ELSE r.open
\* "only lowercases and strips whitespace outside quoted strings": out arises from in by deleting
\* blanks and lower-casing letters outside quoted strings, nothing else (u = UnterminatedAt(in))
MtSafeT(in, out, u) ==
  LET r == FoldLeft(LAMBDA st, i :
                 LET c == in[i]
                     more == st.j <= Len(out)
                     free == u > 0 /\ i >= u            \* malformed tail
                 IN
                 IF (st.mode = 0 \/ free) /\ IsWs(c)
                    THEN [mode |-> QStep(st.mode, c), j |-> IF more /\ out[st.j] = c THEN st.j + 1 ELSE st.j, ok |-> st.ok]
                 ELSE IF st.mode = 0 \/ free
                    THEN [mode |-> QStep(st.mode, c), j |-> st.j + 1, ok |-> st.ok /\ more /\ (out[st.j] = c \/ out[st.j] = Lower(c))]
                 ELSE [mode |-> QStep(st.mode, c), j |-> st.j + 1, ok |-> st.ok /\ more /\ out[st.j] = c],
               [mode |-> 0, j |-> 1, ok |-> TRUE], Idx(in))
  IN r.ok /\ r.j = Len(out) + 1
MtSafe(in, out) == MtSafeT(in, out, UnterminatedAt(in))
(* godoc of minify.Mediatype: "removing all whitespace and lowercasing all parts except strings";
   the source documents that lower-casing may be skipped on stretches of 1024 bytes and more, so
   beyond that length only the "only" reading is demanded. *)
MtNormal(in, out) ==
  LET u == UnterminatedAt(in) IN
  IF u = 0 THEN out = MtExpected(in)
  ELSE LET eh == MtExpected(SubSeq(in, 1, u - 1)) IN
       /\ Len(out) >= Len(eh) /\ SubSeq(out, 1, Len(eh)) = eh
       /\ MtSafeT(SubSeq(in, u, Len(in)), SubSeq(out, Len(eh) + 1, Len(out)), 1)
MediatypeWhy(in, out) ==
  IF ~MtSafe(in, out) THEN "altered beyond case/blanks outside strings"
  ELSE IF Len(in) < 1024 /\ ~MtNormal(in, out) THEN "blanks/upper case left outside strings"
  ELSE ""
MediatypeOK(in, out) == MediatypeWhy(in, out) = ""
=============================================================================
