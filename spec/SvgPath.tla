----------------------------- MODULE SvgPath -----------------------------
(* C05 - the meaning of SVG path data.

   PathParse(bytes)   strict recogniser of the SVG 1.1 path-data EBNF (section 8.3.9) on BYTES,
                      producing the command list  << [c |-> letter, a |-> << lexeme, ... >>], ... >>
   Interp(cmds, K)    the SVG path state machine (8.3.2 - 8.3.8): current point, sub-path start,
                      previous cubic / quadratic control point, implicit lineto after moveto,
                      implicit repetition, relative / absolute, H/V, S/T reflection, arcs,
                      closepath  ->  sequence of ABSOLUTE segments over fixed-point integers
                      (coordinate * 10^K; K is chosen per path so that every input number is exact)
   Norm, PathEq       "the same sequence of absolute segments ... with only zero-length lines and
                      exactly degenerate curves simplified", within a tolerance
   PathOK             the clause of property C05 about the `d` attribute.

   Nothing in here is transcribed from svg/pathdata.go.  TLC integers are 32 bit: every value
   that is computed is range-checked (LIM) and a path that does not fit is reported as such
   (`bad`), never silently wrapped. *)
EXTENDS NumVal

---------------------------------------------------------------------------
(* Grammar.                                                                  *)
Arity(c) == CASE c \in {77, 109, 76, 108, 84, 116} -> 2       \* M m L l T t
              [] c \in {72, 104, 86, 118}          -> 1       \* H h V v
              [] c \in {83, 115, 81, 113}          -> 4       \* S s Q q
              [] c \in {67, 99}                    -> 6       \* C c
              [] c \in {65, 97}                    -> 7       \* A a
              [] OTHER                             -> 0       \* Z z
CmdBytes == {77, 109, 76, 108, 72, 104, 86, 118, 67, 99, 83, 115, 81, 113, 84, 116, 65, 97, 90, 122}
IsCmd(c) == c \in CmdBytes
IsRel(c) == c >= 97
IsWsp(c) == c \in {32, 9, 10, 13}                              \* wsp ::= #x20 | #x9 | #xD | #xA
IsArc(c) == c = 65 \/ c = 97
IsClose(c) == c = 90 \/ c = 122

(* Lexer/recogniser state: cmd = current command letter (0 before the first), k = arguments
   completed for it, dfa/lex = number in progress (NumVal's DFA; 0 = none), sep = a comma-wsp was
   seen since the last argument, comma = that separator contained its (single) comma. *)
Lex0 == [ok |-> TRUE, cmd |-> 0, k |-> 0, dfa |-> 0, lex |-> <<>>, sep |-> FALSE, comma |-> FALSE,
         args |-> <<>>, out |-> <<>>]
LexBad(s) == [s EXCEPT !.ok = FALSE]

\* the number in progress ends here: it must be a complete lexeme of the number grammar
EndNumber(s) ==
  IF s.dfa \in Accepting
  THEN [s EXCEPT !.args = Append(@, s.lex), !.k = @ + 1, !.dfa = 0, !.lex = <<>>, !.sep = FALSE, !.comma = FALSE]
  ELSE LexBad(s)

\* the current command ends here (next command letter or end of data): its argument count must be
\* a positive multiple of its arity (zero arguments for closepath) and no comma may be dangling
CloseCmd(s) ==
  IF ~s.ok THEN s
  ELSE IF s.cmd = 0 THEN (IF s.comma THEN LexBad(s) ELSE s)
  ELSE IF s.comma THEN LexBad(s)
  ELSE IF Arity(s.cmd) = 0 THEN [s EXCEPT !.out = Append(@, [c |-> s.cmd, a |-> <<>>]), !.args = <<>>, !.k = 0]
  ELSE IF s.k > 0 /\ s.k % Arity(s.cmd) = 0
       THEN [s EXCEPT !.out = Append(@, [c |-> s.cmd, a |-> s.args]), !.args = <<>>, !.k = 0]
       ELSE LexBad(s)

LexStep(s, c) ==
  IF ~s.ok THEN s
  ELSE IF s.dfa # 0 /\ Delta(s.dfa, c) # -1
  THEN [s EXCEPT !.dfa = Delta(s.dfa, c), !.lex = Append(@, c)]           \* maximal munch
  ELSE LET t == IF s.dfa # 0 THEN EndNumber(s) ELSE s IN
    IF ~t.ok THEN t
    ELSE IF IsWsp(c) THEN [t EXCEPT !.sep = TRUE]
    ELSE IF c = 44                                                         \* comma-wsp: at most one comma, only between arguments
    THEN IF t.cmd # 0 /\ t.k > 0 /\ ~t.comma THEN [t EXCEPT !.sep = TRUE, !.comma = TRUE] ELSE LexBad(t)
    ELSE IF IsCmd(c)
    THEN LET u == CloseCmd(t) IN
         IF ~u.ok THEN u
         ELSE IF u.cmd = 0 /\ c # 77 /\ c # 109 THEN LexBad(u)             \* path data begins with a moveto
         ELSE [u EXCEPT !.cmd = c, !.k = 0, !.args = <<>>, !.sep = FALSE, !.comma = FALSE]
    ELSE IF IsArc(t.cmd) /\ t.k % 7 \in {3, 4}                             \* flag ::= "0" | "1"  (one character)
    THEN IF c \in {48, 49} /\ (t.k % 7 = 4 \/ t.sep)                       \* number comma-wsp flag: separator required
         THEN [t EXCEPT !.args = Append(@, <<c>>), !.k = @ + 1, !.sep = FALSE, !.comma = FALSE]
         ELSE LexBad(t)
    ELSE IF Delta(0, c) # -1                                               \* a number starts (sign, digit or dot)
    THEN IF t.cmd # 0 /\ Arity(t.cmd) > 0                                  \* not after closepath, not before any command
         THEN [t EXCEPT !.dfa = Delta(0, c), !.lex = <<c>>]
         ELSE LexBad(t)
    ELSE LexBad(t)

PathParse(b) ==
  LET f == FoldLeft(LexStep, Lex0, b \o <<32>>)
      g == CloseCmd(f)
  IN [ok |-> g.ok, cmds |-> IF g.ok THEN g.out ELSE <<>>]
PathGrammar(b) == PathParse(b).ok

---------------------------------------------------------------------------
(* Numbers -> fixed point.  Fix(lex, K) = value * 10^K rounded to nearest (half away from zero);
   Far when it needs more than 9 digits.                                      *)
Max2(a, b) == IF a > b THEN a ELSE b
Decimals(lex) ==
  LET p == Parts(lex)
      f == StripTZ(p.fp)
      e == Small(p.exp)
  IN IF StripLZ(p.ip \o p.fp) = <<>> THEN 0
     ELSE IF IsFar(e) THEN 99
     ELSE Max2(0, Len(f) - e)

Fix(lex, K) ==
  LET p == Parts(lex)
      e == Small(p.exp)
      all == p.ip \o p.fp
      n == Len(all)
      pos == Len(p.ip) + e + K             \* how many digits of `all` are left of the scaled point
  IN IF StripLZ(all) = <<>> THEN 0
     ELSE IF IsFar(e) THEN (IF p.exp.neg THEN 0 ELSE Far)
     ELSE IF pos < 0 THEN 0
     ELSE IF pos > n + 9 THEN Far
     ELSE LET head == StripLZ(IF pos <= n THEN SubSeq(all, 1, pos) ELSE all \o Zeros(pos - n))
              rnd == IF pos < n /\ all[pos + 1] >= 5 THEN 1 ELSE 0
              mag == IF Len(head) > 9 THEN Far ELSE NatToInt(head, 1, 0) + rnd
          IN IF p.neg THEN 0 - mag ELSE mag

\* smallest scale at which every number of the path is exact
Scale(cmds) ==
  FoldLeft(LAMBDA m, cm : FoldLeft(LAMBDA m2, lx : Max2(m2, Decimals(lx)), m, cm.a), 0, cmds)

---------------------------------------------------------------------------
(* Interpreter.  One step per argument group.  A segment is the uniform tuple
     << kind, x0, y0, a1, a2, a3, a4, a5, a6, a7 >>      (x0,y0) = its start point
     "M": a1 a2 = point            "L": a1 a2 = end point          "Z": a1 a2 = sub-path start
     "C": a1..a4 = control points, a5 a6 = end       "Q": a1 a2 = control point, a3 a4 = end
     "A": a1 a2 = radii, a3 = rotation, a4 a5 = flags, a6 a7 = end                              *)
LIM == 500000000
InR(v) == v > 0 - LIM /\ v < LIM
S0 == [x |-> 0, y |-> 0, sx |-> 0, sy |-> 0, pk |-> "N", px |-> 0, py |-> 0, bad |-> FALSE]

StepGroup(s, c, v) ==
  LET rel == IsRel(c)
      u == IF rel THEN c - 32 ELSE c                \* upper-case letter
      bx == IF rel THEN s.x ELSE 0
      by == IF rel THEN s.y ELSE 0
  IN
  CASE u = 77 -> LET nx == bx + v[1]  ny == by + v[2] IN                       \* M: new sub-path
         [st |-> [s EXCEPT !.x = nx, !.y = ny, !.sx = nx, !.sy = ny, !.pk = "N", !.px = 0, !.py = 0,
                           !.bad = ~(InR(nx) /\ InR(ny))],
          seg |-> <<"M", s.x, s.y, nx, ny, 0, 0, 0, 0, 0>>]
    [] u = 76 -> LET nx == bx + v[1]  ny == by + v[2] IN                       \* L
         [st |-> [s EXCEPT !.x = nx, !.y = ny, !.pk = "N", !.px = 0, !.py = 0, !.bad = ~(InR(nx) /\ InR(ny))],
          seg |-> <<"L", s.x, s.y, nx, ny, 0, 0, 0, 0, 0>>]
    [] u = 72 -> LET nx == bx + v[1] IN                                        \* H: y unchanged
         [st |-> [s EXCEPT !.x = nx, !.pk = "N", !.px = 0, !.py = 0, !.bad = ~InR(nx)],
          seg |-> <<"L", s.x, s.y, nx, s.y, 0, 0, 0, 0, 0>>]
    [] u = 86 -> LET ny == by + v[1] IN                                        \* V: x unchanged
         [st |-> [s EXCEPT !.y = ny, !.pk = "N", !.px = 0, !.py = 0, !.bad = ~InR(ny)],
          seg |-> <<"L", s.x, s.y, s.x, ny, 0, 0, 0, 0, 0>>]
    [] u = 67 -> LET x1 == bx + v[1]  y1 == by + v[2]  x2 == bx + v[3]  y2 == by + v[4]
                     nx == bx + v[5]  ny == by + v[6] IN                       \* C
         [st |-> [s EXCEPT !.x = nx, !.y = ny, !.pk = "C", !.px = x2, !.py = y2,
                           !.bad = ~(InR(x1) /\ InR(y1) /\ InR(x2) /\ InR(y2) /\ InR(nx) /\ InR(ny))],
          seg |-> <<"C", s.x, s.y, x1, y1, x2, y2, nx, ny, 0>>]
    [] u = 83 -> LET x1 == IF s.pk = "C" THEN 2 * s.x - s.px ELSE s.x          \* S: reflection of the previous
                     y1 == IF s.pk = "C" THEN 2 * s.y - s.py ELSE s.y          \*    second control point, else current point
                     x2 == bx + v[1]  y2 == by + v[2]  nx == bx + v[3]  ny == by + v[4] IN
         [st |-> [s EXCEPT !.x = nx, !.y = ny, !.pk = "C", !.px = x2, !.py = y2,
                           !.bad = ~(InR(x1) /\ InR(y1) /\ InR(x2) /\ InR(y2) /\ InR(nx) /\ InR(ny))],
          seg |-> <<"C", s.x, s.y, x1, y1, x2, y2, nx, ny, 0>>]
    [] u = 81 -> LET x1 == bx + v[1]  y1 == by + v[2]  nx == bx + v[3]  ny == by + v[4] IN   \* Q
         [st |-> [s EXCEPT !.x = nx, !.y = ny, !.pk = "Q", !.px = x1, !.py = y1,
                           !.bad = ~(InR(x1) /\ InR(y1) /\ InR(nx) /\ InR(ny))],
          seg |-> <<"Q", s.x, s.y, x1, y1, nx, ny, 0, 0, 0>>]
    [] u = 84 -> LET x1 == IF s.pk = "Q" THEN 2 * s.x - s.px ELSE s.x          \* T
                     y1 == IF s.pk = "Q" THEN 2 * s.y - s.py ELSE s.y
                     nx == bx + v[1]  ny == by + v[2] IN
         [st |-> [s EXCEPT !.x = nx, !.y = ny, !.pk = "Q", !.px = x1, !.py = y1,
                           !.bad = ~(InR(x1) /\ InR(y1) /\ InR(nx) /\ InR(ny))],
          seg |-> <<"Q", s.x, s.y, x1, y1, nx, ny, 0, 0, 0>>]
    [] u = 65 -> LET nx == bx + v[6]  ny == by + v[7] IN                       \* A: only the end point is relative
         [st |-> [s EXCEPT !.x = nx, !.y = ny, !.pk = "N", !.px = 0, !.py = 0,
                           !.bad = ~(InR(nx) /\ InR(ny) /\ InR(v[1]) /\ InR(v[2]) /\ InR(v[3]))],
          seg |-> <<"A", s.x, s.y, v[1], v[2], v[3], v[4], v[5], nx, ny>>]
    [] OTHER ->                                                                \* Z: back to the sub-path start
         [st |-> [s EXCEPT !.x = s.sx, !.y = s.sy, !.pk = "N", !.px = 0, !.py = 0],
          seg |-> <<"Z", s.x, s.y, s.sx, s.sy, 0, 0, 0, 0, 0>>]

\* value of argument j of a group of command c: arc flags are the digits themselves
ArgVal(c, j, lx, K) == IF IsArc(c) /\ j \in {4, 5} THEN (IF lx = <<49>> THEN 1 ELSE 0) ELSE Fix(lx, K)

Push(acc, c, v) ==
  IF acc.st.bad THEN acc
  ELSE LET r == StepGroup(acc.st, c, v) IN [st |-> r.st, segs |-> Append(acc.segs, r.seg)]

\* "if a moveto is followed by multiple pairs of coordinates, the subsequent pairs are treated as
\*  implicit lineto commands" (relative if the moveto is relative)
GroupLetter(c, i) == IF i > 1 /\ c = 77 THEN 76 ELSE IF i > 1 /\ c = 109 THEN 108 ELSE c

InterpCmd(acc, cm, K) ==
  LET ar == Arity(cm.c) IN
  IF ar = 0 THEN Push(acc, cm.c, <<>>)
  ELSE FoldLeft(LAMBDA a2, i : Push(a2, GroupLetter(cm.c, i),
                                    [j \in 1..ar |-> ArgVal(cm.c, j, cm.a[(i - 1) * ar + j], K)]),
                acc, [i \in 1..(Len(cm.a) \div ar) |-> i])

Interp(cmds, K) == FoldLeft(LAMBDA acc, cm : InterpCmd(acc, cm, K), [st |-> S0, segs |-> <<>>], cmds)

---------------------------------------------------------------------------
(* "... with only zero-length lines and exactly degenerate curves simplified".
   A curve is exactly degenerate when each of its control points coincides with its start or
   its end point; it then is the line to its end point.  A line whose end is its start is a
   zero-length line; a closepath directly after a closepath closes a sub-path that has no
   segment, i.e. is a zero-length closing line.                                 *)
DegCubic(g) == g[1] = "C" /\ ((g[4] = g[2] /\ g[5] = g[3]) \/ (g[4] = g[8] /\ g[5] = g[9]))
                          /\ ((g[6] = g[2] /\ g[7] = g[3]) \/ (g[6] = g[8] /\ g[7] = g[9]))
DegQuad(g) == g[1] = "Q" /\ ((g[4] = g[2] /\ g[5] = g[3]) \/ (g[4] = g[6] /\ g[5] = g[7]))
Simplify(g) == IF DegCubic(g) THEN <<"L", g[2], g[3], g[8], g[9], 0, 0, 0, 0, 0>>
               ELSE IF DegQuad(g) THEN <<"L", g[2], g[3], g[6], g[7], 0, 0, 0, 0, 0>>
               ELSE g
ZeroLine(g) == g[1] = "L" /\ g[4] = g[2] /\ g[5] = g[3]
Norm(segs) ==
  FoldLeft(LAMBDA acc, g0 : LET g == Simplify(g0) IN
             IF ZeroLine(g) THEN acc
             ELSE IF g[1] = "Z" /\ acc # <<>> /\ acc[Len(acc)][1] = "Z" THEN acc
             ELSE Append(acc, g),
           <<>>, segs)

Near(a, b, tol) == a - b <= tol /\ b - a <= tol
SegEq(g, h, tol) ==
  /\ g[1] = h[1]
  /\ \A i \in 2..10 : IF g[1] = "A" /\ i \in {7, 8} THEN g[i] = h[i]      \* arc flags: exactly
                      ELSE Near(g[i], h[i], tol)
PathEq(a, b, tol) == Len(a) = Len(b) /\ \A i \in 1..Len(a) : SegEq(a[i], b[i], tol)

---------------------------------------------------------------------------
(* The `d` clause of C05.  Result is a string naming the first failing clause ("ok" if none):
     "input"     the input is not valid path data (the property does not speak about it)
     "range"     the input does not fit the fixed-point range (not a verdict; the driver filters)
     "grammar"   output is not valid path data
     "geometry"  output denotes a different segment sequence                      *)
(* Scale and tolerance.  K = the number of decimals of the most precise INPUT number, so every
   input number and every sum/difference/reflection of input numbers is an exact integer at scale
   10^K.  The minifier's own numbers are either the input lexemes (exact) or float64 results
   printed with 15 significant digits, i.e. within 10^-15 relative of such an exact value; since
   only paths whose scaled values stay below LIM = 5*10^8 are interpreted, rounding them to the
   nearest unit gives back the exact value, so "within floating-point tolerance" is equality of
   the rounded values (Tol = 0 units of 10^-K).  A deviation of half a unit of the last input
   digit or more is a different path. *)
MaxScale == 8
Tol == 0
PathVerdict(in, out) ==
  LET pi == PathParse(in) IN
  IF ~pi.ok THEN "input"
  ELSE LET po == PathParse(out) IN
    IF ~po.ok THEN "grammar"
    ELSE LET K == Scale(pi.cmds) IN
      IF K > MaxScale THEN "range"
      ELSE LET a == Interp(pi.cmds, K) IN
        IF a.st.bad THEN "range"
        ELSE LET b == Interp(po.cmds, K) IN
          IF b.st.bad THEN "geometry"
          ELSE IF PathEq(Norm(a.segs), Norm(b.segs), Tol) THEN "ok" ELSE "geometry"
=============================================================================
