SPECIFICATION Spec
CONSTANTS
  NG = 1
  MaxCalls = 2
  ShapeNames <- InlineShapes
  AllowReg = FALSE
  CopyOpts = FALSE
  TightCap = TRUE
  CopyArgs = TRUE
  HtmlDep = FALSE
  LazyInit = FALSE
  PoolBuf = FALSE
VIEW View
INVARIANT Deterministic
CHECK_DEADLOCK FALSE
