SPECIFICATION Spec
CONSTANTS MaxN = 3
Coords <- C3
CtrlCoords <- C2
Letters <- LettersForget
FixZ = TRUE
FixDeg = TRUE
FixZeroL = TRUE
ForgetCp = FALSE
INVARIANTS Refines InRange
CHECK_DEADLOCK FALSE
