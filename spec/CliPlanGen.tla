----------------------------- MODULE CliPlanGen -----------------------------
(* C19 generator / design check: every tree of at most MaxFiles non-directory entries drawn from a
   fixed universe (nesting, hidden files and directories, unknown extensions, same-name files of
   different types, symbolic links to files and to a directory, a hard link, stale *.bak files)
   crossed with every invocation shape (one initial state per shape, one successor per tree).  TLC checks that Plan is
   total and that the documented semantics has the design properties below on ALL of them, and
   prints the identifiers of those scenarios whose outcome is fully determined; the check then runs
   a seeded sample of these against the real binary (C19Plan renders them, C19Trace judges them).   *)
EXTENDS CliUniverse

CONSTANTS MaxFiles

VARIABLES sc, P          \* sc = [S, k] identifies the scenario (k = 0: not chosen yet), P = its plan
vars == <<sc, P>>
NoPlan == [tasks |-> <<>>, unspec |-> {"none"}, hazard |-> {}, known |-> {}, inplace |-> {}, refuse |-> {}, dstReal |-> <<>>]
\* one initial state per shape, one successor per tree: TLC's workers expand the shapes in parallel
Init == \E k \in 1..Len(Shapes) : sc = [S |-> {}, k |-> k, chosen |-> FALSE] /\ P = NoPlan
Next == /\ ~sc.chosen
        /\ \E S \in SUBSET (1..Len(U)) :
             /\ Cardinality(S) <= MaxFiles /\ ValidSet(S)
             /\ sc' = [S |-> S, k |-> sc.k, chosen |-> TRUE]
             /\ P' = Plan(Mk(S, sc.k))
Spec == Init /\ [][Next]_vars

Runnable == sc.chosen /\ P.unspec = {} /\ P.hazard = {}

\* ---- design-level claims about the documented semantics, checked on every scenario ----------------
TypeOK == /\ P.unspec \subseteq STRING /\ P.hazard \subseteq STRING
          /\ \A i \in DOMAIN P.tasks : P.tasks[i].mode \in {"min", "copy", "link"} /\ Len(P.tasks[i].srcs) >= 1
\* without interference every source is read by exactly one task, and a destination is a source only of its own task
EachSourceOnce ==
  (P.unspec = {} /\ ~Shapes[sc.k].b) => \A i, j \in DOMAIN P.tasks : i # j => P.tasks[i].srcs # P.tasks[j].srcs
\* directory outputs mirror the input tree: destination = output directory + path below the input's root
Mirror ==
  LET I == Shapes[sc.k] IN
  (P.unspec = {} /\ ~I.b /\ ~I.stdin /\ I.output # <<>> /\ TrailingSlash(I.output)) =>
     \A i \in DOMAIN P.tasks :
        LET src == Comps(P.tasks[i].srcs[1]) dst == Comps(P.tasks[i].dst) out == Comps(I.output) IN
          /\ IsPrefix(out, dst)
          /\ \E n \in 0..Len(src) : DropPrefix(out, dst) = SubSeq(src, n + 1, Len(src))
\* writing into a directory that does not exist yet can interfere with nothing that exists
FreshOutputIsSafe ==
  LET I == Shapes[sc.k] T == TreeOf(sc.S) IN
  (P.unspec = {} /\ I.output = outS /\ ~I.b) =>
     /\ P.hazard \subseteq {"two tasks share a destination", "destination inside another destination"}
     /\ P.inplace = {} /\ P.refuse = {}
\* sync: every visible non-directory below a synchronised directory gets exactly one task
SyncCoversAll ==
  LET I == Shapes[sc.k] T == TreeOf(sc.S) IN
  (P.unspec = {} /\ I.s /\ I.a /\ ~\E i \in DOMAIN I.preserve : I.preserve[i] \in {"links", "all"}) =>
     \A e \in {T[i] : i \in DOMAIN T} :
        (e.k \in {"f", "h"} /\ \E n \in DOMAIN I.inputs : IsPrefix(Comps(I.inputs[n]), Comps(e.p)))
          => \E i \in DOMAIN P.tasks : Stat(T, Comps(P.tasks[i].srcs[1]), TRUE).real = Comps(e.p)
\* a task is refused only when it would write a file onto itself
RefuseOnlyInPlace == P.refuse \subseteq P.inplace
\* identifiers of the scenarios whose outcome the documentation determines (handed to the real binary)
Emit == Runnable => PrintT(<<"SC", sc.k, SetToSortSeq(sc.S, <), IF P.known = {} THEN "ok" ELSE "known", Len(P.tasks)>>)
=============================================================================
