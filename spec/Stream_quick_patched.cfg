SPECIFICATION Spec
CONSTANTS
 Input <- In2
 MaxOut = 2
 PieceLen = 2
 MaxBuf = 3
 Modes <- ModesH
 PatchCL = TRUE
 Mut = "none"
 RecordHist = FALSE
 FullProduct = FALSE
VIEW View
INVARIANTS ChunkingInvariance PassThrough CloseWaits ContentLengthGone SelectionRule FaultSurfaces NoSilentTruncation NotExistSurfaces NoPartialInput
PROPERTIES NoWriteAfterClose CloseReturned
