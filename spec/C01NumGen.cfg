SPECIFICATION Spec
CONSTANTS MaxLen = 5
Alphabet <- Alpha5
INVARIANTS DfaAgrees
CHECK_DEADLOCK FALSE
