----------------------------- MODULE SvgPathDecide -----------------------------
(* C05 - the rewrite DECISIONS of the path shortener for one coordinate set (svg/pathdata.go
   copyInstruction), shared by the design model SvgPathDesign (D => A, model-checked) and by the
   byte-level prediction SvgPathPrint (drift comparison against the real output).
   FixZ / FixDeg / FixZeroL / ForgetCp = TRUE is the code after commits 06800a3, ed5d06b, 2008ad3;
   FALSE switches an old (wrong) decision back in.                                      *)
EXTENDS SvgPath
CONSTANTS FixZ, FixDeg, FixZeroL, ForgetCp

D0 == [x |-> 0, y |-> 0, x0 |-> 0, y0 |-> 0, cnan |-> TRUE, cx |-> 0, cy |-> 0, qnan |-> TRUE, qx |-> 0, qy |-> 0]
Class(u) == IF u = 83 THEN "S" ELSE IF u = 84 THEN "T" ELSE "O"

---------------------------------------------------------------------------
(* copyInstruction for ONE coordinate set.  c = command letter, v = its numbers, multi = the set is
   part of a command with several sets ("only change to a line if we start with s/S and none
   follow"), alt = emit the other-case twin.  Result: new shortener state and the emitted command
   (letter 0 = nothing emitted).                                                     *)
Shift(u, v, dx, dy) ==                       \* shortenAltPosInstruction: which numbers are shifted
  CASE u \in {76, 84, 77} -> <<v[1] + dx, v[2] + dy>>
    [] u = 72 -> <<v[1] + dx>>
    [] u = 86 -> <<v[1] + dy>>
    [] u \in {83, 81} -> <<v[1] + dx, v[2] + dy, v[3] + dx, v[4] + dy>>
    [] u = 67 -> <<v[1] + dx, v[2] + dy, v[3] + dx, v[4] + dy, v[5] + dx, v[6] + dy>>
    [] u = 65 -> <<v[1], v[2], v[3], v[4], v[5], v[6] + dx, v[7] + dy>>
    [] OTHER -> v
Emit(cmd, v, rel, alt, p) ==
  IF ~alt THEN [c |-> cmd, a |-> v]
  ELSE IF rel THEN [c |-> cmd - 32, a |-> Shift(cmd - 32, v, p.x, p.y)]
       ELSE [c |-> cmd + 32, a |-> Shift(cmd, v, 0 - p.x, 0 - p.y)]

Copy(p, c, v, multi, lastg, nxt, alt) ==
  LET rel == IsRel(c)
      u == IF rel THEN c - 32 ELSE c
      lo(k) == IF rel THEN k + 32 ELSE k                    \* same case as the input command
      di == Len(v)
      ax == IF u = 72 THEN v[1] + (IF rel THEN p.x ELSE 0) ELSE IF u = 86 THEN p.x ELSE v[di - 1] + (IF rel THEN p.x ELSE 0)
      ay == IF u = 72 THEN p.y ELSE IF u = 86 THEN v[1] + (IF rel THEN p.y ELSE 0) ELSE v[di] + (IF rel THEN p.y ELSE 0)
      bx == IF rel THEN p.x ELSE 0
      by == IF rel THEN p.y ELSE 0
      \* --- cubic family
      isCub == u \in {67, 83}
      rcx == IF p.cnan THEN p.x ELSE 2 * p.x - p.cx          \* "p.cx, p.cy = 2*p.x-p.cx, 2*p.y-p.cy"
      rcy == IF p.cnan THEN p.y ELSE 2 * p.y - p.cy
      cp2x == IF isCub THEN v[di - 3] + bx ELSE 0
      cp2y == IF isCub THEN v[di - 2] + by ELSE 0
      c1x == IF u = 67 THEN v[1] + bx ELSE rcx
      c1y == IF u = 67 THEN v[2] + by ELSE rcy
      toS == u = 67 /\ c1x = rcx /\ c1y = rcy                 \* "switch from C to S whenever possible"
      cmdC == IF toS THEN 83 ELSE u
      vC == IF toS THEN SubSeq(v, 3, 6) ELSE v
      keepC == FixDeg /\ lastg /\ nxt = "S" /\ ~(cp2x = ax /\ cp2y = ay)   \* ed5d06b
      cubLine == /\ isCub /\ ~keepC
                 /\ (cmdC = 67 \/ ~multi)
                 /\ ((c1x = p.x /\ c1y = p.y) \/ (c1x = ax /\ c1y = ay))
                 /\ ((cp2x = p.x /\ cp2y = p.y) \/ (cp2x = ax /\ cp2y = ay))
      \* --- quadratic family
      isQ == u \in {81, 84}
      rqx == IF p.qnan THEN p.x ELSE 2 * p.x - p.qx
      rqy == IF p.qnan THEN p.y ELSE 2 * p.y - p.qy
      qpx == IF u = 81 THEN v[1] + bx ELSE rqx
      qpy == IF u = 81 THEN v[2] + by ELSE rqy
      toT == u = 81 /\ qpx = rqx /\ qpy = rqy
      cmdQ == IF toT THEN 84 ELSE u
      vQ == IF toT THEN SubSeq(v, 3, 4) ELSE v
      keepQ == FixDeg /\ lastg /\ nxt = "T" /\ ~(qpx = ax /\ qpy = ay)
      qLine == /\ isQ /\ ~keepQ
               /\ (cmdQ = 81 \/ ~multi)
               /\ ((qpx = p.x /\ qpy = p.y) \/ (qpx = ax /\ qpy = ay))
      \* --- command and numbers after the curve decisions
      cmd1 == IF cubLine \/ qLine THEN 76 ELSE IF isCub THEN cmdC ELSE IF isQ THEN cmdQ ELSE u
      v1 == IF cubLine \/ qLine THEN SubSeq(v, di - 1, di) ELSE IF isCub THEN vC ELSE IF isQ THEN vQ ELSE v
      \* --- "switch from L to H or V whenever possible", zero-length line dropped
      isL == cmd1 = 76
      prevCurve == ~p.cnan \/ ~p.qnan                                        \* 2008ad3
      dropL == isL /\ ax = p.x /\ ay = p.y /\ ~(FixZeroL /\ prevCurve)
      cmd2 == IF isL /\ ~dropL /\ ax = p.x THEN 86 ELSE IF isL /\ ~dropL /\ ay = p.y THEN 72 ELSE cmd1
      v2 == IF cmd2 = 86 /\ isL THEN <<v1[2]>> ELSE IF cmd2 = 72 /\ isL THEN <<v1[1]>> ELSE v1
      np == [p EXCEPT !.x = ax, !.y = ay,
                      !.x0 = IF u = 77 THEN ax ELSE @, !.y0 = IF u = 77 THEN ay ELSE @,
                      \* "cp2x, cp2y = math.NaN()": the control point of a curve that became a line is forgotten
                      !.cnan = ~isCub \/ (cubLine /\ ForgetCp), !.cx = IF isCub /\ ~(cubLine /\ ForgetCp) THEN cp2x ELSE 0,
                      !.cy = IF isCub /\ ~(cubLine /\ ForgetCp) THEN cp2y ELSE 0,
                      !.qnan = ~isQ \/ (qLine /\ ForgetCp), !.qx = IF isQ /\ ~(qLine /\ ForgetCp) THEN qpx ELSE 0,
                      !.qy = IF isQ /\ ~(qLine /\ ForgetCp) THEN qpy ELSE 0]
  IN [p |-> np,
      out |-> IF dropL THEN [c |-> 0, a |-> <<>>] ELSE Emit(lo(cmd2), v2, rel, alt, p),
      line |-> cubLine \/ qLine, dropped |-> dropL]

CopyZ(p) == [p |-> [p EXCEPT !.x = p.x0, !.y = p.y0, !.cnan = (FixZ \/ @), !.qnan = (FixZ \/ @)],   \* 06800a3
             out |-> [c |-> 122, a |-> <<>>]]

=============================================================================
