----------------------------- MODULE C18Trace -----------------------------
(* Trace validation for C18.  One line = one call of the real code:
     [fn, in, out, regs, calls, hasref, refpay, panic, drift]
   fn = "DataURI"   : out = minify.DataURI(m, in) (directly, or the URL found by an independent
                      tokenizer in the output of the CSS / HTML minifier for a document holding `in`);
                      regs = media types a minifier is registered for, calls = what that minifier
                      was observed to receive / return (outermost calls, [in, out, err]);
                      refpay (when hasref) = the payload of `in` as decoded by the Go standard
                      library - a second oracle for the TLA+ decoders (disagreement = machinery).
   fn = "Mediatype" : out = minify.Mediatype(in) (directly or as the HTML type attribute).

   Conforms  is the verdict (the property's relation, spec/DataUri.tla).
   DriftInfo compares the same line with the transcriptions of the current code (MtMachine.AsIs;
             DataUriAsIs.AsIsNone for calls without a registered minifier); a difference is reported as
             "DRIFT..." - information about the models, never a verdict. *)
EXTENDS MtMachine, DataUriAsIs, TraceIO
VARIABLE l
Init == l = 1
Next == l <= N /\ l' = l + 1
Spec == Init /\ [][Next]_l

RegSet(e) == {e.regs[i] : i \in 1..Len(e.regs)}
OracleAgrees(e) == e.hasref => LET p == Parse(e.in) IN p.ok /\ Decode(p).payload = e.refpay
LineWhy(e) ==
  IF e.panic THEN "panic"
  ELSE IF e.fn = "Mediatype" THEN MediatypeWhy(e.in, e.out)
  ELSE IF ~OracleAgrees(e) THEN "ORACLE"
  ELSE DataUriWhy(e.in, e.out, RegSet(e), e.calls)
Conforms == l <= N => LET w == LineWhy(Trace[l]) IN w = "" \/ Reject(l, w)

Drift(e) == IF e.panic \/ ~e.drift THEN FALSE              \* drift = this line is to be compared (all lines / a sample in the quick tier)
            ELSE IF e.fn = "Mediatype" THEN e.out # AsIs(e.in)
            ELSE Len(e.regs) = 0 /\ e.out # AsIsNone(e.in)
DriftInfo == l <= N => (~Drift(Trace[l]) \/ Reject(l, "DRIFT"))
=============================================================================
