SPECIFICATION Spec
CONSTANTS
  NG = 2
  MaxCalls = 1
  ShapeNames <- QuickShapes
  AllowReg = FALSE
  CopyOpts = TRUE
  TightCap = TRUE
  CopyArgs = TRUE
  HtmlDep = FALSE
  LazyInit = FALSE
  PoolBuf = FALSE
VIEW View
INVARIANTS Deterministic SharedReadOnly NoBlocking CompletesAlone LockSane
CHECK_DEADLOCK TRUE
