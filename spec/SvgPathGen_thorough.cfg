SPECIFICATION Spec
CONSTANTS MaxTok = 8
MaxGroups = 1000
Letters <- LettersAll
Modes <- ModesFree
Coords <- CoordsSmall
MCoords <- CoordsSmall
Radii <- RadiiSmall
Rots <- RotsSmall
ExclZ = FALSE
ExclDeg = FALSE
ExclZeroL = FALSE
INVARIANTS InRange Counters Incremental EmitAcc
CHECK_DEADLOCK FALSE
