SPECIFICATION Spec
CONSTANTS MaxTok = 8
Coords <- CoordsSmall
Radii <- RadiiSmall
Rots <- RotsSmall
ExclZ = TRUE
ExclDeg = TRUE
ExclZeroL = TRUE
INVARIANTS InRange Counters Incremental EmitAcc
CHECK_DEADLOCK FALSE
