SPECIFICATION Spec
CONSTANTS
 MaxUnits = 2
 LocalNames = {"x", "y"}
 FreeNames = {"a"}
 Top = {"b"}
 MaxParams = 1
 MaxDecl = 2
 Start <- StartAB
 Cont <- ContABC
 DReserved = {"aa"}
 AllowWith = TRUE
 AllowVars = FALSE
 MaxUses = 2
 AllowFlat = FALSE
 MoveAfterRename = FALSE
 OldWith = FALSE
 RestoreOwn = FALSE
INVARIANTS FlagAsMeant StackDepth CaptureFree NoCollision PublicUnchanged NoReserved WithOwn WithCross Emit
CHECK_DEADLOCK FALSE
