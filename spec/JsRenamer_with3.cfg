SPECIFICATION Spec
CONSTANTS
 MaxUnits = 3
 LocalNames = {"x", "y"}
 FreeNames = {"a"}
 Top = {"b"}
 MaxParams = 0
 MaxDecl = 1
 Start <- StartAB
 Cont <- ContABC
 DReserved = {"aa"}
 AllowWith = TRUE
 AllowVars = FALSE
 MaxUses = 1
 AllowFlat = FALSE
 MoveAfterRename = FALSE
 OldWith = FALSE
 RestoreOwn = FALSE
INVARIANTS FlagAsMeant StackDepth CaptureFree NoCollision PublicUnchanged NoReserved WithOwn WithCross Emit
CHECK_DEADLOCK FALSE
