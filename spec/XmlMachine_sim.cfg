SPECIFICATION Spec
CONSTANTS MaxLen = 14
EmitMod = 1
Prefix <- PrefixNone
Emit = TRUE
Vocab <- VocabSim
INVARIANTS TypeOK EmitCase
CHECK_DEADLOCK FALSE
