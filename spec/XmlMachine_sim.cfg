SPECIFICATION Spec
CONSTANTS MaxLen = 14
EmitMod = 1
Emit = TRUE
Vocab <- VocabThorough
INVARIANTS TypeOK EmitCase
CHECK_DEADLOCK FALSE
