SPECIFICATION Spec
CONSTANTS MaxLen = 4
Alphabet <- Alpha11
Kinds <- KindsNone
CHECK_DEADLOCK FALSE
