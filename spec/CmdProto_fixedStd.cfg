SPECIFICATION Spec
CONSTANTS Shared = FALSE
MaxCalls = 3
Form <- FormStd
INVARIANT EachCallOwnInput
CHECK_DEADLOCK FALSE
