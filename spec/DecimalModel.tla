--------------------------- MODULE DecimalModel ---------------------------
(* Design model (level D of DESIGN.md section 2) of minify.Decimal in /repo/common.go:
   an implementation-shaped transcription, one action per block of the Go function, with
   0-based indices exactly as in the code so that off-by-one errors survive transcription.
   The generator part (NumGen's automaton restricted to decimal lexemes) and the
   algorithm part share one state machine: from every accepting generator state the
   algorithm may be started with every precision in Precs.

   TLC checks  D => A :  whenever the algorithm is done, DecimalOK(in, prec, out) of
   NumVal holds, no index left the slice (pc never "panic"), and reads the per-action
   coverage (every branch of the Go function is exercised within the bound).  This is the
   model in which the defect fixed by ce8ac76 (99.5 at precision 2 gave "10.") shows up as
   a counterexample to DoneOK when the old line is restored (constant OldCarry = TRUE).
   The harness compares the real function's result with Out of this model line by line
   (C08Trace.DriftFree); a difference is reported as DRIFT information, never as a verdict. *)
EXTENDS NumVal, TLC
CONSTANTS MaxLen, Alphabet, Precs, OldCarry
VARIABLES lex, st,            \* generator automaton (as in NumGen)
          pc, prec, num,      \* num : [0..n-1 -> byte], mutated in place like the Go slice
          neg, start, end, dot, i, inc
vars == <<lex, st, pc, prec, num, neg, start, end, dot, i, inc>>

Z == 48   NINE == 57   DOTC == 46   PLUS == 43   MINUS == 45   FIVE == 53   ONE == 49

ToFn(s) == [k \in 0..Len(s)-1 |-> s[k+1]]
Slice(f, a, b) == [k \in 1..(b-a) |-> f[a + k - 1]]       \* num[a:b]
n == Len(lex)
InR(k) == k >= 0 /\ k < n

Init == /\ lex = <<>> /\ st = 0 /\ pc = "gen" /\ prec = 0 /\ num = <<>>
        /\ neg = FALSE /\ start = 0 /\ end = 0 /\ dot = 0 /\ i = 0 /\ inc = FALSE

Gen == /\ pc = "gen" /\ Len(lex) < MaxLen
       /\ \E c \in Alphabet : /\ Delta(st, c) \in {1, 2, 3, 4, 5}       \* stay inside the decimal grammar
                              /\ lex' = Append(lex, c) /\ st' = Delta(st, c)
       /\ UNCHANGED <<pc, prec, num, neg, start, end, dot, i, inc>>

\* func Decimal(num []byte, prec int): entry, len(num) <= 1, sign
Enter == /\ pc = "gen" /\ st \in {2, 3, 4}
         /\ \E p \in Precs : prec' = p
         /\ num' = ToFn(lex)
         /\ IF n <= 1 THEN /\ pc' = "done" /\ start' = 0 /\ end' = n /\ neg' = FALSE
                      ELSE /\ pc' = "finddot"
                           /\ neg' = (lex[1] = MINUS)
                           /\ start' = IF lex[1] = PLUS \/ lex[1] = MINUS THEN 1 ELSE 0
                           /\ end' = n
         /\ UNCHANGED <<lex, st, dot, i, inc>>

\* for i, c := range num[start:] { if c == '.' { dot = start + i; break } } ; if dot == -1 { dot = end }
FindDot == /\ pc = "finddot"
           /\ LET ds == {k \in start..n-1 : num[k] = DOTC} IN
              dot' = IF ds = {} THEN end ELSE CHOOSE k \in ds : \A j \in ds : k <= j
           /\ pc' = "leadzeros"
           /\ UNCHANGED <<lex, st, prec, num, neg, start, end, i, inc>>

\* for start < end-1 && num[start] == '0' { start++ }
LeadZeros == /\ pc = "leadzeros"
             /\ IF start < end - 1 /\ num[start] = Z
                THEN start' = start + 1 /\ UNCHANGED pc
                ELSE pc' = "trailzeros" /\ UNCHANGED start
             /\ i' = end - 1            \* i := end - 1 (initialised when the loop is left)
             /\ UNCHANGED <<lex, st, prec, num, neg, end, dot, inc>>

\* i := end - 1; for ; dot < i; i-- { if num[i] != '0' { end = i + 1; break } }
TrailZeros == /\ pc = "trailzeros"
              /\ IF dot < i
                 THEN IF num[i] # Z THEN end' = i + 1 /\ pc' = "aftertrail" /\ UNCHANGED i
                                    ELSE i' = i - 1 /\ UNCHANGED <<end, pc>>
                 ELSE pc' = "aftertrail" /\ UNCHANGED <<i, end>>
              /\ UNCHANGED <<lex, st, prec, num, neg, start, dot, inc>>

\* if i == dot { end = dot; if start == end { num[start] = '0'; return num[start:start+1] } }
\* else if start == end-1 && num[start] == '0' { return num[start:end] }
AfterTrail ==
  /\ pc = "aftertrail"
  /\ IF i = dot
     THEN IF start = dot
          THEN IF ~InR(start) THEN pc' = "panic" /\ UNCHANGED <<num, end, neg>>
               ELSE /\ num' = [num EXCEPT ![start] = Z] /\ end' = start + 1 /\ pc' = "done"
                    /\ neg' = FALSE                         \* returns before the sign is restored
          ELSE end' = dot /\ pc' = "precision" /\ UNCHANGED <<num, neg>>
     ELSE IF start = end - 1 /\ num[start] = Z
          THEN pc' = "done" /\ neg' = FALSE /\ UNCHANGED <<num, end>>
          ELSE pc' = "precision" /\ UNCHANGED <<num, end, neg>>
  /\ UNCHANGED <<lex, st, prec, start, dot, i, inc>>

\* if 0 < prec && dot <= start+prec { precEnd := ...; if precEnd < end { end = precEnd; i := end-1; inc := '5' <= num[end] ...
Precision ==
  /\ pc = "precision"
  /\ IF 0 < prec /\ dot <= start + prec
     THEN LET firstNZ == LET ds == {k \in start+1..end-1 : num[k] # Z} IN
                         IF ds = {} THEN end ELSE CHOOSE k \in ds : \A j \in ds : k <= j
              precEnd == IF dot = start THEN firstNZ + prec ELSE start + prec + 1
          IN IF precEnd < end
             THEN /\ end' = precEnd /\ i' = precEnd - 1
                  /\ inc' = (FIVE <= num[precEnd])
                  /\ pc' = "round"
             ELSE pc' = "sign" /\ UNCHANGED <<end, i, inc>>
     ELSE pc' = "sign" /\ UNCHANGED <<end, i, inc>>
  /\ UNCHANGED <<lex, st, prec, num, neg, start, dot>>

\* for ; start < i; i-- { ... }
Round ==
  /\ pc = "round"
  /\ IF start < i
     THEN IF i = dot THEN i' = i - 1 /\ UNCHANGED <<num, inc, pc>>
          ELSE IF inc /\ num[i] # NINE
               THEN num' = [num EXCEPT ![i] = num[i] + 1] /\ inc' = FALSE /\ pc' = "afterround" /\ UNCHANGED i
          ELSE IF inc /\ i < dot
               THEN num' = [num EXCEPT ![i] = Z] /\ i' = i - 1 /\ UNCHANGED <<inc, pc>>
          ELSE IF ~inc /\ (i < dot \/ num[i] # Z)
               THEN pc' = "afterround" /\ UNCHANGED <<num, inc, i>>
          ELSE i' = i - 1 /\ UNCHANGED <<num, inc, pc>>
     ELSE pc' = "afterround" /\ UNCHANGED <<num, inc, i>>
  /\ UNCHANGED <<lex, st, prec, neg, start, end, dot>>

\* if i < dot { end = dot } else { end = i + 1 } ; if inc { three cases }
AfterRound ==
  /\ pc = "afterround"
  /\ LET e1 == IF i < dot THEN dot ELSE i + 1 IN
     IF inc
     THEN IF dot = start /\ e1 = start + 1
          THEN num' = [num EXCEPT ![start] = ONE] /\ end' = e1 /\ pc' = "sign"
          ELSE IF num[start] = NINE
               THEN LET w == IF OldCarry THEN start + 1 ELSE e1 IN       \* fix ce8ac76: num[end] = '0'
                    IF ~InR(w) THEN pc' = "panic" /\ UNCHANGED <<num, end>>
                    ELSE num' = [num EXCEPT ![start] = ONE, ![w] = Z] /\ end' = e1 + 1 /\ pc' = "sign"
               ELSE num' = [num EXCEPT ![start] = num[start] + 1] /\ end' = e1 /\ pc' = "sign"
     ELSE end' = e1 /\ pc' = "sign" /\ UNCHANGED num
  /\ UNCHANGED <<lex, st, prec, neg, start, dot, i, inc>>

\* if neg { start--; num[start] = '-' } ; return num[start:end]
Sign == /\ pc = "sign"
        /\ IF neg
           THEN IF ~InR(start - 1) THEN pc' = "panic" /\ UNCHANGED <<num, start>>
                ELSE num' = [num EXCEPT ![start - 1] = MINUS] /\ start' = start - 1 /\ pc' = "done"
           ELSE pc' = "done" /\ UNCHANGED <<num, start>>
        /\ UNCHANGED <<lex, st, prec, neg, end, dot, i, inc>>

Next == Gen \/ Enter \/ FindDot \/ LeadZeros \/ TrailZeros \/ AfterTrail \/ Precision \/ Round \/ AfterRound \/ Sign
Spec == Init /\ [][Next]_vars

Out == Slice(num, start, end)
NoPanic == pc # "panic"
SliceInside == pc = "done" => (0 <= start /\ start <= end /\ end <= n)
DoneOK == pc = "done" => DecimalOK(lex, prec, Out)
\* hands every finished behaviour to the driver (always TRUE): the harness replays it on the real function
EmitDone == pc = "done" => PrintT(<<"OUT", lex, prec, Out>>)
Alpha5D == {48, 49, 52, 53, 57, 43, 45, 46}
PrecsQ == {0, 1, 2, 3}
PrecsT == {-1, 0, 1, 2, 3, 4, 5}
=============================================================================
