----------------------------- MODULE HtmlTables -----------------------------
(* The standards side of property C03 (and of the table audit C17): constants transcribed
   from the HTML Living Standard, NOT from /repo/html/table.go.
     - section 13.1.2    kinds of elements (void, raw text, escapable raw text)
     - section 13.1.2.4  optional tags
     - section 15.3      the CSS user agent style sheet and presentational hints ("Rendering")
     - section 2.3.2, index of attributes: boolean attributes; value syntaxes
   Element and attribute names are TLA+ strings (compared as atoms); attribute values and text
   are byte sequences. *)
EXTENDS Integers, Sequences, FiniteSets

(* 13.1.2 *)
VoidEls == {"area", "base", "br", "col", "embed", "hr", "img", "input", "link", "meta", "source",
            "track", "wbr", "param"}
RawTextEls == {"script", "style", "xmp", "iframe", "noembed", "noframes", "plaintext"}   \* text is not parsed for markup or references
EscRawTextEls == {"textarea", "title"}
(* 15.3.5 / 4.4.3: elements whose white-space is preserved (white-space: pre / pre-wrap) *)
PreEls == {"pre", "listing", "xmp", "plaintext", "textarea"}

(* 15.3.1 hidden elements: display: none *)
DisplayNone == {"area", "base", "basefont", "datalist", "head", "link", "meta", "noembed", "noframes",
                "param", "rp", "script", "style", "template", "title", "source", "track"}
(* 15.3.3 flow content, 15.3.7 lists, 15.3.8 tables, 15.3.9-15.3.13: display other than inline
   that starts and ends a line box (block, list-item, table*, table-caption, table-cell ...).
   rt/rtc get their own ruby annotation box. *)
BlockEls == {"html", "body", "address", "blockquote", "center", "dialog", "div", "figure", "figcaption",
             "footer", "form", "header", "hr", "legend", "listing", "main", "p", "plaintext", "pre",
             "search", "xmp", "article", "aside", "h1", "h2", "h3", "h4", "h5", "h6", "hgroup", "nav",
             "section", "dir", "dd", "dl", "dt", "menu", "ol", "ul", "li", "details", "summary",
             "fieldset", "optgroup", "option", "table", "caption", "colgroup", "col", "thead", "tbody",
             "tfoot", "tr", "td", "th", "rt", "rtc", "frameset", "frame", "br"}
(* 15.4 replaced elements and 15.5 widgets: atomic inline-level boxes (inline-block / replaced).
   The box is one unbreakable unit in its line: white space on either side of it separates it
   from neighbouring words, and its contents form their own formatting context. *)
AtomEls == {"img", "input", "button", "select", "textarea", "meter", "progress", "marquee", "video",
            "audio", "canvas", "embed", "iframe", "object", "svg:svg", "math:math", "image", "applet"}

(* 2.3.2 + attribute index: boolean attributes.  Presence is the value. *)
GlobalBoolAttrs == {"autofocus", "inert", "itemscope"}
BoolAttrPairs == {
  <<"iframe", "allowfullscreen">>, <<"script", "async">>, <<"audio", "autoplay">>, <<"video", "autoplay">>,
  <<"input", "checked">>, <<"audio", "controls">>, <<"video", "controls">>, <<"track", "default">>,
  <<"script", "defer">>, <<"button", "disabled">>, <<"fieldset", "disabled">>, <<"input", "disabled">>,
  <<"optgroup", "disabled">>, <<"option", "disabled">>, <<"select", "disabled">>, <<"textarea", "disabled">>,
  <<"link", "disabled">>, <<"button", "formnovalidate">>, <<"input", "formnovalidate">>, <<"img", "ismap">>,
  <<"audio", "loop">>, <<"video", "loop">>, <<"input", "multiple">>, <<"select", "multiple">>,
  <<"audio", "muted">>, <<"video", "muted">>, <<"script", "nomodule">>, <<"form", "novalidate">>,
  <<"details", "open">>, <<"dialog", "open">>, <<"video", "playsinline">>, <<"input", "readonly">>,
  <<"textarea", "readonly">>, <<"input", "required">>, <<"select", "required">>, <<"textarea", "required">>,
  <<"ol", "reversed">>, <<"option", "selected">>, <<"template", "shadowrootdelegatesfocus">>,
  <<"template", "shadowrootclonable">>, <<"template", "shadowrootserializable">>,
  \* obsolete but defined boolean attributes (section 16.2/16.3)
  <<"hr", "noshade">>, <<"td", "nowrap">>, <<"th", "nowrap">>, <<"dl", "compact">>, <<"ol", "compact">>,
  <<"ul", "compact">>, <<"menu", "compact">>, <<"dir", "compact">>, <<"object", "declare">>,
  <<"frame", "noresize">>, <<"area", "nohref">>, <<"input", "ismap">>, <<"object", "typemustmatch">>,
  <<"style", "scoped">>, <<"iframe", "seamless">>, <<"menuitem", "checked">>, <<"menuitem", "default">>,
  <<"menuitem", "disabled">>, <<"iframe", "allowpaymentrequest">> }
IsBoolAttr(tag, n) == n \in GlobalBoolAttrs \/ <<tag, n>> \in BoolAttrPairs

(* Attributes whose value syntax is a set/list of white-space or comma separated tokens, a keyword,
   a number, an ID / name without white space, a language tag, a MIME type, a date or a media query
   list: leading/trailing ASCII white space is stripped by the processing rules and runs of inner
   white space only separate tokens (2.3.7 space-separated tokens, 2.3.8 comma-separated tokens,
   2.3.4 numbers: "skip ASCII whitespace", 2.3.3 keywords contain no white space).  A conforming
   value without white space is compared exactly by the same relation. *)
WsInsensitiveAttrs == {
  "class", "rel", "headers", "itemprop", "itemref", "itemtype", "sandbox", "sizes", "for", "accesskey", "ping",
  "blocking", "autocomplete", "srcset", "imagesrcset", "imagesizes", "media", "accept", "accept-charset",
  "coords", "allow",
  "as", "autocapitalize", "capture", "charset", "color", "cols", "colspan", "contenteditable", "crossorigin",
  "datetime", "decoding", "dir", "draggable", "enctype", "enterkeyhint", "fetchpriority", "form",
  "formenctype", "formmethod", "height", "hidden", "high", "hreflang", "http-equiv", "inputmode", "is", "kind",
  "lang", "list", "loading", "low", "max", "maxlength", "method", "min", "minlength", "optimum", "popover",
  "popovertarget", "popovertargetaction", "preload", "referrerpolicy", "rows", "rowspan", "scope",
  "shadowrootmode", "shape", "size", "span", "spellcheck", "srclang", "start", "step", "tabindex", "translate",
  "type", "usemap", "width", "wrap" }
(* NOT in the table on purpose: pattern (a regular expression: every space is significant),
   target / formtarget (a navigable name may contain and start with spaces), name, id, value, title,
   alt, content, placeholder, label, data-*. *)

(* valid URL potentially surrounded by spaces (2.4.1) *)
UrlAttrs == {"href", "src", "action", "formaction", "cite", "data", "poster", "itemid", "profile", "manifest",
             "xmlns", "background", "longdesc", "codebase", "classid", "archive", "icon"}

(* attributes whose value is a MIME type (or list of): ASCII case-insensitive, no significant white space *)
MimeAttrPairs == {<<"a", "type">>, <<"link", "type">>, <<"embed", "type">>, <<"object", "type">>,
                  <<"source", "type">>, <<"script", "type">>, <<"style", "type">>}
MimeAttrsAny == {"enctype", "formenctype", "accept"}
IsMimeAttr(tag, n) == n \in MimeAttrsAny \/ <<tag, n>> \in MimeAttrPairs

(* event handler content attributes (8.1.8.2) *)
EventAttrs == {"onabort", "onafterprint", "onauxclick", "onbeforeinput", "onbeforematch", "onbeforeprint",
  "onbeforetoggle", "onbeforeunload", "onblur", "oncancel", "oncanplay", "oncanplaythrough", "onchange",
  "onclick", "onclose", "oncontextlost", "oncontextmenu", "oncontextrestored", "oncopy", "oncuechange",
  "oncut", "ondblclick", "ondrag", "ondragend", "ondragenter", "ondragleave", "ondragover", "ondragstart",
  "ondrop", "ondurationchange", "onemptied", "onended", "onerror", "onfocus", "onformdata", "onhashchange",
  "oninput", "oninvalid", "onkeydown", "onkeypress", "onkeyup", "onlanguagechange", "onload", "onloadeddata",
  "onloadedmetadata", "onloadstart", "onmessage", "onmessageerror", "onmousedown", "onmouseenter",
  "onmouseleave", "onmousemove", "onmouseout", "onmouseover", "onmouseup", "onoffline", "ononline",
  "onpagehide", "onpagereveal", "onpageshow", "onpageswap", "onpaste", "onpause", "onplay", "onplaying",
  "onpopstate", "onprogress", "onratechange", "onreset", "onresize", "onrejectionhandled", "onscroll",
  "onscrollend", "onsecuritypolicyviolation", "onseeked", "onseeking", "onselect", "onslotchange",
  "onstalled", "onstorage", "onsubmit", "onsuspend", "ontimeupdate", "ontoggle", "onunhandledrejection",
  "onunload", "onvolumechange", "onwaiting", "onwheel"}

(* Documented default values ("missing value default" of the attribute index).  Values are given
   as lower-case byte sequences; comparison is ASCII case-insensitive for keywords. *)
Get == <<103, 101, 116>>                                      \* get
TextKw == <<116, 101, 120, 116>>                              \* text
Submit == <<115, 117, 98, 109, 105, 116>>                     \* submit
One == <<49>>                                                 \* 1
Rect == <<114, 101, 99, 116>>                                 \* rect
All == <<97, 108, 108>>                                       \* all
TextCss == <<116, 101, 120, 116, 47, 99, 115, 115>>           \* text/css
FormUrlEnc == <<97,112,112,108,105,99,97,116,105,111,110,47,120,45,119,119,119,45,102,111,114,109,45,
                117,114,108,101,110,99,111,100,101,100>>      \* application/x-www-form-urlencoded
TextJs == <<116,101,120,116,47,106,97,118,97,115,99,114,105,112,116>>                      \* text/javascript
AppJs == <<97,112,112,108,105,99,97,116,105,111,110,47,106,97,118,97,115,99,114,105,112,116>> \* application/javascript
AppEcma == <<97,112,112,108,105,99,97,116,105,111,110,47,101,99,109,97,115,99,114,105,112,116>> \* application/ecmascript
TextEcma == <<116,101,120,116,47,101,99,109,97,115,99,114,105,112,116>>                    \* text/ecmascript
AppXJs == <<97,112,112,108,105,99,97,116,105,111,110,47,120,45,106,97,118,97,115,99,114,105,112,116>> \* application/x-javascript
TextXJs == <<116,101,120,116,47,120,45,106,97,118,97,115,99,114,105,112,116>>               \* text/x-javascript
TextJScript == <<116,101,120,116,47,106,115,99,114,105,112,116>>                           \* text/jscript
JsMimeTypes == {TextJs, AppJs, AppEcma, TextEcma, AppXJs, TextXJs, TextJScript}

(* DefaultOf(tag, attr) = set of (lower-cased, stripped) values equal to the attribute being absent *)
DefaultOf(tag, n) ==
  CASE tag = "form" /\ n = "method" -> {Get}
    [] tag = "form" /\ n = "enctype" -> {FormUrlEnc}
    [] tag = "input" /\ n = "type" -> {TextKw}
    [] tag = "button" /\ n = "type" -> {Submit}
    [] tag \in {"td", "th"} /\ n \in {"colspan", "rowspan"} -> {One}
    [] tag \in {"col", "colgroup"} /\ n = "span" -> {One}
    [] tag \in {"area", "a"} /\ n = "shape" -> {Rect}
    [] tag = "style" /\ n = "media" -> {All}
    [] tag \in {"style", "link"} /\ n = "type" -> {TextCss}
    [] tag = "script" /\ n = "type" -> JsMimeTypes
    [] OTHER -> {}

(* Attributes whose empty value means the same as their absence (3.2.6 id: "if the value is not
   the empty string"; class/dir/style/name: no tokens, invalid keyword, no declarations, no name;
   form@action: "if action is the empty string, let action be the URL of the form document";
   event handlers: an empty body). *)
EmptyMeansAbsent(tag, n) ==
  \/ n \in {"class", "id", "dir", "style", "name"}
  \/ n \in EventAttrs
  \/ (tag = "form" /\ n = "action")
(* input@value: the default value is the empty string except in the states whose value mode is
   default/on (checkbox, radio) or where the attribute is the button label (submit, reset). *)
Checkbox == <<99,104,101,99,107,98,111,120>>
Radio == <<114,97,100,105,111>>
Reset == <<114,101,115,101,116>>
On == <<111, 110>>
InputValueDefaultOnTypes == {Checkbox, Radio}
InputValueIsLabelTypes == {Submit, Reset}

(* 13.1.2.4 optional tags: used by the design model HtmlMachine (the relation itself is decided by
   the tree builder, not by these rules).
   EndOmissibleBefore(tag) = start tags of a following sibling that allow omitting </tag>;
   the end tag may also be omitted when there is no more content in the parent, with the
   exception recorded in PNoOmitParents for p. *)
PClosers == {"address", "article", "aside", "blockquote", "details", "dialog", "div", "dl", "fieldset",
             "figcaption", "figure", "footer", "form", "h1", "h2", "h3", "h4", "h5", "h6", "header", "hgroup",
             "hr", "main", "menu", "nav", "ol", "p", "pre", "search", "section", "table", "ul"}
PNoOmitParents == {"a", "audio", "del", "ins", "map", "noscript", "video"}   \* and autonomous custom elements
EndOmissibleBefore(tag) ==
  CASE tag = "li" -> {"li"}
    [] tag = "dt" -> {"dt", "dd"}
    [] tag = "dd" -> {"dd", "dt"}
    [] tag = "p" -> PClosers
    [] tag = "rt" -> {"rt", "rp"}
    [] tag = "rp" -> {"rt", "rp"}
    [] tag = "optgroup" -> {"optgroup", "hr"}
    [] tag = "option" -> {"option", "optgroup", "hr"}
    [] tag = "thead" -> {"tbody", "tfoot"}
    [] tag = "tbody" -> {"tbody", "tfoot"}
    [] tag = "tfoot" -> {}
    [] tag = "tr" -> {"tr"}
    [] tag = "td" -> {"td", "th"}
    [] tag = "th" -> {"td", "th"}
    [] OTHER -> {}
EndOmissibleAtEnd(tag) ==
  tag \in {"li", "dd", "p", "rt", "rp", "optgroup", "option", "tbody", "tfoot", "tr", "td", "th"}
=============================================================================
