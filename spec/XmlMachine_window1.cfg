\* window family (see VocabWindow in XmlMachine.tla)
SPECIFICATION Spec
CONSTANTS MaxLen = 7
EmitMod = 1
Prefix <- PrefixOpenText
Emit = TRUE
Vocab <- VocabWindow
INVARIANTS TypeOK DesignRefinesInfoset EmitCase
CHECK_DEADLOCK FALSE
