SPECIFICATION RSpec
CONSTANTS MaxRegs = 3
INVARIANTS TypeOK AbstractionAgrees AgreesWithRef LiteralWins FirstPatternWins ReRegisterReplaces NotExistIffNothing Emit
CHECK_DEADLOCK FALSE
