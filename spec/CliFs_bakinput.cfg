SPECIFICATION Spec
CONSTANTS
  NWorkers = 2
  MaxChunks = 1
  FaultTasks = 0
  SetupIds = {"bakinput"}
INVARIANTS NeverLost
CHECK_DEADLOCK FALSE
