\* vacuity guard: old protocol, the stale <name>.bak is itself an input - NeverLost MUST be violated
SPECIFICATION Spec
CONSTANTS
  NWorkers = 2
  MaxChunks = 1
  FaultTasks = 0
  Protocol = "old"
  SetupIds = {"bakinput"}
INVARIANTS NeverLost
CHECK_DEADLOCK FALSE
