SPECIFICATION Spec
CONSTANTS MaxLen = 3
Pieces <- AllPieces
INVARIANTS PlainOK TrimOK TextOK Emit
CHECK_DEADLOCK FALSE
