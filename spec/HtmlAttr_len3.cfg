SPECIFICATION Spec
CONSTANTS MaxLen = 3
Pieces <- AllPieces
Bugs <- NoBugs
INVARIANTS PlainOK TrimOK TextOK Emit
CHECK_DEADLOCK FALSE
