SPECIFICATION Spec
CONSTANTS MaxLen = 3
EmitMod = 1
Emit = TRUE
Alphabet <- AlphaQuick
INVARIANTS TypeOK DesignRefinesInfoset EmitCase
CHECK_DEADLOCK FALSE
