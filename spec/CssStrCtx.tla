----------------------------- MODULE CssStrCtx -----------------------------
(* C09, CSS: string-valued constructs x quote kind x host.

   Every construct of a style sheet whose value is (or contains) a string and which the CSS
   minifier rewrites or re-quotes - url(), @import, -ms-filter / filter progid, font-family,
   font, attribute selectors, content, quotes, @charset, @namespace, format(), grid areas - is
   generated with BOTH quote characters (@Q = the quote, @O = the other quote inside the string)
   and in every host: a style sheet, a declaration list, an HTML style element, an HTML style
   attribute delimited by the other quote (the typical reason a value is single-quoted), an SVG
   style element and attribute.  A state is one choice; TLC enumerates all, the harness renders
   them; the output must still tokenize without an unterminated string / bad url / unbalanced
   block and be accepted again (Closure.PipeInv, CSS tokenizer of harness/cmd/c09/judge). *)
EXTENDS Integers, Sequences, FiniteSets, TLC

\* @D marks a declaration (usable in a style attribute); the others are whole rules / at-rules
Constructs == {
  "@D-ms-filter:@Qprogid:DXImageTransform.Microsoft.Alpha(Opacity=50)@Q",
  "@D-ms-filter:@Qprogid:DXImageTransform.Microsoft.Alpha(Opacity=100)@Q",
  "@D-ms-filter:@Qprogid:DXImageTransform.Microsoft.gradient(startColorstr=@O#80000000@O,endColorstr=@O#80000000@O)@Q",
  "@D-ms-filter:@Qalpha(opacity=50)@Q",
  "@Dfilter:progid:DXImageTransform.Microsoft.Alpha(Opacity=50)",
  "@Dfilter:progid:DXImageTransform.Microsoft.AlphaImageLoader(src=@Qx.png@Q)",
  "@Dbackground:url(@Qx.png@Q)",
  "@Dbackground:url( @Qx.png@Q )",
  "@Dbackground:url(@Qa b.png@Q)",
  "@Dbackground:url(@Qa)b.png@Q)",
  "@Dbackground:url(@Qa@Ob.png@Q)",
  "@Dbackground:url(@Qdata:image/png;base64,AAAA@Q)",
  "@Dbackground:url(@Qdata:text/plain,a%20b@Q)",
  "@Dbackground:url(@Qdata:image/svg+xml,<svg xmlns=@Ohttp://www.w3.org/2000/svg@O/>@Q)",
  "@Dbackground-image:url(@Qx.png@Q),url(@Qy.png@Q)",
  \* data URIs in both encodings whose decoded payload contains the characters that are special inside url(): ( ) ' " blank backslash
  "@Dbackground:url(@Qdata:text/plain;base64,Zih4KStnKHkp@Q)",
  "@Dbackground:url(@Qdata:text/x;base64,aXQncw==@Q)",
  "@Dbackground:url(@Qdata:text/x;base64,YSJi@Q)",
  "@Dbackground:url(@Qdata:text/x;base64,YSBi@Q)",
  "@Dbackground:url(@Qdata:text/x;base64,YVxi@Q)",
  "@Dbackground:url(@Qdata:text/x;base64,YSli@Q)",
  "@Dbackground:url(@Qdata:;base64,KGE=@Q)",
  "@Dbackground:url(@Qdata:text/x;base64,YSdiImMoZCllIGY=@Q)",
  "@Dbackground:url(@Qdata:image/svg+xml;base64,PHN2ZyB4bWxucz0iaHR0cDovL3d3dy53My5vcmcvMjAwMC9zdmciPjxnIHRyYW5zZm9ybT0idHJhbnNsYXRlKDEpIi8+PC9zdmc+@Q)",
  "@Dbackground:url(data:text/plain;base64,Zih4KStnKHkp)",
  "@Dbackground:url(data:text/x;base64,aXQncw==)",
  "@Dbackground:url(@Qdata:,f(x)+g(y)@Q)",
  "@Dbackground:url(@Qdata:,f%28x%29+g%28y%29@Q)",
  "@Dbackground:url(@Qdata:text/x,it%27s@Q)",
  "@Dbackground:url(@Qdata:text/x,a%22b@Q)",
  "@Dbackground:url(@Qdata:text/x,a%20b@Q)",
  "@Dbackground:url(@Qdata:text/x,a%5Cb@Q)",
  "@Dbackground:url(@Qdata:text/x,a b@Q)",
  "@Dbackground:url(@Qdata:text/x,a@Ob@Q)",
  "@Dbackground:url(@Qdata:image/svg+xml,%3Csvg xmlns=%27http://www.w3.org/2000/svg%27%3E%3Cg transform=%27translate(1)%27/%3E%3C/svg%3E@Q)",
  "@Dbackground:url(@Qa\\ @Q)",
  "@import url(a\\ );a{b:c}",
  "@import url(@Qa\\@Q);a{b:c}",
  "@Dcursor:url(@Qx.cur@Q),auto",
  "@Dfont-family:@QTimes New Roman@Q,serif",
  "@Dfont-family:@QArial@Q",
  "@Dfont-family:@QComic Sans MS@Q,@Qserif@Q",
  "@Dfont-family:@Qa@Ob@Q",
  "@Dfont:12px @QHelvetica Neue@Q,@Qsans-serif@Q",
  "@Dfont:italic bold 12px/30px @QGeorgia@Q",
  "@Dcontent:@Qx@Q",
  "@Dcontent:@Q@Q",
  "@Dcontent:@Qit@Os@Q",
  "@Dcontent:@Q\\201C@Q attr(title) @Q\\201D@Q",
  "@Dcontent:counter(a,@Qx@Q)",
  "@Dquotes:@Q<@Q @Q>@Q",
  "@Dgrid-template-areas:@Qa b@Q @Qc d@Q",
  "@Dfont-feature-settings:@Qliga@Q 1",
  "@Dwill-change:auto;list-style:@Q-@Q",
  "@Dtext-emphasis:@Qx@Q red",
  "a[b=@Qc@Q]{d:e}",
  "a[b=@Qc d@Q]{d:e}",
  "a[b~=@Q1@Q]{d:e}",
  "a[b=@Q@Q]{d:e}",
  "a[b=@Qc@Od@Q]{d:e}",
  "a[b=@Qc@Q i]{d:e}",
  "@import @Qx.css@Q;a{b:c}",
  "@import url(@Qx.css@Q);a{b:c}",
  "@import url(@Qx.css@Q) screen;a{b:c}",
  "@import @Qa b.css@Q print;a{b:c}",
  "@charset @Qutf-8@Q;a{b:c}",
  "@namespace svg url(@Qhttp://www.w3.org/2000/svg@Q);a{b:c}",
  "@namespace @Qhttp://www.w3.org/1999/xhtml@Q;a{b:c}",
  "@font-face{font-family:@QMy Font@Q;src:url(@Qa.woff@Q)format(@Qwoff@Q),local(@QMy Font@Q)}",
  "@media screen{a:after{content:@Qx@Q}}",
  "@supports(content:@Qx@Q){a{b:c}}",
  "@counter-style x{symbols:@Qa@Q @Qb@Q;suffix:@Q @Q}",
  "@page{@top-left{content:@Qx@Q}}"
}
Quotes == {"'", "DQ"}               \* DQ stands for the double quote (a TLA+ string cannot hold it unescaped in a dump)
Hosts == {"css", "inline", "html-style", "html-attr", "svg-style", "svg-attr"}

VARIABLES c, q, h
vars == <<c, q, h>>
Init == c \in Constructs /\ q \in Quotes /\ h \in Hosts
Next == FALSE /\ UNCHANGED vars
Spec == Init /\ [][Next]_vars
TypeOK == c \in Constructs /\ q \in Quotes /\ h \in Hosts
=============================================================================
