SPECIFICATION Spec
CONSTANTS Shared = TRUE
MaxCalls = 3
Form <- FormStd
INVARIANT EachCallOwnInput
CHECK_DEADLOCK FALSE
