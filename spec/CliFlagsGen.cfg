SPECIFICATION Spec
CONSTANTS MaxFlags = 2
NInputs = 2
INVARIANTS TypesKnown TableFunctional DenotesOK
CHECK_DEADLOCK FALSE
