SPECIFICATION Spec
CONSTANTS MaxFlags = 2
NInputs = 2
INVARIANTS TableFunctional DenotesOK
CHECK_DEADLOCK FALSE
