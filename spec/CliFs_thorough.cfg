SPECIFICATION Spec
CONSTANTS
  NWorkers = 2
  MaxChunks = 2
  Protocol = "fixed2"
  FaultTasks = 2
  SetupIds = {"inplace2", "separate", "bundle", "bundleinplace", "sync", "syncinplace", "alias", "hard", "overwrite", "bak", "bakinput"}
INVARIANTS NeverLost ReadOnlyUntouched OthersUntouched DoneClean NoLeftoverBackup DestinationsComplete NoDescriptorLeak
PROPERTY BakRemovedOnlyAfterComplete
CHECK_DEADLOCK FALSE
