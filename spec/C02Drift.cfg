SPECIFICATION DSpec
CONSTANTS
 MaxUnits = 3
 LocalNames = {"x", "y"}
 FreeNames = {"a", "ba"}
 Top = {"b"}
 MaxParams = 2
 MaxDecl = 2
 Start <- StartReal
 Cont <- ContReal
 DReserved = {"do", "if", "in", "of", "as", "for", "let", "new", "try", "var", "get", "set"}
 AllowWith = TRUE
 AllowVars = TRUE
 MaxUses = 2
 AllowFlat = FALSE
 MoveAfterRename = FALSE
 OldWith = FALSE
 RestoreOwn = FALSE
INVARIANT DriftFree
POSTCONDITION AcceptedLinear
CHECK_DEADLOCK FALSE
