SPECIFICATION Spec
CONSTANTS MaxSym = 8
MaxS = 0
MaxE = 3
MaxList = 2
Enabled <- NullishNames
INVARIANTS WellFormed Bounded Emit
CHECK_DEADLOCK FALSE
