SPECIFICATION Spec
CONSTANTS MaxNodes = 4
MaxDepth = 3
DocMode = FALSE
Vocab <- VocabTable
TextKinds <- TK3
OptSets <- Opts1
Bugs <- BugColgroup
INVARIANTS BuilderSound DesignRefines
CHECK_DEADLOCK FALSE
