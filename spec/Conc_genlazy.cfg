SPECIFICATION SpecLazy
CONSTANTS
  NG = 3
  MaxCalls = 2
  ShapeNames <- DomainShapes
  AllowReg = FALSE
  CopyOpts = TRUE
  TightCap = TRUE
  CopyArgs = TRUE
  HtmlDep = FALSE
  LazyInit = FALSE
  PoolBuf = FALSE
INVARIANTS Emit Deterministic SharedReadOnly NoBlocking LockSane
CHECK_DEADLOCK FALSE
