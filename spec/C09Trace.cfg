SPECIFICATION TSpec

INVARIANT Conforms
POSTCONDITION AcceptedLinear
CHECK_DEADLOCK FALSE
