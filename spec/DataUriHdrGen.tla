----------------------------- MODULE DataUriHdrGen -----------------------------
(* C18 generator of data URI *headers*: the part between "data:" and the first comma is a
   sequence of at most MaxTok tokens (type names, ";", "=", blank, the words base64 / charset /
   us-ascii, a parameter letter, a double quote), so that TLC enumerates the syntax space in
   which the media type is parsed, the ;base64 marker is recognised and the defaults are
   stripped - products the fixed media type list of DataUriGen does not reach.  Each header is
   combined with a few payload texts.  Invariant: the design model satisfies the relation on
   every such URI (D => A); the state dump is the input set for the real helper. *)
EXTENDS DataUriDesign, DataUriAsIs, TLC
CONSTANTS MaxTok
VARIABLES hdr, pl
vars == <<hdr, pl>>

Tok == <<
  <<116, 101, 120, 116, 47, 112, 108, 97, 105, 110>>,   \* 1 text/plain
  <<116, 101, 120, 116, 47, 120>>,                      \* 2 text/x
  <<59>>,                                               \* 3 ;
  <<61>>,                                               \* 4 =
  <<32>>,                                               \* 5 blank
  <<98, 97, 115, 101, 54, 52>>,                         \* 6 base64
  <<99, 104, 97, 114, 115, 101, 116>>,                  \* 7 charset
  <<117, 115, 45, 97, 115, 99, 105, 105>>,              \* 8 us-ascii
  <<65>>,                                               \* 9 A
  <<34>> >>                                             \* 10 "
Payloads == <<
  <<97>>,                                               \* a
  <<89, 81, 61, 61>>,                                   \* YQ==   (base64 of "a")
  <<35, 37, 50, 51, 32>>,                               \* #%23 blank
  <<37, 50, 51, 37, 50, 51, 37, 50, 51, 37, 50, 51, 37, 50, 51, 37, 50, 51>> >>   \* %23 x 6
Header(h) == FoldLeft(LAMBDA a, t : a \o Tok[t], <<>>, h)
Uri(h, p) == Data5 \o Header(h) \o <<44>> \o Payloads[p]

Init == hdr = <<>> /\ pl \in 1..Len(Payloads)
Next == Len(hdr) < MaxTok /\ \E t \in 1..Len(Tok) : hdr' = Append(hdr, t) /\ UNCHANGED pl
Spec == Init /\ [][Next]_vars

U == Uri(hdr, pl)
DesignOK == DataUriOK(U, Design(U, "none"), {}, <<>>)
DesignIdem == Design(Design(U, "none"), "none") = Design(U, "none")
DesignShrinkOK ==
  LET pi == Parse(U)  d == Decode(pi) IN
  (pi.ok /\ ~(pi.b64 /\ ~d.strict)) =>
     DataUriOK(U, Design(U, "shrink"), {MediatypeNorm(pi.mt).type},
               << [in |-> d.payload, out |-> SubFn("shrink", d.payload), err |-> FALSE] >>)
\* the transcription of the current code violates the relation only on the construct K4
AsIsOKOutsideKnown == ~DataUriOK(U, AsIsNone(U), {}, <<>>) => KnownUri(U)
=============================================================================
