SPECIFICATION Spec
CONSTANTS MaxLen = 6
Alphabet <- Alpha5D
Precs <- PrecsT
OldCarry = FALSE
INVARIANTS NoPanic SliceInside DoneOK EmitDone
CHECK_DEADLOCK FALSE
