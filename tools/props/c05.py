"""C05  SVG minification preserves geometry, references and structure.

MC : SvgPathLaws  - the algebraic identities a path minifier relies on (abs<->rel, L->H/V, C->S,
                    Q->T, degenerate curve -> line, drop zero-length line, closepath) checked
                    against the path interpreter of SvgPath in every interpreter state reachable
                    by <= MaxN commands over every command letter (both cases), with the side
                    conditions under which they keep what a FOLLOWING smooth command reflects.
     SvgPathDesign- design model: the rewrite decisions of copyInstruction (its own cursor and control
                    point memory, one-letter look-ahead) refine the interpreter step by step; the decisions
                    before the fix commits are switches = wrong designs in which TLC must find the counterexample.
     SvgPathGen   - token-level generator automaton of path data (carries the interpreter state);
                    exhaustive to MaxTok tokens, random walks (-simulate) to 120 tokens.
     SvgDocGen    - token-level generator automaton of documents (nesting, attributes, text).
     SvgCallSeq   - every order of standalone / inline calls on one registered minifier instance (up to 4).
RUN: harness/cmd/c05 renders nothing itself: it gets bytes, calls the real public API (ONE minify.M with
     ONE registered *svg.Minifier and *html.Minifier per session; inline SVG goes through the HTML minifier)
     and projects input and output with encoding/xml / x/net/html.
     SvgPathPrint - byte-level prediction of the shortener's output for path data with float-exact numbers (integers, halves, the compact family) (decisions of
                    SvgPathDecide + number spelling, separators, letter elision, shorter twin): DRIFT comparison
                    with the real output bytes on every such trace line (information, never a verdict).
TV : C05Trace evaluates, in TLC, PathVerdict (PathGrammar on the output bytes, Interp on both
     sides, PathEq on the normalised absolute segments) for every `d` attribute and the document
     clauses of SvgDoc (tree, prefixed attributes, plain attributes, values, rendered text).
"""
import json
import os
import re
from decimal import Decimal

import vlib

PID = 'C05'

# --------------------------------------------------------------------------------------------
# Constructs that are not generated while the corresponding known finding is open (each one is
# pinned by an exact witness in known/C05.ndjson and replayed on every run).  C05_INCLUDE=tag,tag
# lifts exclusions (used to validate proposed patches in a private worktree).
EXCLUSIONS = {
    'xml-attr': 'xml: attributes (xml:space, xml:lang)',
    'text-join': 'blank at the edge of character data inside a text element next to a child element',
    'defs-1attr': 'childless defs element with exactly one attribute',
    'numeric-string': 'id/class/href-like attribute whose whole value reads as a number with optional unit',
    'trailing-dot-flag': 'number written with a trailing dot (5.) directly before an arc flag, or followed by an exponent (5.e1)',
    'foreignobject-attr': 'attribute value with a blank run or a character reference inside foreignObject',
    'inline-nested-svg': 'svg element nested in inline SVG, self-closed inline root (HTML lexer of the parse library ends the SVG at the first </svg)',
}
# Constructs that were excluded while a finding was open and are generated again since the fix commit
# (known/C05.txt `fixed:` lines); their witnesses stay in known/C05.ndjson as ordinary regression cases.
FIXED = {
    'z-draw': '06800a3 closepath followed by a drawing command',
    'deg-smooth': 'ed5d06b smooth curveto directly after a degenerate curve',
    'zeroL-smooth': '2008ad3 zero-length lineto (or curve that simplifies to one) directly after a curve',
    'exp100': '652de3f number whose shortest form has an exponent ending in 00 (1e100)',
    'svg-prefix-end': '929401b svg:-prefixed element with a separate end tag',
    'xlink-attr': '2c322a0 xlink: attributes',
    'charref-lt-amp': '1882673 numeric character reference to < or &',
    'foreignobject-empty': '53ae1e9 foreignObject element with an end tag but no content',
}
INCLUDE = set(x for x in os.environ.get('C05_INCLUDE', '').split(',') if x)


def excluded(tag):
    return tag in EXCLUSIONS and tag not in INCLUDE


# --------------------------------------------------------------------------------------------
# path rendering: abstract token list (TLC) -> bytes, in a seeded lexical style
ARITY = {'M': 2, 'L': 2, 'T': 2, 'H': 1, 'V': 1, 'S': 4, 'Q': 4, 'C': 6, 'A': 7, 'Z': 0}


def groups_of(toks):
    """[(letter, [values])] one entry per command letter as it appears in the token string"""
    out = []
    for t in toks:
        if t < 1000:
            out.append((chr(t), []))
        else:
            out[-1][1].append(t - 1000000)
    return out


def accepting_prefix(toks):
    """longest prefix of a token string that is complete path data"""
    n = 0
    cmd, k = None, 0
    for i, t in enumerate(toks):
        if t < 1000:
            if cmd is not None and ARITY[cmd.upper()] > 0 and (k == 0 or k % ARITY[cmd.upper()] != 0):
                break
            cmd, k = chr(t), 0
            if ARITY[cmd.upper()] == 0:
                n = i + 1
        else:
            k += 1
            if k % ARITY[cmd.upper()] == 0:
                n = i + 1
    return toks[:n]


LEX = ['1e3', '2e3', '5e-4', '.5', '-.5', '1.5', '1e2']     # spellings that are already the shortest
LEX_STYLE = dict(name='lex', sep=[''], forms=['lex'], plus=0.0, omit=1.0, compact=1.0, lsp=0.0, lex=True)


def num_forms(v, dec, rnd, style, nodot=False):
    if style.get('lex'):
        return LEX[v]
    """one spelling of the exact decimal v / 10^dec"""
    neg = v < 0
    a = abs(v)
    s = str(a).rjust(dec + 1, '0')
    ip, fp = (s[:-dec], s[-dec:]) if dec else (s, '')
    form = rnd.choice(style['forms'])
    if form == 'dot' and nodot:
        form = 'plain'
    if form == 'min':
        f = fp.rstrip('0')
        i = ip.lstrip('0')
        body = (i or ('0' if not f else '')) + ('.' + f if f else '')
    elif form == 'plain':
        f = fp.rstrip('0')
        body = ip + ('.' + f if f else '')
    elif form == 'full':
        body = ip + ('.' + fp if fp else '')
    elif form == 'tz':
        body = ip + '.' + fp + '0' * rnd.randint(1, 2)
    elif form == 'lz':
        body = '0' * rnd.randint(1, 2) + ip + ('.' + fp if fp else '')
    elif form == 'dot':
        body = (ip + '.') if not fp.strip('0') else ip + '.' + fp
    elif form == 'exp':
        # digits * 10^(shift - dec), exponent spelled in several ways
        shift = rnd.choice([-2, -1, 0, 1, 2, 3])
        digits = str(a)
        e = -dec
        if shift >= 0:
            digits = digits + '0' * shift
            e -= shift
            body = digits
        else:
            k = -shift
            digits = digits.rjust(k + 1, '0')
            body = digits[:-k] + '.' + digits[-k:]
            if rnd.random() < 0.3 and body.startswith('0.'):
                body = body[1:]
            e += k
        es = rnd.choice(['e', 'E']) + rnd.choice(['', '+'] if e >= 0 else ['-']) + \
            (str(abs(e)) if rnd.random() < 0.8 else str(abs(e)).rjust(2, '0'))
        body += es
    elif form == 'exp100':
        # a value with exponent 100 (outside the fixed-point range: judged on the grammar clause)
        body = (str(a) or '0') + rnd.choice(['e100', 'E+100', 'e-100', 'e200'])
    else:
        raise AssertionError(form)
    sign = '-' if neg and a != 0 else ('-' if neg and rnd.random() < 0.5 else '')
    if not neg and rnd.random() < style['plus']:
        sign = '+'
    return sign + body


STYLES = [
    dict(name='space', sep=[' '], forms=['min', 'plain'], plus=0.0, omit=0.3, compact=0.0, lsp=0.2),
    dict(name='comma', sep=[','], forms=['plain', 'full'], plus=0.0, omit=0.5, compact=0.0, lsp=0.0),
    dict(name='commaspace', sep=[', ', ' , ', ' ,'], forms=['plain', 'full', 'tz'], plus=0.05, omit=0.5, compact=0.0, lsp=0.5),
    dict(name='min', sep=[''], forms=['min'], plus=0.0, omit=0.9, compact=1.0, lsp=0.0),
    dict(name='mixed', sep=[' ', ',', '', '\n', '\t', '  ', ' \r\n '], forms=['min', 'plain', 'full', 'tz', 'lz', 'dot', 'exp'],
         plus=0.1, omit=0.5, compact=0.5, lsp=0.3),
    dict(name='exp', sep=[' ', ''], forms=['exp', 'min'], plus=0.05, omit=0.5, compact=0.3, lsp=0.1),
]


def needs_sep(prev, nxt):
    """would writing nxt directly after the number prev change the tokenisation?"""
    if nxt[0] in '+-':
        return False
    if nxt[0] == '.':
        return not ('.' in prev or 'e' in prev or 'E' in prev)
    return True


def render_path(toks, rnd, style=None, dec=None):
    """abstract token string -> path data bytes in a seeded lexical style.  Freedom used: spelling of
    every number, separators (blank / comma / nothing where the grammar allows), compact arc flags,
    writing or omitting a repeated command letter (L after M), blanks around letters."""
    style = style or rnd.choice(STYLES)
    if dec is None:
        dec = rnd.choice([0, 0, 1, 2])
    out = []
    prev = None            # 'letter' | 'num' | 'flag' | None (start)
    prevnum = ''
    prev_letter = None     # letter that an omitted letter would repeat
    for letter, vals in groups_of(toks):
        u = letter.upper()
        ar = ARITY[u]
        ngroups = len(vals) // ar if ar else 0
        for gi in range(max(1, ngroups)):
            # letter of this group: explicit letter of the command, or the implicit one of a repetition
            gl = letter if gi == 0 else (('L' if letter == 'M' else 'l' if letter == 'm' else letter))
            can_omit = prev == 'num' and prev_letter is not None and ar > 0 and \
                (gl == prev_letter if gl.upper() != 'M' else False)
            if gi == 0:
                write = not (can_omit and rnd.random() < style['omit'])
            else:
                write = not can_omit or (rnd.random() < 0.15 and not style.get('lex'))
            if write:
                if rnd.random() < style['lsp'] and out:
                    out.append(rnd.choice([' ', '\n', '  ']))
                out.append(gl)
                prev = 'letter'
            prev_letter = ('L' if gl == 'M' else 'l' if gl == 'm' else gl) if ar > 0 else None
            for pos in range(ar):
                v = vals[gi * ar + pos]
                isflag = u == 'A' and pos in (3, 4)
                s = str(v) if isflag else num_forms(v, dec, rnd, style, nodot=(u == 'A' and pos == 2 and excluded('trailing-dot-flag')))
                if prev == 'letter':
                    sep = ' ' if rnd.random() < style['lsp'] else ''
                elif prev == 'flag':
                    sep = '' if rnd.random() < style['compact'] else (rnd.choice(style['sep']) or ' ')
                else:
                    sep = rnd.choice(style['sep'])
                    if isflag and pos == 3:
                        sep = sep or ' '              # number comma-wsp flag: separator required
                    elif sep == '' and (isflag or needs_sep(prevnum, s)):
                        sep = ' '
                out.append(sep)
                out.append(s)
                prev = 'flag' if isflag else 'num'
                prevnum = s
            if ar == 0:
                prev = 'letter'
                prev_letter = None
    b = ''.join(out)
    if not style.get('lex') and rnd.random() < 0.15:
        b = rnd.choice([' ', '\n']) + b + ' '
    return b.encode(), ('lex' if style.get('lex') else dec)


NUM_RE = re.compile(r'[+-]?(?:\d+\.?\d*|\.\d+)(?:[eE][+-]?\d+)?')


def reparse_path(b):
    """independent re-reading of rendered path data (self-test of the renderer): [(letter, [Decimal])]"""
    s = b.decode()
    i, out = 0, []
    cmd = None
    k = 0
    while i < len(s):
        c = s[i]
        if c in ' \t\r\n,':
            i += 1
        elif c.isalpha() and c not in 'eE':
            cmd = c
            k = 0
            out.append((c, []))
            i += 1
        elif cmd in ('A', 'a') and k % 7 in (3, 4):
            out[-1][1].append(Decimal(c))
            k += 1
            i += 1
        else:
            m = NUM_RE.match(s, i)
            if not m:
                raise vlib.Infra('renderer self-test: cannot read %r at %d' % (s, i))
            out[-1][1].append(Decimal(m.group(0)))
            k += 1
            i = m.end()
    return out


def check_render(toks, b, dec):
    if not excluded('exp100') and re.search(rb'[eE][+-]?[12]00', b):
        return          # deliberately rescaled numbers (only with C05_INCLUDE=exp100)
    want = []
    for letter, vals in groups_of(toks):
        u = letter.upper()
        ar = ARITY[u]
        for gi in range(max(1, len(vals) // ar if ar else 1)):
            gl = letter if gi == 0 else ('L' if letter == 'M' else 'l' if letter == 'm' else letter)
            for pos in range(ar):
                v = vals[gi * ar + pos]
                isflag = u == 'A' and pos in (3, 4)
                want.append((gl, Decimal(v) if isflag else (Decimal(LEX[v]) if dec == 'lex' else Decimal(v).scaleb(-dec))))
            if ar == 0:
                want.append((gl, None))
    got = []
    for letter, vals in reparse_path(b):
        u = letter.upper()
        ar = ARITY[u]
        if ar == 0:
            got.append((letter, None))
        for j, v in enumerate(vals):
            gi = j // ar
            gl = letter if gi == 0 else ('L' if letter == 'M' else 'l' if letter == 'm' else letter)
            got.append((gl, v))
    if got != want:
        raise vlib.Infra('renderer self-test failed: %r does not read back as %r' % (b, toks))


def rendered_path(toks, rnd, style=None, dec=None):
    b, d = render_path(toks, rnd, style, dec)
    check_render(toks, b, d)
    return b


# --------------------------------------------------------------------------------------------
# document rendering
ED_NS = 'http://example.org/editor'
ELEMENTS = {1: 'svg', 2: 'g', 3: 'path', 4: 'rect', 5: 'text', 6: 'tspan', 7: 'defs', 8: 'metadata', 9: 'use',
            10: 'style', 11: 'linearGradient', 12: 'stop', 13: 'ed:note', 14: 'svg:g', 15: 'foreignObject',
            16: 'circle', 17: 'a', 18: 'title', 19: 'svg:rect', 20: 'polyline'}
PATHS = ['M0 0L10 10', 'M 1,1 h 5 v 5 z', 'm1 1 2 2 3-3', 'M10 10C10 20 20 20 20 10S30 0 30 10', 'M.5.5 1.5.5',
         'M0 0a5 5 0 0 1 10 0', '', 'M100 200Q150,50 200,200T300 200Z M5 5']
COLOURS = ['red', '#ff0000', '#F00', 'white', '#ffffff', 'tan', 'none', 'url(#a)', 'currentColor', '#abcdef',
           '#AABBCC', 'RED', 'black', '#000000', 'lightgoldenrodyellow', '#fafad2', ' blue ', 'rgb(255,0,0)']
DIMS = ['5', '5.0px', '0%', '1e3', '10.50em', '100', '1000', '0.5', '.5', '+5', '5PX', 'auto', '100%', '1E2', '0.0',
        '00.5', '0px', '-1.50', '12pt', ' 7 ', '1.5e1mm', '0.0em', '-0']
ZEROISH = ['0', '0px', '0.0', '1', '-1.5', '0%', '00', '+0', '0e0', '5.0']
ATTRS = {
    1: ('id', ['a', 'b1', 'x-y', 'Layer_1', 'a&#45;b', 'é']),
    2: ('fill', COLOURS), 3: ('stroke', COLOURS),
    4: ('width', DIMS), 5: ('height', DIMS), 6: ('x', ZEROISH + DIMS), 7: ('y', ZEROISH + DIMS),
    8: ('viewBox', ['0 0 10 10', '0,0,10,10', '0 0 1e1 10.0', ' 0  0 100 1e2 ', '-5.0 -5 10 10', '0, 0, 10, 10', '0 0 0.50 00.5']),
    9: ('version', ['1.1', '1.0', '1.2', ' 1.1 ']),
    10: ('preserveAspectRatio', ['xMidYMid meet', 'xMidYMid  meet', 'none', 'xMinYMin slice', 'xMidYMid']),
    11: ('baseProfile', ['none', 'full', 'tiny']),
    12: ('d', PATHS),
    13: ('transform', ['translate(10,20)', 'rotate(45 1 1)', ' scale( 2 )', 'matrix(1 0 0 1 0 0)', 'translate(0.50)']),
    14: ('class', ['a b', '  a   b ', 'c']),
    15: ('style', ['fill:red', 'fill: red; stroke: #ff0000;', 'stroke-width:0.50px', '', 'fill:#FFFFFF;stroke:black;opacity:0.50',
                   ' stroke-width : 0px ; fill : white ', 'stop-color:#aabbcc;stop-opacity:1.0', 'display:none', 'FILL:tan;stroke-width:1e1']),
    16: ('ed:attr', ['1', 'x y', '#ffffff']),
    17: ('xlink:href', ['#a', '#b1']),
    18: ('xml:space', ['preserve', 'default']),
    19: ('points', ['0,0 10,10 5.0,1e1', '0 0  1 1', '-0.1,', '1,2,3,4']),
    20: ('opacity', ['0.50', '1', '.5', '1.0', '50%', '0', '1e-1']),
    21: ('stroke-width', DIMS),
    22: ('offset', ['0%', '50%', '1', '0.5', '100%', '0']),
    23: ('stop-color', COLOURS),
    24: ('href', ['#a', '#b1', 'x.svg#q']),
    25: ('contentScriptType', ['application/ecmascript', 'text/javascript']),
    26: ('contentStyleType', ['text/css']),
    27: ('type', ['text/css', 'text/x-foo']),
    28: ('xml:lang', ['en', 'nl']),
    29: ('r', DIMS), 30: ('cx', ZEROISH + DIMS),
    31: ('font-size', DIMS), 32: ('x1', ZEROISH + DIMS),
}
NUMERIC_STRINGS = ['007', '1000', '5px', '1.0', '2E3']       # only with C05_INCLUDE=numeric-string
TEXTS = ['a', 'a b', 'x&amp;y', '&lt;b', '<![CDATA[ c ]]>', 'a &#65; b', '<![CDATA[<<<<<<]]>', 'é', '  p  q  ', 'w\n  z']
TEXTS_IN_TEXT = ['a', 'a b', 'x&amp;y', 'c  d e', '&#65;b', '<![CDATA[q]]>']
CSS_TEXTS = ['a{fill:red}', ' .b { stroke : #ff0000 } ', '<![CDATA[ c > d { fill : blue } ]]>']
FOREIGN_OBJECT = ['<div xmlns="http://www.w3.org/1999/xhtml">t  u</div>', '<p xmlns="http://www.w3.org/1999/xhtml"> v </p>', 'w']
TEXT_CONTEXT = {5, 6}
STRING_ATTRS = {1, 14, 24, 17}


if not excluded('charref-lt-amp'):
    TEXTS += ['a&#60;b &#38; c', '&#x3c;&#x26;']
    TEXTS_IN_TEXT += ['a&#60;b&#38;c']
    ATTRS[14][1].append('a&#60;b &#38;c')
if not excluded('foreignobject-empty'):
    FOREIGN_OBJECT.append('')
if not excluded('exp100'):
    STYLES[5]['forms'].append('exp100')


def pick(row, v, nvals, rnd):
    """value variant: exhaustive index when the model enumerates variants, seeded otherwise"""
    if nvals > 1:
        return row[(v - 1) % len(row)]
    return rnd.choice(row)


def esc_attr(v, q):
    # the tables hold XML source text already (entities are written out); only the quote matters
    return v.replace(q, '&quot;' if q == '"' else '&apos;')


def render_doc(toks, rnd, mode, nvals):
    """abstract token list -> XML source text of one SVG document"""
    inline = mode == 'inline'
    out = []
    stack = []          # [id, has_content, start_index_in_out, nattrs]
    used_ed = used_svgp = used_xlink = False
    intag = False
    in_text = 0

    def layout():
        if in_text:
            return ''
        r = rnd.random()
        if r < 0.5:
            return ''
        if r < 0.6:
            return '<!-- c -->'
        return rnd.choice([' ', '\n', '\n  ', '\t'])

    def close_start_tag(selfclose=False):
        nonlocal intag
        if intag:
            out.append('/>' if selfclose else '>')
            intag = False

    def name_of(e, depth):
        n = ELEMENTS[e]
        if inline and n.startswith('svg:'):
            n = n[4:]          # prefixes mean nothing to an HTML parser
        if inline and e == 1 and depth > 0 and excluded('inline-nested-svg'):
            n = 'g'
        return n

    i = 0
    n = len(toks)
    while i < n:
        t, a, v = toks[i]
        if t == 1:
            close_start_tag()
            if stack:
                stack[-1][1] = True
            out.append(layout())
            nm = name_of(a, len(stack))
            used_ed = used_ed or nm.startswith('ed:')
            used_svgp = used_svgp or nm.startswith('svg:')
            out.append('<' + nm)
            stack.append([a, False, len(out), 0])
            if a in TEXT_CONTEXT:
                in_text += 1
            intag = True
            if a == 1 and len(stack) == 1:
                out.append('@@NS@@')
        elif t == 2:
            nm, row = ATTRS[a]
            val = pick(row, v, nvals, rnd)
            if a == 1 and not excluded('numeric-string') and rnd.random() < 0.3:
                val = rnd.choice(NUMERIC_STRINGS)
            # childless defs with exactly one attribute: construct excluded (known finding)
            e = stack[-1][0]
            if e == 7 and excluded('defs-1attr'):
                nxt = toks[i + 1][0] if i + 1 < n else 4
                if stack[-1][3] == 0 and nxt == 4:
                    i += 1
                    continue
            stack[-1][3] += 1
            used_ed = used_ed or nm.startswith('ed:')
            used_xlink = used_xlink or nm.startswith('xlink:')
            q = rnd.choice('""\'')
            eq = '=' if rnd.random() < 0.9 else rnd.choice([' = ', '= ', ' ='])
            out.append(rnd.choice([' ', ' ', '\n   ', '  ']) + nm + eq + q + esc_attr(val, q) + q)
        elif t == 3:
            close_start_tag()
            e = stack[-1][0]
            stack[-1][1] = True
            if e in TEXT_CONTEXT:
                out.append(pick(TEXTS_IN_TEXT, a, 0, rnd))
            elif e == 10:
                out.append(pick(CSS_TEXTS, a, 0, rnd))
            else:
                out.append(pick(TEXTS, a, 0, rnd))
        else:
            e, has, _, _ = stack.pop()
            nm = name_of(e, len(stack))
            if e == 15 and not has:
                close_start_tag()
                fo = rnd.choice(FOREIGN_OBJECT)
                out.append(fo)
                has = bool(fo)
            if intag:
                r = rnd.random()
                if inline and not stack and excluded('inline-nested-svg'):
                    r = 1.0
                if r < 0.5:
                    close_start_tag(selfclose=True)
                else:
                    close_start_tag()
                    out.append(rnd.choice(['', '', ' ', '\n']) if not in_text else '')
                    out.append('</' + nm + rnd.choice(['', '', ' ']) + '>')
            else:
                out.append(layout())
                out.append('</' + nm + rnd.choice(['', '', ' ', '\n']) + '>')
            if e in TEXT_CONTEXT:
                in_text -= 1
        i += 1
    ns = ''
    if not inline or rnd.random() < 0.5:
        if inline or rnd.random() < 0.85:
            ns += ' xmlns="http://www.w3.org/2000/svg"'
    if not inline:
        if used_ed:
            ns += ' xmlns:ed="%s"' % ED_NS
        if used_svgp:
            ns += ' xmlns:svg="http://www.w3.org/2000/svg"'
        if used_xlink:
            ns += ' xmlns:xlink="http://www.w3.org/1999/xlink"'
        if used_svgp and 'xmlns="' not in ns:
            ns = ' xmlns="http://www.w3.org/2000/svg"' + ns
    src = ''.join(out).replace('@@NS@@', ns, 1)
    if not inline:
        pre = ''
        if rnd.random() < 0.4:
            pre += rnd.choice(['<?xml version="1.0"?>', '<?xml version="1.0" encoding="UTF-8" standalone="no"?>\n'])
        if rnd.random() < 0.25:
            pre += '<!DOCTYPE svg PUBLIC "-//W3C//DTD SVG 1.1//EN" "http://www.w3.org/Graphics/SVG/1.1/DTD/svg11.dtd">\n'
        if rnd.random() < 0.2:
            pre += '<!-- Generator: x -->'
        src = pre + src + rnd.choice(['', '', '\n'])
    return src.encode('utf-8')


# --------------------------------------------------------------------------------------------
def tlc_json_lines(out):
    """values printed with PrintT(ToJson(x)): one quoted JSON text per line"""
    res = []
    for m in re.finditer(r'^"(\[[-0-9,\[\]]*\])"\s*$', out, re.M):
        res.append(json.loads(m.group(1)))
    return res


def uniq(seqs):
    seen, out = set(), []
    for s in seqs:
        k = json.dumps(s)
        if k not in seen:
            seen.add(k)
            out.append(s)
    return out


def write_cfg(ctx, name, text):
    d = vlib._speccopy(ctx)
    with open(os.path.join(d, name), 'w') as f:
        f.write(text)
    return name


def path_pairs_cfg(ctx):
    """exhaustive: M + two curve/line groups over {0,1}, every curve from a forcing template (mirror image /
    control points on end points): all the coincidences the C->S, Q->T and curve->line rewrites decide on"""
    return write_cfg(ctx, 'SvgPathGen_run_pairs.cfg', '\n'.join([
        'SPECIFICATION Spec',
        'CONSTANTS MaxTok = 15', 'MaxGroups = 3', 'Letters <- LettersCurvePairs', 'Modes <- ModesForced',
        'Coords <- CoordsTiny', 'MCoords <- %s' % ('CoordsZero' if ctx.quick() else 'CoordsTiny'),
        'Radii <- RadiiSmall', 'Rots <- RotsSmall',
        'ExclZ = %s' % ('TRUE' if excluded('z-draw') else 'FALSE'),
        'ExclDeg = %s' % ('TRUE' if excluded('deg-smooth') else 'FALSE'),
        'ExclZeroL = %s' % ('TRUE' if excluded('zeroL-smooth') else 'FALSE'),
        'INVARIANTS InRange Counters EmitAcc',
        'CHECK_DEADLOCK FALSE', '']))


def path_lex_cfg(ctx, maxtok, sim):
    """'compact' family: the abstract coordinates are indices into LEX (numbers whose spelling is already the
    shortest, with and without exponent, with and without leading dot), written without any separator the
    grammar does not require: an input on which the shortener has nothing to save, so every byte it writes too
    much overruns what it has not read yet (it rewrites the attribute in place)"""
    return write_cfg(ctx, 'SvgPathGen_run_lex%s.cfg' % ('sim' if sim else ''), '\n'.join([
        'SPECIFICATION Spec',
        'CONSTANTS MaxTok = %d' % maxtok, 'MaxGroups = 1000', 'Letters <- LettersAll', 'Modes <- ModesFree',
        'Coords <- CoordsLex', 'MCoords <- CoordsLex', 'Radii <- RadiiLex', 'Rots <- CoordsLex',
        'ExclZ = FALSE', 'ExclDeg = FALSE', 'ExclZeroL = FALSE',
        'INVARIANTS %s' % ('Emit' if sim else 'Counters EmitAcc'),
        'CHECK_DEADLOCK FALSE', '']))


def path_gen_cfg(ctx, maxtok, sim, big=False):
    """sim with the small coordinate set: long walks in which coincidences (control point = reflection of the
    previous one, = an end point, zero-length lines) are frequent, i.e. the C->S, Q->T, curve->line rewrites
    fire; sim with the big set: numbers of many magnitudes and spellings"""
    return write_cfg(ctx, 'SvgPathGen_run_%s.cfg' % (('simbig' if big else 'sim') if sim else 'bfs'), '\n'.join([
        'SPECIFICATION Spec',
        'CONSTANTS MaxTok = %d' % maxtok,
        'MaxGroups = 1000', 'Letters <- LettersAll', 'Modes <- %s' % ('ModesAll' if sim else 'ModesFree'),
        'Coords <- %s' % ('CoordsSim' if big else 'CoordsSmall'),
        'MCoords <- %s' % ('CoordsSim' if big else 'CoordsSmall'),
        'Radii <- %s' % ('RadiiSim' if big else 'RadiiSmall'),
        'Rots <- %s' % ('RotsSim' if big else 'RotsSmall'),
        'ExclZ = %s' % ('TRUE' if excluded('z-draw') else 'FALSE'),
        'ExclDeg = %s' % ('TRUE' if excluded('deg-smooth') else 'FALSE'),
        'ExclZeroL = %s' % ('TRUE' if excluded('zeroL-smooth') else 'FALSE'),
        # (Incremental re-interprets every accepting token string from scratch: thorough tier only)
        'INVARIANTS InRange %s' % ('Emit' if sim else ('Counters EmitAcc' if ctx.quick() else 'Counters Incremental EmitAcc')),
        'CHECK_DEADLOCK FALSE', '']))


def doc_gen_cfg(ctx, kind, maxtok, maxdepth):
    sim = kind == 'sim'
    ats = 'AtsAll' if sim else 'AtsSmall'
    if sim:
        ats = {(True, True): 'AtsNoPrefixed', (True, False): 'AtsNoXlink', (False, True): 'AtsNoXml',
               (False, False): 'AtsAll'}[(excluded('xlink-attr'), excluded('xml-attr'))]
    return write_cfg(ctx, 'SvgDocGen_run_%s.cfg' % kind, '\n'.join([
        'SPECIFICATION Spec',
        'CONSTANTS MaxTok = %d' % maxtok,
        'MinTok = %d' % (maxtok * 3 // 5 if sim else 0),
        'MaxDepth = %d' % maxdepth,
        'MaxAttrs = %d' % (4 if sim else 2),
        'Els <- %s' % ('ElsAll' if sim else 'ElsSmall'),
        'Ats <- %s' % ats,
        'NVals = %d' % (1 if sim else 3),
        'NTexts = %d' % (1 if sim else 2),
        'SvgPrefixChildren = %s' % ('FALSE' if excluded('svg-prefix-end') else 'TRUE'),
        'INVARIANTS %sFits EmitDone' % ('' if sim else 'Balanced Nesting '),
        'CHECK_DEADLOCK FALSE', '']))


def generate(ctx):
    """(MC)+(GEN): returns (path token strings exhaustive, simulated, doc token strings exhaustive, simulated).
    The five TLC runs are independent and run side by side."""
    from concurrent.futures import ThreadPoolExecutor
    q = ctx.quick()
    w = max(2, min(8, vlib.JOBS // 2))
    t0 = vlib.time.time()
    cfg_pb = path_gen_cfg(ctx, 7 if q else 8, False)
    cfg_pp = path_pairs_cfg(ctx)
    cfg_lx = path_lex_cfg(ctx, 5 if q else 6, False)
    cfg_ls = path_lex_cfg(ctx, 60, True)
    cfg_ps = path_gen_cfg(ctx, 120, True)
    cfg_pl = path_gen_cfg(ctx, 120, True, big=True)
    cfg_db = doc_gen_cfg(ctx, 'bfs', 7 if q else 8, 3 if q else 4)
    cfg_ds = doc_gen_cfg(ctx, 'sim', 40, 5)
    vlib._speccopy(ctx)
    jobs = dict(
        # design level: laws of the interpreter
        laws=lambda: vlib.tlc(ctx, 'SvgPathLaws', 'SvgPathLaws_quick.cfg' if q else 'SvgPathLaws_thorough.cfg',
                              workers=w, heap='4g', timeout=3000),
        laws2=lambda: (vlib.tlc(ctx, 'SvgPathLaws', 'SvgPathLaws_wide.cfg', workers=w, heap='4g', timeout=3000) if not q else None),
        # design model of the shortener's decisions refines the interpreter (D => A)
        design=lambda: vlib.tlc(ctx, 'SvgPathDesign', 'SvgPathDesign_quick.cfg' if q else 'SvgPathDesign_thorough.cfg',
                                workers=w, heap='4g', timeout=3000),
        design2=lambda: (vlib.tlc(ctx, 'SvgPathDesign', 'SvgPathDesign_wide.cfg', workers=w, heap='4g', timeout=3000) if not q else None),
        pb=lambda: vlib.tlc(ctx, 'SvgPathGen', cfg_pb, workers=w, heap='6g', timeout=3000),
        ps=lambda: vlib.tlc(ctx, 'SvgPathGen', cfg_ps, workers=1, simulate='num=%d' % (100 if q else 1500), depth=125,
                            seed=ctx.seed, timeout=1800),
        pl=lambda: vlib.tlc(ctx, 'SvgPathGen', cfg_pl, workers=1, simulate='num=%d' % (30 if q else 400), depth=125,
                            seed=ctx.seed, timeout=1800),
        db=lambda: vlib.tlc(ctx, 'SvgDocGen', cfg_db, workers=min(4, w), heap='4g', timeout=3000),
        lx=lambda: vlib.tlc(ctx, 'SvgPathGen', cfg_lx, workers=2, heap='3g', timeout=3000),
        ls=lambda: vlib.tlc(ctx, 'SvgPathGen', cfg_ls, workers=1, simulate='num=%d' % (40 if q else 600), depth=65,
                            seed=ctx.seed, timeout=1800),
        pp=lambda: vlib.tlc(ctx, 'SvgPathGen', cfg_pp, workers=max(2, w // 2), heap='4g', timeout=3000),
        cs=lambda: vlib.tlc(ctx, 'SvgCallSeq', 'SvgCallSeq.cfg', workers=1, timeout=600),
        ds=lambda: vlib.tlc(ctx, 'SvgDocGen', cfg_ds, workers=1, simulate='num=%d' % (300 if q else 4000), depth=45,
                            seed=ctx.seed, timeout=1800),
    )
    with ThreadPoolExecutor(max_workers=13) as ex:
        fut = {}
        for k, f in jobs.items():
            fut[k] = ex.submit(f)
            vlib.time.sleep(0.3)        # (vlib.tlc numbers its scratch directories without a lock)
        res = {k: f.result() for k, f in fut.items()}
    for k in ('laws', 'laws2', 'design', 'design2', 'pb', 'pp', 'lx', 'db', 'cs'):
        r = res[k]
        if r is None:
            continue
        if r['invariant_violations'] or r['errors'] or not r['completed']:
            raise vlib.Infra('design-level model checking (%s) did not pass:\n%s' % (k, r['out'][-3000:]))
        ctx.add_mc(r)
    for k in ('ps', 'pl', 'ls', 'ds'):
        r = res[k]
        if r['errors'] or r['invariant_violations']:
            raise vlib.Infra('simulation (%s) failed: %s' % (k, r['out'][-1500:]))
    ctx.coverage['laws_states'] = res['laws']['distinct'] + (res['laws2']['distinct'] if res['laws2'] else 0)
    ctx.coverage['design_states'] = res['design']['distinct'] + (res['design2']['distinct'] if res['design2'] else 0)
    ctx.coverage['design_transitions'] = res['design']['generated'] + (res['design2']['generated'] if res['design2'] else 0)
    pex = tlc_json_lines(res['pb']['out'])
    ctx.coverage['path_generator_states'] = res['pb']['distinct']
    ctx.coverage['paths_enumerated'] = len(pex)
    psim = uniq([accepting_prefix(t) for t in tlc_json_lines(res['ps']['out'])])
    plarge = uniq([accepting_prefix(t) for t in tlc_json_lines(res['pl']['out'])])
    # one walk is printed once per successor candidate of its last step: keep one per 100-token prefix
    psim = list({json.dumps(t[:100]): t for t in psim}.values()) + list({json.dumps(t[:100]): t for t in plarge}.values())
    ctx.coverage['paths_simulated'] = len(psim)
    dex = tlc_json_lines(res['db']['out'])
    ctx.coverage['doc_generator_states'] = res['db']['distinct']
    ctx.coverage['docs_enumerated'] = len(dex)
    dsim = uniq(tlc_json_lines(res['ds']['out']))
    ctx.coverage['docs_simulated'] = len(dsim)
    plex = uniq(tlc_json_lines(res['lx']['out']))
    lsim = uniq([accepting_prefix(t) for t in tlc_json_lines(res['ls']['out'])])
    plex += list({json.dumps(t[:50]): t for t in lsim}.values())
    ctx.coverage['compact_lexeme_paths'] = len(plex)
    ppairs = uniq(tlc_json_lines(res['pp']['out']))
    ctx.coverage['curve_pair_paths_enumerated'] = len(ppairs)
    cseq = tlc_json_lines(res['cs']['out'])
    ctx.coverage['call_sequences'] = len(cseq)
    if not pex or not psim or not dex or not dsim or not cseq or not ppairs:
        raise vlib.Infra('a generator produced nothing')
    vlib.log('C05 generate: %.1fs (%s)' % (vlib.time.time() - t0, ', '.join('%s %.0fs' % (k, r['wall']) for k, r in res.items() if r)))
    return pex, psim, dex, dsim, cseq, ppairs, plex


def design_sensitivity(ctx):
    """Vacuity guards of the design model (thorough tier): with one of the OLD decisions switched back in
    (FixZ / FixDeg / FixZeroL = FALSE: the code before the fix commits; ForgetCp = FALSE: the control point
    of a curve that became a line is kept) the design is wrong and TLC must find the counterexample to
    Refines.  Never a verdict: a model in which the invariant cannot fail is an infrastructure problem."""
    from concurrent.futures import ThreadPoolExecutor
    names = ['noZ', 'noDeg', 'noZeroL', 'noForget']

    def one(nm):
        try:
            return vlib.tlc(ctx, 'SvgPathDesign', 'SvgPathDesign_%s.cfg' % nm, workers=2, heap='3g', timeout=1500)
        except vlib.Infra:
            return None
    with ThreadPoolExecutor(max_workers=4) as ex:
        futs = []
        for nm in names:
            futs.append(ex.submit(one, nm))
            vlib.time.sleep(0.3)
        rs = [f.result() for f in futs]
    out = {}
    for nm, r in zip(names, rs):
        if r is None:
            out[nm] = 'timeout'
        elif 'Refines' in r['invariant_violations']:
            out[nm] = 'counterexample found'
        elif r['completed']:
            raise vlib.Infra('design model SvgPathDesign_%s.cfg: wrong design but no counterexample (Refines is vacuous)' % nm)
        else:
            out[nm] = 'error'
    ctx.coverage['design_guard_sensitivity'] = out
    vlib.log('C05 design sensitivity:', out)


def repo_cases(ctx):
    """inputs of the repository's own tests, fuzz corpora and benchmark files"""
    paths, docs = [], []
    for row in vlib.test_inputs(ctx, 'svg'):
        s = row['strings'][0]
        if row['func'] in ('TestPathData', 'TestPathDataTruncated'):
            if not re.search(r'["<&]', s):
                paths.append(s)
        elif row['func'] in ('TestSVG', 'TestSVGStyle', 'TestSVGPrecision'):
            docs.append(('standalone', s))
        elif row['func'] == 'TestSVGInline':
            docs.append(('inline', s))
    d = os.path.join(vlib.REPO, 'tests/svg-pathdata/corpus')
    if os.path.isdir(d):
        for fn in sorted(os.listdir(d)):
            s = open(os.path.join(d, fn), 'rb').read().decode('latin1')
            if not re.search(r'["<&\x00-\x08\x0b\x0c\x0e-\x1f\x7f-\xff]', s):
                paths.append(s)
    files, seen = [], set()
    for d in ('tests/svg/corpus', '_benchmarks'):
        p = os.path.join(vlib.REPO, d)
        if os.path.isdir(p):
            for fn in sorted(os.listdir(p)):
                if fn.endswith('.svg'):
                    data = open(os.path.join(p, fn), 'rb').read()
                    if ctx.quick() and len(data) > 200000:
                        continue            # the large benchmark files are thorough-tier inputs
                    h = vlib.hashlib.sha1(data).hexdigest()
                    if h not in seen:
                        seen.add(h)
                        files.append(os.path.join(d, fn))
    return paths, docs, files


def make_cases(ctx):
    rnd = ctx.rnd
    q = ctx.quick()
    pex, psim, dex, dsim, cseq, ppairs, plex = generate(ctx)
    cases = []

    def add(c):
        c['id'] = len(cases)
        c.setdefault('session', 1)
        cases.append(c)

    # exhaustive paths: every enumerated token string in one seeded style (quick: a seeded share of
    # them), batched into documents of 20 paths (the minifier reuses one PathData per document)
    share = vlib.sample(pex, 6000, rnd) if q else pex
    rendered = [rendered_path(t, rnd) for t in share]
    if not q:
        rendered += [rendered_path(t, rnd, style=STYLES[3], dec=1) for t in pex[::3]]
    for t in psim:
        for _ in range(2 if q else 4):
            rendered.append(rendered_path(t, rnd))
    # compact family: shortest spellings, no separators (quick: a seeded share of the enumerated ones)
    for t in (vlib.sample(plex, 1500, rnd) if q else plex):
        rendered.append(rendered_path(t, rnd, style=LEX_STYLE))
    # curve pairs from forcing templates (exhaustive over {0,1}; quick: a seeded share)
    for t in (vlib.sample(ppairs, 4000, rnd) if q else ppairs):
        rendered.append(rendered_path(t, rnd))
    rnd.shuffle(rendered)
    for i in range(0, len(rendered), 20):
        mode = 'inline' if (i // 20) % 4 == 3 else 'standalone'
        add(dict(kind='path', mode=mode, gen=True, paths=[list(b) for b in rendered[i:i + 20]]))
    for b in vlib.sample(rendered, 150 if q else 3000, rnd):
        add(dict(kind='path', mode='standalone', gen=True, paths=[list(b)]))
    # documents
    ndoc = 0
    for t in (vlib.sample(dex, 1000, rnd) if q else dex):
        mode = 'inline' if ndoc % 3 == 2 else 'standalone'
        add(dict(kind='doc', mode=mode, css=False, gen=True, src=list(render_doc(t, rnd, mode, 3))))
        ndoc += 1
    for k, t in enumerate(dsim):
        for mode in ('standalone', 'inline'):
            # every third walk also with the CSS minifier registered (style attributes are rewritten)
            add(dict(kind='doc', mode=mode, css=(k % 3 == 0), gen=True, src=list(render_doc(t, rnd, mode, 1))))
    # repository inputs
    rp, rd, files = repo_cases(ctx)
    for s in rp:
        for mode in ('standalone', 'inline'):
            add(dict(kind='path', mode=mode, gen=False, paths=[list(s.encode('latin1'))], origin='repo-test'))
    for mode, s in rd:
        add(dict(kind='doc', mode=mode, css=False, gen=False, src=list(s.encode('utf-8')), origin='repo-test'))
    for f in files:
        add(dict(kind='doc', mode='standalone', css=False, gen=False, file=os.path.join(vlib.REPO, f), relfile=f,
                 origin='corpus'))
    ctx.coverage['repo_paths'] = len(rp)
    ctx.coverage['repo_docs'] = len(rd)
    ctx.coverage['corpus_files'] = len(files)
    # All of the above is session 1: ONE registry with ONE registered *svg.Minifier / *html.Minifier, the calls
    # in seeded order, so standalone and inline calls interleave on the same instances.
    rnd.shuffle(cases)
    for i, c in enumerate(cases):
        c['id'] = i
    # Call sequences enumerated by TLC (SvgCallSeq: every order of standalone/inline calls up to 4), each on a
    # fresh registry of its own: short histories, so a failure that depends on earlier calls has a short witness.
    nsess = 0
    for rep in range(2 if q else 12):
        for seq in cseq:
            nsess += 1
            for m in seq:
                mode = 'standalone' if m == 1 else 'inline'
                t = rnd.choice(dex) if rnd.random() < 0.7 else rnd.choice(dsim)
                c = dict(kind='doc', mode=mode, css=False, gen=True, src=list(render_doc(t, rnd, mode, 1)), session=100 + nsess)
                c['id'] = len(cases)
                cases.append(c)
    ctx.coverage['call_sequence_sessions'] = nsess
    return cases


# --------------------------------------------------------------------------------------------
def run_driver(ctx, exe, cases, tag):
    cin = ctx.path('run', tag + '-cases.ndjson')
    tout = ctx.path('run', tag + '-trace.ndjson')
    with open(cin, 'w') as f:
        for c in cases:
            f.write(json.dumps({k: v for k, v in c.items() if k not in ('origin', 'relfile', 'tag', 'clause', 'what', 'orig_id')},
                               separators=(',', ':')) + '\n')
    vlib.run([exe, cin, tout], timeout=3000)
    return [l.rstrip('\n') for l in open(tout) if l.strip()]


MACHINERY = 'machinery'
DRIFT = []          # trace lines on which the byte-level design model and the code disagree (this run)


def validate(ctx, lines):
    """TLC over the recorded lines; returns (accepted, {line_index: [clauses]}).  Lines whose input
    is outside the property's quantification (document not well-formed) are not sent."""
    idx, send = [], []
    skipped = 0
    for i, l in enumerate(lines):
        if '"kind":"doc"' in l[:40] and '"wfin":false' in l[:400]:
            skipped += 1
            continue
        idx.append(i)
        send.append(l)
    accepted, rejects = vlib.tlc_trace(ctx, 'C05Trace', 'C05Trace.cfg', send, heap='3g', timeout=3000, min_per_shard=150)
    why = {}
    drift = []
    for k, w in rejects:
        if w == 'drift':
            # design model SvgPathPrint predicted other output bytes: information, never a verdict
            drift.append(idx[k])
            continue
        why.setdefault(idx[k], []).append(w)
    DRIFT.extend(lines[i] for i in drift)
    # (tlc_trace counts a line as accepted when it has no REJECT at all)
    accepted += len([i for i in set(drift) if i not in why])
    for i, ws in why.items():
        for w in ws:
            if w.startswith(MACHINERY):
                e = json.loads(lines[i])
                raise vlib.Infra('machinery problem (%s) on line %d: %s' % (
                    w, i, bytes(e.get('in', []))[:200] if e['kind'] == 'path' else e.get('err')))
    return accepted, why, skipped


def line_text(e):
    if e['kind'] == 'path':
        return 'd=%r -> %r' % (bytes(e['in']).decode('latin1'), bytes(e['out']).decode('latin1') if e['ok'] else e['err'])
    return 'document (%s) %s' % (e['mode'], e.get('err') or '')


def ident_path(mode, d):
    return dict(kind='path', mode=mode, d=d)


def ident_doc(c, clause):
    if c.get('relfile'):
        return dict(kind='doc', mode=c['mode'], file=c['relfile'], clause=clause)
    d = dict(kind='doc', mode=c['mode'], src=bytes(c['src']).decode('utf-8', 'replace'), clause=clause)
    if c.get('css'):
        d['css'] = True
    return d


TINY = '<svg xmlns="http://www.w3.org/2000/svg" viewBox="0 0 1 1"><path d="M0 0L1 1"/></svg>'
PROBES = [['inline'], ['standalone', 'inline'], ['standalone'], ['inline', 'standalone']]


def histories_for(cases, c):
    """candidate call histories for a rejection that does not reproduce on a fresh registry: the calls that
    really preceded it (short TLC-enumerated sessions only), then minimal probes"""
    out = []
    if c.get('session', 0) >= 100:
        prev = [x for x in cases if x.get('session') == c['session'] and x['id'] < c['id']]
        if prev:
            out.append([dict(mode=x['mode'], src=x['src']) for x in prev])
    for p in PROBES:
        out.append([dict(mode=m, src=list(TINY.encode())) for m in p])
    return out


def hist_ident(h):
    return [[x['mode'], bytes(x['src']).decode('utf-8', 'replace')] for x in h]


def confirm(ctx, exe, cases, lines, why):
    """Every rejected line is re-run in a fresh process on a FRESH registry and re-validated; only what is
    rejected again is reported.  A rejected path of a multi-path document is first tried on its own; if it only
    fails after the other paths of its document, the witness is the document prefix.  What does not fail on a
    fresh registry is retried after a call history (its own short session, else minimal standalone/inline
    probes): the witness then names the history.  What still does not reproduce is exit 2."""
    # the shortest rejected inputs make the best witnesses; at most 40 lines are re-run and reported
    # (the pinned witnesses of known findings are always re-run and do not count against the 40)
    pinned_ids = set(c['id'] for c in cases if c.get('origin') == 'known')
    pin = [i for i in sorted(why) if json.loads(lines[i])['id'] in pinned_ids]
    order = pin + sorted((i for i in why if i not in set(pin)), key=lambda i: (len(lines[i]), i))[:40]
    ctx.coverage['rejections_rerun'] = len(order)

    def variants(i, history):
        e = json.loads(lines[i])
        c = cases[e['id']]
        out = []
        if e['kind'] == 'path':
            out.append(dict(kind='path', mode=e['mode'], gen=False, paths=[e['in']], what=('single', i)))
            if c['kind'] == 'path' and len(c['paths']) > 1 and history is None:
                out.append(dict(kind='path', mode=e['mode'], gen=False, paths=c['paths'][:e['sub'] + 1], what=('prefix', i)))
        else:
            out.append(dict(c, what=('doc', i)))
        if e['kind'] == 'path' and 'path-lost' in why.get(i, []) and c['kind'] == 'path':
            # the whole document failed (error, panic, output not readable): the witness is the document
            out.append(dict(c, what=('whole', i)))
        for x in out:
            x['session'] = 0
            x['history'] = history or []
        return out

    def rerun(redo, tag):
        for k, c in enumerate(redo):
            c.setdefault('orig_id', c.get('id'))
            c['id'] = k
        rl = run_driver(ctx, exe, redo, tag)
        _, why2, _ = validate(ctx, rl)
        return rl, why2

    reported = 0
    seen = set()

    def report(rl, why2, redo):
        nonlocal reported
        done = set()
        for j in sorted(why2):
            e = json.loads(rl[j])
            c = redo[e['id']]
            kind, i = c['what'][0], c['what'][1]
            clauses = why2[j]
            hist = c.get('history') or []
            if kind == 'whole':
                if i in done or ('whole', c['orig_id']) in seen:
                    continue
                seen.add(('whole', c['orig_id']))
                ident = dict(kind='path', mode=e['mode'], d=bytes(c['paths'][-1]).decode('latin1'),
                             after=[bytes(p).decode('latin1') for p in c['paths'][:-1]])
                ctx.report(ident, '%s: document of %d paths: %s [%s]' % (e['mode'], len(c['paths']), e['err'][:300], '/'.join(clauses)),
                           replay_obj=dict(line=dict(e, **{'in': [], 'out': []})))
                reported += 1
                continue
            if kind == 'single':
                done.add(i)
                ident = ident_path(e['mode'], bytes(e['in']).decode('latin1'))
            elif kind == 'prefix':
                if i in done or e['sub'] != len(c['paths']) - 1:
                    continue
                ident = dict(kind='path', mode=e['mode'], d=bytes(e['in']).decode('latin1'),
                             after=[bytes(p).decode('latin1') for p in c['paths'][:-1]])
            else:
                if e['kind'] == 'path':
                    continue            # the d attributes of a document are confirmed as single paths
                for cl in clauses:
                    ident = ident_doc(c, cl)
                    if hist:
                        ident['history'] = hist_ident(hist)
                    if (i, cl) in seen:
                        continue
                    seen.add((i, cl))
                    ctx.report(ident, '%s document%s: clause %s fails; input %s' % (
                        e['mode'], (' after calls ' + '+'.join(h['mode'] for h in hist)) if hist else '', cl,
                        (c.get('relfile') or bytes(c['src']).decode('utf-8', 'replace'))[:300]),
                        replay_obj=dict(raw=e.get('raw'), err=e.get('err')))
                    reported += 1
                continue
            if hist:
                ident['history'] = hist_ident(hist)
            if (i, 'p') in seen:
                continue
            seen.add((i, 'p'))
            ctx.report(ident, '%s%s: %s [%s]' % (e['mode'], (' after calls ' + '+'.join(h['mode'] for h in hist)) if hist else '',
                                                 line_text(e), '/'.join(clauses)), replay_obj=dict(line=e))
            reported += 1

    # stage 1: alone on a fresh registry
    redo = [v for i in order for v in variants(i, None)]
    rl, why2 = rerun(redo, 'confirm')
    reproduced = set(redo[json.loads(rl[j])['id']]['what'][1] for j in why2)
    report(rl, why2, redo)
    lost = [i for i in order if i not in reproduced]
    # stage 2: after a call history
    if lost:
        redo2 = []
        for i in lost:
            c = cases[json.loads(lines[i])['id']]
            for hk, h in enumerate(histories_for(cases, c)):
                for v in variants(i, h):
                    v['what'] = v['what'] + (hk,)
                    redo2.append(v)
        rl2, why3 = rerun(redo2, 'confirm-history')
        # the first (smallest index) history that reproduces is the witness
        best = {}
        for j in why3:
            c = redo2[json.loads(rl2[j])['id']]
            i, hk = c['what'][1], c['what'][2]
            if i not in best or hk < best[i]:
                best[i] = hk
        keep = {j: w for j, w in why3.items()
                if best.get(redo2[json.loads(rl2[j])['id']]['what'][1]) == redo2[json.loads(rl2[j])['id']]['what'][2]}
        report(rl2, keep, redo2)
        ctx.coverage['rejections_needing_call_history'] = len(best)
        still = [i for i in lost if i not in best]
        if still:
            raise vlib.Infra('%d rejected lines were rejected neither alone nor after a call history, e.g. %s' % (
                len(still), line_text(json.loads(lines[still[0]]))[:600]))
    return reported


def run(ctx):
    exe = vlib.build_harness(ctx, 'c05')
    cases = make_cases(ctx)
    pinned = vlib.known_cases(PID)
    for p in pinned:
        c = dict(gen=False, css=bool(p.get('css')), origin='known', session=0,
                 history=[dict(mode=h[0], src=list(h[1].encode('utf-8'))) for h in p.get('history', [])])
        if p['kind'] == 'path':
            c.update(kind='path', mode=p['mode'], paths=[list(p['d'].encode('latin1'))] if 'after' not in p else
                     [list(x.encode('latin1')) for x in p['after']] + [list(p['d'].encode('latin1'))])
        elif p.get('file'):
            c.update(kind='doc', mode=p['mode'], file=os.path.join(vlib.REPO, p['file']), relfile=p['file'])
        else:
            c.update(kind='doc', mode=p['mode'], src=list(p['src'].encode('utf-8')))
        c['id'] = len(cases)
        cases.append(c)
    os.environ['C05_RAW'] = '1'
    t0 = vlib.time.time()
    lines = run_driver(ctx, exe, cases, 'main')
    # 'fixpoint' family: the minifier's OWN output is path data in the most compact spelling it knows; fed back
    # (second pass) it must again be accepted and denote the same segments.  The shortener rewrites the attribute
    # in place, so writing even one byte more than it has read overruns the rest of the path exactly here.
    outs, seen_o = [], set()
    for l in lines:
        if l.startswith('{"kind":"path"') and '"ok":true' in l[:120]:
            m = re.search(r'"out":(\[[^\]]*\])', l)
            if m and m.group(1) not in seen_o and len(m.group(1)) > 2:
                seen_o.add(m.group(1))
                outs.append(m.group(1))
    outs = vlib.sample(outs, 1500 if ctx.quick() else 200000, ctx.rnd)
    fix = []
    for i in range(0, len(outs), 20):
        fix.append(dict(id=len(cases) + len(fix), kind='path', mode='inline' if (i // 20) % 4 == 3 else 'standalone', gen=False,
                        session=2, origin='fixpoint', paths=[json.loads(o) for o in outs[i:i + 20]]))
    cases.extend(fix)
    lines += run_driver(ctx, exe, fix, 'fixpoint')
    ctx.coverage['fixpoint_paths'] = len(outs)
    vlib.log('C05 driver: %d cases, %d lines, %.1fs' % (len(cases), len(lines), vlib.time.time() - t0))
    t0 = vlib.time.time()
    del DRIFT[:]
    accepted, why, skipped = validate(ctx, lines)
    # (the pinned witnesses of open known findings are expected to differ from the model of the fixed decisions)
    kn = set(c['id'] for c in cases if c.get('origin') == 'known')
    drift_known = [l for l in DRIFT if json.loads(l)['id'] in kn]
    drift_main = [l for l in DRIFT if json.loads(l)['id'] not in kn]
    vlib.log('C05 trace validation: %.1fs, %d rejected lines' % (vlib.time.time() - t0, len(why)))
    # statistics measured on the recorded lines
    nontrivial, samples = set(), []
    npath = ndoc = ngeo = 0
    for i, l in enumerate(lines):
        if l.startswith('{"kind":"path"'):
            npath += 1
            m = re.search(r'"geo":(true|false),"in":(\[[^\]]*\]),"out":(\[[^\]]*\])', l)
            if m:
                if m.group(1) == 'true':
                    ngeo += 1
                if m.group(2) != m.group(3):
                    nontrivial.add(m.group(2))
                    if len(samples) < 5 and i % 997 == 0:
                        samples.append(dict(kind='path', **{'in': bytes(json.loads(m.group(2))).decode('latin1'),
                                                            'out': bytes(json.loads(m.group(3))).decode('latin1')}))
        else:
            ndoc += 1
            e = json.loads(l)
            if e['wfin'] and e['ein'] != e['eout']:
                nontrivial.add(('doc', e['id']))
                if len([s for s in samples if s['kind'] == 'doc']) < 2 and e.get('raw') and cases[e['id']].get('src'):
                    samples.append(dict(kind='doc', mode=e['mode'], **{'in': bytes(cases[e['id']]['src']).decode('utf-8', 'replace')[:400],
                                                                       'out': e['raw'][:400]}))
    if not ctx.quick() and not INCLUDE:
        design_sensitivity(ctx)
    if why:
        ctx.coverage['rejections'] = len(why)
        ctx.coverage['rejections_reproduced'] = confirm(ctx, exe, cases, lines, why)
    if not samples:
        e = json.loads(lines[0])
        samples.append(dict(kind=e['kind'], **{'in': bytes(e.get('in', [])).decode('latin1'), 'out': bytes(e.get('out', [])).decode('latin1')}))
    nints = sum(1 for l in lines if l.startswith('{"kind":"path"') and '"ints":true' in l[:200])
    ctx.coverage['drift_compared_paths'] = nints
    ctx.coverage['drift'] = len(drift_main)
    ctx.coverage['drift_on_known_witnesses'] = len(drift_known)
    if drift_main:
        ctx.coverage['drift_samples'] = [dict(**{'in': bytes(json.loads(l)['in']).decode('latin1'),
                                                 'out': bytes(json.loads(l)['out']).decode('latin1')}) for l in drift_main[:5]]
        vlib.log('C05 DRIFT: design model SvgPathPrint predicts other bytes on %d lines (information only)' % len(drift_main))
    ctx.coverage.update(dict(
        traces_validated_against_impl=accepted,
        evaluations=len(lines),
        path_lines=npath, doc_lines=ndoc, path_lines_with_geometry=ngeo,
        doc_lines_not_wellformed_input=skipped,
        distinct_nontrivial=len(nontrivial),
        rule='a case is one `d` attribute (input bytes, mode) or one document (source, mode); non-trivial = the minifier '
             'changed the attribute bytes / the projected event sequence. Paths: every token string of the generator '
             'automaton SvgPathGen up to the exhaustive bound (quick: a seeded share) and TLC -simulate walks to 120 '
             'tokens, rendered in seeded lexical styles (separators, sign/dot adjacency, exponents, compact arc flags, '
             'implicit repetition); curve commands also from forcing templates (first control point = mirror image of the '
             'previous one, control points on end points) in the walks and, exhaustively over {0,1}, for M + two groups; '
             'plus the inputs of pathdata_test.go / svg_test.go, the fuzz corpora and _benchmarks. All calls of a run go, in '
             'seeded order, through ONE registry with one registered *svg.Minifier / *html.Minifier (standalone and inline '
             'interleaved); the compact family (shortest spellings 1e3 2e3 5e-4 .5 -.5 1.5 1e2 without any optional separator) '
             'and the fixpoint family (the outputs of this run fed back as inputs); every standalone/inline call order up to 4 (TLC, SvgCallSeq) also on fresh registries. '
             'Geometry is evaluated when the input fits 32-bit fixed point (else grammar only). Not generated while the '
             'known findings are open: ' + '; '.join('%s = %s' % (k, v) for k, v in EXCLUSIONS.items() if excluded(k)),
        samples=samples,
        exclusions=[k for k in EXCLUSIONS if excluded(k)],
    ))
    ctx.assumptions += [
        'encoding/xml (Strict) and golang.org/x/net/html are the readers of input and output documents',
        'TLC evaluates spec/SvgPath.tla (grammar, interpreter, PathEq) and spec/SvgDoc.tla; 32-bit fixed point at the '
        'scale of the most precise input number, paths outside that range are checked for grammar only',
        'precision 0; the CSS minifier is registered for a third of the generated documents: style attributes are compared '
        'declaration by declaration (name, value as length/number/colour), style sheets in style elements are left to C04/C11',
    ]


def replay(ctx, obj):
    exe = vlib.build_harness(ctx, 'c05')
    c = obj['case']
    case = dict(id=0, gen=False, css=bool(c.get('css')), mode=c['mode'], session=0,
                history=[dict(mode=h[0], src=list(h[1].encode('utf-8'))) for h in c.get('history', [])])
    if c['kind'] == 'path':
        ps = [x for x in c.get('after', [])] + [c['d']]
        case.update(kind='path', paths=[list(p.encode('latin1')) for p in ps])
    elif c.get('file'):
        case.update(kind='doc', file=os.path.join(vlib.REPO, c['file']))
    else:
        case.update(kind='doc', src=list(c['src'].encode('utf-8')))
    os.environ['C05_RAW'] = '1'
    lines = run_driver(ctx, exe, [case], 'replay')
    _, why, _ = validate(ctx, lines)
    bad = False
    for i, l in enumerate(lines):
        e = json.loads(l)
        print(line_text(e), '=>', '/'.join(why.get(i, ['ok'])))
        if e['kind'] == 'doc' and e.get('raw'):
            print('output:', e['raw'])
        if i in why:
            if c['kind'] == 'path' and e['kind'] == 'path' and e['sub'] == len(case['paths']) - 1:
                bad = True
            if c['kind'] == 'doc' and e['kind'] == 'doc' and c.get('clause') in why[i]:
                bad = True
    if bad:
        print('VIOLATION property=C05 replay=given')
        return 1
    return 0


META = dict(
    category='model_checking',
    text='TLC model-checks the rewrite laws of SVG path data against an explicit interpreter (SvgPathLaws/SvgPath), '
         'enumerates path data and documents from generator automata (exhaustive to a token bound, random walks beyond) and '
         'evaluates, on every recorded execution of the real svg.Minify (standalone and inline through html.Minify), the '
         'TLA+ relation: output path data is accepted by a strict byte-level recogniser of the SVG path grammar and denotes '
         'the same absolute segment sequence (exact fixed point at the precision of the input; only zero-length lines and '
         'exactly degenerate curves simplified); element tree, no-namespace / xml: / xlink: attributes, lengths, numbers, '
         'viewBox, colours and rendered text are kept, only comments, metadata, foreign-namespace items and default root '
         'attributes disappear.',
    design_ref='DESIGN.md section 4, C05',
    note='Trusted: TLC, spec/SvgPath.tla + SvgDoc.tla as the meaning of path data and of "kept"; encoding/xml and x/net/html as '
         'readers. Style sheets inside style elements are not interpreted. Exhaustive only within the token bound; '
         'sampled beyond. Constructs of the known findings are excluded from generation (listed in the evidence rule).',
    technique='TLA+ interpreter + generator automata, TLC trace validation of geometry and infoset relations',
)
