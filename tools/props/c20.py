"""C20  Killing the CLI at any instant never loses the user's only copy.

MC : CliFs - design model of minify(t) for 2 parallel workers over the POSIX semantics of CliFsSem
     (in-place, separate output, directory, bundle, bundle onto a source, sync, alias, hard link,
     overwrite; open/write/minify failures; crash anywhere): NeverLost, ReadOnlyUntouched,
     OthersUntouched, DoneClean, BakRemovedOnlyAfterComplete.  Two extra configurations are EXPECTED to
     fail (stale <name>.bak): the counterexamples are the known findings, replayed on the real binary.
RUN: the REAL binary runs under `strace -f`; the system-call log is the trace.  (code->spec) every
     prefix of every log is a crash point: C20Trace (TLC) evaluates NeverLost/ReadOnly in every
     intermediate state of the model file system.  (spec->code) the run is repeated with
     `strace -e inject=<call>:signal=SIGKILL:when=k` for every boundary of the reference log (and with
     injected errors for write/open/rename/unlink); the tree left on disk is snapshotted; TLC evaluates
     the property on the REAL disk content and compares the model state with the disk.
"""
import json
import os
import platform
import re
import shutil
import subprocess
from concurrent.futures import ThreadPoolExecutor

import vlib
from props import c19

PID = 'C20'

SYSCALLS = ('open,openat,creat,rename,renameat,renameat2,unlink,unlinkat,rmdir,mkdir,mkdirat,symlink,symlinkat,link,linkat,'
            'read,pread64,readv,write,pwrite64,writev,pwritev,close,copy_file_range,sendfile,splice,ftruncate,truncate,'
            'fallocate,chmod,fchmod,fchmodat,chown,fchown,lchown,fchownat,utimensat,utimes,dup,dup2,dup3')
SYSCALLS_GENERIC = ('openat,renameat,renameat2,unlinkat,mkdirat,symlinkat,linkat,read,pread64,readv,write,pwrite64,writev,pwritev,'
                    'close,copy_file_range,sendfile,splice,ftruncate,truncate,fallocate,fchmod,fchmodat,fchown,fchownat,utimensat,dup,dup3')


def syscall_set():
    return SYSCALLS if platform.machine() in ('x86_64', 'i686') else SYSCALLS_GENERIC


# ---- strace log -> events -------------------------------------------------------------------------
HEX = re.compile(r'\\x([0-9a-f]{2})')


def unhex(tok):
    """strace -xx string token -> bytes (None if it is not a plain complete string)"""
    tok = tok.strip()
    if not (tok.startswith('"') and tok.endswith('"')):
        return None
    body = tok[1:-1]
    out = bytearray()
    i = 0
    while i < len(body):
        if body[i] == '\\' and body[i + 1] == 'x':
            out.append(int(body[i + 2:i + 4], 16))
            i += 4
        else:
            raise vlib.Infra('unexpected character in strace string: %r' % body[:40])
    return bytes(out)


def split_args(s):
    args, depth, cur, inq = [], 0, [], False
    for ch in s:
        if ch == '"':
            inq = not inq
        if not inq:
            if ch in '[{(':
                depth += 1
            elif ch in ']})':
                depth -= 1
            elif ch == ',' and depth == 0:
                args.append(''.join(cur).strip())
                cur = []
                continue
        cur.append(ch)
    if cur:
        args.append(''.join(cur).strip())
    return args


CALL = re.compile(r'^(\w+)\((.*)\)\s*=\s*(-?\d+|\?)(.*)$')


def parse_log(path, kills=()):
    """-> (calls, pending, killed)  calls: list of dict(pid,name,args,ret,ord,injected) in completion order.
    kills: (name, per-thread ordinal) pairs at which SIGKILL is injected.  From the moment such a call is entered the
    whole process is dying: what strace prints afterwards about calls of other threads (results read from the registers
    of dying threads) is not reliable, so every call that completes after that point has an unknown result."""
    pending, calls, killed = {}, [], False
    ords = {}
    dying = [False]

    def entry(pid, text):
        name = text.split('(', 1)[0]
        ords[(pid, name)] = ords.get((pid, name), 0) + 1
        if (name, ords[(pid, name)]) in kills:
            dying[0] = True
        return ords[(pid, name)]

    entry_ord = {}
    for raw in open(path, 'r', errors='replace'):
        raw = raw.rstrip('\n')
        m = re.match(r'^(\d+)\s+(.*)$', raw)
        if not m:
            continue
        pid, rest = int(m.group(1)), m.group(2)
        if rest.startswith('+++'):
            if 'killed' in rest:
                killed = True
            continue
        if rest.startswith('---'):
            continue
        if rest.endswith('<unfinished ...>'):
            text = rest[:-len('<unfinished ...>')].rstrip()
            entry_ord[pid] = entry(pid, text)
            pending[pid] = text
            continue
        m2 = re.match(r'^<\.\.\. (\S+) resumed>(.*)$', rest)
        if m2:
            if pid not in pending:
                raise vlib.Infra('strace: resumed without unfinished: ' + raw[:200])
            rest = pending.pop(pid) + ' ' + m2.group(2)
            o = entry_ord.pop(pid)
        else:
            o = entry(pid, rest)
        if rest.startswith('???('):
            continue            # a thread that was killed before strace could decode its call
        mc = CALL.match(rest)
        if not mc:
            raise vlib.Infra('strace: cannot parse line: ' + raw[:300])
        name, args, ret, tail = mc.group(1), split_args(mc.group(2)), mc.group(3), mc.group(4)
        if dying[0] or re.match(r'^\s*\(errno \d+\)', tail):
            ret = '?'           # registers of a dying thread: the call was in progress when the process was killed
        calls.append(dict(pid=pid, name=name, args=args, ret=None if ret == '?' else int(ret), ord=o,
                          injected='INJECTED' in tail))
    pend = [dict(pid=p, name=t.split('(', 1)[0], args=split_args(t.split('(', 1)[1]) if '(' in t else [], ord=entry_ord.get(p, 0))
            for p, t in pending.items()]
    return calls, pend, killed


class Conv:
    """system calls -> file-system events of spec/C20Trace.tla (only calls that touch the scenario tree)"""
    MUT = {'rename', 'renameat', 'renameat2', 'unlink', 'unlinkat', 'rmdir', 'mkdir', 'mkdirat', 'symlink', 'symlinkat',
           'link', 'linkat', 'write', 'pwrite64', 'writev', 'pwritev', 'copy_file_range', 'sendfile', 'splice', 'ftruncate',
           'truncate', 'fallocate', 'open', 'openat', 'creat'}

    def __init__(self, root):
        self.root = os.path.realpath(root).encode()
        self.fds = set()
        self.skip_close = {}     # fd -> number of close lines that belong to an older generation of that number

    def rel(self, p):
        """bytes path -> path relative to the scenario root, or None when outside"""
        if p is None:
            return None
        if p.startswith(b'/'):
            if p == self.root:
                return b'.'
            if p.startswith(self.root + b'/'):
                return p[len(self.root) + 1:]
            return None
        return p

    def at(self, dirfd, p):
        p = unhex(p)
        if p is None:
            raise vlib.Infra('strace: truncated or non-string path')
        if dirfd.strip() != 'AT_FDCWD' and not p.startswith(b'/'):
            raise vlib.Infra('unmodelled: path relative to a directory descriptor')
        return self.rel(p)

    def relevant(self, c):
        """does the call concern the tree (by path or by descriptor)?  used for enumerating boundaries"""
        try:
            return self.conv(dict(c, ret=0 if c['ret'] is None or c['ret'] < 0 else c['ret']), dry=True) is not None
        except vlib.Infra:
            return True

    def conv(self, c, dry=False):
        n, a, ret = c['name'], c['args'], c['ret']
        if ret is None or ret < 0:
            return None
        L = lambda b: list(b)
        fds = set(self.fds) if dry else self.fds
        if n in ('openat', 'open', 'creat'):
            if n == 'openat':
                p, fl = self.at(a[0], a[1]), a[2]
            elif n == 'open':
                p, fl = self.rel(unhex(a[0])), a[1]
            else:
                p, fl = self.rel(unhex(a[0])), 'O_WRONLY|O_CREAT|O_TRUNC'
            if p is None:
                if ret in fds and not dry:
                    # the kernel reuses a number only after it was closed: the close of another thread has
                    # happened although its completion line comes later in the log
                    fds.discard(ret)
                    self.skip_close[ret] = self.skip_close.get(ret, 0) + 1
                    return dict(ev='close', fd=ret)
                return None
            ev = dict(ev='open', a=L(p), fd=ret, wr=('O_WRONLY' in fl or 'O_RDWR' in fl), creat='O_CREAT' in fl,
                      trunc='O_TRUNC' in fl)
            if ret in fds and not dry:
                self.skip_close[ret] = self.skip_close.get(ret, 0) + 1
                return [dict(ev='close', fd=ret), ev]
            fds.add(ret)
            return ev
        if n in ('renameat', 'renameat2', 'rename'):
            if n == 'rename':
                s, d = self.rel(unhex(a[0])), self.rel(unhex(a[1]))
            else:
                s, d = self.at(a[0], a[1]), self.at(a[2], a[3])
            if s is None and d is None:
                return None
            if s is None or d is None:
                raise vlib.Infra('unmodelled: rename across the scenario boundary')
            return dict(ev='rename', a=L(s), b=L(d))
        if n in ('unlinkat', 'unlink', 'rmdir'):
            p = self.at(a[0], a[1]) if n == 'unlinkat' else self.rel(unhex(a[0]))
            if p is None:
                return None
            if n == 'rmdir' or (n == 'unlinkat' and 'AT_REMOVEDIR' in a[2]):
                return dict(ev='rmdir', a=L(p))
            return dict(ev='unlink', a=L(p))
        if n in ('mkdirat', 'mkdir'):
            p = self.at(a[0], a[1]) if n == 'mkdirat' else self.rel(unhex(a[0]))
            return None if p is None else dict(ev='mkdir', a=L(p))
        if n in ('symlinkat', 'symlink'):
            text = unhex(a[0])
            p = self.at(a[1], a[2]) if n == 'symlinkat' else self.rel(unhex(a[1]))
            return None if p is None else dict(ev='symlink', a=L(p), b=L(text))
        if n in ('linkat', 'link'):
            s_, d_ = (self.at(a[0], a[1]), self.at(a[2], a[3])) if n == 'linkat' else (self.rel(unhex(a[0])), self.rel(unhex(a[1])))
            if s_ is None and d_ is None:
                return None
            if s_ is None or d_ is None:
                raise vlib.Infra('unmodelled: link across the scenario boundary')
            return dict(ev='link', a=L(s_), b=L(d_))
        if n == 'truncate':
            p = self.rel(unhex(a[0]))
            return None if p is None else dict(ev='trunc', a=L(p), n=int(a[1]))
        if n == 'ftruncate':
            return dict(ev='ftrunc', fd=int(a[0]), n=int(a[1])) if int(a[0]) in fds else None
        if n == 'pwrite64':
            fd = int(a[0])
            if fd not in fds:
                return None
            data = unhex(a[1])
            if data is None:
                raise vlib.Infra('strace: truncated pwrite buffer')
            return dict(ev='pwrite', fd=fd, data=L(data[:ret]), n=int(a[3]))
        if n in ('fchmodat', 'chmod', 'fchownat', 'chown', 'lchown', 'utimensat', 'utimes'):
            if n in ('fchmodat', 'fchownat', 'utimensat'):
                if a[1].strip() == 'NULL':
                    return None
                p = self.at(a[0], a[1])
            else:
                p = self.rel(unhex(a[0]))
            return None if p is None else dict(ev='meta', a=L(p))
        if n in ('fchmod', 'fchown'):
            return dict(ev='meta', a=[]) if int(a[0]) in fds else None
        if n == 'close':
            fd = int(a[0])
            if not dry and self.skip_close.get(fd, 0) > 0:
                self.skip_close[fd] -= 1
                return None
            if fd not in fds:
                return None
            fds.discard(fd)
            return dict(ev='close', fd=fd)
        if n == 'read':
            fd = int(a[0])
            return dict(ev='read', fd=fd, n=ret) if fd in fds else None
        if n == 'write':
            fd = int(a[0])
            if fd not in fds:
                return None
            data = unhex(a[1])
            if data is None:
                raise vlib.Infra('strace: truncated write buffer')
            return dict(ev='write', fd=fd, data=L(data[:ret]))
        if n == 'copy_file_range':
            fi, fo = int(a[0]), int(a[2])
            if fi not in fds and fo not in fds:
                return None
            if fi not in fds or fo not in fds or a[1].strip() != 'NULL' or a[3].strip() != 'NULL':
                raise vlib.Infra('unmodelled: copy_file_range form')
            return dict(ev='copy', fd=fi, fd2=fo, n=ret)
        if n == 'sendfile':
            fo, fi = int(a[0]), int(a[1])
            if fi not in fds and fo not in fds:
                return None
            if fi not in fds or fo not in fds or a[2].strip() != 'NULL':
                raise vlib.Infra('unmodelled: sendfile form')
            return dict(ev='copy', fd=fi, fd2=fo, n=ret)
        if n in ('pread64', 'readv'):
            if int(a[0]) in fds:
                raise vlib.Infra('unmodelled: %s on a tree descriptor' % n)
            return None
        if n in ('writev', 'pwritev', 'splice', 'fallocate', 'dup', 'dup2', 'dup3'):
            nums = [int(x) for x in a[:3] if re.match(r'^\d+$', x.strip())]
            if any(x in fds for x in nums[:2]):
                raise vlib.Infra('unmodelled: %s on a tree descriptor' % n)
            return None
        return None


# ---- running -------------------------------------------------------------------------------------
def materialise(root, tree):
    os.makedirs(root, exist_ok=True)
    for e in tree:
        if e['k'] == 'd':
            os.makedirs(os.path.join(root, c19.b2s(e['p'])), exist_ok=True)
    for e in tree:
        p = os.path.join(root, c19.b2s(e['p']))
        if e['k'] == 'f':
            os.makedirs(os.path.dirname(p), exist_ok=True)
            with open(p, 'wb') as f:
                f.write(bytes(e['c']))
    for e in tree:
        p = os.path.join(root, c19.b2s(e['p']))
        if e['k'] == 'l':
            os.symlink(c19.b2s(e['t']), p)
        elif e['k'] == 'h':
            os.link(os.path.join(root, c19.b2s(e['t'])), p)


def snapshot(root):
    out = []
    for d, dirs, files in os.walk(root):
        for n in sorted(dirs + files):
            p = os.path.join(d, n)
            rel = os.path.relpath(p, root).encode('latin1', 'surrogateescape')
            if os.path.islink(p):
                out.append(dict(p=list(rel), k='l', c=[], t=list(os.readlink(p).encode('latin1', 'surrogateescape'))))
            elif os.path.isdir(p):
                out.append(dict(p=list(rel), k='d', c=[], t=[]))
            else:
                out.append(dict(p=list(rel), k='f', c=list(open(p, 'rb').read()), t=[]))
    out.sort(key=lambda e: bytes(e['p']))
    return out


def lib_obs(ctx, exe, root, sc):
    """library results for the planned minifications, inputs read from the materialised tree"""
    reqs = []
    for i, r in enumerate(sc['libreq']):
        data = b''
        for j, s in enumerate(r['srcs']):
            if j:
                data += bytes(r['sep'])
            data += bytes(sc['stdin']) if not s else open(os.path.join(root, c19.b2s(s)), 'rb').read()
        reqs.append(dict(id=i, type=r['type'], **{'in': list(data)}))
    if not reqs:
        return []
    fin, fout = os.path.join(root + '.libreq'), os.path.join(root + '.libres')
    vlib.write_ndjson(fin, reqs)
    vlib.run([exe, 'lib', fin, fout], timeout=120)
    res = vlib.read_ndjson(fout)
    os.remove(fin)
    os.remove(fout)
    return [dict(type=r['type'], srcs=r['srcs'], sep=r['sep'], ok=o['ok'], out=o['out'], **{'in': q['in']})
            for r, q, o in zip(sc['libreq'], reqs, res)]


class Runner:
    def __init__(self, ctx, exe, cli):
        self.ctx, self.exe, self.cli = ctx, exe, cli
        import itertools
        import threading
        self.counter = itertools.count(1)
        self.lock = threading.Lock()
        self.libcache = {}

    def run(self, sc, inject=(), tag=''):
        """one run of the real binary under strace -> dict(events, calls, killed, pend, final, rc)"""
        root = self.ctx.path('c20', 'r%d-%d' % (os.getpid(), next(self.counter)), 'x')
        root = os.path.dirname(root)
        shutil.rmtree(root, ignore_errors=True)
        materialise(root, sc['tree'])
        key = id(sc)
        with self.lock:
            if key not in self.libcache:
                self.libcache[key] = lib_obs(self.ctx, self.exe, root, sc)
        log = root + '.strace'
        cmd = ['strace', '-f', '-q', '-xx', '-s', '8000000', '-o', log, '-e', 'trace=' + syscall_set()]
        for i in inject:
            cmd += ['-e', 'inject=' + i]
        cmd += [self.cli] + sc['argv']
        try:
            r = subprocess.run(cmd, cwd=root, input=bytes(sc['stdin']), capture_output=True, timeout=120)
        except subprocess.TimeoutExpired:
            raise vlib.Infra('strace run timed out: %s' % sc['argv'])
        if not os.path.exists(log):
            raise vlib.Infra('strace produced no log: %s' % r.stderr[-500:])
        kills = set()
        for i in inject:
            m = re.match(r'^(\w+):signal=SIGKILL:when=(\d+)$', i)
            if m:
                kills.add((m.group(1), int(m.group(2))))
        calls, pend, killed = parse_log(log, kills)
        conv = Conv(root)
        events = []
        for c in calls:
            e = conv.conv(c)
            for x in (e if isinstance(e, list) else [e] if e is not None else []):
                x['pid'] = c['pid']
                events.append(x)
        # boundaries of this run: per-thread ordinals of the calls that concern the tree (for kill/fault enumeration)
        conv2 = Conv(root)
        marks = []
        for c in calls:
            rel = conv2.relevant(c)
            conv2.conv(c)
            if rel:
                marks.append((c['name'], c['ord'], c['args']))
        final = snapshot(root)
        # calls without a result: the one the kill was injected at has NOT been executed (killed at entry); a call another
        # thread was inside at that moment may or may not have taken effect -> the snapshot comparison is fuzzy
        fuzzy = any(p['name'] in Conv.MUT for p in pend) or \
            any(c['ret'] is None and c['name'] in Conv.MUT and (c['name'], c['ord']) not in kills for c in calls)
        rawlog = open(log, errors='replace').read()
        os.remove(log)
        if not os.environ.get('VERIF_KEEP'):
            shutil.rmtree(root, ignore_errors=True)
        return dict(events=events, marks=marks, killed=killed, fuzzy=fuzzy, final=final, rc=r.returncode,
                    lib=self.libcache[key], stderr=r.stderr[-300:].decode('latin1'), rawlog=rawlog)


def _plain(self, sc, n):
    """n untraced runs of the real binary; returns the distinct final trees as [(final, how often, exit status)]"""
    root0 = os.path.dirname(self.ctx.path('c20', 'p%d-%d' % (os.getpid(), next(self.counter)), 'x'))
    materialise(root0, sc['tree'])
    with self.lock:
        if id(sc) not in self.libcache:
            self.libcache[id(sc)] = lib_obs(self.ctx, self.exe, root0, sc)
    shutil.rmtree(root0, ignore_errors=True)

    def one(k):
        root = '%s-%d' % (root0, k)
        materialise(root, sc['tree'])
        try:
            r = subprocess.run([self.cli] + sc['argv'], cwd=root, input=bytes(sc['stdin']), capture_output=True, timeout=60)
        except subprocess.TimeoutExpired:
            raise vlib.Infra('plain run timed out: %s' % sc['argv'])
        final = snapshot(root)
        shutil.rmtree(root, ignore_errors=True)
        return final, r.returncode

    with ThreadPoolExecutor(max_workers=4) as ex:
        res = list(ex.map(one, range(n)))
    seen = {}
    for final, rc in res:
        key = json.dumps(final, sort_keys=True)
        if key in seen:
            seen[key][1] += 1
        else:
            seen[key] = [final, 1, rc]
    return [tuple(v) for v in seen.values()]


Runner.plain = _plain


def trace_of(run_id, sc, res):
    """events of one run as trace lines"""
    scj = dict(tree=sc['tree'], inv=sc['inv'], stdin=sc['stdin'])
    lines = [dict(ev='init', run=run_id, sc=scj, lib=res['lib'])]
    for e in res['events']:
        lines.append(dict(e, run=run_id))
    lines.append(dict(ev='snap', run=run_id, final=res['final'], fuzzy=bool(res['fuzzy'])))
    return lines


def validate(ctx, runs, tag):
    """runs: list of (run_id, lines).  Contiguous runs are packed into shards; returns {run_id: [reasons]}"""
    if not runs:
        return {}, 0
    shards = max(1, min(vlib.JOBS, sum(len(l) for _, l in runs) // 1500 + 1))
    packs = [[] for _ in range(shards)]
    sizes = [0] * shards
    for rid, lines in sorted(runs, key=lambda x: -len(x[1])):
        k = sizes.index(min(sizes))
        packs[k].append((rid, lines))
        sizes[k] += len(lines)
    packs = [p for p in packs if p]

    def one(k):
        flat, owner = [], []
        for rid, lines in packs[k]:
            for l in lines:
                flat.append(l)
                owner.append(rid)
        p = ctx.path('tv20', '%s-%d.ndjson' % (tag, k))
        vlib.write_ndjson(p, flat)
        r = vlib.tlc(ctx, 'C20Trace', 'C20Trace.cfg', workers=1, heap='3g', timeout=2400, env={'TRACE': p})
        bad = [e for e in r['errors'] if 'REJECT' not in e]
        if r['invariant_violations'] or bad or not r['completed'] or r['distinct'] != len(flat) + 1:
            raise vlib.Infra('C20 trace validation failed (shard %d):\n%s' % (k, r['out'][-3000:]))
        rej = {}
        for (ln, why) in r['rejects']:
            ln = max(1, min(ln, len(flat)))
            rej.setdefault(owner[ln - 1], set()).add(why)
        return rej, len(flat)

    with ThreadPoolExecutor(max_workers=len(packs)) as ex:
        parts = list(ex.map(one, range(len(packs))))
    rej, total = {}, 0
    for r, n in parts:
        total += n
        for k, v in r.items():
            rej.setdefault(k, set()).update(v)
    for rid, whys in rej.items():
        if any('ON DISK' in w for w in whys):
            # what was found on the real disk is a verdict by itself, whatever the model thinks
            rej[rid] = set(w for w in whys if 'ON DISK' in w)
            continue
        for w in whys:
            if w.startswith('MODEL') or w.startswith('BINDING'):
                lines = dict(runs)[rid]
                brief = [dict((k, (c19.b2s(v) if isinstance(v, list) and k in ('a', 'b') else v)) for k, v in l.items()
                              if k not in ('sc', 'lib', 'data', 'final')) for l in lines]
                snap = [(c19.b2s(e['p']), e['k'], len(e['c'])) for e in lines[-1]['final']]
                tail = [x[:230] for x in RUN_LOG.get(rid, '').splitlines() if 'SIGURG' not in x and '\\x2f\\x73\\x79\\x73' not in x
                        and '\\x2f\\x70\\x72\\x6f\\x63' not in x][-70:]
                raise vlib.Infra('run %s: %s\n  describe: %s\n  events: %s\n  disk: %s\n  strace tail:\n%s' % (
                    rid, w, describe_run(rid), brief, snap, '\n'.join(tail)))
    return {k: sorted(v) for k, v in rej.items()}, total


RUN_META = {}
RUN_LOG = {}


def describe_run(rid):
    return RUN_META.get(rid, '')


# ---- scenarios -------------------------------------------------------------------------------------
def scenarios(ctx):
    q = ctx.quick()
    T, inv = c19.tree, c19.inv
    big = ''.join('var v%d = %d ;\n' % (i, i) for i in range(40))          # > one 512-byte read
    huge = ''.join('var w%d = %d ;\n' % (i, i) for i in range(400))        # several reads, buffer growth
    js, bad = 'var a = 1 ;\n', 'var a = 10000000000 ;\nvar = 3 ;'
    S = []

    def add(name, files, seq, **kw):
        S.append(dict(name=name, seq=seq, sc=dict(tree=T(files), inv=inv(**kw))))

    # seq=True: one task or -v: the calls are issued by one goroutine, every boundary is enumerated
    add('inplace-small', {'a.js': js}, True, inputs=['a.js'], output='a.js')
    add('inplace-empty', {'a.js': ''}, True, inputs=['a.js'], output='a.js')
    add('inplace-big', {'a.js': big}, True, inputs=['a.js'], output='a.js')
    add('inplace-failing', {'a.js': bad}, True, inputs=['a.js'], output='a.js')
    # inputs that fail AFTER the minifier has already rewritten earlier bytes of its buffer (tag names lower-cased, numbers
    # shortened): for a failing file the complete new output IS the original bytes (C19: "the destination receives the
    # original bytes"), so the end state and every crash point are judged against them
    add('inplace-html-latefail', {'i.html': c19.HTML_BAD[2]}, True, inputs=['i.html'], output='i.html')
    add('inplace-json-latefail', {'j.json': c19.JSON_BAD[2]}, True, inputs=['j.json'], output='j.json')
    add('dir-inplace-latefail-v', {'w/i.html': c19.HTML_BAD[2], 'w/j.json': c19.JSON_BAD[2], 'w/k.html': c19.HTML_BAD[1], 'w/ok.js': js},
        True, inputs=['w/'], output='w/', r=True, v=True)
    add('bundle-onto-source-latefail', {'a.json': c19.JSON_BAD[2], 'b.json': '[ 1.0 ]'}, True, inputs=['a.json', 'b.json'], output='b.json', b=True)
    add('inplace-hardlinked', {'a.js': js, 'keep.js': ('h', 'a.js')}, True, inputs=['a.js'], output='a.js')
    add('separate', {'a.js': js}, True, inputs=['a.js'], output='out.js')
    add('separate-overwrite', {'a.js': js, 'out.js': 'OLD OLD OLD OLD OLD OLD\n'}, True, inputs=['a.js'], output='out.js')
    add('into-dir', {'s/a.js': js}, True, inputs=['s/a.js'], output='out/deep/')
    add('bundle', {'a.js': 'var a = 1', 'b.js': big, 'c.js': ''}, True, inputs=['a.js', 'b.js', 'c.js'], output='all.js', b=True)
    add('bundle-onto-source', {'a.js': 'var a = 1', 'b.js': 'var b = 2'}, True, inputs=['a.js', 'b.js'], output='b.js', b=True)
    d = {'d/a.js': js, 'd/b.css': 'a { color : red ; }\n', 'd/e/c.json': '{ "a" : 1e+10 }', 'd/e/bad.js': bad, 'd/n.txt': 'n  n\n',
         'd/z.js': big}
    add('dir-inplace-v', d, True, inputs=['d/'], output='d/', r=True, v=True)
    add('dir-inplace', d, False, inputs=['d/'], output='d/', r=True)
    add('dir-mirror', d, False, inputs=['d'], output='out/', r=True)
    add('sync', d, False, inputs=['d/'], output='out/', r=True, s=True)
    add('sync-inplace-v', d, True, inputs=['d/'], output='d/', r=True, s=True, v=True)
    add('sync-v', {'d/a.js': js, 'd/n.txt': 'n  n\n'}, True, inputs=['d/'], output='out/', r=True, s=True, v=True)
    # the destination is the source under another name (C19 objects to the backup left behind; nothing may be lost)
    add('alias-hardlink', {'a.js': js, 'g.js': ('h', 'a.js')}, True, inputs=['a.js'], output='g.js')
    add('alias-linktarget', {'a.js': js, 'l.js': ('l', 'a.js')}, True, inputs=['l.js'], output='a.js')
    add('alias-dirlink', {'d/c.js': js, 'd/k.css': 'a { top : 0 }', 'dl': ('l', 'd')}, True, inputs=['d/'], output='dl/', r=True, v=True)
    if not q:
        add('inplace-huge', {'a.js': huge}, True, inputs=['a.js'], output='a.js')
        add('inplace-css', {'s.css': 'a { color : red ; }\n'}, True, inputs=['s.css'], output='s.css')
        add('inplace-html-failing', {'i.html': c19.HTML_BAD[1]}, True, inputs=['i.html'], output='i.html')
        add('inplace-json-failing', {'j.json': c19.JSON_BAD[0]}, True, inputs=['j.json'], output='j.json')
        add('whole-tree-inplace', dict(d, **{'x.js': js, '.h.js': js}), False, inputs=['.'], output='.', r=True, a=True)
        add('dir-dot', d, False, inputs=['d'], output='.', r=True)
        add('stdin-to-file', {}, True, stdin=True, type='js', output='o.js')
        add('bundle-dir-onto-source', {'s/a.css': 'a{top:0}', 's/b.css': 'b { top : 0 }'}, True, inputs=['s'], output='s/b.css', b=True, r=True)
        many = {'m/f%02d.js' % i: 'var f%d = %d ;\n' % (i, i) for i in range(24)}
        add('many-inplace', many, False, inputs=['m/'], output='m/', r=True)
    for s in S:
        if s['sc']['inv']['stdin']:
            s['sc']['stdin'] = c19.s2b(js)
    if not q:
        # the parallel shapes are scheduled differently every time: run each of them three more times
        S += [dict(s, name=s['name'] + '#%d' % k, sc=dict(s['sc'])) for s in list(S) if not s['seq'] for k in (2, 3, 4)]
    return S


INJECT_ERR = {'write': 'ENOSPC', 'openat': 'EACCES', 'renameat': 'EACCES', 'unlinkat': 'EACCES', 'close': 'EIO', 'read': 'EIO',
              'mkdirat': 'EACCES'}


def design_counterexample(ctx, cfg, inv):
    r = vlib.tlc(ctx, 'CliFs', cfg, workers=1, timeout=600)
    if inv not in r['invariant_violations']:
        raise vlib.Infra('design model: expected counterexample to %s not found (%s)' % (inv, cfg))
    return len(re.findall(r'^State \d+:', r['out'], re.M))


APALACHE_OBLIGATIONS = [
    # (name, arguments, expected outcome)
    ('Init => IndInv', ['--init=Init', '--inv=IndInv', '--length=0'], 'NoError'),
    ('IndInv /\\ Next => IndInv\'', ['--init=IndInit', '--inv=IndInv', '--length=1'], 'NoError'),
    ('IndInv => NeverLost', ['--init=IndInit', '--inv=NeverLost', '--length=0'], 'NoError'),
    ('guard: IndInit reaches the write loop (must be violated)', ['--init=IndInit', '--inv=NotWriting', '--length=0'], 'Error'),
    ('guard: IndInit reaches the restore step (must be violated)', ['--init=IndInit', '--inv=NotRestoring', '--length=0'], 'Error'),
    ('guard: backup removed while writing breaks the step (must be violated)',
     ['--init=IndInit', '--next=WrongNext', '--inv=IndInv', '--length=1'], 'Error'),
    ('guard: truncating in place without backup breaks the step (must be violated)',
     ['--init=IndInit', '--next=WrongNext2', '--inv=IndInv', '--length=1'], 'Error'),
]


def unbounded_argument(ctx):
    """Optional stage (thorough): Apalache proves NeverLost for the per-file protocol with uninterpreted contents and an
    arbitrary number of write chunks by an inductive invariant (spec/CliFsTyped.tla).  Recorded in the evidence only:
    a missing tool, a timeout or any other outcome is a note, never a verdict and never an exit status."""
    import time
    res = dict(tool='apalache-mc', spec='spec/CliFsTyped.tla', obligations=[], proved=False)
    exe = shutil.which('apalache-mc')
    if exe is None:
        res['note'] = 'apalache-mc not on PATH: stage skipped'
        return res
    d = os.path.dirname(ctx.path('apalache', 'x'))
    shutil.copy(os.path.join(vlib.SPEC, 'CliFsTyped.tla'), d)
    ok = True
    for name, args, expect in APALACHE_OBLIGATIONS:
        t0 = time.time()
        try:
            r = subprocess.run(['timeout', '600', exe, 'check', '--cinit=ConstInit'] + args + ['--out-dir=' + os.path.join(d, 'out'), 'CliFsTyped.tla'],
                               cwd=d, capture_output=True, text=True, timeout=660)
            m = re.search(r'The outcome is: (\w+)', r.stdout + r.stderr)
            outcome = m.group(1) if m else ('timeout' if r.returncode == 124 else 'no outcome (exit %d)' % r.returncode)
        except subprocess.TimeoutExpired:
            outcome = 'timeout'
        except OSError as e:
            outcome = 'not runnable: %s' % e
        res['obligations'].append(dict(obligation=name, expected=expect, outcome=outcome, wall_s=round(time.time() - t0, 1)))
        ok = ok and outcome == expect
    res['proved'] = ok
    if not ok:
        res['note'] = 'not all obligations had the expected outcome: the unbounded argument is NOT claimed by this run'
        vlib.log('C20 unbounded argument (Apalache) incomplete:', json.dumps(res['obligations']))
    return res


def ident(sc, inject):
    return dict(c19.ident(sc), inject=list(inject))


def run(ctx):
    exe = vlib.build_harness(ctx, 'c19')
    cli = vlib.build_cli(ctx)
    quick = ctx.quick()
    vlib.tlc_mc(ctx, 'CliFs', 'CliFs_quick.cfg' if quick else 'CliFs_thorough.cfg', workers=min(8, vlib.JOBS), heap='4g', timeout=3000)
    if not quick:
        # three parallel workers over three tasks (fault-free, invariants only)
        vlib.tlc_mc(ctx, 'CliFs', 'CliFs_w3.cfg', workers=min(8, vlib.JOBS), heap='4g', timeout=3000)
    if not quick:
        ctx.coverage['unbounded_argument'] = unbounded_argument(ctx)
        if ctx.coverage['unbounded_argument'].get('proved'):
            ctx.assumptions.append('additional argument (not deciding): Apalache 0.58 proves IndInv inductive and IndInv => NeverLost for the '
                                   'single-file protocol with uninterpreted contents and any number of write chunks (spec/CliFsTyped.tla)')
    c19.tick(ctx, 'design model checked')
    # wrong designs must be found wrong (vacuity guards), and the design-level witness of the open finding
    ctx.coverage['design_counterexamples'] = dict(
        old_protocol_stale_bak_clobbered_OthersUntouched=design_counterexample(ctx, 'CliFs_bak.cfg', 'OthersUntouched'),
        old_protocol_bak_is_an_input_NeverLost=design_counterexample(ctx, 'CliFs_bakinput.cfg', 'NeverLost'),
        old_protocol_alias_leaves_backup_NoLeftoverBackup=design_counterexample(ctx, 'CliFs_oldalias.cfg', 'NoLeftoverBackup'),
        bdbfbd6_protocol_two_workers_race_for_bak_name_NeverLost=design_counterexample(ctx, 'CliFs_bakinput_fixed.cfg', 'NeverLost'))
    # scenarios -> plans (TLC) -> complete scenarios
    S = scenarios(ctx)
    pinned = vlib.known_cases(PID)
    for c in pinned:
        S.append(dict(name='pinned', seq=True, pinned=True, repeat=int(c.get('repeat', 0)),
                      sc=dict(tree=c19.tree_from_ident(c['tree']), inv=c['inv'], stdin=c19.s2b(c.get('stdin', '')))))
    reqs = [dict(sc=s['sc']) for s in S]
    for i, r in enumerate(reqs):
        r['id'] = i
    plans = c19.plan_render(ctx, reqs, 'c20')
    for i, s in enumerate(S):
        p = plans[i]
        if p['unspec'] or p['hazard']:
            raise vlib.Infra('scenario %s is not determined by the documentation: %s %s' % (s['name'], p['unspec'], p['hazard']))
        if p['known'] and not s.get('pinned'):
            raise vlib.Infra('scenario %s contains a known-defect construct' % s['name'])
        c19.complete(s['sc'], p, ctx.rnd)
    c19.tick(ctx, 'plans rendered')
    runner = Runner(ctx, exe, cli)
    # witnesses of a race between the tool's own workers: not traced (strace changes the timing and the order of two
    # threads' calls on one file is ambiguous in its log) but simply run many times; every distinct tree left on disk is
    # judged by the same predicates (NeverLost / ReadOnly ON DISK)
    R = [s for s in S if s.get('repeat')]
    S = [s for s in S if not s.get('repeat')]
    rep_runs = []
    for ri, s in enumerate(R):
        outcomes = runner.plain(s['sc'], s['repeat'])
        for oi, (final, cnt, rc) in enumerate(outcomes):
            rid = 'rep-%d-%d' % (ri, oi)
            rep_runs.append((rid, [dict(ev='init', run=rid, sc=dict(tree=s['sc']['tree'], inv=s['sc']['inv'], stdin=s['sc']['stdin']),
                                        lib=runner.libcache[id(s['sc'])]),
                                   dict(ev='snap', run=rid, final=final, fuzzy=True)], s, cnt, rc))
    jobs = []                    # (scenario index, inject tuple, kind)
    # reference runs first (they define the boundaries)
    with ThreadPoolExecutor(max_workers=min(8, vlib.JOBS)) as ex:
        refs = list(ex.map(lambda s: runner.run(s['sc']), S))
    for i, (s, ref) in enumerate(zip(S, refs)):
        if ref['rc'] not in (0, 1):
            raise vlib.Infra('reference run of %s ended with status %d: %s' % (s['name'], ref['rc'], ref['stderr']))
        if s.get('pinned'):
            continue
        seen = set()
        marks = ref['marks']
        if quick and len(marks) > 30:
            # long sequential shapes: a seeded sample of the boundaries in the quick tier (all of them in thorough)
            keep = set(ctx.rnd.sample(range(len(marks)), 30))
            marks = [m for k, m in enumerate(marks) if k in keep or m[0] in ('write', 'copy_file_range')]   # output writes always
        for name, o, args in marks:
            if (name, o) in seen:
                continue
            seen.add((name, o))
            if s['seq'] or o <= (3 if quick else 8):
                jobs.append((i, ('%s:signal=SIGKILL:when=%d' % (name, o),), 'kill'))
            # a failing WRITE of the output (the close after it succeeds) in every in-place shape, also in quick: the decision
            # "remove the backup or move it back" hangs on that error
            if name in INJECT_ERR and (s['seq'] or o <= 2) and (not quick or name == 'write' or
                                                               s['name'] in ('inplace-small', 'inplace-failing', 'bundle-onto-source', 'sync-v')):
                jobs.append((i, ('%s:error=%s:when=%d' % (name, INJECT_ERR[name], o),), 'fault'))
    if not quick:
        # a failing write followed by a kill at every later boundary (restore path), for the in-place shapes
        for i, s in enumerate(S):
            if not s['seq'] or s.get('pinned') or not s['name'].startswith(('inplace', 'bundle-onto')):
                continue
            wr = [(n, o) for n, o, a in refs[i]['marks'] if n == 'write']
            if not wr:
                continue
            f = 'write:error=ENOSPC:when=%d' % wr[0][1]
            fr = runner.run(s['sc'], (f,))
            for name, o, args in fr['marks']:
                if name != 'write':
                    jobs.append((i, (f, '%s:signal=SIGKILL:when=%d' % (name, o)), 'fault+kill'))
    with ThreadPoolExecutor(max_workers=min(8, vlib.JOBS)) as ex:
        results = list(ex.map(lambda j: runner.run(S[j[0]]['sc'], j[1]), jobs))
    c19.tick(ctx, '%d injected runs done' % len(jobs))
    runs, meta = [], {}
    for i, (s, ref) in enumerate(zip(S, refs)):
        rid = 'ref-%d' % i
        runs.append((rid, trace_of(rid, s['sc'], ref)))
        meta[rid] = (i, (), 'reference')
    kills_done = 0
    kill_points = set()
    for k, (j, res) in enumerate(zip(jobs, results)):
        rid = 'inj-%d' % k
        runs.append((rid, trace_of(rid, S[j[0]]['sc'], res)))
        meta[rid] = j
        RUN_META[rid] = '%s %s inject=%s killed=%s fuzzy=%s rc=%s' % (S[j[0]]['name'], S[j[0]]['sc']['argv'], j[1], res['killed'], res['fuzzy'], res['rc'])
        RUN_LOG[rid] = res['rawlog']
        if res['killed']:
            kills_done += 1
            kill_points.add((j[0], len(res['events'])))
    rejected, nlines = validate(ctx, runs + [(rid, lines) for rid, lines, _, _, _ in rep_runs], 'main')
    for rid, lines, s, cnt, rc in rep_runs:
        if rid in rejected:
            whys = rejected.pop(rid)
            sc = s['sc']
            ctx.report(ident(sc, ('repeat',)), '%s  => in %d of %d plain runs: status %d, on disk {%s}  REJECTED: %s' % (
                c19.describe(sc), cnt, s['repeat'], rc,
                ', '.join('%s(%d bytes)' % (c19.b2s(e['p']), len(e['c'])) for e in lines[-1]['final'] if e['k'] != 'd'), '; '.join(whys)),
                replay_obj=dict(scenario=sc, inject=[], repeat=s['repeat']))
    c19.tick(ctx, 'validated %d states of %d runs, %d rejected' % (nlines, len(runs), len(rejected)))
    # every rejected run is repeated in a fresh process (up to 3 times: parallel workers are scheduled differently each time)
    reproduced = 0
    todo = sorted(rejected)[:60]
    for attempt in range(3):
        if not todo:
            break
        with ThreadPoolExecutor(max_workers=min(8, vlib.JOBS)) as ex:
            again = list(ex.map(lambda rid: runner.run(S[meta[rid][0]]['sc'], meta[rid][1]), todo))
        rj, _ = validate(ctx, [(rid, trace_of(rid, S[meta[rid][0]]['sc'], res)) for rid, res in zip(todo, again)], 'again%d' % attempt)
        left = []
        for rid, res in zip(todo, again):
            if rid not in rj:
                left.append(rid)
                continue
            reproduced += 1
            i, inject, kind = meta[rid]
            sc = S[i]['sc']
            desc = '%s%s  => status %d, on disk {%s}  REJECTED: %s' % (
                c19.describe(sc), (' under strace inject=' + ','.join(inject)) if inject else '', res['rc'],
                ', '.join(c19.b2s(e['p']) for e in res['final'] if e['k'] != 'd'), '; '.join(rj[rid]))
            ctx.report(ident(sc, inject), desc, replay_obj=dict(scenario=sc, inject=list(inject)))
        todo = left
    if todo:
        rid = todo[0]
        raise vlib.Infra('%d rejected run(s) did not reproduce, e.g. %s (%s %s): %s' % (
            len(todo), rid, S[meta[rid][0]]['name'], meta[rid][1], rejected[rid]))
    nstates = sum(len(l) for _, l in runs)
    shapes = sorted(set(s['name'] for s in S))
    ctx.coverage.update(dict(
        traces_validated_against_impl=len(runs) - len(rejected),
        evaluations=nlines,
        distinct_nontrivial=len(kill_points) + len(refs),
        rule='a case is one run of the real binary under strace (scenario, injection); every event of its log is one state in which '
             'TLC evaluates NeverLost/ReadOnly (evaluations = states). non-trivial = distinct (scenario, number of file-system events '
             'before the kill) pairs actually killed, plus the reference runs. No construct is excluded; the witnesses of the fixed findings '
             '(known/C20.ndjson, one of them a race run 400 times untraced) are ordinary regression scenarios.',
        samples=['%s: minify %s' % (s['name'], ' '.join(s['sc']['argv'])) for s in S[:6]],
        invocation_shapes=shapes, reference_runs=len(refs), injected_runs=len(jobs), runs_killed=kills_done,
        distinct_kill_points=len(kill_points), fault_runs=sum(1 for j in jobs if j[2] != 'kill'),
        crash_points_evaluated_in_model=nstates, rejections=len(rejected), rejections_reproduced=reproduced,
    ))
    ctx.assumptions += [
        'a process killed with SIGKILL at system-call entry has not executed that call (strace inject, Linux ptrace semantics); calls in progress in other threads at that moment make the snapshot comparison fuzzy (property still evaluated on the disk)',
        'strace -f -xx decodes the calls faithfully; the effect of a call is placed at its completion line',
        'write(2) of the output happens in one call for these sizes (Go issues one write per io.Copy chunk); torn single writes are covered only by the design model (chunks)',
        'power-loss semantics (unsynced data) are outside the property: it speaks about killing the process',
    ]


def replay(ctx, obj):
    exe = vlib.build_harness(ctx, 'c19')
    cli = vlib.build_cli(ctx)
    d = obj.get('detail') or {}
    sc = d.get('scenario')
    if sc is None:
        raise vlib.Infra('replay file has no scenario')
    inject = tuple(d.get('inject') or ())
    runner = Runner(ctx, exe, cli)
    bad = 0
    for attempt in range(3):
        res = runner.run(sc, inject)
        rj, _ = validate(ctx, [('replay', trace_of('replay', sc, res))], 'replay%d' % attempt)
        print('minify %s%s => status %d, on disk {%s}' % (' '.join(sc['argv']), ' inject=' + ','.join(inject) if inject else '', res['rc'],
                                                         ', '.join(c19.b2s(e['p']) for e in res['final'] if e['k'] != 'd')))
        if rj:
            for w in rj['replay']:
                print('REJECTED:', w)
            bad = 1
            break
    if bad:
        print('VIOLATION property=%s replay=%s' % (PID, 'given'))
        return 1
    print('accepted')
    return 0


META = dict(
    engine='tlc+strace-runner+go-harness',
    category='model_checking',
    text='Design model CliFs (TLA+): minify(t) of cmd/minify/main.go as one action per system call for 2 parallel workers over a '
         'POSIX file-system semantics (names, inodes, descriptors), with open/write/minify failures and a crash enabled everywhere; '
         'TLC checks NeverLost, ReadOnlyUntouched, OthersUntouched, DoneClean and that the backup disappears only after the '
         'destination is complete. The real binary is traced with strace -f; TLC replays every log through the same file-system '
         'semantics and evaluates NeverLost/ReadOnly in EVERY intermediate state (each system-call boundary is a crash point), and '
         'the run is really killed (SIGKILL injected at each boundary) or made to fail (ENOSPC/EACCES/EIO injected) and the tree left '
         'on disk is judged by the same predicates and compared with the model state.',
    design_ref='DESIGN.md section 4, C20 and Appendix A.3',
    note='Thorough tier, optional and not deciding: Apalache proves an inductive invariant implying NeverLost for the single-file protocol with uninterpreted contents and any number of write chunks (spec/CliFsTyped.tla; outcome recorded under coverage.unbounded_argument). Trusted: TLC, strace decoding, Linux ptrace kill-at-entry semantics. Parallel directory runs are killed at per-thread '
         'ordinals (strace counts per thread), sequential shapes at every boundary. Single torn writes and power loss are out of reach.',
    technique='TLA+ design model with crash action + trace validation of strace logs + SIGKILL/errno injection at every syscall boundary',
)
