"""C03  HTML minification preserves the parsed document.

MC : HtmlMachine (design model of the token loop of html/html.go, checked against the abstract
     relation HtmlDom.HtmlEq with a model tree builder) - exhaustive over conforming token
     sequences; its behaviours are also the generated documents.
RUN: harness/cmd/c03 calls the real (*html.Minifier).Minify (only text/html registered) and
     parses input and output with golang.org/x/net/html (independent tokenizer + tree builder).
TV : C03Trace evaluates HtmlDom.HtmlEq clause by clause on every recorded call.
"""
import json
import os

import vlib

PID = 'C03'
OPT_NAMES = ['KeepComments', 'KeepSpecialComments', 'KeepDefaultAttrVals', 'KeepDocumentTags', 'KeepEndTags',
             'KeepQuotes', 'KeepWhitespace']
# 8 option sets covering every pair of option values (orthogonal array OA(8, 2^7, strength 2))
PAIRWISE8 = [0b0000000, 0b1010101, 0b0110011, 0b1100110, 0b0001111, 0b1011010, 0b0111100, 0b1101001]
TMPL = {0: None, 1: ('{{', '}}'), 2: ('<%', '%>'), 3: ('<?', '?>')}


def b2l(s):
    return list(s if isinstance(s, bytes) else s.encode('utf-8'))


def ident(c):
    """identity of a witness: exact input bytes + configuration"""
    return dict(src=bytes(c['src']).decode('latin1'), opts=c['opts'], frag=bool(c['frag']), tmpl=c['tmpl'])


def mk(src, opts=0, frag=False, tmpl=0, origin=''):
    return dict(src=b2l(src), opts=opts, frag=frag, tmpl=tmpl, origin=origin)


def run_cases(ctx, exe, cases, tag):
    cin = ctx.path('run', tag + '-cases.ndjson')
    tout = ctx.path('run', tag + '-trace.ndjson')
    sout = ctx.path('run', tag + '-side.ndjson')
    with open(cin, 'w') as f:
        for i, c in enumerate(cases):
            f.write(json.dumps(dict(id=i, src=c['src'], opts=c['opts'], frag=c['frag'], tmpl=c['tmpl']),
                               separators=(',', ':')) + '\n')
    vlib.run([exe, cin, tout, sout], timeout=1800)
    lines = [l.rstrip('\n') for l in open(tout)]
    side = [json.loads(l)['min'] for l in open(sout)]
    if len(lines) != len(cases):
        raise vlib.Infra('harness wrote %d lines for %d cases' % (len(lines), len(cases)))
    return lines, side


def validate(ctx, exe, cases, tag):
    lines, side = run_cases(ctx, exe, cases, tag)
    accepted, rejects = vlib.tlc_trace(ctx, 'C03Trace', 'C03Trace.cfg', lines, min_per_shard=100)
    return lines, side, accepted, rejects


def repo_test_cases(ctx):
    """inputs of the repository's own table tests, under the configuration of the test function"""
    rows = vlib.test_inputs(ctx, 'html')
    conf = {'TestHTML': (0, 0), 'TestHTMLCSSJS': (0, 0), 'TestHTMLKeepEndTags': (16, 0),
            'TestHTMLKeepSpecialComments': (2, 0), 'TestHTMLKeepWhitespace': (64, 0), 'TestHTMLKeepQuotes': (32, 0),
            'TestHTMLURL': (0, 0), 'TestHTMLGoTemplates': (0, 1), 'TestHTMLPHPTemplates': (0, 3),
            'TestSpecialTagClosing': (0, 0)}
    out = []
    for r in rows:
        if r['file'] != 'html_test.go' or r['func'] not in conf:
            continue
        opts, tmpl = conf[r['func']]
        out.append(mk(r['strings'][0], opts, False, tmpl, origin='test:' + r['func']))
    return out


def run(ctx):
    exe = vlib.build_harness(ctx, 'c03')
    cases = repo_test_cases(ctx)
    lines, side, accepted, rejects = validate(ctx, exe, cases, 'main')
    for i, why in rejects:
        c = cases[i]
        print('REJ', why, repr(bytes(c['src']).decode('utf-8', 'replace')), '->', repr(side[i]), c['opts'], c['tmpl'])
    print(len(cases), accepted)
    raise vlib.Infra('dev')


def replay(ctx, obj):
    return 0


META = dict(category='model_checking', text='', design_ref='DESIGN.md section 4, C03', note='', technique='')
