"""C03  HTML minification preserves the parsed document.


MC : HtmlMachine = generator of conforming token sequences (content models of the standard)
     + transcription of the token loop of html/html.go + tree construction of the standard for
     the vocabulary.  TLC checks exhaustively within the bound that a conforming explicit document
     builds to itself and that the design refines the abstract relation HtmlDom.HtmlEq for every
     option set (D => A); every complete state is emitted as a document (GEN) together with the
     design's predicted output.
     HtmlAttr = generator of attribute values over the alphabet of quotes, = < > ` space & ; and
     character references + transcription of reference replacement and quote selection, checked
     against the standard's attribute-value decoding.
RUN: harness/cmd/c03 calls the real (*html.Minifier).Minify (only text/html registered) and
     parses input and output with golang.org/x/net/html (independent tokenizer + tree builder).
TV : C03Trace evaluates HtmlDom.HtmlEq clause by clause on every recorded call.
Verdicts come only from TV of real executions; a difference between the design's prediction and
the real output is reported as DRIFT in the evidence.
"""
import json
import os
import re

import time
from concurrent.futures import ThreadPoolExecutor

import vlib

PID = 'C03'
OPT_NAMES = ['KeepComments', 'KeepSpecialComments', 'KeepDefaultAttrVals', 'KeepDocumentTags', 'KeepEndTags',
             'KeepQuotes', 'KeepWhitespace']
# 8 option sets covering every pair of option values (orthogonal array OA(8, 2^7, strength 2))
PAIRWISE8 = [0b0000000, 0b1010101, 0b0110011, 0b1100110, 0b0001111, 0b1011010, 0b0111100, 0b1101001]
KDOC, KET, KWS = 8, 16, 64


def b2l(s):
    return list(s if isinstance(s, (bytes, bytearray)) else s.encode('utf-8'))


def ident(c):
    """identity of a witness: exact input bytes + configuration"""
    return dict(src=bytes(c['src']).decode('latin1'), opts=c['opts'], frag=bool(c['frag']), tmpl=c['tmpl'])


# X10 (known finding): with KeepComments / KeepSpecialComments a kept comment that directly follows a tag the minifier drops ends up
# under another parent (13.1.2.4 forbids those omissions next to a comment).  Such documents are not run
# with KeepComments; the pinned witnesses keep the defect visible.  (rt/rp left the list with c6de520: their end tag
# is kept before a comment.)
X10_RE = re.compile(rb'(</(li|dd|dt|td|th|tr|tbody|thead|tfoot|option|rb|rtc|colgroup|optgroup|head|body|html)\s*>'
                    rb'|<(html|head|body)(\s[^>]*)?>)\s*<!--', re.I)


def mk(src, opts=0, frag=False, tmpl=0, origin='', pred=None):
    src = src if isinstance(src, (bytes, bytearray)) else src.encode('utf-8')
    if opts & 3 and origin != 'known' and X10_RE.search(src):
        opts &= ~3
    return dict(src=b2l(src), opts=opts, frag=frag, tmpl=tmpl, origin=origin, pred=pred)


def show(c):
    return bytes(c['src']).decode('utf-8', 'replace')


def optstr(o):
    return '+'.join(n for i, n in enumerate(OPT_NAMES) if o >> i & 1) or 'defaults'


# ---------------------------------------------------------------------------------------------
# Inputs of the repository's own tests that are outside the property's domain ("all conforming HTML
# documents and fragments"): listed by exact text with the reason; they are not run by this check (totality on
# arbitrary input is property C10); nothing is decided about them here.
NONCONFORMING_TEST_INPUTS = {
    '<span method=GET></span>': 'method is not an attribute of span (3.2.6)',
    '<span selected="selected"></span>': 'selected is not an attribute of span',
    '<span Selected="selected"></span>': 'selected is not an attribute of span',
    '<select>text<option>foo</option>text<optgroup>text<option>bar</option>text</optgroup>text</select>':
        'text directly inside select/optgroup violates their content model (4.10.7, 4.10.9)',
    '<iframe><html> <p> x </p> </html></iframe>': 'iframe content model is "nothing" (4.8.5)',
    '<meta e t n content=ful><a b': 'unterminated start tag (eof-in-tag parse error)',
    '<select><option>Default</option>{{range $i, $lang := .Languages}}<option>{{$lang}}</option>{{end}}</select>':
        'template action between options: to the HTML parser this is text inside select',
}


# test inputs that are witnesses of known findings (pinned in known/C03.ndjson, not crossed with option sets)
KNOWN_TEST_INPUTS = {
    '<script></script>': 'X7',
    '<style amp-boilerplate>body{-webkit-animation:-amp-start 8s    steps(1,end) 0s 1 normal both;}</style>': 'X9',
}


# witnesses of findings that were fixed in /repo (known/C03.txt "fixed:" lines): ordinary regression cases now
REGRESSION_DOCS = [
    ('<p>a <embed src=x> b</p>', 0, True, 0),
    ('<p>x <audio controls src=x>a </audio> y</p>', 0, True, 0),
    ('<table><colgroup class=x></colgroup><template></template><tbody><tr><td>a</td></tr></tbody></table>', 0, True, 0),
    ('<table><colgroup><col></colgroup><colgroup><col></colgroup><tr><td>a</td></tr></table>', 0, False, 0),
    ('<table><colgroup></colgroup><tr><td>a</td></tr></table>', 0, False, 0),
    ('<!doctype html><html><head><title>t</title></head><body><script>x</script><p>a</p></body></html>', 0, False, 0),
    ('<select><optgroup label=a><option>x</option></optgroup><script>x</script></select>', 0, True, 0),
    ('<ul><li>a</li><!--c--><script>x</script><li>b</li></ul>', 0, True, 0),
    ('a<template><table></table></template> b', 0, True, 0),
    ('a<template> </template> b', 0, True, 0),
    ('b<noscript> a </noscript> c', 0, True, 0),
    ('<my-el><p>x</p></my-el>y', 0, True, 0),
    ('<slot><p>x</p></slot>y', 0, True, 0),
    ('<ruby>漢<rt>kan</rt>字<rt>ji</rt></ruby>', 0, True, 0),
    ('<ul><li>a</li><script>x</script><li>b</li></ul>', 0, True, 0),
    ('<select><optgroup label=a><option>x</option></optgroup><!-- c --><option>y</option></select>', 0, True, 0),
    ('a <noscript>b</noscript> c', 0, True, 0),
    ('<div><span>a</span> <noscript><img src=x></noscript> <span>b</span></div>', 0, True, 0),
    ('a<template></template> b', 0, True, 0),
    ('<script>var s = "a  b &amp; {{ .J }}";</script>', 0, True, 1),
    ('<textarea>  {{ .A }}\n x </textarea>', 0, True, 1),
    ('<input pattern="a  b">', 0, True, 0),
    ('<a target=" my frame " href=x>a</a>', 0, True, 0),
    ('<my-el selected="false">a</my-el>', 0, True, 0),
    ('<input type=checkbox value="">', 0, True, 0),
    ('<input type=submit value="">', 0, True, 0),
    ('<input type=radio value=ON>', 0, True, 0),
]


# column groups written with omitted tags (the generator itself writes every tag): regression cases of bdcb619
COLGROUP_OMITTED_DOCS = [
    '<table><col><colgroup><col></table>', '<table><colgroup span=2><col><colgroup><col></table>',
    '<table><colgroup><col><colgroup><col><tbody><tr><td>a</table>', '<table><col><col><colgroup span=2><colgroup><col></table>',
    '<table><colgroup span=2><colgroup><col></table>', '<table><caption>c</caption><col> <colgroup><col><col></colgroup><tr><td>a</table>',
    '<table><colgroup><col></colgroup> <colgroup><col></colgroup><!--c--><colgroup><col></colgroup></table>',
    '<table><col><!--c--><colgroup><col></table>', '<table><colgroup></colgroup><colgroup><col></colgroup><col></table>',
]


def regression_cases(ctx):
    out = []
    for src in COLGROUP_OMITTED_DOCS:
        for o in PAIRWISE8:
            out.append(mk(src, o, True, 0, origin='regression'))
    for src, opts, frag, tmpl in REGRESSION_DOCS:
        for o in sorted(set([opts] + PAIRWISE8)):
            out.append(mk(src, o, frag, tmpl, origin='regression'))
    return out


# ---------------------------------------------------------------------------------------------
# FIXED families (never sampled, both tiers).
# (1) comment positions: a comment after an end tag that is omitted by look-ahead, followed by every kind of next
#     token, under KeepComments and under KeepSpecialComments with SSI / conditional comments (a kept comment must
#     stay where it was; the look-aheads must not see through a comment that is kept).
def comment_position_cases(ctx):
    out = []
    nexts = ['<div>b</div>', '<p>b</p>', '<ul><li>b</li></ul>', '<table><tbody><tr><td>b</td></tr></tbody></table>', '<h1>b</h1>',
             '<pre>b</pre>', '<hr>', '<span>b</span>', 'b', ' b', '<!--d-->', '']
    parents = ['%s', '<div>%s</div>', '<ul><li>%s</li></ul>', '<table><tbody><tr><td>%s</td></tr></tbody></table>',
               '<a href=x>%s</a>', '<my-el>%s</my-el>', '<blockquote>%s</blockquote>', '<section>%s</section>']
    comments = [(b'<!--c-->', (1, 3, 0)), (SPECIAL_COMMENTS[0], (2, 3, 1)), (SPECIAL_COMMENTS[1], (2, 1)), (SPECIAL_COMMENTS[2], (2,))]
    for par in parents:
        for nx in nexts:
            for ws in ('', ' '):
                for com, optsets in comments:
                    body = b'<p>a</p>' + ws.encode() + com + ws.encode() + nx.encode()
                    src = par.encode().replace(b'%s', body)
                    for o in optsets:
                        out.append(mk(src, o, True, 0, origin='comment-position'))
    # the other look-ahead driven end tags: optgroup, rt/rp; and the unconditional list before script/template
    for src in ['<select><optgroup label=a><option>x</option></optgroup>%s<option>y</option></select>',
                '<select><optgroup label=a><option>x</option></optgroup>%s<optgroup label=b><option>y</option></optgroup></select>',
                '<ruby>a<rt>b</rt>%s<rt>c</rt></ruby>', '<ruby>a<rt>b</rt>%sd<rt>c</rt></ruby>', '<ruby>a<rp>(</rp>%s<rt>c</rt></ruby>',
                '<ul><li>a</li>%s<script>x</script><li>b</li></ul>', '<ul><li>a</li>%s<li>b</li></ul>',
                '<table><tbody><tr><td>a</td>%s<template></template><td>b</td></tr></tbody></table>',
                '<dl><dt>a</dt>%s<dd>b</dd></dl>', '<select><option>a</option>%s<option>b</option></select>']:
        for com, optsets in comments:
            for o in optsets:
                out.append(mk(src.encode().replace(b'%s', com), o, True, 0, origin='comment-position'))
    return out


# (2) every element name that html/html.go or html/table.go treats specially (all keys of tagMap, every Hash
#     constant used in html.go) plus the remaining elements of the standard, each in a conforming context with text
#     before, inside (leading / inner / trailing blanks) and after it.
PHRASING_EL = ['a href=x', 'abbr', 'b', 'bdi', 'bdo dir=ltr', 'cite', 'code', 'data value=1', 'dfn', 'em', 'i', 'kbd', 'mark', 'q', 's', 'samp',
               'small', 'span', 'strong', 'sub', 'sup', 'time', 'u', 'var', 'label', 'output', 'button', 'del', 'ins', 'map name=m', 'slot',
               'my-el', 'meter value=1', 'progress', 'canvas', 'object data=x', 'video src=x', 'audio src=x controls', 'noscript', 'template',
               'datalist id=l', 'textarea', 'ruby']
FLOW_EL = ['div', 'p', 'address', 'article', 'aside', 'blockquote', 'dialog open', 'footer', 'header', 'form', 'h1', 'h2', 'h3', 'h4', 'h5', 'h6',
           'main', 'nav', 'section', 'pre', 'search', 'fieldset', 'figure', 'details', 'menu', 'ol', 'ul', 'dl', 'table', 'hgroup', 'select', 'picture']
CONTEXT_EL = {   # element -> conforming template, %s = content of the element
    'li': '<ul><li>%s</li><li>z</li></ul>', 'dt': '<dl><dt>%s</dt><dd>z</dd></dl>', 'dd': '<dl><dt>z</dt><dd>%s</dd></dl>',
    'td': '<table><tbody><tr><td>%s</td><td>z</td></tr></tbody></table>', 'th': '<table><thead><tr><th>%s</th><th>z</th></tr></thead></table>',
    'caption': '<table><caption>%s</caption><tbody><tr><td>z</td></tr></tbody></table>',
    'tfoot': '<table><tbody><tr><td>z</td></tr></tbody><tfoot><tr><td>%s</td></tr></tfoot></table>',
    'legend': '<fieldset><legend>%s</legend>z</fieldset>', 'summary': '<details><summary>%s</summary>z</details>',
    'figcaption': '<figure><img src=x alt=y><figcaption>%s</figcaption></figure>', 'option': '<select><option>%s</option><option>z</option></select>',
    'optgroup': '<select><optgroup label=g><option>%s</option></optgroup></select>', 'rt': '<ruby>z<rt>%s</rt></ruby>',
    'rp': '<ruby>z<rp>%s</rp><rt>y</rt><rp>)</rp></ruby>', 'title': '<!doctype html><html><head><title>%s</title></head><body>z</body></html>',
    'body': '<!doctype html><html><head><title>t</title></head><body>%s</body></html>', 'html': '<!doctype html><html lang=en><head><title>t</title></head><body>%s</body></html>',
    'head': '<!doctype html><html><head><title>t</title><meta name=a content=" %s "></head><body>z</body></html>',
    'script': '<p>x <script>%s</script> y</p>', 'style': '<div><style>a{content:"%s"}</style>z</div>', 'iframe': '<p>x <iframe src=y></iframe> %s</p>',
    'colgroup': '<table><colgroup><col><col></colgroup><tbody><tr><td>%s</td></tr></tbody></table>',
    'datalist-fallback': '<p><input list=l> <datalist id=l>%s<select name=s><option>z</option></select></datalist> w</p>',
    'object-param': '<p>x <object data=y><param name=a value=b>%s</object> z</p>', 'video-track': '<p>x <video controls><source src=a><track src=b>%s</video> z</p>',
    'area': '<p>x <map name=m><area shape=rect coords="0,0,1,1" href=y alt=z>%s</map> w</p>', 'svg': '<p>x <svg width=1 height=1><text> %s </text></svg> z</p>',
    'math': '<p>x <math><mi> %s </mi></math> z</p>',
}
VOID_EL = ['br', 'img src=x alt=y', 'input', 'embed src=x', 'wbr', 'link itemprop=a href=b', 'meta itemprop=a content=b']
OBSOLETE_EL = ['acronym', 'big', 'font', 'nobr', 'strike', 'tt', 'bb', 'portal', 'menuitem']   # in tagMap; parser-defined, not conforming
# (not probed: marquee - inline-block and obsolete, its trailing inner blank still eats the next leading blank; rb/rtc outside ruby)
TEXTS = ['a b', ' a b ', 'or pick: ', ' a', 'a ']


def element_probe_cases(ctx):
    out = []
    optsets = [0, PAIRWISE8[3]]
    def add(src, frag=True):
        for o in optsets:
            out.append(mk(src, o, frag, 0, origin='element-probe'))
    def inner_variants(tag):
        # children allowed in the element next to text
        if tag in ('ul', 'ol', 'menu'): return ['<li>%s</li>']
        if tag == 'dl': return ['<dt>%s</dt><dd>z</dd>']
        if tag == 'table': return ['<tbody><tr><td>%s</td></tr></tbody>']
        if tag == 'select': return ['<option>%s</option>']
        if tag == 'picture': return ['<source srcset=a><img src=b alt="%s">']
        if tag == 'hgroup': return ['<h1>%s</h1><p>z</p>']
        if tag == 'details': return ['<summary>s</summary>%s']
        if tag == 'figure': return ['%s<figcaption>c</figcaption>']
        if tag == 'ruby': return ['%s<rt>z</rt>']
        if tag == 'textarea' or tag == 'noscript' or tag == 'template': return ['%s']
        return ['%s', '%s<span>i</span>%s', '<b>i</b>%s']
    for el in PHRASING_EL:
        tag = el.split()[0]
        for iv in inner_variants(tag):
            for t in TEXTS:
                c = iv.replace('%s', t)
                add('<p>x <%s>%s</%s> y</p>' % (el, c, tag))
                add('<p>x<%s>%s</%s>y</p>' % (el, c, tag))
        add('<div><%s>a</%s> <%s>b</%s></div>' % (el, tag, el, tag))
    for el in FLOW_EL:
        tag = el.split()[0]
        for iv in inner_variants(tag):
            for t in TEXTS:
                c = iv.replace('%s', t)
                add('<div>x</div> <%s>%s</%s> <div>y</div>' % (el, c, tag))
                add('x <%s>%s</%s> y' % (el, c, tag))
    for key, tmpl in CONTEXT_EL.items():
        for t in TEXTS:
            add(tmpl.replace('%s', t), frag=not tmpl.startswith('<!doctype'))
    for el in VOID_EL:
        for a, b in (('a ', ' b'), ('a', 'b'), ('a ', 'b'), ('a', ' b')):
            add('<p>%s<%s>%s</p>' % (a, el, b))
    for a, b in (('a ', ' b'), ('a', 'b')):
        add('<div>%s<hr>%s</div>' % (a, b))
        add('<div>%s<center> c d </center>%s</div>' % (a, b))
        add('<p>%s<audio src=x controls></audio>%s</p>' % (a, b))
        add('<p>%s<audio src=x controls>c</audio>%s</p>' % (a, b))
    return out


OBSOLETE_PROBES_NOTE = 'obsolete elements of tagMap are probed separately (see obsolete_probe_cases)'


def obsolete_probe_cases(ctx):
    out = []
    for el in OBSOLETE_EL:
        for t in TEXTS:
            out.append(mk('<p>x <%s>%s</%s> y</p>' % (el, t, el), 0, True, 0, origin='element-probe'))
            out.append(mk('<p>x<%s>%s</%s>y</p>' % (el, t, el), 0, True, 0, origin='element-probe'))
    return out


# (3) every named character reference of the standard (names from Python's html.entities.html5, a copy of the
#     standard's table that is independent of the code under test; decoding is done by x/net/html on both sides):
#     once in text and once in an attribute value, the legacy names also without the semicolon.  All of them are
#     run in both tiers packed 100 per document; individually (minimal witnesses) a seeded 300 in quick, all in thorough.
def entity_cases(ctx):
    import html.entities
    names = sorted(html.entities.html5)            # 'amp;', 'amp', 'varepsilon;', ...
    def ref(n):
        return '&' + n if n.endswith(';') else '&' + n + ' '      # a legacy reference is followed by a blank
    out = []
    for i in range(0, len(names), 100):
        chunk = ' '.join('a%sb' % ref(n) for n in names[i:i + 100])
        out.append(mk('<p>%s</p>' % chunk, 0, True, 0, origin='entity'))
        out.append(mk('<span title="%s">x</span>' % chunk, 0, True, 0, origin='entity'))
        out.append(mk('<span title=\'%s\'>x</span>' % chunk, 32, True, 0, origin='entity'))
        out.append(mk(DOCTYPE + b'<title>' + chunk.encode() + b'</title>', 0, False, 0, origin='entity'))
    single = names if not ctx.quick() else vlib.sample(names, 300, ctx.rnd)
    for n in single:
        out.append(mk('<p>a%sb</p>' % ref(n), 0, True, 0, origin='entity'))
        out.append(mk('<span title="a%sb">x</span>' % ref(n), 0, True, 0, origin='entity'))
    return out


# wrong-design switches of the design models: the behaviour of the code before a fix must violate the design invariant
NEGATIVE_CFGS = [('HtmlMachine', 'HtmlMachine_neg_%s.cfg' % b, 'DesignRefines') for b in
                 ('Noscript', 'Template', 'Rt', 'Script', 'PUnknown', 'Optgroup', 'ScriptComment', 'OptgroupScript', 'HiddenLeak', 'Colgroup', 'Body')] + [('HtmlAttr', 'HtmlAttr_neg_Amp.cfg', 'PlainOK')]


def negative_runs(ctx):
    """each switch alone: TLC must report the invariant violated (otherwise the design check is vacuous there)"""
    def one(x):
        module, cfg, inv = x
        r = vlib.tlc(ctx, module, cfg, workers=2, heap='2g', timeout=900)
        if inv not in r['invariant_violations']:
            raise vlib.Infra('wrong-design configuration %s did not violate %s:\n%s' % (cfg, inv, r['out'][-1500:]))
        return cfg
    with ThreadPoolExecutor(max_workers=4) as ex:
        done = list(ex.map(one, NEGATIVE_CFGS))
    ctx.coverage['wrong_design_switches_violating'] = len(done)
    vlib.log('NEG: %d wrong-design configurations violate their invariant' % len(done))


# ---------------------------------------------------------------------------------------------
def render_tokens(toks):
    out = bytearray()
    for k, t, h, x in toks:
        if k == 'S':
            out += b'<' + t.encode()
            if h:
                out += {'a': b' href=x', 'img': b' src=x', 'script': b' src=x', 'colgroup': b' span=2'}.get(t, b' class=x')
            out += b'>'
        elif k == 'E':
            out += b'</' + t.encode() + b'>'
        elif k == 'T':
            out += bytes(x)
        else:
            out += b'<!--' + bytes(x) + b'-->'
    return bytes(out)


GEN_RE = re.compile(r'^("GEN .*")$', re.M)


def gen_lines(out):
    """documents printed by the Emit invariants: one TLA+ string per line (a string is never wrapped by PrintT)"""
    docs = []
    for m in GEN_RE.finditer(out):
        docs.append(json.loads(json.loads(m.group(1))[4:]))
    if out.count('"GEN ') != len(docs):
        raise vlib.Infra('GEN lines lost: %d markers, %d parsed' % (out.count('"GEN '), len(docs)))
    return docs


def tree_docs(ctx):
    """(MC)+(GEN): exhaustive runs of HtmlMachine; returns list of (src bytes, frag, {optproj: predicted bytes}).
    In the quick tier the independent TLC runs execute side by side (a JVM start costs more than the search)."""
    quick = ctx.quick()
    runs = [('quick', False), ('tablequick', False), ('docquick', True)] if quick else \
           [('wide', False), ('list', False), ('select', False), ('inline', False), ('table', False), ('doc', True)]
    docs = []
    per = ctx.coverage.setdefault('generator', {})
    nsim = 80 if quick else 3000
    vlib._speccopy(ctx)

    def mc(name):
        return vlib.tlc_mc(ctx, 'HtmlMachine', 'HtmlMachine_%s.cfg' % name, workers=4 if quick else 8, heap='4g', timeout=3000)

    def sim():
        # random walks far beyond the exhaustive bound (design invariants are checked along the walks too)
        return vlib.tlc(ctx, 'HtmlMachine', 'HtmlMachine_sim.cfg', workers=1, simulate='num=%d' % nsim, depth=40,
                        seed=ctx.seed, timeout=1500, heap='3g')

    with ThreadPoolExecutor(max_workers=4 if quick else 1) as ex:
        futs = [(name, docmode, ex.submit(mc, name)) for name, docmode in runs]
        fsim = ex.submit(sim)
        results = [(name, docmode, f.result()) for name, docmode, f in futs]
        rs = fsim.result()
    for name, docmode, r in results:
        got = gen_lines(r['out'])
        per[name] = dict(states=r['distinct'], documents=len(got), wall_s=round(r['wall'], 1))
        vlib.log('MC HtmlMachine_%s: %d states, %d documents, %.1fs' % (name, r['distinct'], len(got), r['wall']))
        for d in got:
            pred = {}
            for o in d['o']:
                ket, kws, kdoc = o['f']
                pred[ket * KET | kws * KWS | kdoc * KDOC] = render_tokens(o['o'])
            docs.append((render_tokens(d['t']), not docmode, pred, name))
    if rs['errors'] or rs['invariant_violations']:
        raise vlib.Infra('design model fails on a simulated walk:\n' + rs['out'][-3000:])
    sims = gen_lines(rs['out'])
    per['sim'] = dict(walks=nsim, documents=len(sims), wall_s=round(rs['wall'], 1))
    vlib.log('SIM: %d documents, %.1fs' % (len(sims), rs['wall']))
    for d in sims:
        docs.append((render_tokens(d['t']), True, {}, 'sim'))
    docs.sort(key=lambda d: (d[3], d[0]))     # TLC prints in worker order: make the case list deterministic
    return docs


SPECIAL_COMMENTS = [b'<!--#include file="x" -->', b'<!--[if IE]>x<![endif]-->', b'<!--[if lt IE 9]><b> y </b><![endif]-->']
DOCTYPE = b'<!doctype html>'   # a conforming document has one; without it the parser is in quirks mode


def tree_cases(ctx, docs):
    quick = ctx.quick()
    cases = []
    seen = set()

    def add(src, opts, frag, origin, pred):
        if not frag:
            src = DOCTYPE + src
            pred = dict((k, DOCTYPE + v) for k, v in pred.items())
        if opts & 3 and X10_RE.search(src):
            opts &= ~3
        k = (src, opts, frag)
        if k in seen:
            return
        seen.add(k)
        cases.append(mk(src, opts, frag, 0, origin, pred.get(opts & (KET | KWS | KDOC)) if opts & 3 == 0 else None))

    budget = dict(list=25000, select=25000, inline=25000, table=25000, doc=30000, sim=30000)
    if quick:   # the design-level check stays exhaustive; the real code runs on a seeded sample in the quick tier
        budget = dict(quick=12000, tablequick=3000, docquick=4000, sim=2000)
    count = {}
    for d in docs:
        count[d[3]] = count.get(d[3], 0) + 1
    for i, (src, frag, pred, name) in enumerate(docs):
        if name in budget and count[name] > budget[name] and ctx.rnd.random() > budget[name] / count[name]:
            continue
        o2 = PAIRWISE8[1 + (i + ctx.seed) % 7]
        o3 = PAIRWISE8[1 + (i + ctx.seed + 3) % 7]
        # defaults + seeded members of the pairwise-covering family (+ the document reading of a fragment)
        add(src, 0, frag, 'gen:' + name, pred)
        if b'<!--' in src and (not quick or (i + ctx.seed) % 2 == 0):
            # kept comments must stay in place: KeepComments, and KeepSpecialComments with SSI / conditional comments
            add(src, 1, frag, 'gen:' + name, pred)
            add(src.replace(b'<!--c-->', SPECIAL_COMMENTS[(i + ctx.seed) % 3]), 2, frag, 'gen:' + name, {})
        if quick:
            if (i + ctx.seed) % 4 == 0:
                add(src, o2, frag, 'gen:' + name, pred)
            if frag and (i + ctx.seed) % 6 == 1:
                add(src, 0, False, 'gen:' + name + ':asdoc', pred)
        else:
            add(src, o2, frag, 'gen:' + name, pred)
            if name == 'wide':
                add(src, o3, frag, 'gen:' + name, pred)
            if frag and name == 'wide':
                add(src, PAIRWISE8[i % 8], False, 'gen:' + name + ':asdoc', pred)
    return cases


# ---------------------------------------------------------------------------------------------
def repo_test_cases(ctx):
    """inputs of the repository's own table tests, under the configuration of the test function and
    under the option family"""
    rows = vlib.test_inputs(ctx, 'html')
    conf = {'TestHTML': (0, 0, 0), 'TestHTMLCSSJS': (0, 0, 0), 'TestHTMLKeepEndTags': (16, 0, 0),
            'TestHTMLKeepSpecialComments': (2, 0, 0), 'TestHTMLKeepWhitespace': (64, 0, 0),
            'TestHTMLKeepQuotes': (32, 0, 0), 'TestHTMLURL': (0, 0, 1), 'TestHTMLGoTemplates': (0, 1, 0),
            'TestHTMLPHPTemplates': (0, 3, 0), 'TestSpecialTagClosing': (0, 0, 0)}
    out, skipped = [], []
    family = PAIRWISE8 if ctx.quick() else list(range(128))
    seen = set()
    for r in rows:
        if r['file'] != 'html_test.go' or r['func'] not in conf:
            continue
        opts, tmpl, col = conf[r['func']]
        if len(r['strings']) <= col:
            continue
        src = r['strings'][col]
        if src in NONCONFORMING_TEST_INPUTS:
            skipped.append(src)
            continue
        if src in KNOWN_TEST_INPUTS:
            continue
        for o in [opts] + family:
            if (src, o, tmpl) in seen:
                continue
            seen.add((src, o, tmpl))
            out.append(mk(src, o, False, tmpl, origin='test:' + r['func']))
    return out, skipped


TEMPLATE_DOCS = [
    '<p>{{ .A }} b</p>', '<p>a {{ .A }}</p> <p>{{.B}}</p>', '<a href="{{ .URL }}" class=" x  y ">t</a>',
    '<div class="a {{ .C }} b" id={{.I}}> x </div>', '<p>a</p>{{ if .X }}<p>b</p>{{ end }}<p>c</p>',
    '<span> {{ .A }} </span> <span>{{ .B }}</span>', '<pre> {{ .A }}  x</pre>', '<textarea>{{ .A }}</textarea>', '<textarea>  {{ .A }}\n x &lt;b&gt; </textarea>', '<style>a{content:"&amp;  {{ .C }}"}</style>',
    '<script>var a = {{ .J }};</script><p>x</p>', '<title> {{ .T }} </title>', '<ul><li>{{ .A }}</li><li> b </li></ul>',
    '<input value="{{ .V }}" type=text>', '<p>a  {{ .A }}  b</p>', '<b>x</b> {{ .A }} <i>y</i>',
    '<div {{ .Attrs }}>x</div>', '<p title="a &amp; {{ .A }}">x</p>',
]


def template_cases(ctx):
    out = []
    for d in TEMPLATE_DOCS:
        for tmpl, (a, b) in ((1, ('{{', '}}')), (2, ('<%', '%>')), (3, ('<?', '?>'))):
            if tmpl != 1 and ('={{' in d or ' {{ .Attrs' in d):
                continue    # "<%..%>" in tag/unquoted position is markup to an HTML parser: only {{ }} is used there
            s = d.replace('{{', a).replace('}}', b)
            for o in (PAIRWISE8 if not ctx.quick() else PAIRWISE8[:4]):
                out.append(mk(s, o, True, tmpl, origin='template'))
    return out


VAL_RE = re.compile(r'^"VAL (\[[0-9, ]*\])"$', re.M)
NEEDQ = set(b' \t\n\f\r"\'=<>`')


def attr_values(ctx):
    """(MC)+(GEN) of HtmlAttr: exhaustive value set within the length bound + seeded walks beyond it"""
    quick = ctx.quick()
    cfg = 'HtmlAttr_len2.cfg' if quick else 'HtmlAttr_len3.cfg'
    r = vlib.tlc_mc(ctx, 'HtmlAttr', cfg, workers=8, timeout=2400)
    vals = [bytes(json.loads(m.group(1))) for m in VAL_RE.finditer(r['out'])]
    if len(vals) != r['distinct']:
        raise vlib.Infra('HtmlAttr: %d values printed for %d states' % (len(vals), r['distinct']))
    rs = vlib.tlc(ctx, 'HtmlAttr', 'HtmlAttr_sim.cfg', workers=1, simulate='num=%d' % (40 if quick else 200), depth=5,
                  seed=ctx.seed, timeout=1200)
    if rs['errors'] or rs['invariant_violations']:
        raise vlib.Infra('attribute design model fails on a simulated walk:\n' + rs['out'][-3000:])
    sims = [bytes(json.loads(m.group(1))) for m in VAL_RE.finditer(rs['out'])]
    ctx.coverage.setdefault('generator', {})['attr'] = dict(states=r['distinct'], values=len(vals), simulated_values=len(set(sims) - set(vals)),
                                             wall_s=round(r['wall'] + rs['wall'], 1))
    vlib.log('MC HtmlAttr: %d values + %d simulated, %.1fs' % (len(vals), len(set(sims) - set(vals)), r['wall'] + rs['wall']))
    seen = set(vals)
    extra = []
    for v in sims:
        if v not in seen:
            seen.add(v)
            extra.append(v)
    return vals + vlib.sample(extra, 250 if quick else 4000, ctx.rnd)


def attr_cases(ctx, vals):
    """every value in every conforming source quoting on: an attribute that is only reference-decoded (title),
    one that is trimmed (class), a URL attribute, an attribute of an unknown element; and as text / RCDATA"""
    out = []
    optsets = [0, 32]
    for i, v in enumerate(vals):
        quotings = []
        if b'"' not in v:
            quotings.append(b'"' + v + b'"')
        if b"'" not in v:
            quotings.append(b"'" + v + b"'")
        if v and not (set(v) & NEEDQ):
            quotings.append(v)
        docs = []
        for q in quotings:
            docs += [b'<span title=' + q + b'>x</span>', b'<span class=' + q + b'>x</span>',
                     b'<a href=' + q + b'>x</a>', b'<my-el data-x=' + q + b'>x</my-el>']
        if b'<' not in v:
            docs.append(b'<p>' + v + b'</p>')
        docs.append(b'<textarea>' + v + b'</textarea>')
        for j, d in enumerate(docs):
            for o in ([optsets[(i + j) % 2]] if ctx.quick() or j % 3 else optsets):
                out.append(mk(d, o, True, 0, origin='attr'))
        if b'<' not in v:
            out.append(mk(DOCTYPE + b'<title>' + v + b'</title>', 0, False, 0, origin='attr'))
    return out


# Conforming (element, attribute, values) combinations that reach the attribute rules of the minifier:
# documented defaults, boolean attributes, empty attributes, keyword case, URL / MIME / event handler /
# style values, the meta rewrites.  '%s' in the element text is replaced by name=value in each quoting.
ATTR_RULES = [
    ('<form %s><input name=q></form>', 'method', ['get', 'GET', 'post', 'dialog', ' get ']),
    ('<form %s><input name=q></form>', 'enctype', ['application/x-www-form-urlencoded', 'multipart/form-data', 'text/plain',
                                                   'Application/X-WWW-Form-Urlencoded']),
    ('<form %s><input name=q></form>', 'action', ['', '/x', ' /x ', 'HTTP://e.x/A?b=c&amp;d', 'https://e.x/', 'Https://E.x/']),
    ('<form %s><input name=q></form>', 'name', ['', 'f']),
    ('<input %s>', 'type', ['text', 'TEXT', 'Text', 'checkbox', 'radio', 'submit', 'hidden', 'search', 'email']),
    ('<input type=text %s>', 'value', ['', 'x', ' x ', 'on', 'a  b']),
    ('<input type=hidden %s>', 'value', ['', 'x']),
    ('<input type=search %s>', 'value', ['', 'x']),
    ('<input type=radio %s>', 'value', ['on', 'x', 'off']),
    ('<input type=checkbox %s>', 'value', ['on', 'x']),
    ('<input type=checkbox %s>', 'checked', ['', 'checked', 'CHECKED']),
    ('<input %s>', 'disabled', ['', 'disabled']),
    ('<input %s>', 'name', ['', 'n', 'a b']),
    ('<input %s>', 'placeholder', ['', ' a  b ']),
    ('<input type=email %s>', 'multiple', ['', 'multiple']),
    ('<input %s>', 'pattern', ['a  b', ' [a-z]+ ', 'x']),
    ('<input type=checkbox %s>', 'value', ['', 'ON', 'On']),
    ('<input type=radio %s>', 'value', ['', 'ON']),
    ('<input type=submit %s>', 'value', ['', ' Go ', 'x']),
    ('<input type=reset %s>', 'value', ['', 'x']),
    ('<input type=button %s>', 'value', ['', 'x']),
    ('<a href=x %s>x</a>', 'target', [' my frame ', 'a  b']),
    ('<button %s>x</button>', 'formtarget', [' my frame ', '_self']),
    ('<my-el %s>x</my-el>', 'selected', ['', 'false', 'selected']),
    ('<my-el %s>x</my-el>', 'disabled', ['', 'false']),
    ('<input %s>', 'maxlength', ['10', ' 10 ']),
    ('<input %s>', 'autocomplete', ['on', 'off', 'shipping  postal-code', ' name ']),
    ('<input type=image alt=x %s>', 'formmethod', ['get', 'post']),
    ('<button %s>x</button>', 'type', ['submit', 'SUBMIT', 'button', 'reset']),
    ('<button %s>x</button>', 'formenctype', ['application/x-www-form-urlencoded', 'text/plain']),
    ('<table><tbody><tr><td %s>x</td></tr></tbody></table>', 'colspan', ['1', '2', ' 1 ', '01']),
    ('<table><tbody><tr><td %s>x</td></tr></tbody></table>', 'rowspan', ['1', '0', '3']),
    ('<table><tbody><tr><td %s>x</td></tr></tbody></table>', 'headers', ['a  b', ' a ']),
    ('<table><colgroup><col %s></colgroup><tbody><tr><td>x</td></tr></tbody></table>', 'span', ['1', '2']),
    ('<table><colgroup %s><col></colgroup><tbody><tr><td>x</td></tr></tbody></table>', 'class', ['', 'c']),
    ('<map name=m><area %s coords="0,0, 1,1" href=x alt=a></map>', 'shape', ['rect', 'RECT', 'circle', 'default']),
    ('<style %s>a{}</style>', 'media', ['all', 'ALL', 'print', 'screen and (min-width: 1px)', ' all ']),
    ('<style %s>a{}</style>', 'type', ['text/css', 'TEXT/CSS', 'text/css; charset=utf-8']),
    ('<link rel=stylesheet href=x %s>', 'type', ['text/css', 'Text/Css', 'text/x-other']),
    ('<link href=x %s>', 'rel', ['stylesheet', ' stylesheet  preload ', 'ICON']),
    ('<script %s>x</script>', 'type', ['text/javascript', 'application/javascript', 'TEXT/JavaScript', 'module', 'text/plain',
                                       'application/ld+json', 'text/javascript; charset=utf-8', 'application/ecmascript', '']),
    ('<script src=x %s></script>', 'charset', ['utf-8', 'UTF-8']),
    ('<script src=x %s></script>', 'async', ['', 'async']),
    ('<script %s></script>', 'src', ['x', ' x ', 'HTTPS://e.x/a.js', 'http://e.x/']),
    ('<a %s>x</a>', 'href', ['x', ' x ', 'HTTP://e.x', 'Http://E.x/A', 'https://e.x/?a=1&amp;b=2', 'mailto:a@b.c', '#', '', 'javascript:f()',
                             'a b', 'http:', 'https:x']),
    ('<a id=x %s>x</a>', 'name', ['x', 'y', 'X']),
    ('<a href=x %s>x</a>', 'type', ['text/html', 'Text/HTML; Charset=UTF-8']),
    ('<a href=x %s>x</a>', 'target', ['_blank', 'f']),
    ('<a href=x %s>x</a>', 'rel', ['noopener', ' noopener  noreferrer ']),
    ('<a href=x %s>x</a>', 'hreflang', ['en', 'EN-us']),
    ('<img src=x %s>', 'alt', ['', ' a  b ', 'a']),
    ('<img alt=a %s>', 'src', ['x', ' x.png ', 'HTTP://e.x/i.png']),
    ('<img src=x alt=a %s>', 'srcset', ['a.png 1x,  b.png 2x', ' a.png 100w ']),
    ('<img src=x alt=a %s>', 'width', ['10', ' 10 ']),
    ('<img src=x alt=a %s>', 'loading', ['lazy', 'LAZY']),
    ('<img src=x alt=a %s>', 'ismap', ['', 'ismap']),
    ('<select %s><option>a</option></select>', 'multiple', ['', 'multiple']),
    ('<select><option %s>a</option></select>', 'selected', ['', 'selected']),
    ('<select><option %s>a</option></select>', 'value', ['', 'x', ' x ']),
    ('<select><optgroup %s><option>a</option></optgroup></select>', 'label', ['', ' a  b ']),
    ('<textarea %s>x</textarea>', 'readonly', ['', 'readonly']),
    ('<textarea %s>x</textarea>', 'wrap', ['soft', 'HARD']),
    ('<details %s><summary>s</summary>x</details>', 'open', ['', 'open']),
    ('<ol %s><li>a</li></ol>', 'reversed', ['', 'reversed']),
    ('<ol %s><li>a</li></ol>', 'type', ['1', 'a', 'A', 'i', 'I']),
    ('<ol %s><li>a</li></ol>', 'start', ['1', ' 3 ']),
    ('<div %s>x</div>', 'class', ['', 'a', ' a  b ', 'A a']),
    ('<div %s>x</div>', 'id', ['', 'a', 'A b']),
    ('<div %s>x</div>', 'dir', ['', 'ltr', 'RTL', 'auto']),
    ('<div %s>x</div>', 'style', ['', 'color:red', ' color : red ; ', 'background:url("a b")']),
    ('<div %s>x</div>', 'title', ['', ' a  b ', 'a']),
    ('<div %s>x</div>', 'lang', ['en', ' en ']),
    ('<div %s>x</div>', 'hidden', ['', 'hidden', 'until-found']),
    ('<div %s>x</div>', 'onclick', ['', 'f()', ' f() ', 'javascript:f()', 'JavaScript: f()', 'a=" b  c "']),
    ('<div %s>x</div>', 'tabindex', ['0', '-1', ' 1 ']),
    ('<div %s>x</div>', 'itemscope', ['', 'itemscope']),
    ('<div %s>x</div>', 'data-x', ['', ' a  b ', 'get', 'on']),
    ('<div %s>x</div>', 'contenteditable', ['', 'true', 'FALSE']),
    ('<div %s>x</div>', 'draggable', ['true', 'FALSE']),
    ('<div %s>x</div>', 'accesskey', ['a', ' a  b ']),
    ('<label %s>x</label>', 'for', ['a', ' a ']),
    ('<my-el %s>x</my-el>', 'class', ['', ' a  b ']),
    ('<my-el %s>x</my-el>', 'value', ['', 'on', ' x ']),
    ('<my-el %s>x</my-el>', 'method', ['get', 'GET']),
    ('<my-el %s>x</my-el>', 'name', ['', 'n']),
    ('<my-el %s>x</my-el>', 'itemscope', ['', 'x']),
    ('<video %s></video>', 'controls', ['', 'controls']),
    ('<video %s></video>', 'poster', ['x', ' x ']),
    ('<video %s></video>', 'preload', ['none', 'METADATA']),
    ('<object %s></object>', 'data', ['x', ' x ']),
    ('<object data=x %s></object>', 'type', ['image/png', 'Image/PNG']),
    ('<iframe %s></iframe>', 'sandbox', ['', 'allow-scripts  allow-forms']),
    ('<iframe %s></iframe>', 'allowfullscreen', ['', 'true']),
    ('<blockquote %s>x</blockquote>', 'cite', ['x', ' HTTP://e.x/q ']),
    ('<time %s>x</time>', 'datetime', ['2011-11-18 14:54', ' 2011-11-18 ']),
    ('<meter %s></meter>', 'value', ['0.5', '1']),
    ('<track %s src=x>', 'default', ['', 'default']),
    ('<source %s src=x>', 'type', ['video/mp4', 'Video/MP4; codecs="avc1.42E01E, mp4a.40.2"']),
]
META_DOCS = [
    '<meta http-equiv="content-type" content="text/html; charset=utf-8">', '<meta http-equiv="Content-Type" content="text/html; charset=UTF-8">',
    '<meta http-equiv=" content-type " content=" text/html;  charset=utf-8 ">', '<meta http-equiv="content-type" content="text/html; charset=iso-8859-1">',
    '<meta http-equiv="content-type" content="text/html; charset=utf-8" charset=utf-8>', '<meta charset="UTF-8">', '<meta charset=utf-8>',
    '<meta http-equiv="refresh" content="5; url=http://e.x/">', '<meta http-equiv="Content-Security-Policy" content="default-src \'self\';  img-src *">',
    '<meta name="keywords" content="a, b,  c ,d">', '<meta name="Keywords" content="a b, c">',
    '<meta name="viewport" content="width=device-width, initial-scale=1.0">', '<meta name="viewport" content="width = 996 , maximum-scale=1000">',
    '<meta name="viewport" content="width=0.10,initial-scale=01.50">', '<meta name="description" content="  a,  b  ">',
    '<meta name="author" content="">', '<meta property="og:title" content=" a  b ">', '<meta itemprop=x content="a, b">',
]


def quotings(v):
    v = v.encode()
    out = []
    if b'"' not in v:
        out.append(b'"' + v + b'"')
    if b"'" not in v:
        out.append(b"'" + v + b"'")
    if v and not (set(v) & NEEDQ):
        out.append(v)
    return out


def attr_rule_cases(ctx):
    out = []
    optsets = [0, 4, 32] if ctx.quick() else [0, 4, 32, 36] + PAIRWISE8[1:]
    for tmpl_, name, values in ATTR_RULES:
        for v in values:
            for q in quotings(v):
                doc = tmpl_.encode().replace(b'%s', name.encode() + b'=' + q)
                for o in optsets:
                    out.append(mk(doc, o, True, 0, origin='attr-rule'))
            if v == '':
                doc = tmpl_.encode().replace(b'%s', name.encode())
                for o in optsets:
                    out.append(mk(doc, o, True, 0, origin='attr-rule'))
    for d in META_DOCS:
        for o in optsets:
            out.append(mk(DOCTYPE + b'<html><head><title>t</title>' + d.encode() + b'</head><body>x</body></html>', o, False, 0,
                          origin='attr-rule'))
            out.append(mk(d, o, True, 0, origin='attr-rule'))
    return out


# ---------------------------------------------------------------------------------------------
def run_cases(ctx, exe, cases, tag):
    cin = ctx.path('run', tag + '-cases.ndjson')
    tout = ctx.path('run', tag + '-trace.ndjson')
    sout = ctx.path('run', tag + '-side.ndjson')
    with open(cin, 'w') as f:
        for i, c in enumerate(cases):
            f.write(json.dumps(dict(id=i, src=c['src'], opts=c['opts'], frag=c['frag'], tmpl=c['tmpl']),
                               separators=(',', ':')) + '\n')
    vlib.run([exe, cin, tout, sout], timeout=1800)
    lines = [l.rstrip('\n') for l in open(tout)]
    side = [json.loads(l)['min'] for l in open(sout)]
    if len(lines) != len(cases):
        raise vlib.Infra('harness wrote %d lines for %d cases' % (len(lines), len(cases)))
    return lines, side


def validate(ctx, exe, cases, tag):
    t0 = time.time()
    lines, side = run_cases(ctx, exe, cases, tag)
    t1 = time.time()
    accepted, rejects = vlib.tlc_trace(ctx, 'C03Trace', 'C03Trace.cfg', lines, min_per_shard=3000, timeout=2400,
                                         shards=8 if ctx.quick() else None)
    if len(cases) > 100:
        vlib.log('RUN %d cases %.1fs, TV %.1fs' % (len(cases), t1 - t0, time.time() - t1))
    return lines, side, accepted, rejects


def pinned_cases():
    out = []
    for c in vlib.known_cases(PID):
        out.append(mk(c['src'].encode('latin1'), c['opts'], c['frag'], c['tmpl'], origin='known'))
    return out


def run(ctx):
    exe = vlib.build_harness(ctx, 'c03')
    vlib._speccopy(ctx)                                # (scratch copy of spec/ made once, before the threads start)
    with ThreadPoolExecutor(max_workers=3) as ex:      # the generators and the negative runs are independent
        fa = ex.submit(attr_values, ctx)
        fn = ex.submit(negative_runs, ctx)
        docs = tree_docs(ctx)
        vals = fa.result()
        fn.result()
    cases = tree_cases(ctx, docs)
    n_tree = len(cases)
    cases += attr_cases(ctx, vals)
    cases += attr_rule_cases(ctx)
    n_attr = len(cases) - n_tree
    tests, skipped = repo_test_cases(ctx)
    cases += tests
    cases += template_cases(ctx)
    cases += regression_cases(ctx)
    n_fixed0 = len(cases)
    cases += comment_position_cases(ctx)
    cases += element_probe_cases(ctx)
    cases += obsolete_probe_cases(ctx)
    cases += entity_cases(ctx)
    ctx.coverage['fixed_family_cases'] = len(cases) - n_fixed0
    cases += pinned_cases()
    lines, side, accepted, rejects = validate(ctx, exe, cases, 'main')

    # second pass: the real outputs of accepted generated documents are conforming documents written with
    # omitted tags and minimal white space (the generator itself writes every tag); they are new inputs
    bad1 = set(i for i, _ in rejects)
    outs = sorted(set((side[i], cases[i]['frag']) for i in range(n_tree)
                      if i not in bad1 and cases[i]['opts'] == 0 and side[i].encode() != bytes(cases[i]['src'])))
    outs = vlib.sample(outs, 1500 if ctx.quick() else 30000, ctx.rnd)
    pass2 = []
    for j, (m, frag) in enumerate(outs):
        pass2.append(mk(m, 0, frag, 0, origin='gen:pass2'))
        pass2.append(mk(m, PAIRWISE8[1 + (j + ctx.seed) % 7], frag, 0, origin='gen:pass2'))
    if pass2:
        l2, s2, a2, r2 = validate(ctx, exe, pass2, 'pass2')
        base = len(cases)
        cases += pass2
        lines += l2
        side += s2
        accepted += a2
        rejects += [(base + i, w) for i, w in r2]
    ctx.coverage['second_pass_documents'] = len(pass2)

    # DRIFT: design model prediction vs real output (information about the model, never a verdict)
    drift, compared = [], 0
    nontrivial = set()
    for c, m in zip(cases, side):
        src = bytes(c['src'])
        if m.encode('utf-8', 'surrogateescape') != src:
            nontrivial.add((src, c['opts'], c['frag'], c['tmpl']))
        if c.get('pred') is not None:
            compared += 1
            if c['pred'].decode('latin1') != m:
                if len(drift) < 5:
                    drift.append(dict(src=show(c), opts=optstr(c['opts']), design=c['pred'].decode('latin1'), code=m))
    ctx.coverage['design_predictions_compared'] = compared
    ctx.coverage['design_drift'] = sum(1 for c, m in zip(cases, side) if c.get('pred') is not None and c['pred'].decode('latin1') != m)
    ctx.coverage['design_drift_samples'] = drift

    # every rejected call is re-run in a fresh process and re-validated before it counts
    if rejects:
        bad = sorted(set(i for i, _ in rejects))
        if len(bad) > 400:
            vlib.log('%d rejected lines; re-running the first 400' % len(bad))
        sub = [cases[i] for i in bad[:400]]
        l2, s2, a2, r2 = validate(ctx, exe, sub, 'rerun')
        why2 = {}
        for k, w in r2:
            why2.setdefault(k, set()).add(w)
        if len(why2) != len(sub):
            lost = [show(sub[k]) for k in range(len(sub)) if k not in why2]
            raise vlib.Infra('rejections did not reproduce in a fresh process: %r' % lost[:5])
        for k in sorted(why2):
            c = sub[k]
            desc = '%s [%s%s%s] -> %s : clause %s' % (json.dumps(show(c)), optstr(c['opts']), ' fragment' if c['frag'] else '',
                                                      ' tmpl=%d' % c['tmpl'] if c['tmpl'] else '', json.dumps(s2[k]),
                                                      '/'.join(sorted(why2[k])))
            ctx.report(ident(c), desc, replay_obj=dict(origin=c['origin'], out=s2[k]))
        ctx.coverage['rejections'] = len(bad)
        ctx.coverage['rejections_reproduced'] = len(why2)

    samples = []
    for j in (0, n_tree // 2, n_tree - 1, n_tree + 3, len(cases) - len(pinned_cases()) - 1):
        if 0 <= j < len(cases):
            samples.append(dict(src=show(cases[j]), opts=optstr(cases[j]['opts']), fragment=cases[j]['frag'],
                                out=side[j], origin=cases[j]['origin']))
    ctx.coverage.update(dict(
        traces_validated_against_impl=accepted,
        evaluations=len(cases),
        distinct_nontrivial=len(nontrivial),
        documents_from_model=n_tree,
        attribute_documents_from_model=n_attr,
        repo_test_inputs_outside_domain=len(skipped),
        rule='documents = complete states of the exhaustive TLC runs of HtmlMachine (all conforming token sequences within '
             'the node/depth bound over the vocabulary, see coverage.generator; every complete state for the quick/wide/'
             'tablequick/docquick configurations, a checksum-selected quarter - then capped at 25-30k per configuration - for '
             'the list/select/inline/table/doc configurations, whose design-level check is still exhaustive), the real outputs '
             'of those documents fed back as second-pass inputs (tags omitted), complete states met on TLC -simulate '
             'walks, all inputs of html/html_test.go, template-delimiter documents, the fixed families (comment positions, one probe per element name, every named character reference of the standard in text / attribute / title); each crossed with Keep* option sets '
             '(8 pairwise-covering sets; all 128 for the test inputs in thorough) and read as fragment (body context) '
             'and as document; a case is (input bytes, options, fragment?, delimiters); non-trivial = the real minifier '
             'changed the bytes.  Generator exclusions (known findings, pinned in known/C03.ndjson): X7 empty attribute-less script/style; X11 optgroup directly inside template contents; X10 a kept comment (KeepComments/KeepSpecialComments) directly after a dropped tag; %d repository test inputs '
             'that are not conforming HTML (listed in tools/props/c03.py)' % len(skipped),
        samples=samples,
        exhaustive=True,
        exhaustive_bound='all conforming token sequences with <= %s nodes over the vocabulary of HtmlMachine_%s.cfg' %
                         (('3 (23 tags) / 4 (table vocabulary)', 'quick/tablequick/docquick') if ctx.quick() else
                          ('3 (33 tags) / 4 (list, select, inline, document vocabularies) / 5 (table vocabulary)',
                           'wide/list/select/inline/table/doc')),
    ))
    ctx.assumptions += [
        'golang.org/x/net/html v0.34.0 (scripting disabled) is the HTML5 tree builder that defines "the parsed document"',
        'spec/HtmlTables.tla transcribes the standard (rendering section, attribute index, optional tags); TLC evaluates HtmlDom.HtmlEq',
        'only text/html is registered: embedded CSS/JS/SVG pass through (C11); data: URLs are not compared (C18)',
        'title text is compared as words (not rendered, not named by the property); doctype is not part of the tree']


def replay(ctx, obj):
    exe = vlib.build_harness(ctx, 'c03')
    c = obj['case']
    case = mk(c['src'].encode('latin1'), c['opts'], c['frag'], c['tmpl'])
    lines, side, accepted, rejects = validate(ctx, exe, [case], 'replay')
    print('input : %s' % json.dumps(show(case)))
    print('output: %s' % json.dumps(side[0]))
    if rejects:
        print('rejected clauses: %s' % ', '.join(sorted(set(w for _, w in rejects))))
        print('VIOLATION property=C03 replay=given')
        return 1
    print('accepted')
    return 0


META = dict(
    category='model_checking',
    text='TLC enumerates all conforming token sequences within the bound (HtmlMachine: content models of the HTML '
         'standard as enabling conditions), checks that the design model of the minifier token loop refines the '
         'abstract relation HtmlEq (same element tree, same words per text node, same rendered word separation with '
         'display types from the standard, same decoded attribute values up to documented removals) and emits the '
         'documents; the real minifier runs on each under Keep* option sets, input and output are parsed by an '
         'independent HTML5 parser and TLC evaluates HtmlEq on every recorded call.',
    design_ref='DESIGN.md section 4, C03',
    note='Trusted: TLC, golang.org/x/net/html as HTML5 parser, spec/HtmlTables.tla as transcription of the standard. '
         'Exhaustive within the stated node bound; sampled (TLC -simulate) beyond it.',
    technique='TLA+ design model + generator, TLC trace validation of the DOM relation',
)
