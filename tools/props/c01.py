"""C01  JS minification preserves program behaviour.

MC : JsLaws (rewrite laws of the minifier checked for all operand instantiations and all environments against the
     TLA+ big-step semantics JsCore) and JsGen (generator automaton of fragment programs) are model-checked by TLC.
GEN: programs dumped / simulated by TLC from JsGen; the operator-precedence matrix (table transcribed from ECMA-262),
     the literal matrix (string escapes x quotes x following char, numeric literal forms incl. NumGen lexemes, regular
     expression escapes), ASI/token-adjacency programs, the inputs of js/js_test.go and tests/js/corpus.
RUN: harness/cmd/c01 minifies every program with the real js.Minifier under {KeepVarNames} x {Version 0,2015..2022}
     (x sloppy / "use strict" variants of the program); js/c01_run.js executes input and output in V8 under seeded
     environments and records the observation of the property (host calls, final globals, completion); for fragment
     programs it also projects both texts to ASTs with acorn (independent of tdewolff/parse).
TV : TLC validates ObsEq on the recorded engine observations (spec/JsObs.tla) and, for fragment programs, evaluates
     Run (spec/JsCore.tla) on both ASTs for every environment of the spec's environment space (spec/C01Ast.tla); the
     TLA+ semantics is cross-checked against V8 on every fragment program (disagreement = spec bug = exit 2).
"""
import json
import os
import re
import subprocess
import sys
import time
from concurrent.futures import ThreadPoolExecutor

import vlib

sys.path.insert(0, os.path.dirname(os.path.abspath(__file__)))
import c01_gen as gen  # noqa: E402

JSDIR = os.path.join(vlib.ROOT, 'js')
RUNNER = os.path.join(JSDIR, 'c01_run.js')
ALL_CFGS = [[k, v] for k in (0, 1) for v in (0, 2015, 2016, 2017, 2018, 2019, 2020, 2021, 2022)]


# ---------------------------------------------------------------------------------------------------
def minify_all(ctx, exe, sources, tag, cfgs=None):
    """sources: list of program texts.  Returns list of result dicts {id, cfgs, out, err, panic}."""
    cin = ctx.path('run', tag + '-cases.ndjson')
    cout = ctx.path('run', tag + '-min.ndjson')
    with open(cin, 'w') as f:
        for i, s in enumerate(sources):
            c = dict(id=i, src=s)
            if cfgs:
                c['cfgs'] = cfgs
            f.write(json.dumps(c) + '\n')
    vlib.run([exe, cin, cout], timeout=1800)
    return vlib.read_ndjson(cout)


def _read_lines(path):
    """complete ndjson lines of a (possibly truncated) file"""
    out = []
    if os.path.exists(path):
        for l in open(path):
            if l.endswith('\n') and l.strip():
                try:
                    out.append(json.loads(l))
                except ValueError:
                    pass
    return out


STALLS = []


def node_observe(ctx, pairs, tag, timeout_ms=None, jobs=None):
    """pairs: list of dict(id, in, out, seed, nenv, probe, ast).  Runs js/c01_run.js in parallel shards."""
    jobs = jobs or vlib.JOBS
    n = len(pairs)
    if n == 0:
        return []
    shards = max(1, min(jobs, n // 20 + 1))
    files = []
    # deal pairs round-robin by cost (long programs first) so the shards finish together
    order = sorted(range(n), key=lambda i: -len(pairs[i]['in']))
    buckets = [[] for _ in range(shards)]
    for k, i in enumerate(order):
        buckets[k % shards].append(pairs[i])
    for s in range(shards):
        p = ctx.path('node', '%s-%d-in.ndjson' % (tag, s))
        vlib.write_ndjson(p, buckets[s])
        files.append(p)
    env = dict(os.environ)
    if timeout_ms:
        env['C01_TIMEOUT'] = str(timeout_ms)

    stall_s = float(os.environ.get('C01_STALL', '60'))
    stalls = STALLS

    def one(s):
        """one node worker under a watchdog: a worker that makes no progress (no new output line, no new progress marker) for
        stall_s seconds is killed, the pair it was on is recorded as a runner stall (never a verdict) and a new worker goes on
        with the remaining pairs"""
        todo = list(buckets[s])
        results = []
        attempt = 0
        while todo:
            inp = files[s] if attempt == 0 else files[s].replace('-in.ndjson', '-in%d.ndjson' % attempt)
            if attempt:
                vlib.write_ndjson(inp, todo)
            outp = inp.replace('.ndjson', '-out.ndjson')
            prog = outp + '.progress'
            for f in (outp, prog):
                if os.path.exists(f):
                    os.remove(f)
            errp = outp + '.stderr'
            with open(errp, 'w') as ef:
                proc = subprocess.Popen(['node', '--expose-internals', RUNNER, inp, outp], stdout=subprocess.DEVNULL, stderr=ef, env=env)
                last = (-1, -1.0)
                t_last = time.time()
                stalled = False
                while proc.poll() is None:
                    time.sleep(0.25)
                    try:
                        cur = (os.path.getsize(outp) if os.path.exists(outp) else 0, os.path.getmtime(prog) if os.path.exists(prog) else 0.0)
                    except OSError:
                        cur = last
                    if cur != last:
                        last, t_last = cur, time.time()
                    elif time.time() - t_last > stall_s:
                        proc.kill()
                        proc.wait()
                        stalled = True
                        break
            done = vlib.read_ndjson_tolerant(outp) if hasattr(vlib, 'read_ndjson_tolerant') else _read_lines(outp)
            results += done
            if not stalled:
                if proc.returncode != 0:
                    raise vlib.Infra('node runner failed (%d): %s' % (proc.returncode, open(errp).read()[-2000:]))
                break
            try:
                sid = int(open(prog).read().strip())
            except (OSError, ValueError):
                raise vlib.Infra('node runner stalled before it reported progress: ' + open(errp).read()[-1000:])
            pos = [k for k, p in enumerate(todo) if p['id'] == sid]
            if not pos:
                raise vlib.Infra('node runner stalled on an unknown pair id %s' % sid)
            stalls.append(dict(id=sid, src=todo[pos[0]]['in'][:400], out=todo[pos[0]]['out'][:400]))
            vlib.log('  runner stall (> %.0fs without progress), skipped: %r' % (stall_s, todo[pos[0]]['in'][:200]))
            results = [r for r in results if r['id'] != sid]
            results.append(dict(id=sid, env=-1, skip='runner stall'))
            todo = todo[pos[0] + 1:]
            attempt += 1
            if len(stalls) > 5:
                raise vlib.Infra('more than 5 runner stalls, e.g. %r' % stalls[0]['src'][:200])
        return results

    with ThreadPoolExecutor(max_workers=shards) as ex:
        outs = list(ex.map(one, range(shards)))
    res = [o for part in outs for o in part]
    res.sort(key=lambda o: (o['id'], o['env']))
    return res


def run_sources(ctx, exe, sources, tag, nenv=3, probe=1, ast=False, timeout_ms=None, cfgs=None, stats=None):
    """minify + execute + TLC-validate one list of programs with uniform parameters (see run_batch)."""
    items = [dict(src=s, fam=tag, nenv=nenv, probe=probe, ast=ast) for s in sources]
    return run_batch(ctx, exe, items, tag, timeout_ms=timeout_ms, cfgs=cfgs, stats=stats)


def run_batch(ctx, exe, items, tag, timeout_ms=None, cfgs=None, stats=None):
    """items: list of dict(src, fam, nenv, probe, ast).  All programs are minified by one driver process under every
    configuration, every DISTINCT (input, output) pair is executed by the node runner shards, and TLC validates all
    observations (JsObs).  Returns (pairs, obs_lines, rejects[(pair_id, env, why)], ast_lines)."""
    vlib._speccopy(ctx)      # (copy the specs once, before TLC shards start in parallel threads)
    t0 = time.time()
    sources = [it['src'] for it in items]
    results = minify_all(ctx, exe, sources, tag, cfgs)
    t1 = time.time()
    pairs = []
    st = stats if stats is not None else {}
    for r in results:
        if r['panic']:
            st['minifier_panic'] = st.get('minifier_panic', 0) + 1
            continue
        if r['err']:
            st['minifier_rejects_input'] = st.get('minifier_rejects_input', 0) + 1
            continue
        it = items[r['id']]
        pairs.append(dict(id=len(pairs), src_id=r['id'], cfgs=r['cfgs'], out=r['out'], seed=ctx.seed, nenv=it['nenv'], probe=it['probe'],
                          ast=1 if it.get('ast') else 0, fam=it['fam'], nobig=1 if gen.needs_nobig(it['src']) else 0, **{'in': it['src']}))
    for p in pairs:
        p['maxvary'] = 2                            # free names whose binding varies over the spec's environment space (10^2 environments)
        p['nspec'] = 2 if ctx.quick() else 4
    obs = node_observe(ctx, [dict((k, p[k]) for k in ('id', 'in', 'out', 'seed', 'nenv', 'probe', 'ast', 'nobig', 'maxvary', 'nspec')) for p in pairs], tag,
                       timeout_ms=timeout_ms)
    lines, index = [], []
    astlines = []
    for o in obs:
        if o.get('kind') == 'ast':
            astlines.append(o)
            continue
        if o['skip']:
            key = 'skipped: ' + re.sub(r'(rejected by V8|runner error|analysis failed|ast):.*', r'\1', o['skip'])
            st[key] = st.get(key, 0) + 1
            continue
        lines.append(dict(id=o['id'], env=o['env'], a=o['a'], b=o['b']))
        index.append((o['id'], o['env']))
    st['engine_observations'] = st.get('engine_observations', 0) + len(lines)
    t2 = time.time()
    accepted, rejects = vlib.tlc_trace(ctx, 'JsObs', 'JsObs.cfg', lines, min_per_shard=600)
    if os.environ.get('VERIF_DEBUG'):
        vlib.log('  [%s] minify %.1fs  node %.1fs  tlc %.1fs  (%d programs, %d pairs, %d lines)' % (tag, t1 - t0, t2 - t1, time.time() - t2,
                                                                                               len(sources), len(pairs), len(lines)))
    st['engine_accepted'] = st.get('engine_accepted', 0) + accepted
    rej = [(index[i][0], index[i][1], why) for i, why in rejects]
    return pairs, lines, rej, astlines


def describe(pair, lines_for_pair, whys):
    cf = pair['cfgs'][0]
    d = 'js.Minifier{KeepVarNames:%s,Version:%d} %r -> %r : %s differs' % (bool(cf[0]), cf[1], pair['in'][:300], pair['out'][:300],
                                                                         '/'.join(sorted(set(whys))))
    return d


def first_difference(line):
    a, b = line['a'], line['b']
    if a['comp'] != b['comp']:
        return 'completion %s vs %s' % (a['comp'], b['comp'])
    for i, (x, y) in enumerate(zip(a['calls'], b['calls'])):
        if x != y:
            return 'host call #%d %s vs %s' % (i + 1, x, y)
    if len(a['calls']) != len(b['calls']):
        return 'host call count %d vs %d' % (len(a['calls']), len(b['calls']))
    for x, y in zip(a['globals'], b['globals']):
        if x != y:
            return 'global %s vs %s' % (x, y)
    return 'globals'


def confirm_alone(ctx, exe, src, cfg, nenv, probe, timeout_ms=None):
    """Re-run ONE program with ONE configuration in fresh processes and re-validate with TLC."""
    pairs, lines, rej, _ = run_sources(ctx, exe, [src], 'alone-%d' % confirm_alone.n, nenv=nenv, probe=probe, cfgs=[cfg],
                                       timeout_ms=timeout_ms or 400, stats={})
    confirm_alone.n += 1
    if not rej:
        return None
    byline = {}
    for l in lines:
        byline[(l['id'], l['env'])] = l
    pid, env, why = rej[0]
    return dict(pair=pairs[pid], why=[w for p, e, w in rej], detail=first_difference(byline[(pid, env)]), env=env)


confirm_alone.n = 0


def ident(src, cfg):
    return dict(src=src, keep=int(cfg[0]), version=int(cfg[1]))


def shrink_statements(ctx, exe, src, cfg, nenv, probe):
    """For batched generator programs (one statement per line): find a single line that still violates."""
    parts = [p for p in src.split('\n') if p.strip()]
    if len(parts) <= 1:
        return src
    head = ''
    if parts[0].startswith('"use strict"'):
        head = parts[0] + '\n'
        parts = parts[1:]
    for p in parts[:40]:
        c = confirm_alone(ctx, exe, head + p, cfg, nenv, probe)
        if c:
            return head + p
    return src


def handle_rejects(ctx, exe, pairs, rej, nenv, probe, shrink=False, cap=30, timeout_ms=None):
    """Every rejected pair is re-run alone (fresh processes) before it counts."""
    bypair = {}
    for pid, env, why in rej:
        bypair.setdefault(pid, []).append(why)
    n_repro = 0
    for pid in sorted(bypair)[:cap]:
        p = pairs[pid]
        cfg = p['cfgs'][0]
        src = p['in']
        c = confirm_alone(ctx, exe, src, cfg, nenv, probe, timeout_ms)
        if not c:
            raise vlib.Infra('rejection did not reproduce in isolation: %r cfg=%s (%s)' % (src[:200], cfg, bypair[pid]))
        if shrink:
            s2 = shrink_statements(ctx, exe, src, cfg, nenv, probe)
            if s2 != src:
                c2 = confirm_alone(ctx, exe, s2, cfg, nenv, probe, timeout_ms)
                if c2:
                    src, c = s2, c2
        n_repro += 1
        desc = 'js.Minifier{KeepVarNames:%s,Version:%d} %r -> %r : %s (%s; env %d)' % (
            bool(cfg[0]), cfg[1], src[:400], c['pair']['out'][:400], '/'.join(sorted(set(c['why']))), c['detail'][:300], c['env'])
        ctx.report(ident(src, cfg), desc, dict(src=src, cfg=cfg, out=c['pair']['out'], why=c['why'], detail=c['detail']))
    return len(bypair), n_repro


# ---------------------------------------------------------------------------------------------------
def run(ctx):
    quick = ctx.quick()
    stats = {}
    samples = []
    nontrivial = set()
    total_rej = total_repro = 0
    t00 = time.time()

    # ---- build + (MC) design level: rewrite laws, generator automata (run side by side) ---------------
    with ThreadPoolExecutor(max_workers=2) as ex:
        fb = ex.submit(vlib.build_harness, ctx, 'c01')
        fm = ex.submit(gen.model_check, ctx)
        exe = fb.result()
        specinfo = fm.result()
    for r in specinfo.pop('mc_results'):
        ctx.add_mc(r)
    vlib.log('MC stage %.1fs' % (time.time() - t00))

    # ---- (GEN) all generator families ---------------------------------------------------------------
    items = []
    frag = gen.fragment_programs(ctx, specinfo)
    fams = [dict(name='fragment', sources=frag, nenv=3, probe=1, ast=True)] + \
        (gen.families(ctx, exe) if os.environ.get('C01_ONLY', '') != 'fragment' else [])
    nexcl = 0
    batched = {}
    for fam in fams:
        n0 = len(items)
        for s in fam['sources']:
            if gen.excluded(s):
                nexcl += 1
                continue
            items.append(dict(src=s, fam=fam['name'], nenv=fam.get('nenv', 3), probe=fam.get('probe', 1), ast=fam.get('ast', False)))
        batched[fam['name']] = fam.get('batched', False)
        stats['family_' + fam['name']] = dict(programs=len(items) - n0)
    stats['excluded_known_construct'] = nexcl
    # pinned witnesses of known findings ride along (their rejection is expected and reported as KNOWN-FINDING)
    allknown = vlib.known_cases('C01')
    known = [w for w in allknown if not gen.witness_fixed(w.get('id', ''))]
    # witnesses of findings that have been fixed in /repo are ordinary regression programs now
    for w in allknown:
        if gen.witness_fixed(w.get('id', '')):
            items.append(dict(src=w['src'], fam='regress', nenv=4, probe=1, ast=False))
    stats['family_regress'] = dict(programs=len(allknown) - len(known))
    batched['regress'] = False
    vlib.log('generated %d programs (+%d pinned witnesses), %d excluded (known constructs)  %.1fs' % (len(items), len(known), nexcl,
                                                                                                   time.time() - t00))

    # ---- (RUN) real minifier under all configurations, V8 observations; (TV) TLC ----------------------
    t1 = time.time()
    pairs, lines, rej, astlines = run_batch(ctx, exe, items, 'main', stats=stats)
    vlib.log('engine recorder %.1fs' % (time.time() - t1))
    stats['runner_stalls'] = list(STALLS)     # pairs a node worker made no progress on (killed by the watchdog; never a verdict)
    t2 = time.time()
    fr = gen.validate_asts(ctx, pairs, astlines, stats)
    vlib.log('spec recorder %.1fs' % (time.time() - t2))
    evaluations = len(lines) + fr['evaluations']

    observed = set(l['id'] for l in lines)
    byfam = {}
    for p in pairs:
        d = byfam.setdefault(p['fam'], dict(pairs=0, observed=0))
        d['pairs'] += 1
        if p['id'] in observed:
            d['observed'] += 1
            if p['out'] != p['in']:
                nontrivial.add((p['in'], p['out']))
    for k, d in byfam.items():
        stats['family_' + k].update(d)
    for fam in fams:
        ps = [p for p in pairs if p['fam'] == fam['name'] and p['id'] in observed and p['out'] != p['in']]
        for p in ps[:: max(1, len(ps) // 2)][:2]:
            samples.append({'family': fam['name'], 'in': p['in'][:200], 'out': p['out'][:200], 'cfgs': p['cfgs'][:3]})

    # ---- rejections: every rejected pair is re-run alone (fresh processes) before it counts -------------
    t3 = time.time()
    rejp = {}
    for pid, env, why in rej:
        rejp.setdefault(pid, []).append(why)
    for pid in sorted(rejp)[:12]:      # (the rest is counted in `rejections`; 12 reproduced witnesses are enough to read)
        p = pairs[pid]
        cfg, src = p['cfgs'][0], p['in']
        c = confirm_alone(ctx, exe, src, cfg, p['nenv'], p['probe'])
        if not c:
            raise vlib.Infra('rejection did not reproduce in isolation: %r cfg=%s (%s)' % (src[:200], cfg, rejp[pid]))
        if batched.get(p['fam']):
            s2 = shrink_statements(ctx, exe, src, cfg, p['nenv'], p['probe'])
            if s2 != src:
                c2 = confirm_alone(ctx, exe, s2, cfg, p['nenv'], p['probe'])
                if c2:
                    src, c = s2, c2
        total_repro += 1
        ctx.report(ident(src, cfg), 'js.Minifier{KeepVarNames:%s,Version:%d} %r -> %r : %s (%s; env %d)' % (
            bool(cfg[0]), cfg[1], src[:400], c['pair']['out'][:400], '/'.join(sorted(set(c['why']))), c['detail'][:300], c['env']),
            dict(src=src, cfg=cfg, out=c['pair']['out'], why=c['why'], detail=c['detail']))
    total_rej += len(rejp)
    for (src, cfg, why, detail, out) in fr['violations']:
        if any(p['in'] == src and p['id'] in rejp for p in pairs):
            continue                                   # already reported through the engine recorder
        c_spec = gen.confirm_fragment_alone(ctx, exe, src, cfg, run_sources)
        if not c_spec:
            raise vlib.Infra('fragment rejection did not reproduce in isolation: %r %s' % (src, cfg))
        total_rej += 1
        total_repro += 1
        ctx.report(ident(src, cfg), 'js.Minifier{KeepVarNames:%s,Version:%d} %r -> %r : %s (%s)' % (
            bool(cfg[0]), cfg[1], src, out, why, c_spec), dict(src=src, cfg=cfg, out=out, why=why))

    # ---- pinned witnesses of known findings: one batch, each its own program/configuration ---------------
    if known:
        kst = {}
        byid = {}
        for w in known:
            byid.setdefault((w['keep'], w['version']), []).append(w)
        for (keep, ver), ws in sorted(byid.items()):
            kitems = [dict(src=w['src'], fam='known', nenv=w.get('nenv', 4), probe=1, ast=False) for w in ws]
            kp, kl, kr, _ = run_batch(ctx, exe, kitems, 'known-%d-%d' % (keep, ver), timeout_ms=400, cfgs=[[keep, ver]], stats=kst)
            L = dict(((l['id'], l['env']), l) for l in kl)
            failing = {}
            for pid, env, why in kr:
                failing.setdefault(kp[pid]['src_id'], (kp[pid], env, why))
            for i, w in enumerate(ws):
                if i in failing:
                    p, env, why = failing[i]
                    ctx.report(ident(w['src'], [keep, ver]), 'js.Minifier{KeepVarNames:%s,Version:%d} %r -> %r : %s (%s)' % (
                        bool(keep), ver, w['src'], p['out'], why, first_difference(L[(p['id'], env)])[:200]))
                else:
                    stats['known_witness_no_longer_fails'] = stats.get('known_witness_no_longer_fails', 0) + 1
                    vlib.log('note: pinned witness no longer fails:', w.get('id'), w['src'])
    vlib.log('rejections + known %.1fs' % (time.time() - t3))

    ctx.coverage.update(dict(
        traces_validated_against_impl=stats.get('engine_accepted', 0) + fr['spec_accepted'],
        evaluations=evaluations,
        distinct_nontrivial=len(nontrivial),
        rule='case = (program text, group of minifier configurations {KeepVarNames}x{Version 0,2015..2022} with identical output, '
             'environment); programs: TLC-generated fragment programs (JsGen: exhaustive dumps of the flow/expression/nullish production '
             'sets + TLC -simulate walks over all productions), precedence matrix (ECMA-262 operator table, every ordered operator pair, '
             'both groupings, 7 operand preambles), literal matrix (string escapes x quotes x following char x context; templates; numeric '
             'literal forms incl. NumGen lexemes in 60 syntactic contexts; regular expression escapes), ASI/adjacency programs, structural '
             'forms, inputs of js/js_test.go and util_test.go (as is, "use strict", as function body, as argument), tests/js/corpus (files '
             'and every function of them); non-trivial = DISTINCT (input text, output text) pairs with output != input whose execution '
             'was observed inside the domain (input valid, terminating, deterministic).  Generator exclusions (genuine defects on the '
             'unchanged tree; pinned witnesses in known/C01.ndjson are replayed instead): ' + '; '.join(gen.EXCLUSION_NOTES),
        samples=samples[:14],
        rejections=total_rej,
        rejections_reproduced=total_repro,
        stats=stats,
        spec=specinfo.get('evidence', {}),
    ))
    ctx.assumptions += [
        'V8 (node v20 vm contexts) is the reference semantics outside the TLA+ fragment; acorn 8.16 (bundled with node) is the '
        'independent parser; TLC evaluates ObsEq on recorded observations (JsObs) and JsCore.Run on ASTs (C01Ast)',
        'observation = host calls (incl. property get/set/valueOf on host objects, callbacks invoked by hosts), final globals (global '
        'object properties and global lexical bindings), completion, and the behaviour of global functions when a later script '
        'calls them (probes); function source text, .name/.length, regex source and engine message wording are not serialised',
        'programs whose input is rejected by V8 as a script, times out, is nondeterministic, throws a TDZ ReferenceError, mentions '
        'eval/Function, or has Annex-B block function clashes are outside the domain and counted as skipped; output bytes that are '
        'not valid UTF-8 are decoded with U+FFFD like a browser would',
        'JsCore.Run is cross-checked against V8 on every fragment program under several environments of the spec environment '
        'space; a disagreement is exit 2 (specification bug), never a verdict',
    ]


def replay(ctx, obj):
    exe = vlib.build_harness(ctx, 'c01')
    c = obj['case']
    r = confirm_alone(ctx, exe, c['src'], [c['keep'], c['version']], 4, 1)
    print('input :', c['src'])
    if r:
        print('output:', r['pair']['out'])
        print('rejected by TLC (JsObs):', r['why'], '-', r['detail'])
        print('VIOLATION property=C01 replay=given')
        return 1
    r2 = gen.confirm_fragment_alone(ctx, exe, c['src'], [c['keep'], c['version']], run_sources)
    if r2:
        print('rejected by TLC (C01Ast):', r2)
        print('VIOLATION property=C01 replay=given')
        return 1
    print('no longer violates')
    return 0


META = dict(
    category='model_checking',
    text='TLA+ big-step semantics of the JS fragment the minifier rewrites act on (JsCore), rewrite laws model-checked by TLC '
         'for all operand instantiations and environments (JsLaws), generator automaton of programs (JsGen); every generated program '
         'and the matrices/test inputs/corpus are minified by the real js.Minifier under all configurations; TLC evaluates Run on '
         'acorn ASTs of input and output for every environment (C01Ast) and ObsEq on observations recorded from V8 (JsObs).',
    design_ref='DESIGN.md section 4, C01',
    note='Trusted: TLC, V8 as reference engine, acorn as independent parser; JsCore is cross-checked against V8 on every '
         'fragment program. Outside the fragment the oracle is V8 under seeded environments (sampled, not exhaustive).',
    technique='TLA+ semantics + generator automaton, TLC trace validation of ASTs and engine observations',
)
