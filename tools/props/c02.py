"""C02  JS identifier shortening is capture-free and leaves public names alone.

MC : spec/JsRenamer.tla - design model of renameScope/isReserved/getName (js/vars.go) and of the order of
     its call sites (js/js.go) over a reduced alphabet, model-checked against the scoping relation of
     spec/JsScope.tla for ALL scope trees in the bound (CaptureFree, NoCollision, PublicUnchanged,
     NoReserved, WithOwn); its finished states are the scope trees that get rendered to programs.
GEN: MC trees rendered to JS (every lexical scope kind), pressure programs (55..3600 bindings in one
     scope, free variables named like generated names, shadowing chains, loop closures, parameter
     defaults/destructuring, class/method/getter scopes, labels, hoisting, with, modules), seeded random
     nestings, and the repository's own JS test inputs.
RUN: harness/cmd/c02 minifies every program twice with the real js.Minifier (KeepVarNames on/off);
     js/scope.js (acorn - independent of tdewolff/parse) projects both outputs to syntactic scope facts
     with both spellings per occurrence and executes both outputs in V8.
TV : spec/C02Trace.tla - TLC resolves every occurrence in both worlds (JsScope.ResolveAll) and evaluates
     every clause of the property per program.
"""
import json
import os
import re
from concurrent.futures import ThreadPoolExecutor

import vlib
from props import c02_gen as G

JS = os.path.join(vlib.ROOT, 'js', 'scope.js')

# witnesses of findings that have been fixed in /repo (known/C02.txt, `fixed:` lines): ordinary cases now
REGRESSION = [
    "function g(){ var y=1; function f(o){ with(o){ return y } } return f({y:2}) } out(g())",
    "{ let x = 1; with({x:2}){ out(x) } }",
    "function f(s){class i{static{let l=s+\"s\";let e=l;out(l,e)}}}f(\"A\")",
    "function main(){var q=\"Q\";(function(){var e=\"I\";out(q,e);with({}){}})()}main()"
]


# ------------------------------------------------------------------------------------------------
# pipeline: cases -> real minifier (twice) -> acorn projection + V8 -> TLC
# ------------------------------------------------------------------------------------------------
def minify_and_project(ctx, exe, cases, tag, procs=None):
    """cases: list of dict(id=, src=).  Returns the projected lines (dicts), same order."""
    cin = ctx.path('run', tag + '-cases.ndjson')
    dout = ctx.path('run', tag + '-min.ndjson')
    vlib.write_ndjson(cin, [dict(id=c['id'], src=c['src'], ver=c.get('ver', 0)) for c in cases])
    vlib.run([exe, cin, dout], timeout=1800)
    lines = [l for l in open(dout) if l.strip()]
    if len(lines) != len(cases):
        raise vlib.Infra('driver wrote %d lines for %d cases' % (len(lines), len(cases)))
    procs = max(1, min(procs or vlib.JOBS, len(lines) // 50 + 1))
    parts = []
    for k in range(procs):
        p = ctx.path('run', '%s-min-%d.ndjson' % (tag, k))
        with open(p, 'w') as f:
            f.writelines(lines[k::procs])
        parts.append(p)

    def one(k):
        o = ctx.path('run', '%s-proj-%d.ndjson' % (tag, k))
        vlib.run(['node', '--expose-internals', '--stack-size=4000', JS, parts[k], o, '--exec'], timeout=1800)
        return vlib.read_ndjson(o)

    with ThreadPoolExecutor(max_workers=procs) as ex:
        res = list(ex.map(one, range(procs)))
    out = [None] * len(lines)
    for k in range(procs):
        for j, e in enumerate(res[k]):
            out[k + j * procs] = e
    mins = [json.loads(l) for l in lines]
    for i, e in enumerate(out):
        if e is None or e['id'] != cases[i]['id']:
            raise vlib.Infra('projection lost case %d' % i)
        e['_keep_text'] = mins[i]['keep']
        e['_ren_text'] = mins[i]['ren']
    return out


JUDGED = ('ok', 'mismatch', 'lex')


def strip(e):
    return {k: v for k, v in e.items() if not k.startswith('_')}


def validate(ctx, proj, tag):
    """TLC on the judged lines; returns (accepted, {case index: [why]})"""
    vlib._speccopy(ctx)      # scratch copy of spec/ made before the parallel shards start
    idx = [i for i, e in enumerate(proj) if e['st'] in JUDGED or e['st'] == 'rejected']
    lines = [json.dumps(strip(proj[i]), separators=(',', ':')) for i in idx]
    accepted, rejects = vlib.tlc_trace(ctx, 'C02Trace', 'C02Trace.cfg', lines, min_per_shard=150, heap='3g')
    why = {}
    for k, w in rejects:
        why.setdefault(idx[k], []).append(w)
    return accepted, why


# ------------------------------------------------------------------------------------------------
# generators
# ------------------------------------------------------------------------------------------------
def mc_trees(ctx):
    """exhaustive model checking of the design model; returns the emitted scope trees"""
    cfgs = ['JsRenamer_quick.cfg', 'JsRenamer_withq.cfg', 'JsRenamer_with3q.cfg', 'JsRenamer_withnames.cfg', 'JsRenamer_flatq.cfg'] if ctx.quick() else \
        ['JsRenamer_thorough.cfg', 'JsRenamer_three.cfg', 'JsRenamer_with.cfg', 'JsRenamer_with3.cfg', 'JsRenamer_withnames.cfg', 'JsRenamer_flat.cfg']
    w = max(2, min(8, vlib.JOBS // 2))

    def mc(cfg):
        return vlib.tlc_mc(ctx, 'JsRenamer', cfg, workers=w, heap='6g', timeout=3000)

    # wrong-design guards: the model constants of the behaviour BEFORE fix 1b51557 (OldWith = TRUE: only the innermost
    # function of a with keeps its names) must still violate WithCross / CaptureFree - if they stop doing so the
    # invariants have lost their teeth (machinery problem, exit 2)
    def cross(_):
        return vlib.tlc(ctx, 'JsRenamer', 'JsRenamer_withcross.cfg', workers=2, timeout=1200)

    def inner(_):
        return vlib.tlc(ctx, 'JsRenamer', 'JsRenamer_withinner.cfg', workers=2, timeout=1200)

    def flatg(_):
        # ... and the order "renameScope(parent) first, bindings of flattened blocks move in afterwards"
        return vlib.tlc(ctx, 'JsRenamer', 'JsRenamer_flatguard.cfg', workers=2, timeout=1200)

    vlib._speccopy(ctx)      # the scratch copy of spec/ is made once, before the parallel TLC runs
    with ThreadPoolExecutor(max_workers=len(cfgs) + 3) as ex:
        fx = ex.submit(cross, None)
        fi = ex.submit(inner, None)
        ff = ex.submit(flatg, None)
        results = list(ex.map(mc, cfgs))
        rx = fx.result()
        ri = fi.result()
        rf = ff.result()
    trees = []
    for cfg, r in zip(cfgs, results):
        n0 = len(trees)
        for m in re.finditer(r'<<"TREE", "((?:[^"\\]|\\.)*)">>', r['out']):
            trees.append(json.loads(json.loads('"' + m.group(1) + '"')))
        ctx.coverage.setdefault('mc_runs', []).append(dict(cfg=cfg, states=r['distinct'], trees=len(trees) - n0,
                                                            wall_s=round(r['wall'], 1)))
    g1, g2 = 'WithCross' in rx['invariant_violations'], 'CaptureFree' in ri['invariant_violations']
    ctx.coverage['old_design_guard_WithCross_violated'] = g1
    ctx.coverage['old_design_guard_WithInner_violated'] = g2
    g3 = 'CaptureFree' in rf['invariant_violations']
    ctx.coverage['wrong_order_guard_MoveAfterRename_violated'] = g3
    if not (g1 and g2 and g3):
        raise vlib.Infra('wrong-design guard no longer violates (withcross=%s withinner=%s flatguard=%s)' % (g1, g2, g3))
    return trees


def build_cases(ctx, trees):
    rnd = ctx.rnd
    quick = ctx.quick()
    cases = []
    seen = set()

    def add(src, origin, generated=True, ver=None):
        # js.Minifier.Version: what reaches the renamer depends on it (an unused catch parameter is dropped from
        # ES2019 on), so generated programs are spread over the targets; repository inputs run with the default
        if ver is None:
            ver = rnd.choice([0, 0, 0, 5, 2015, 2018, 2019, 2020]) if generated else 0
        if (src, ver) in seen:
            return
        seen.add((src, ver))
        cases.append(dict(id=len(cases), src=src, ver=ver, origin=origin, generated=generated))

    # (0) witnesses of fixed findings
    for src in REGRESSION:
        add(src, 'regression', ver=0)
    # (1) model trees
    ctx.coverage['mc_trees'] = len(trees)
    pick = vlib.sample(trees, 1500 if quick else 60000, rnd)
    for t in pick:
        add(G.render_tree(t, rnd), 'mc')
    # (2) pressure
    sizes = [55, 56, 60, 120, 300, 1000, 3000, 3600] if quick else \
        [55, 56, 57, 58, 60, 64, 100, 120, 200, 300, 500, 1000, 1500, 2000, 2900, 3000, 3510, 3520, 3600, 4000]
    kws = ['var', 'let', 'const', 'param', 'mix', 'onevar']
    for n in sizes:
        for kw in (rnd.sample(kws, 2) if quick else kws):
            if kw == 'param' and n > 3000:
                continue
            free = rnd.sample(G.ONE + G.TWO, rnd.choice([0, 3, 10]))
            add(G.many_bindings(n, kw, rnd, free=free, uses=rnd.choice(['some', 'all'])), 'pressure/many')
    reps = 1 if quick else 8
    for _ in range(20 * reps):
        add(G.free_like_generated(rnd, rnd.choice([1, 2, 5, 20, 54])), 'pressure/free')
        add(G.shadow_chain(rnd, rnd.choice([2, 3, 4, 5])), 'pressure/shadow')
        add(G.loop_closures(rnd), 'pressure/loop')
        add(G.params_defaults(rnd), 'pressure/params')
        add(G.class_scopes(rnd), 'pressure/class')
        add(G.labels_like_generated(rnd), 'pressure/label')
        add(G.inner_uses_outer_and_global(rnd), 'pressure/innerglobal')
        for _ in range(3):
            add(G.hoisting(rnd), 'pressure/hoist')
        add(G.with_own(rnd), 'pressure/with')
        for _ in range(3):
            add(G.with_nested_then_scope(rnd), 'pressure/withnested')
        add(G.module_program(rnd), 'pressure/module')
    # the whole product of flow contexts x block shapes, once with uniformly drawn short names and once with the
    # moved bindings spelled like the very first generated names
    for rep_ in range(1 if quick else 8):
        for k in range(G.N_FLATTEN):
            add(G.flatten_blocks(rnd, k, first=False), 'pressure/flatten')
            add(G.flatten_blocks(rnd, k, first=True), 'pressure/flatten')
    for _ in range(12 if quick else 120):
        src = G.catch_unused(rnd)
        for v in G.VERSIONS:
            add(src, 'pressure/catchunused', ver=v)
    for k in range(len(G.NESTED_FN) * len(G.LATER_SCOPE)):
        add(G.with_nested_then_scope(rnd, k), 'pressure/withnested')
    # (3) random nestings
    for _ in range(400 if quick else 16000):
        add(G.random_program(rnd, maxdepth=rnd.choice([2, 3, 4])), 'random')
    # (4) the repository's own inputs (code -> spec direction)
    try:
        rows = vlib.test_inputs(ctx, 'js')
    except vlib.Infra:
        rows = []
    n = 0
    for r in rows:
        if r['strings'] and r['func'] in ('TestJS', 'TestJSVarRenaming'):
            add(r['strings'][0], 'repo', generated=False)
            n += 1
    ctx.coverage['repo_inputs'] = n
    return cases


# a repository input is outside the quantifier when it has a function declaration nested in a block (sloppy-mode
# Annex B.3.3 semantics are not modelled in JsScope).  Inputs with `with` are judged like all others.
def drift(ctx, exe, trees):
    """D vs C (information only): the model's prediction with the real alphabet against the real output"""
    pick = vlib.sample(trees, 500 if ctx.quick() else 6000, ctx.rnd)
    # every second tree is respelled so that declared and free names coincide with the first names the real
    # alphabet hands out (e t n s): only then does the comparison see which names the code avoids
    sub = {'x': 'e', 'y': 't', 'a': 'n', 'ba': 's'}

    def respell(t):
        us = []
        for u in t['units']:
            u = dict(u)
            for f in ('ps', 'ls', 'vs', 'us'):
                u[f] = [sub.get(n, n) for n in u[f]]
            us.append(u)
        return dict(t, units=us)
    pick = [respell(t) if k % 2 else t for k, t in enumerate(pick)]
    cases = [dict(id=i, src=G.render_plain(t)) for i, t in enumerate(pick)]
    proj = minify_and_project(ctx, exe, cases, 'drift')
    lines, kept = [], []
    for t, c, e in zip(pick, cases, proj):
        if e['st'] != 'ok':
            continue
        lines.append(dict(units=t['units'], pairs=sorted(set(zip(e['keep'], e['ren'])))))
        kept.append((c, e))
    if not lines:
        return
    vlib._speccopy(ctx)
    accepted, rejects = vlib.tlc_trace(ctx, 'C02Drift', 'C02Drift.cfg', lines, min_per_shard=150)
    ctx.coverage['design_model_predictions_compared'] = len(lines)
    ctx.coverage['design_model_drift'] = len(rejects)
    ctx.coverage['design_model_drift_samples'] = [
        dict(src=kept[k][0]['src'], shortened=kept[k][1]['_ren_text']) for k, _ in rejects[:3]]
    if rejects:
        vlib.log('C02: DRIFT (information, not a verdict): %d of %d model predictions differ from the code' % (len(rejects), len(lines)))


def repo_skip(c, e):
    if e.get('blockfn'):
        return 'blockfn'
    return None


def ident(c):
    # identity of a witness: the program, plus the target version when it is not the default
    return dict(src=c['src']) if not c.get('ver') else dict(src=c['src'], ver=c['ver'])


def describe(c, e, why):
    src = c['src'] if len(c['src']) < 300 else c['src'][:300] + '...(%d bytes)' % len(c['src'])
    kt, rt = e.get('_keep_text', ''), e.get('_ren_text', '')
    if len(kt) > 300:
        kt = kt[:300] + '...'
    if len(rt) > 300:
        rt = rt[:300] + '...'
    return '%s: %s%s  => keep: %s  => shortened: %s' % ('/'.join(sorted(set(why))), '[Version %d] ' % c['ver'] if c.get('ver') else '', src, kt, rt)


def run(ctx):
    import time
    t0 = time.time()
    exe = vlib.build_harness(ctx, 'c02')
    trees = mc_trees(ctx)
    vlib.log('C02: build+MC %.0fs, %d trees' % (time.time() - t0, len(trees)))
    cases = build_cases(ctx, trees)
    pinned = vlib.known_cases('C02')
    for p in pinned:
        cases.append(dict(id=len(cases), src=p['src'], ver=p.get('ver', 0), origin='pinned', generated=False))
    proj = minify_and_project(ctx, exe, cases, 'main')
    vlib.log('C02: %d cases minified and projected at %.0fs' % (len(cases), time.time() - t0))

    # what is outside the quantifier (decided by input syntax / by the minifier refusing the input)
    stat = {}
    for c, e in zip(cases, proj):
        stat[e['st']] = stat.get(e['st'], 0) + 1
        if c['origin'] == 'repo':
            sk = repo_skip(c, e)
            if sk:
                e['st_orig'] = e['st']
                e['st'] = 'skip:' + sk
        if c['generated'] and e['st'] in ('error', 'unsupported', 'rejected'):
            raise vlib.Infra('generated program not processable (%s: %s): %s' % (e['st'], e['why'], c['src'][:400]))
    # name-keeping output that acorn refuses (var hoisted next to a let of the same name, see C09): there is no
    # reference world to compare with; not judged, counted, and bounded
    nkb = [c['src'] for c, e in zip(cases, proj) if c['generated'] and e['st'] == 'keepbad']
    ctx.coverage['keep_output_unparseable'] = len(nkb)
    ctx.coverage['keep_output_unparseable_sample'] = nkb[:2]
    if len(nkb) > 0.10 * sum(1 for c in cases if c['generated']):
        raise vlib.Infra('%d generated programs have an unparseable name-keeping output: %s' % (len(nkb), nkb[0][:300]))
    ngen = sum(1 for c in cases if c['generated'])
    nmis = sum(1 for c, e in zip(cases, proj) if c['generated'] and e['st'] == 'mismatch')
    if nmis > 0.02 * ngen:
        ex = [(c['src'][:200], e['why']) for c, e in zip(cases, proj) if c['generated'] and e['st'] == 'mismatch'][:3]
        raise vlib.Infra('%d of %d generated programs have structurally different outputs: %r' % (nmis, ngen, ex))
    for e in proj:
        if e['st'].startswith('skip:') or e['st'] in ('error', 'keepbad', 'unsupported'):
            e['_judged'] = False
        else:
            e['_judged'] = True
    judged = [e for e in proj if e['_judged']]
    # TLC
    idx = [i for i, e in enumerate(proj) if e['_judged']]
    accepted, why = validate(ctx, [proj[i] for i in idx], 'main')
    why = {idx[k]: w for k, w in why.items()}
    vlib.log('C02: TLC validated %d programs at %.0fs (%d rejected)' % (len(idx), time.time() - t0, len(why)))
    drift(ctx, exe, trees)
    vlib.log('C02: drift comparison done at %.0fs' % (time.time() - t0))

    # every rejected program is minified and projected again ALONE (fresh driver and node processes) and
    # re-validated (one TLC run over the re-recorded lines) before it counts
    reproduced = 0
    bad = sorted(why)
    if len(bad) > 60:
        vlib.log('C02: %d rejections, re-running the first 60' % len(bad))
        bad = bad[:60]
    re_lines = []
    for i in bad:
        p1 = minify_and_project(ctx, exe, [dict(id=0, src=cases[i]['src'], ver=cases[i].get('ver', 0))], 'rerun%d' % i, procs=1)
        if p1[0]['st'] not in JUDGED:
            raise vlib.Infra('rejected case is not judgeable in isolation: %s' % cases[i]['src'][:300])
        re_lines.append(p1[0])
    if bad:
        _, w1 = validate(ctx, re_lines, 'rerun')
        for k, i in enumerate(bad):
            c = cases[i]
            if k in w1:
                reproduced += 1
                ctx.report(ident(c), describe(c, re_lines[k], w1[k]),
                           replay_obj=dict(keep=re_lines[k]['_keep_text'][:4000], shortened=re_lines[k]['_ren_text'][:4000],
                                           clauses=w1[k]))
            else:
                raise vlib.Infra('rejection (%s) did not reproduce in isolation: %s' % ('/'.join(why[i]), c['src'][:300]))
    for p in pinned:
        i = next(k for k, c in enumerate(cases) if c['origin'] == 'pinned' and c['src'] == p['src'])
        if i not in why:
            vlib.log('note: pinned witness no longer rejected (fixed?):', p['src'][:120])

    # evidence
    nontrivial = set()
    changed_occ = 0
    samples = []
    origins = {}
    for c, e in zip(cases, proj):
        if not e['_judged']:
            continue
        origins[c['origin']] = origins.get(c['origin'], 0) + 1
        if e['st'] == 'ok' and e['keep'] != e['ren']:
            nontrivial.add(c['src'])
            changed_occ += sum(1 for a, b in zip(e['keep'], e['ren']) if a != b)
            if len(samples) < 5 and len(c['src']) < 260 and (len(nontrivial) % 97 == 1):
                samples.append(dict(origin=c['origin'], src=c['src'], keep=e['_keep_text'], shortened=e['_ren_text']))
    longest = max((len(b) for e in judged if e['st'] == 'ok' for a, b in zip(e['keep'], e['ren']) if a != b), default=0)
    ctx.coverage.update(dict(
        traces_validated_against_impl=accepted,
        evaluations=len(judged),
        distinct_nontrivial=len(nontrivial),
        occurrences_respelled=changed_occ,
        by_origin=origins,
        projection_status=stat,
        structurally_different_outputs=nmis,
        rejections=len(why), rejections_reproduced=reproduced,
        longest_generated_name=longest,
        rule='a case is one program minified with KeepVarNames on and off; non-trivial = both outputs have the same '
             'tree and at least one occurrence is spelled differently. Generators exclude the narrow constructs of the '
             'remaining known findings (known/C02.txt, all scoping defects of the parse dependency; witnesses pinned and '
             'replayed on every run): (1) a loop body block that re-declares the loop variable name and refers to it '
             'before the inner declaration; (2) var inside a class static block; (3) parameter defaults/patterns and '
             'array/object literals with identifiers inside an object-literal method written inside a parenthesised '
             'expression; (4) a function whose parameter default references a name that its body declares with var, or '
             'declares at all when the function has a rest parameter. Model trees with a flattened block never refer, '
             'outside the block, to a name the block declares (the flattening itself then changes the name-keeping '
             'output - reported to C01). Generated programs are spread over js.Minifier.Version 0/5/2015/2018/2019/2020. Repository inputs with a function declaration '
             'nested in a block (Annex B.3.3 not modelled) are outside the quantifier: counted in projection_status, '
             'not judged. Programs whose name-keeping output does not parse (var hoisted next to a let of the same '
             'name - a C09 matter) have no reference world: counted in keep_output_unparseable, not judged',
        samples=samples,
    ))
    ctx.assumptions += [
        'acorn 8 (node internal) parses both outputs; ECMAScript static scoping as written in spec/JsScope.tla '
        '(var/function hoisting, parameter scope vs body scope, named function/class expression scopes, for/switch/'
        'catch/class/static-block scopes, implicit arguments); sloppy-mode block-level function hoisting (Annex B.3.3) not modelled',
        'outputs whose trees differ beyond the position of var keywords, a,b statement splitting and shorthand '
        'properties are judged only on the spelling-level clauses and by execution',
        'V8 (node vm) executes both outputs with every free identifier of the input predefined; only the kind of an '
        'exception is observed, not its message',
    ]


def replay(ctx, obj):
    exe = vlib.build_harness(ctx, 'c02')
    src = obj['case']['src']
    p1 = minify_and_project(ctx, exe, [dict(id=0, src=src, ver=obj['case'].get('ver', 0))], 'replay', procs=1)
    e = p1[0]
    print('input     :', src[:2000])
    print('keep      :', e['_keep_text'][:2000])
    print('shortened :', e['_ren_text'][:2000])
    print('projection:', e['st'], e['why'])
    if e['st'] not in JUDGED:
        print('not judgeable')
        return 2
    _, w = validate(ctx, p1, 'replay')
    if 0 in w:
        print('rejected by:', ', '.join(w[0]))
        print('VIOLATION property=C02 replay=given')
        return 1
    print('accepted')
    return 0


META = dict(
    category='model_checking',
    text='Design model of the renamer (JsRenamer.tla: renameScope/isReserved/getName over a reduced alphabet, parents '
         'before children, nondeterministic tie order) model-checked exhaustively against ECMAScript static scoping '
         'written in TLA+ (JsScope.tla) for all scope trees in the bound; the same scoping relation is evaluated by '
         'TLC on the real minifier\'s two outputs (KeepVarNames on/off) of every generated program, occurrence by '
         'occurrence: same binding scope, one-to-one spelling map per scope, free/top-level/property/label/module '
         'names unchanged, no reserved word, with-functions unchanged, nothing new with name keeping; V8 executes '
         'both outputs as behavioural cross-check.',
    design_ref='DESIGN.md section 4, C02; Appendix A.4',
    note='Trusted: TLC, acorn (syntax only), V8. Resolution is defined in TLA+, not taken from any parser. Known '
         'findings pinned in known/C02.*.',
    technique='TLA+ design model + scoping semantics; TLC trace validation of keep/shortened output pairs',
)
