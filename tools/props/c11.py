"""C11  Embedded resources are minified exactly as their own minifier would.

MC : spec/Embed.tla - design model of the host loops' bookkeeping (captured type attribute, reset at
     start tags, one nested dispatch per slot, stop at a nested failure) composed with the registry of
     C15, checked against the abstract law (NoLeak, OneEnterPerServedSlot, FailStops,
     AbsentPassesThrough) over every configuration x host within the bound; the same run prints every
     (configuration, host) pair.
GEN: those pairs, rendered with payloads that stress re-escaping, extra registrations beyond the menu,
     TLC -simulate walks to longer hosts/configurations.
RUN: harness/cmd/c11 renders each host, builds a real minify.M with recording stubs / recording
     wrappers around the real minifiers, calls the real html/svg/css minifier and projects the
     output with independent parsers (x/net/html, encoding/xml, url() scanner, RFC 2397 decoder).
TV : spec/C11Trace.tla - TLC rebuilds the abstract registry per line and evaluates the commutation
     law slot by slot against the nested call log and the decoded output slots.
"""
import json
import os
import re
import time

import vlib

PID = 'C11'
PAT_SRC = {1: r'^text/', 2: r'[/+]xml$', 3: r'.*', 4: r'^(application|text)/(x-)?(java|ecma)script$',
           5: r'image/.*', 6: r'[/+]json$'}
CLAUSES = {
    'ABSENT': 'no minifier registered for the type: the embedded bytes must pass through unchanged',
    'NOCALL': 'no nested call for an embedded resource whose media type has a minifier',
    'WRONGMIN': 'embedded resource served by the wrong minifier (media type selection / dispatch)',
    'PARAMS': 'nested call got the wrong parameters',
    'PAYLOAD': 'nested call did not receive the embedded content',
    'ORACLE': 'stub fixture disagrees with StubOut (machinery)',
    'DIRECT': 'nested result differs from the same minifier called directly on the content',
    'SWALLOWURI': 'failure of the embedded minifier swallowed (data URI)',
    'SWALLOW': 'failure of the embedded minifier swallowed: the outer call did not fail',
    'LOCATED': 'outer error is not located inside the embedding construct of the outer document',
    'SLOTOUT': 'the slot of the output does not decode to exactly what the nested call returned',
    'PANIC': 'panic',
    'AFTERFAIL': 'nested calls continue after a nested failure',
    'EXTRACALL': 'a nested call that belongs to no embedded resource (state leaking between elements)',
    'OUTERFAIL': 'outer call failed although no embedded minifier failed',
    'OUTBAD': 'output is not well-formed for the host syntax',
}


def B(s):
    return list(s.encode('latin1')) if isinstance(s, str) else list(s)


def lat(x):
    return bytes(x).decode('latin1')


# ---- reading TLC's printed values -------------------------------------------------------------
TOK = re.compile(r'<<|>>|"[^"]*"|-?\d+|,')


def parse_value(toks, i):
    t = toks[i]
    if t == '<<':
        out = []
        i += 1
        while toks[i] != '>>':
            if toks[i] == ',':
                i += 1
                continue
            v, i = parse_value(toks, i)
            out.append(v)
        return out, i + 1
    if t.startswith('"'):
        return t[1:-1], i + 1
    return int(t), i + 1


def printed(out, tag):
    """all values <<"tag", ...>> printed by PrintT (possibly wrapped over several lines)"""
    res = []
    for m in re.finditer(r'<<\s*"%s"' % tag, out):
        toks = []
        depth = 0
        for t in TOK.finditer(out, m.start()):
            toks.append(t.group(0))
            if t.group(0) == '<<':
                depth += 1
            elif t.group(0) == '>>':
                depth -= 1
                if depth == 0:
                    break
        v, _ = parse_value(toks, 0)
        res.append(v)
    return res


# ---- payloads -------------------------------------------------------------------------------------
JS_RAW = ['var a = 1 ;', 'if ( a ) { b ( ) }', 'x = "a\'b" + 1 ;', 'var s = "<b>&amp;</b>" ;', 'a = b < c && d > e ;',
          'a = "100%" ; b = "#x" ;', 'function f ( a , b ) { return a + b }\nf ( 1 , 2 ) ;', 'var a = 1 ;\nvar b = 2 ;\n']
JS_ATTR = [' x = 1 ', 'javascript: f ( 1 ) ', 'JavaScript:a ( "q" )', 'a("x\'y")', 'a ( "&lt;" , \'&amp;\' )',
           'if ( a < b && c > d ) e ( )', 'a = "100%" + "#x" ; b ( )', 'a ( \'"\' ) ; b ( "\'" )', 'a = `x` ; b = 1 > 2']
JS_BAD = ['var a = ;', 'a ( ; b', 'var a = 1 ;\nvar b = ;', 'f ( 1 ) ;\n\ng ( ; 2']     # syntax errors on the first or a later line
CSS_RAW = ['a { color : red }', 'a > b { margin : 0 0 0 0 }', 'a::before { content : "<&>" }',
           'a { background : url( "x.png" ) }', '@media print { a { color : #ff0000 } }', 'a { color : red }\nb { color : blue }\n']
CSS_ATTR = ['color : red ; margin : 0 0 0 0', ' content : "a\'b" ', "content : 'a\"b&amp;c'", 'width : 50% ; color : #aabbcc',
            'background : url( x.png?a=1&b=2 )', 'content : "<x>" ; color : red', 'color:red']
CSS_SVGTEXT = ['a{color:red}', 'a>b{margin:0 0 0 0}', 'a::before{content:"x\'y"}', '.c{fill:#ff0000;stroke:rgb(0,0,0)}',
               'a{width:50%}']
CSS_CDATA = ['a{color:red}', 'a>b{content:"<&>"}', 'a{content:"x\'y"}', '.c{fill:#ff0000}', 'a[b="]"]>c{d:e}',
             'a{content:"x  y"}', 'a{content:"] ]>"}', 'a { color : red }  b{content:"p   q"}']
CSS_SVGATTR = ['fill:red', 'content:"<&\'"', "content:'a\"b'", 'fill:#ff0000;stroke:rgb(0,0,0)', 'width:50%']
HTML_RAW = ['<p> a  b </p>', '<b>x</b>   <i>y</i>', 'text   &amp; more', '<p>a</p>\n<p>b</p>']
SVG_DOC = ['<svg><rect x="10.0" y="0"/></svg>', '<svg viewBox="0 0 10 10"><path d="M 10 10 L 20 20"/></svg>',
           '<svg><style>a { color : red }</style><g/></svg>', '<svg><rect style="fill : red"/></svg>',
           '<svg width="100px"><text>a &amp; b</text></svg>']
# svg documents that carry their namespace (inline mode drops it, a data: URI or standalone svg must keep it) / a literal +
SVG_NS = ['<svg xmlns="http://www.w3.org/2000/svg"><rect x="10.0" y="0"/></svg>',
          '<svg xmlns="http://www.w3.org/2000/svg" viewBox="0 0 10 10"><path d="M 10 10 L 20 20"/></svg>',
          '<svg xmlns="http://www.w3.org/2000/svg"><text>a + b</text>   <g/>   </svg>',
          '<svg xmlns="http://www.w3.org/2000/svg"><text x="1">1+1</text>      </svg>']
MATH_DOC = ['<math><mi> x </mi><mo>+</mo></math>', '<math><mrow><mn>1</mn></mrow></math>']
JSON_RAW = ['{ "a" : 1 , "b" : [ 1 , 2 ] }', '{ "@context" : "https://schema.org" , "n" : 1.0 }']
TEMPLATE_RAW = ['<p>  {{ x }}  </p>', '<div class="a">  b </div>']
PLAIN = ['hello   world   #1 100% & more   text   here', 'it\'s  "quoted"  text      here  <b>', 'a b c d e f g h i j k l m n o p']
BINARY = [bytes(range(0, 64)).decode('latin1') + ' ' * 10, ''.join(chr(c) for c in (200, 32, 201, 32, 10, 0, 37, 35, 255)) + 'x y z  w']
TMPL = {'script': ['{{ x }}', 'var a={{ x }};', 'f({{ x }})'], 'style': ['a{color:{{ c }}}', '{{ s }}'], 'iframe': ['{{ x }}<p>a</p>']}
EXTRA_ATTRS = {'script': ['', ' src=x.json', ' async', ' defer', ' nonce=n'], 'style': ['', ' media=print', ' nonce=n'],
               'iframe': ['', ' src=x.html', ' title=t']}
TYPES = {'tjs': 'text/javascript', 'jscs': 'text/javascript; charset=UTF-8', 'mod': 'module', 'ld': 'application/ld+json',
         'tpl': 'text/template', 'css': 'text/css', 'scss': 'text/x-scss'}


def payloads_for(kind, typ, mt, served):
    """candidate payloads for a slot (generation only); `served` = behaviour of the entry expected to serve it"""
    if kind == 'script':
        if typ == 'application/ld+json':
            return JSON_RAW
        if typ == 'text/template':
            return TEMPLATE_RAW
        return JS_RAW + (JS_BAD if served == 'real' else [])
    if kind == 'style':
        return CSS_RAW
    if kind == 'iframe':
        return HTML_RAW
    if kind == 'svg':
        return SVG_DOC
    if kind == 'math':
        return MATH_DOC
    if kind == 'styleAttr':
        return CSS_ATTR
    if kind == 'onAttr':
        return JS_ATTR + (JS_BAD if served == 'real' else [])
    if kind in ('dataUriAttr', 'cssDataUri'):
        m = mt.split(';')[0]
        if m == 'image/svg+xml':
            return SVG_DOC + SVG_NS + SVG_NS + ['<svg>  <a b="c"/>    #%&\' </svg>']
        if m == 'text/css':
            return [p + '          ' for p in CSS_RAW] + ['a + b { color : red }          ', 'a{width:calc( 1px + 2px )}          ']
        return PLAIN + (BINARY if served != 'real' else [])
    if kind == 'svgStyleText':
        return CSS_SVGTEXT
    if kind == 'svgStyleCdata':
        return CSS_CDATA
    if kind == 'svgStyleAttr':
        return CSS_SVGATTR
    raise ValueError(kind)


LITS = {
    'html': ['', '', '<p>x', '\n', '<p>a</p>\n<p>b</p>\n', ' text ', '<!--c-->', '<span>i</span> ', '<br>', '<!doctype html>\n<title>t</title>\n'],
    'svg': ['', '', '<g/>', '<rect x="1"/>', '<g><circle r="2"/></g>', '\n', '\n  ', '<text>a{b:c}</text>', '<title>t</title>',
            # character data directly after an empty style element (collapsed to <style/>; holds no resource): the text that
            # follows is NOT a stylesheet and must reach no minifier
            '<style></style>set S = { x : 0.50 }', '<style>  </style><![CDATA[ { x : 0.50 } ]]>', '<style></style>t{u:v}<g/>',
            'set S = { x : 0.50 }<g/>'],
    'css': ['', '', 'b{color:red}', '@media print{c{d:e}}', '/*c*/', '\n', 'e{f:g}\n'],
}
REAL_FOR_LIT = {'text/css': 'css', 'application/javascript': 'js', 'text/javascript': 'js', 'image/svg+xml': 'svg',
                'text/html': 'html', 'application/ld+json': 'json', 'application/json': 'json',
                'application/mathml+xml': 'xml'}
REAL_FOR_PAT = {4: 'js', 2: 'xml', 6: 'json'}
# registrations beyond the design model's menu (literal custom types, catch-all pattern)
EXTRA_REGS = [('text/template', 0), ('module', 0), ('application/ld+json', 0), ('text/plain', 0), ('text/javascript', 0),
              ('application/mathml+xml', 0), ('text/x-scss', 0), ('', 3), ('', 5), ('', 6), ('', 2), ('', 4), ('', 1)]


def vary(rnd, payload):
    """seeded variation of numbers and colour names (keeps every payload in its language and free of the excluded constructs)"""
    if payload in JS_BAD or rnd.random() < 0.4:
        return payload
    payload = re.sub(r'(?<![0-9a-zA-Z#.%x])1(?![0-9.%])', lambda m: str(rnd.randint(1, 9)), payload)
    return re.sub(r'\bred\b', lambda m: rnd.choice(['red', 'blue', 'green', 'navy', 'teal']), payload)


def expected_type(slot):
    """generation-side copy of the defaults (only to choose payloads and count cases; verdicts use Embed.tla)"""
    k = slot['kind']
    t = lat(slot['type']).split(';')[0].strip() if slot['hastype'] else ''
    if k == 'script':
        return t or 'application/javascript'
    if k in ('style', 'svgStyleText', 'svgStyleCdata'):
        return t or 'text/css'
    if k == 'iframe':
        return 'text/html'
    if k == 'svg':
        return 'image/svg+xml'
    if k == 'math':
        return 'application/mathml+xml'
    if k in ('styleAttr', 'svgStyleAttr'):
        return 'text/css'
    if k == 'onAttr':
        return 'application/javascript'
    return lat(slot['mt']).split(';')[0].strip() or 'text/plain'


def predict(regs, mime):
    lit = [r for r in regs if r['pat'] == 0 and lat(r['lit']) == mime]
    if lit:
        return lit[-1]
    for r in regs:
        if r['pat'] and re.search(PAT_SRC[r['pat']], mime):
            return r
    return None


def inline_then_uri(shapes):
    seen = False
    for s in shapes:
        if s[0] == 'svg':
            seen = True
        elif seen and s[0] == 'dataUriAttr' and lat(s[2]).startswith('image/svg+xml'):
            return True
    return False


def leak_shape(shapes):
    for a, b in zip(shapes, shapes[1:]):
        if a[0] in ('script', 'style', 'iframe') and a[1] != [0] and a[3] != 'text' and \
                b[0] in ('script', 'style', 'iframe') and b[1] == [0] and b[3] == 'text':
            return True
    return False


def make_reg(rnd, lit, pat, beh):
    """concrete registration; beh: 0 succeeding (recording stub or wrapped real minifier), 1 failing"""
    real = REAL_FOR_PAT.get(pat) if pat else REAL_FOR_LIT.get(lit)
    if beh == 1:
        b, real = rnd.choice(['fail', 'fail', 'fail2', 'plainfail']), ''
    elif real and rnd.random() < 0.5:
        b = 'real'
    else:
        b, real = 'stub', ''
    k = rnd.choice(['AddFunc', 'Add']) if not pat else rnd.choice(['AddFuncRegexp', 'AddRegexp'])
    return dict(k=k, lit=B(lit), pat=pat, beh=b, real=real or '')


def make_case(ctx, hostkind, regcodes, shapes, menu, extra_regs=0, opts=False):
    rnd = ctx.rnd
    warm = hostkind == 'csswarm'
    if warm:
        hostkind = 'css'
    regs = []
    for code in regcodes:
        t, beh = code // 10, code % 10
        pat, lit = menu[t]
        regs.append(make_reg(rnd, lat(lit), pat, beh))
    for _ in range(extra_regs):
        lit, pat = rnd.choice(EXTRA_REGS)
        regs.insert(rnd.randint(0, len(regs)), make_reg(rnd, lit, pat, 1 if rnd.random() < 0.15 else 0))
    if warm or inline_then_uri(shapes):
        # an inline svg element before an svg data: URI (same document, or an earlier document on the same registry):
        # the registered svg minifier is the real one (one shared value per registration)
        for r in regs:
            if r['pat'] == 0 and lat(r['lit']) == 'image/svg+xml' and r['beh'] == 'stub' and rnd.random() < 0.8:
                r['beh'], r['real'] = 'real', 'svg'
    # Excluded constructs (known findings): with a failing minifier in the registry the host contains no whitespace
    # run with a newline and no encoded newline before the failing slot (the error position is computed on the
    # input buffer after earlier parts of it were rewritten in place)
    # (a real JS minifier counts as possibly failing: some of its payloads are syntax errors)
    hasfail = any(r['beh'] in ('fail', 'fail2', 'plainfail') or r['real'] == 'js' for r in regs)
    lits = [x for x in LITS[hostkind] if not (hasfail and '\n ' in x)]
    parts = []
    usetmpl = any(sh[3] == 'template' for sh in shapes) or (hostkind == 'html' and rnd.random() < 0.1)
    for (kind, typ, mt, body) in shapes:
        parts.append(dict(lit=B(rnd.choice(lits))))
        hastype = typ != [0]
        slot = dict(kind=kind, hastype=hastype, type=typ if hastype else [], mt=mt)
        served = predict(regs, expected_type(slot))
        beh = served['beh'] if served else 'absent'
        if kind in ('dataUriAttr', 'cssDataUri') and (beh in ('fail', 'fail2', 'plainfail') or (beh == 'real' and hasfail)):
            # excluded construct (known finding, pinned witness kept): a failing minifier behind a data URI,
            # directly or nested inside the real minifier that serves the URI
            served['beh'], served['real'] = 'stub', ''
            beh = 'stub'
        attrs = ''
        if kind in EXTRA_ATTRS and (body != 'text' or rnd.random() < 0.3):
            # raw elements also come with attributes other than type (an empty script with a src, ...)
            attrs = rnd.choice(EXTRA_ATTRS[kind])
        if body == 'empty':
            payload = ''
        elif body == 'template':
            payload = rnd.choice(TMPL[kind])
        else:
            cands = payloads_for(kind, lat(typ) if hastype else '', lat(mt), beh)
            if hasfail:
                if kind in ('dataUriAttr', 'cssDataUri'):
                    cands = [c for c in cands if '\n' not in c and '\r' not in c]
            payload = vary(rnd, rnd.choice(cands))
        enc = rnd.choice(['pct', 'b64', 'pctplus'] if '+' in payload else ['pct', 'b64'])
        quote = rnd.choice(['dq', 'sq'])
        if kind == 'cssDataUri':
            quote = rnd.choice(['dq', 'sq', 'none'])
            if quote == 'sq' and "'" in payload:
                quote = 'dq'      # excluded construct (known finding): apostrophe in the result of a single-quoted url()
        parts.append(dict(kind=kind, hastype=hastype, type=slot['type'], payload=B(payload), mt=mt, enc=enc, quote=quote,
                          attrs=B(attrs), tmpl=bool(usetmpl and kind in ('script', 'style', 'iframe') and '{{' in payload)))
    parts.append(dict(lit=B(rnd.choice(lits))))
    o = 0
    if opts and hostkind == 'html' and rnd.random() < 0.3:
        o = rnd.randint(1, 31)
    if usetmpl and hostkind == 'html':
        o |= 32                   # TemplateDelims {{ }}
    c = dict(host=hostkind, opts=o, regs=regs, parts=parts)
    if warm:
        c['warmhost'] = 'html'
        c['warmparts'] = [dict(lit=B('<p>x')), dict(kind='svg', hastype=False, type=[], payload=B(rnd.choice(SVG_DOC + SVG_NS)), mt=[],
                                                   enc='pct', quote='dq', attrs=[], tmpl=False), dict(lit=B(''))]
    return c


def ident(c):
    d = _ident(c)
    if c.get('warmhost'):
        d['warm'] = _ident(dict(host=c['warmhost'], opts=0, regs=[], parts=c['warmparts']))['parts']
    return d


def _ident(c):
    return dict(host=c['host'], opts=c['opts'],
                regs=[[r['k'], lat(r['lit']), r['pat'], r['beh'], r['real']] for r in c['regs']],
                parts=[[lat(p['lit'])] if 'kind' not in p else
                       [p['kind'], p['hastype'], lat(p['type']), lat(p['payload']), lat(p['mt']), p['enc'], p['quote']] +
                       ([lat(p.get('attrs', [])), bool(p.get('tmpl'))] if (p.get('attrs') or p.get('tmpl')) else [])
                       for p in c['parts']])


def from_ident(c):
    d = _from_ident(c)
    if c.get('warm'):
        d['warmhost'] = 'html'
        d['warmparts'] = _from_ident(dict(host='html', opts=0, regs=[], parts=c['warm']))['parts']
    return d


def _from_ident(c):
    return dict(host=c['host'], opts=c['opts'],
                regs=[dict(k=r[0], lit=B(r[1]), pat=r[2], beh=r[3], real=r[4]) for r in c['regs']],
                parts=[dict(lit=B(p[0])) if len(p) == 1 else
                       dict(kind=p[0], hastype=p[1], type=B(p[2]), payload=B(p[3]), mt=B(p[4]), enc=p[5], quote=p[6],
                            attrs=B(p[7]) if len(p) > 7 else [], tmpl=p[8] if len(p) > 8 else False)
                       for p in c['parts']])


def drive(ctx, exe, cases, tag):
    cin = ctx.path('run', tag + '-cases.ndjson')
    tout = ctx.path('run', tag + '-trace.ndjson')
    with open(cin, 'w') as f:
        for i, c in enumerate(cases):
            f.write(json.dumps(dict(id=i, **c), separators=(',', ':')) + '\n')
    t0 = time.time()
    vlib.run([exe, cin, tout, str(min(vlib.JOBS, 8))], timeout=3000)
    vlib.log('c11 driver: %d cases in %.1fs' % (len(cases), time.time() - t0))
    lines = [l.rstrip('\n') for l in open(tout)]
    if len(lines) != len(cases):
        raise vlib.Infra('driver wrote %d lines for %d cases' % (len(lines), len(cases)))
    return lines


def validate(ctx, exe, cases, tag):
    lines = drive(ctx, exe, cases, tag)
    t0 = time.time()
    accepted, rejects = vlib.tlc_trace(ctx, 'C11Trace', 'C11Trace.cfg', lines, min_per_shard=150, timeout=3000)
    vlib.log('c11 trace validation: %d lines in %.1fs' % (len(lines), time.time() - t0))
    oracle = [r for r in rejects if r[1].startswith('ORACLE')]
    if oracle:
        i, why = oracle[0]
        raise vlib.Infra('oracle disagreement (stub fixture vs StubOut), case %d: %s\n%s' % (i, why, lines[i][:600]))
    return lines, accepted, rejects


def describe(line, whys):
    e = json.loads(line)
    regs = ['%s(%s)=%s' % (r['op'], lat(r['lit']) if r['pat'] == 0 else PAT_SRC[r['pat']], r['real'] or r['beh']) for r in e['regs']]
    out = []
    for w in whys[:3]:
        code, _, at = w.partition('@')
        text = CLAUSES.get(code, code)
        if at.isdigit() and 1 <= int(at) <= len(e['slots']):
            s = e['slots'][int(at) - 1]
            o = e['outslots'][int(at) - 1]
            text += ' [slot %s %s type=%r payload=%r -> output slot %r%s]' % (
                at, s['kind'], lat(s['type']) if s['hastype'] else None, lat(s['payload']), lat(o['data']) if o['found'] else None,
                (' (' + o['bad'] + ')') if o['bad'] else '')
        out.append(text)
    calls = ['sid%d(%r)->%r%s' % (c['sid'], lat(c['payload'])[:60], lat(c['out'])[:60], ' FAILED' if c['fail'] else '')
             for c in e['calls'] if c['depth'] == 0]
    return '%s host%s, registry [%s], input %r -> output %r, err=%s %s; nested calls %s: %s' % (
        e['host'], (' (after %r on the same registry)' % lat(e['warm'])[:120]) if e.get('warm') else '', ', '.join(regs), lat(e['input'])[:300], lat(e['output'])[:300], e['err']['kind'],
        (e['err']['line'], e['err']['col']) if e['err']['kind'] == 'parse' else '', calls, ' | '.join(out))


def run(ctx):
    exe = vlib.build_harness(ctx, 'c11')
    quick = ctx.quick()
    rnd = ctx.rnd
    runs = []
    menu = None
    for cfg in (['Embed_quick.cfg'] if quick else ['Embed_thorough.cfg', 'Embed_thorough3.cfg']):
        r = vlib.tlc_mc(ctx, 'Embed', cfg, workers=8, heap='6g', timeout=2400)
        got = printed(r['out'], 'EMBED')
        if not got:
            raise vlib.Infra('no generated hosts read from TLC output')
        runs += got
        m = printed(r['out'], 'MENU')
        if m:
            menu = {v[1]: (v[2], v[3]) for v in m}
    if not menu:
        raise vlib.Infra('registration menu not printed')
    ctx.coverage['design_runs_enumerated'] = len(runs)
    # random walks to longer hosts / configurations
    nsim = 300 if quick else 4000
    rs = vlib.tlc(ctx, 'Embed', 'Embed_sim.cfg', workers=1, simulate='num=%d' % nsim, depth=40, seed=ctx.seed, timeout=900)
    if rs['errors'] or rs['invariant_violations']:
        raise vlib.Infra('simulation of Embed failed:\n' + rs['out'][-2000:])
    sims = printed(rs['out'], 'EMBED')
    ctx.coverage['design_runs_simulated'] = len(sims)

    # "typed raw element whose text is never consumed (empty or template body), then an untyped raw element":
    # every enumerated run of that shape is replayed, the rest is sampled within the budget
    prio = lambda v: leak_shape(v[3]) or v[1] == 'csswarm' or inline_then_uri(v[3])
    leak = [v for v in runs if prio(v)]
    rest = [v for v in runs if not prio(v)]
    ctx.coverage['design_runs_inline_svg_then_svg_uri'] = sum(1 for v in runs if v[1] == 'csswarm' or inline_then_uri(v[3]))
    ctx.coverage['design_runs_typed_unconsumed_then_untyped'] = sum(1 for v in runs if leak_shape(v[3]))
    budget = 7000 if quick else 120000
    if len(leak) > budget // 2:
        leak = rnd.sample(leak, budget // 2)
    if len(rest) > budget:
        rest = rnd.sample(rest, budget)
    runs = leak + rest
    cases = []
    for v in runs:
        _, hk, regcodes, shapes = v
        if not shapes:
            continue
        cases.append(make_case(ctx, hk, regcodes, shapes, menu, extra_regs=rnd.choice([0, 0, 1, 2]), opts=True))
        if leak_shape(shapes) or hk == 'csswarm' or inline_then_uri(shapes) or rnd.random() < (0.3 if quick else 0.5):
            cases.append(make_case(ctx, hk, regcodes, shapes, menu, extra_regs=rnd.choice([0, 1, 3]), opts=True))
    for v in sims:
        _, hk, regcodes, shapes = v
        if shapes:
            cases.append(make_case(ctx, hk, regcodes, shapes, menu, extra_regs=rnd.choice([0, 1, 2]), opts=True))
    pinned = [from_ident(c) for c in vlib.known_cases(PID)]
    cases += pinned

    lines, accepted, rejects = validate(ctx, exe, cases, 'main')
    why = {}
    for i, w in rejects:
        why.setdefault(i, []).append(w)
    bad = sorted(why)
    reproduced = 0
    if bad:
        # pinned witnesses first, then the first rejected generated cases; re-run in a fresh process
        sub = [i for i in bad if i >= len(cases) - len(pinned)] + [i for i in bad if i < len(cases) - len(pinned)][:40]
        l2, a2, r2 = validate(ctx, exe, [cases[i] for i in sub], 'rerun')
        why2 = {}
        for k, w in r2:
            why2.setdefault(k, []).append(w)
        for k, i in enumerate(sub):
            if k not in why2:
                raise vlib.Infra('rejection of case %d did not reproduce on re-run: %s' % (i, why[i]))
            reproduced += 1
            ctx.report(ident(cases[i]), describe(l2[k], why2[k]), replay_obj=dict(trace=json.loads(l2[k]), clauses=why2[k]))
        ctx.coverage['rejections'] = len(bad)
        ctx.coverage['rejections_reproduced'] = reproduced

    # evidence
    nslots = ncalls = nfail = nabsent = nleak = nunconsumed = nwarm = nplus = 0
    nontrivial = set()
    samples = []
    kinds = {}
    for i, line in enumerate(lines):
        e = json.loads(line)
        top = [c for c in e['calls'] if c['depth'] == 0]
        ncalls += len(top)
        nfail += sum(1 for c in top if c['fail'])
        sl = e['slots']
        for a, b in zip(sl, sl[1:]):
            if a['kind'] in ('script', 'style', 'iframe') and a['hastype'] and (a['tmpl'] or not a['payload']) and \
                    b['kind'] in ('script', 'style', 'iframe') and not b['hastype'] and b['payload'] and not b['tmpl']:
                nleak += 1
                break
        if e.get('warm'):
            nwarm += 1
        for s, o in zip(e['slots'], e['outslots']):
            nslots += 1
            raw = bytes(s['raw'])
            if b',' in raw and b';base64,' not in raw and b'+' in raw.split(b',', 1)[1] and b'+' in bytes(s['mt']):
                nplus += 1
            if s['tmpl'] or (s['kind'] in ('script', 'style', 'iframe') and not s['payload']):
                nunconsumed += 1
            kinds[s['kind']] = kinds.get(s['kind'], 0) + 1
            if o['found'] and o['data'] != s['payload']:
                nontrivial.add((e['host'], s['kind'], bytes(s['type']), bytes(s['payload']), bytes(o['data'])))
            elif o['found']:
                nabsent += 1
        if len(samples) < 5 and i % max(1, len(lines) // 5) == 2:
            samples.append(dict(host=e['host'], registry=['%s %s=%s' % (r['op'], lat(r['lit']) or PAT_SRC[r['pat']], r['real'] or r['beh']) for r in e['regs']],
                                input=lat(e['input'])[:400], output=lat(e['output'])[:400], err=e['err']['kind'],
                                nested=[dict(sid=c['sid'], payload=lat(c['payload'])[:80], out=lat(c['out'])[:80]) for c in top]))
    ctx.coverage.update(dict(
        traces_validated_against_impl=accepted,
        evaluations=len(lines),
        slots_checked=nslots,
        nested_calls_checked=ncalls,
        nested_failures=nfail,
        slots_unchanged=nabsent,
        slots_never_consumed=nunconsumed,
        cases_typed_unconsumed_then_untyped=nleak,
        cases_after_earlier_document_on_same_registry=nwarm,
        data_uri_slots_plus_in_type_and_literal_plus_in_payload=nplus,
        slots_by_kind=kinds,
        distinct_nontrivial=len(nontrivial),
        rule='a case is (host kind, registry configuration, sequence of literal parts and embedded slots with kind, type '
             'attribute, payload, encoding); non-trivial = distinct (host, slot kind, type, payload) whose output slot decodes to '
             'something different from the payload (a nested minifier ran and its result was re-embedded).  Excluded '
             'constructs (known findings, pinned witnesses kept): failing minifier behind a data: URI; SVG style element '
             'with a non-CSS type attribute; whitespace runs inside SVG style text/attributes (CDATA: allowed since fix '
             '3bf3fd9); error positions after the host rewrote earlier input in place; payloads in which the '
             'minifier\'s result forms a character reference in an HTML attribute (& lt;).  Not generated: & and < in SVG '
             'style element text (passed to the minifier in escaped form); empty payloads only for script/style/iframe elements.',
        samples=samples,
    ))
    ctx.assumptions += [
        'host output is projected by golang.org/x/net/html (tokenizer), encoding/xml (strict), a purpose-written url() scanner and an RFC 2397 decoder (encoding/base64)',
        'recording wrappers hand the original reader to the real minifier (in-place buffers as without a recorder) and call it again directly on a private copy',
        'TLC evaluates Embed.ExpectedType, Registry.LookupIn/Split and the slot relations of C11Trace',
    ]


def replay(ctx, obj):
    exe = vlib.build_harness(ctx, 'c11')
    c = from_ident(obj['case'])
    lines, accepted, rejects = validate(ctx, exe, [c], 'replay')
    print(describe(lines[0], [w for _, w in rejects]) if rejects else 'case accepted')
    if rejects:
        print('VIOLATION property=C11 replay=given')
        return 1
    return 0


META = dict(
    category='model_checking',
    text='TLC model-checks a design model of the host loops (captured type attribute, per-slot dispatch through the '
         'registry of C15, stop at nested failure) against the abstract embedding law over all configurations x hosts '
         'within the bound and prints them; the Go driver renders each host with payloads that stress re-escaping, '
         'runs the real html/svg/css minifier on a real minify.M holding recording stubs, failing stubs and wrapped '
         'real minifiers, and projects the output with independent parsers; TLC then evaluates, slot by slot, that the '
         'right minifier got the embedded content with the right params exactly once, that the output slot decodes to '
         'exactly what it returned (and equals a direct call), that absent minifiers leave the bytes unchanged and that '
         'nested failures surface as errors located inside the embedding construct.',
    design_ref='DESIGN.md section 4, C11',
    note='Trusted: TLC; spec/EmbedOps.tla ExpectedType as the table of documented defaults; x/net/html, encoding/xml, '
         'encoding/base64 as host decoders. Hosts of more than 3 slots and configurations of more than 2 menu '
         'registrations are sampled (TLC -simulate, seeded extra registrations).',
    technique='TLA+ design model + generator, replay on the real minifiers with recording stubs, TLC trace validation of the commutation law',
)
