"""C12  All entry points produce the same bytes for any chunking of the stream.

MC : spec/Stream.tla (design model D of Writer / Reader / ResponseWriter / Middleware(WithError) / Bytes / String
     over Go's io.Pipe, one action per linearisation point) is model-checked exhaustively: ChunkingInvariance,
     CloseWaits, NoWriteAfterClose, ContentLengthGone, SelectionRule, FaultSurfaces, liveness <>CloseReturned,
     deadlock.  The property relation itself (spec/StreamRel.tla, level A) runs as a monitor over the events the
     design's actions emit: D => A for every interleaving (MonitorQuiet / MonitorFinal).  The design as it is in
     the repository (PatchCL = FALSE) must violate exactly ContentLengthGone (known finding), the patched design
     passes it, and deliberately wrong designs (Mut) must be rejected, so no invariant is vacuous.  Thorough:
     per-action coverage of the design and seeded random walks beyond the exhaustive bound.
GEN: spec/StreamGen.tla: TLC enumerates every initial state of Stream (= every combination of the choices the
     harness controls) and Cuts(1..n) (all partitions incl. empty chunks).
RUN: harness/cmd/c12 renders the choices on the real public API with instrumented doubles; hook events of
     minify.VerifTrace and harness events form one totally ordered log per session.
TV : spec/C12Trace.tla steps through every session's events and evaluates StreamRel (the same relation) in every
     state; facts of the design model visible in the event order are reported as DRIFT (information only).
"""
import json
import os
import re
import subprocess
from concurrent.futures import ThreadPoolExecutor

import vlib

PID = 'C12'
TYPES = {
    'css': dict(mt='text/css', ext='.css', alt='text/html', rx=['text/css']),
    'html': dict(mt='text/html', ext='.html', alt='text/css', rx=['text/html']),
    'js': dict(mt='application/javascript', ext='.js', alt='application/json',
               rx=['text/javascript', 'application/x-javascript', 'text/ecmascript']),
    'json': dict(mt='application/json', ext='.json', alt='text/xml', rx=['application/ld+json', 'text/json']),
    'svg': dict(mt='image/svg+xml', ext='.svg', alt='text/xml', rx=['image/svg+xml']),
    'xml': dict(mt='text/xml', ext='.xml', alt='image/svg+xml', rx=['application/xhtml+xml', 'application/xml']),
}
ORDER = ['css', 'html', 'js', 'json', 'svg', 'xml']
# real inputs of at most 8 bytes for the exhaustive chunkings (besides the suite's own short inputs)
SHORT = {
    'css': [b'a{b:c}', b'a ,b{}', b'a { b:1}', b'a{}', b'a{b:0px}', b'/**/a{}', b'a,b{}'],
    'html': [b'<a> b', b'<p>a  b', b'a  b', b'<b>x</b>', b'<!---->a'],
    'js': [b'a = 1;', b'a+ +b', b'var a;', b'1', b'a=`b${c}`'[:8], b'if(a)b;'],
    'json': [b'[1, 2]', b'[1 ,2', b'{"a":1}', b'[ ]', b'1.0', b' "a\\n" '],
    'svg': [b'<svg/>', b'<g/> ', b'<g> </g>', b'<a b=""/>'[:8]],
    'xml': [b'<a> </a>', b'<a/>', b'<a>b</a>', b'<a b="c"/>'[:8], b'<!---->a'],
}
# inputs on which the plain call returns an error or which stop inside a construct (error paths of every entry point)
ERRORS = {
    'css': [b'a{b:c', b'/* c', b'a{b:"x', b'@media x{a{b:c}', b'a{b:url(x'],
    'html': [b'<a href="x', b'<!-- c', b'<script>var a = ;</script>', b'<style>a{</style>', b'<p style="a:b', b'<script>x('],
    'js': [b'a = "x', b'/* c', b'a = (b', b'var a = ;', b'function f(){', b'a = /re', b'if(a)', b'a +', b'}'],
    'json': [b'{"a":', b'[1,', b'"abc', b'{"a"', b'tru', b'{"a":1,}', b'[1 2]'],
    'svg': [b'<svg><path d="M0 0', b'<svg><!-- c', b'<svg><style>a{', b'<svg><script>var a = ;</script></svg>'],
    'xml': [b'<a b="c', b'<!-- c', b'<a><![CDATA[x', b'<?xml', b'<a>b'],
}
# short representative documents, one token kind after the other; every prefix of each is an input, so that the input
# ends in every distinct lexer / minifier state (C14), and so that outputs LONGER than the input occur (a minifier
# completes an unterminated construct: `a{b:c` -> `a{b:c}`, `<p>a<br` -> `<p>a<br>`) for the Bytes/String helpers
TRUNC = {
    'svg': [b'<?xml version="1.0"?><svg><g id="a"/></svg>',
            b'<svg><path d="M0 0"/></svg><?pi href="a"?> ',
            b'<svg><!-- c --><style>a{b:c}</style></svg>',
            b'<svg><![CDATA[ x ]]><text> a </text></svg>',
            b'<!DOCTYPE svg [<!ENTITY a "b">]><svg/>',
            b'<svg a=\'b\' c="d"><metadata>x</metadata></svg>',
            b'<svg><style><![CDATA[a{b:c}]]></style></svg>',
            b'<svg xmlns:x="y"><x:a b="c"/><rect x="1px"/></svg>',
            b'<svg><script>var a = 1;</script><a/></svg>',
            b'<svg style="a:b" fill="#ffffff"> <g> </g> </svg>'],
    'xml': [b'<?xml version="1.0"?><a b="c"> d </a>',
            b'<a><!-- c --><![CDATA[ x ]]></a><?pi x?>',
            b'<!DOCTYPE a [<!ENTITY b "c">]><a/>',
            b'<a b=\'c\' d="e&amp;f"><b/> t </a >',
            b'<a> <b> x </b> <?p q?> </a>',
            b'<a><![CDATA[]]><![CDATA[ <b> ]]> y</a>',
            b'<!DOCTYPE a SYSTEM "x.dtd"><a>&lt;</a>',
            b'<a  b = "c" ><!----> <c/> </a>'],
    'html': [b'<!doctype html><p class="a b" id=x>t</p>',
             b'<a href=\'x\' title="y">z</a><!-- c -->',
             b'<script>var a = "b";</script><p>x',
             b'<style>a{b:c}</style><pre> x </pre>',
             b'<textarea> a </textarea><br/><![CDATA[x]]>',
             b'<svg><path d="M0 0"/></svg><math><mi>x</mi></math>',
             b'<p>a &amp; b</p><input value="c" disabled>',
             b'<?php x ?><div style="a:b" onclick="c()">d</div>',
             b'<title> t </title><iframe>x</iframe>',
             b'<ul><li>a<li>b</ul><select><option>c</select>',
             b'<!--[if IE]><p>x</p><![endif]--><b> y </b>',
             b'<a href="data:text/css,a{b:c}">x</a>'],
    'css': [b'a{b:c;d:"e";f:url(g.png)}',
            b'/* c */@media x{a{b:c}}',
            b'@import "a.css";a[b="c"]{d:e}',
            b'a{b:rgb(1,2,3);c:calc(1px + 2px)}',
            b'a>b,c+d{e:f!important}/*! k */',
            b'@font-face{a:b}a::after{content:\'\\n\'}',
            b'a{b:url( "x y" );c:#ffffff;d:1.0e2px}',
            b'<!-- a{b:c} -->',
            b'@charset "utf-8";@x y{z}',
            b'a{b:c d,e f;g:U+0-7F;--h:{i}}'],
    'js': [b'var a = "b", c = \'d\', e = `f${g}h`;',
           b'/* c */ a = /re[/]/g; // d',
           b'function f(a){return a+1}f(2)',
           b'if(a){b()}else{c()}for(;;){}',
           b'a = {b: 1, "c": [2, 3]}; a?.b',
           b'class A extends B{c(){}}',
           b'x = a ? b : c; y = 1.0e3; z = 0x1F',
           b'label: while(a) break label;',
           b'a => {b}; async () => await c',
           b'#!/bin/x\na <!-- b\n--> c',
           b'try{a}catch(e){b}finally{c}'],
    'json': [b'{"a": [1, 2.0e1, true, null], "b": "c\\"d"}',
             b'[ {"a":{}}, [], "\\u00e9", -0.5 ]',
             b'  "string"  ', b'123', b'{"a":false}'],
}


def prefixes(docs):
    seen, out = set(), []
    for d in docs:
        for k in range(1, len(d) + 1):
            if d[:k] not in seen:
                seen.add(d[:k])
                out.append(d[:k])
    return out


# inputs on which a minifier returns an error after it has already written output
FAIL_AFTER_OUTPUT = {
    'json': [b'[1, 2, 3] x', b'{"a": 1} }', b'[true, false, nul]', b'{"a": [1, 2], b}'],
    'html': [b'<b>x</b><script>var = ;</script>', b'<p>a</p><style>a{b:c}</style><p onclick="x(">b</p><script>(</script>'],
    'svg': [b'<svg><g id="a"/><script>var = ;</script></svg>'],
}
BENCH = {'css': ['sample_normalize.css'], 'html': ['sample_blogpost.html'], 'js': ['sample_dot.js'],
         'json': ['sample_twitter.json'], 'svg': ['sample_gopher.svg'], 'xml': ['sample_books.xml', 'sample_catalog.xml']}
BENCH_THOROUGH = {'css': ['sample_fontawesome.css'], 'html': ['sample_bbc.html'], 'js': ['sample_moment.js'],
                  'json': [], 'svg': ['sample_tiger.svg'], 'xml': []}
SMALL = 96


# ---------------------------------------------------------------- inputs
def suite_inputs(ctx):
    """inputs of the repository's own table-driven tests, per media type (bytes, deduplicated)"""
    out = {}
    for t in ORDER:
        seen, lst = set(), []
        for row in vlib.test_inputs(ctx, t):
            if not row['func'].startswith('Test'):
                continue
            s = row['strings'][0].encode('utf-8', 'surrogateescape')
            if s in seen or len(s) == 0:
                continue
            seen.add(s)
            lst.append(s)
        for s in SHORT[t] + ERRORS[t]:
            if s not in seen:
                seen.add(s)
                lst.append(s)
        out[t] = lst
    return out


def bench_inputs(ctx):
    out = {}
    for t in ORDER:
        names = list(BENCH[t]) + ([] if ctx.quick() else BENCH_THOROUGH[t])
        lst = []
        for n in names:
            p = os.path.join(vlib.REPO, '_benchmarks', n)
            if os.path.exists(p):
                lst.append(open(p, 'rb').read())
        out[t] = lst
    return out


# ---------------------------------------------------------------- MC + GEN
MON = ['MonitorQuiet', 'MonitorFinal']
MUTANTS = [('nodelcl', ['ContentLengthGone', 'MonitorFinal']), ('nowait', ['CloseWaits', 'NoWriteAfterClose'] + MON), ('noerr', ['CloseWaits', 'FaultSurfaces', 'NoSilentTruncation'] + MON),
           ('noprobe', ['FaultSurfaces', 'NoSilentTruncation']), ('extfirst', ['SelectionRule', 'ChunkingInvariance'] + MON),
           ('eofswallow', ['FaultSurfaces', 'NoSilentTruncation'] + MON),
           ('addinside', ['CloseWaits', 'ChunkingInvariance', 'NoWriteAfterClose'] + MON),
           ('dirtybuf', ['NoPartialInput', 'ChunkingInvariance'] + MON)]


def model_check_jobs(ctx, tier, mutants):
    """design-level model checking, as a list of (name, thunk) run concurrently with case generation.
    - Stream_<tier>.cfg: the design as implemented (PatchCL = TRUE since commit c60263b), every mode, every invariant,
      NoWriteAfterClose, liveness <>CloseReturned, deadlock; and D => A: the property relation of the trace
      specification (StreamRel) runs as a monitor over the events of every design behaviour and never flags one
      (MonitorQuiet, MonitorFinal) - no clause rejects an interleaving the correct design can produce;
    - Stream_mut_*.cfg: deliberately wrong designs must be rejected (no invariant is vacuous); nodelcl is the design
      before c60263b (no Content-Length removal on the first write), which must violate ContentLengthGone."""
    w = max(2, min(6, vlib.JOBS // 2))

    def main():
        r = vlib.tlc(ctx, 'Stream', 'Stream_%s.cfg' % tier, workers=w, timeout=1500, heap='6g',
                     extra=(['-coverage', '1'] if tier == 'thorough' else []))
        ok(r, 'Stream_%s.cfg' % tier)
        info = dict(design_states=r['distinct'], design_transitions=r['generated'], design_depth=r['depth'])
        if tier == 'thorough':
            info['design_action_coverage'] = action_coverage(r['out'])
        return info

    def mut(name, expect):
        def f():
            r = vlib.tlc(ctx, 'Stream', 'Stream_mut_%s.cfg' % name, workers=2, timeout=900, heap='3g')
            viol = set(r['invariant_violations'])
            if not (viol & set(expect)):
                raise vlib.Infra('wrong design %s not rejected by %s (got %s)\n%s' % (name, expect, viol, r['out'][-1500:]))
            return {'wrong_design_' + name: 'rejected by ' + sorted(viol & set(expect))[0]}
        return f

    def sim():
        # random walks of the design far beyond the exhaustive bound (4 input bytes, 4 output pieces, full product)
        r = vlib.tlc(ctx, 'Stream', 'Stream_sim.cfg', workers=2, timeout=1500, heap='4g', simulate='num=10000', depth=100, seed=ctx.seed)
        if r['invariant_violations'] or r['errors'] or not r['completed']:
            raise vlib.Infra('simulation of the design model did not pass:\n%s' % r['out'][-3000:])
        m = re.search(r'(\d+) states checked, (\d+) traces generated', r['out'])
        return dict(design_simulated_traces=int(m.group(2)) if m else 0, design_simulated_states=int(m.group(1)) if m else 0)

    def empty():
        # empty input: the partitions "no Write call at all" and "one empty Write" (Close can be the first call)
        r = vlib.tlc(ctx, 'Stream', 'Stream_empty.cfg', workers=2, timeout=900, heap='3g')
        ok(r, 'Stream_empty.cfg')
        return dict(design_states_empty_input=r['distinct'], design_transitions_empty_input=r['generated'])

    jobs = [('main', main), ('empty', empty)] + ([('sim', sim)] if tier == 'thorough' else [])
    jobs += [('mut_' + n, mut(n, e)) for n, e in mutants]
    return jobs


ACTIONS = ['PWriteCall', 'PWriteRet', 'PCloseCall', 'PCloseRet', 'HStart', 'HSelect', 'HPassWrite', 'HWriteHeaderLast', 'HClose',
           'WStart', 'WReadPipe', 'WReadSrc', 'WSrcErr', 'WWriteSink', 'WProbeSink', 'WPipeBegin', 'WPipeEnd', 'WExit1', 'WExit2',
           'CRead', 'PRet', 'GateOpen']


def action_coverage(out):
    """per-action coverage of the design model (TLC -coverage): every action must produce new states"""
    tail = out[out.rfind('The coverage statistics'):]
    cov = {}
    for m in re.finditer(r'<(\w+) line \d+, col \d+ to line \d+, col \d+ of module Stream>: (\d+):(\d+)', tail):
        cov[m.group(1)] = int(m.group(2))
    missing = [a for a in ACTIONS if cov.get(a, 0) == 0]
    if missing:
        raise vlib.Infra('design model: actions never taken: %s' % missing)
    return {a: cov[a] for a in ACTIONS}


def ok(r, what):
    if r['invariant_violations'] or r['errors'] or not r['completed']:
        raise vlib.Infra('design-level model checking of %s did not pass:\n%s' % (what, r['out'][-3000:]))


def generate(ctx, cfg):
    """initial states and partitions enumerated by TLC"""
    r = vlib.tlc(ctx, 'StreamGen', cfg, workers=1, timeout=600, heap='3g')
    if r['errors'] or r['invariant_violations'] or not r['completed']:
        raise vlib.Infra('generator run failed:\n' + r['out'][-2000:])
    inits = []
    for m in re.finditer(r'<<\s*"INIT",\s*"((?:[^"\\]|\\.)*)"\s*>>', r['out']):
        inits.append(json.loads(json.loads('"' + m.group(1) + '"')))
    cuts = {}
    for m in re.finditer(r'<<\s*"CUTS",\s*(\d+),\s*"([^"]*)"\s*>>', r['out'], re.S):
        cuts[int(m.group(1))] = sorted(json.loads(m.group(2)))
    if not inits or not cuts:
        raise vlib.Infra('generator produced nothing:\n' + r['out'][-1500:])
    if r['distinct'] != len(inits):
        raise vlib.Infra('generator: %d initial states but %d lines parsed' % (r['distinct'], len(inits)))
    return inits, cuts, r


# ---------------------------------------------------------------- case construction
def ctype_variant(mt, rnd):
    # parameters are split off by the dispatcher and handed to the minifier (inline=1 changes what CSS/JS parse)
    return rnd.choice([mt, mt, mt + '; charset=utf-8', mt + ';charset=UTF-8', mt + ' ; charset=utf-8', mt + ';inline=1',
                       mt + '; charset=utf-8; inline=1'])


def rand_partition(n, rnd):
    """seeded partition of n bytes: empty and 1-byte chunks included"""
    style = rnd.randrange(5)
    sizes, left = [], n
    while left > 0:
        if style == 0:
            k = 1
        elif style == 1:
            k = rnd.choice([0, 1, 1, 2, 3])
        elif style == 2:
            k = rnd.randrange(0, max(2, n // 2 + 1))
        elif style == 3:
            k = rnd.choice([0, 1, 7, 64, 511, 512, 513, 4096])
        else:
            k = rnd.randrange(1, left + 1)
        k = min(k, left)
        sizes.append(k)
        left -= k
        if len(sizes) > 400:
            sizes.append(left)
            break
    if rnd.random() < 0.3:
        sizes.append(0)
    if rnd.random() < 0.2:
        sizes.insert(0, 0)
    return sizes


def segs_for(n_abs, data_len, rnd):
    """abstract byte i of the model = segment i of the real input"""
    cuts = sorted(rnd.randrange(0, data_len + 1) for _ in range(n_abs - 1))
    pts = [0] + cuts + [data_len]
    return [pts[i + 1] - pts[i] for i in range(n_abs)]


def abs_to_sizes(abs_sizes, segs):
    out, pos = [], 0
    for a in abs_sizes:
        out.append(sum(segs[pos:pos + a]))
        pos += a
    return out


def ff_concrete(f, maxout, nw):
    if f == 0:
        return 0
    if f == 1 or nw <= 1:
        return 1
    if f >= maxout + 1:
        return nw
    return 1 + (f - 1) * (nw - 1) // maxout


class Builder:
    def __init__(self, ctx, profile):
        self.ctx = ctx
        self.cases = []
        self.profile = profile      # (type, input) -> number of sink calls of the fault-free plain call
        self.keys = set()

    def add(self, **c):
        c.setdefault('reg', 'literal')
        c.setdefault('small', SMALL)
        c['in'] = list(c['in'])
        ident = identity(c)
        k = vlib.case_key(ident)
        if k in self.keys:
            return
        self.keys.add(k)
        c['id'] = len(self.cases)
        self.cases.append(c)


def identity(c):
    """identifying fields of a session (what a replay needs)"""
    d = {k: c[k] for k in ('mode', 'mt', 'reg', 'chunks', 'rbufs', 'pace', 'ff', 'sf', 'short', 'serr', 'gate', 'after', 'rep', 'ct',
                           'uri', 'cl', 'wh', 'status') if k in c and c[k] not in (None, '', [], False)}
    d['in'] = bytes(c['in']).decode('latin1')
    if c.get('pre'):
        d['pre'] = [dict(mode=p['mode'], mt=p['mt'], **{'in': bytes(p['in']).decode('latin1') if not isinstance(p['in'], str) else p['in']})
                    for p in c['pre']]
    return d


REGS = ['literal', 'regexp', 'mixed']


def mt_for(t, reg, rnd, params=True):
    """a mediatype spelling for type t that the registry `reg` knows (literal names for literal registration,
    pattern-only names where a regexp is registered)"""
    T = TYPES[t]
    if reg == 'literal':
        mt = T['mt']
    elif reg == 'regexp':
        mt = rnd.choice([T['mt']] + T['rx'])
    else:
        mt = rnd.choice([T['mt']] + (T['rx'] if t in ('js', 'json', 'xml') else []))
    if reg == 'literal' and t == 'js':
        mt = rnd.choice(['application/javascript', 'text/javascript'])
    if reg == 'literal' and t == 'xml':
        mt = rnd.choice(['text/xml', 'application/xml'])
    return ctype_variant(mt, rnd) if params else mt


def resp_fields(t, reg, rnd, ct='K1', ext='K1', exclude_known=True):
    T = TYPES[t]
    f = {}
    if ct == 'none':
        f['ct'] = ''
    elif ct == 'K1':
        f['ct'] = mt_for(t, reg, rnd)
    elif ct == 'K2':
        f['ct'] = ctype_variant(T['alt'], rnd) if reg != 'regexp' or T['alt'] not in ('text/css', 'text/html') else T['alt']
    else:
        f['ct'] = rnd.choice(['image/png', 'text/plain; charset=utf-8', 'application/octet-stream'])
    if ext == 'K1':
        f['uri'] = rnd.choice(['/app', '/static/x.min', '/a.b/c']) + T['ext']
    else:
        f['uri'] = rnd.choice(['/app', '/img/logo.png', '/', '/dir.js/file', '/x.unknownext'])
    if rnd.random() < 0.3:
        # a query string after the path: the extension is that of the path, with or without a Content-Type
        f['uri'] += rnd.choice(['?v=1', '?a=b&c=d.css', '?'])
    return f


def build_from_init(B, init, t, data, rnd, maxout):
    """one real session for one initial state of Stream"""
    cfg, mode = init['cfg'], init['mode']
    n_abs = sum(init['sizes'])
    segs = segs_for(n_abs, len(data), rnd)
    sizes = abs_to_sizes(init['sizes'], segs)
    reg = rnd.choice(REGS)
    nw = B.profile.get((t, bytes(data)), 1)
    c = dict(mode=mode, reg=reg, chunks=sizes, tag='init:' + t)
    c['in'] = data
    c['mt'] = 'text/unknown' if cfg['notexist'] else mt_for(t, reg, rnd)
    c['ff'] = ff_concrete(cfg['failfrom'], maxout, nw)
    if cfg['srcfail'] >= 0:
        c['sf'] = sum(segs[:cfg['srcfail']])
        c['short'] = bool(cfg['srcshort']) and c['sf'] > 0
        c['serr'] = rnd.choice(['plain', 'unexpected', 'wrapeof'])
    c['gate'] = cfg['gate'] == 'close'
    c['after'] = bool(cfg.get('after')) or (mode == 'response' and cfg['mw'] == 'rw' and rnd.random() < 0.3)
    if mode == 'reader':
        c['rbufs'] = [cfg['cbuf']] if cfg['cbuf'] < 3 else rnd.choice([[4096], [3, 1, 512], [7]])
        c['pace'] = rnd.choice(['', 'consumerfirst', 'workerfirst'])
    if mode == 'bytes':
        c['mode'] = rnd.choice(['bytes', 'string'])
        c['chunks'] = []
    if mode == 'plain':
        return        # plain calls with faults are C14's sessions (same driver, flat records)
    if mode == 'response':
        c['mode'] = 'response' if cfg['mw'] == 'rw' else rnd.choice(['mw', 'mwerr'])
        c.update(resp_fields(t, reg, rnd, cfg['ct'], cfg['ext']))
        c['mt'] = ''
        c['cl'] = len(data) if cfg['cl'] == 'stale' else -1
        c['wh'] = cfg['wh']
        c['status'] = rnd.choice([200, 200, 403, 404])
    B.add(**c)


def make_cases(ctx, inits, cuts, suite, bench, profile):
    rnd = ctx.rnd
    quick = ctx.quick()
    B = Builder(ctx, profile)
    maxout = 2
    # (1) every initial state of the model (thorough) / a seeded sample (quick), on real suite inputs
    chosen = inits if not quick else vlib.sample(inits, 1800, rnd)
    # every mode x gate x fault family appears even in the sample: add one state per (mode, failfrom, srcfail, gate)
    if quick:
        seenk = set()
        for it in inits:
            k = (it['mode'], it['cfg']['failfrom'], it['cfg']['srcfail'], it['cfg']['gate'], it['cfg']['ct'], it['cfg']['wh'])
            if k not in seenk:
                seenk.add(k)
                chosen.append(it)
    for j, it in enumerate(chosen):
        t = ORDER[j % 6]
        data = rnd.choice(suite[t])
        build_from_init(B, it, t, data, rnd, maxout)
    n_init = len(B.cases)
    # (2) exhaustive partitions of short real inputs (all Cuts(n) from TLC)
    maxn = max(cuts)
    exh_inputs = 0
    for t in ORDER:
        shorts = [s for s in suite[t] if len(s) <= maxn]
        shorts.sort(key=lambda s: (-len(s), s))
        # the fixed table first, then the suite's own short inputs
        picked = [s for s in SHORT[t] if len(s) <= maxn] + [s for s in shorts if s not in SHORT[t]]
        lim_all = 3 if quick else 8
        for idx, s in enumerate(picked[: (6 if quick else 14)]):
            parts = cuts[len(s)]
            if quick and len(parts) > 330:
                # quick: every partition of inputs up to 5 bytes, a seeded sample of the partitions of longer ones
                parts = vlib.sample(parts, 150 if idx == 0 else 60, rnd)
            elif not quick and idx >= lim_all and len(parts) > 1000:
                parts = vlib.sample(parts, 800, rnd)
            exh_inputs += 1
            for pi, p in enumerate(parts):
                reg = REGS[(pi + idx) % 3]
                B.add(mode='writer', mt=mt_for(t, reg, rnd, params=(pi % 4 == 0)), reg=reg, chunks=p, tag='cuts:' + t,
                      gate=(pi % 7 == 3), after=(pi % 5 == 2), **{'in': s})
                if len(s) <= (4 if quick else 6):
                    # the same partition as source reads of the reader wrapper and as handler writes
                    B.add(mode='reader', mt=mt_for(t, reg, rnd, params=False), reg=reg, chunks=p, tag='cuts:' + t,
                          rbufs=rnd.choice([[1], [2], [3, 1], [4096]]), pace=rnd.choice(['', 'consumerfirst', 'workerfirst']),
                          **{'in': s})
                    f = resp_fields(t, reg, rnd, rnd.choice(['K1', 'none']), 'K1')
                    B.add(mode=rnd.choice(['response', 'mw', 'mwerr']), reg=reg, chunks=p, tag='cuts:' + t, mt='',
                          cl=rnd.choice([-1, len(s)]), wh=rnd.choice(['no', 'first', 'last']), gate=(pi % 5 == 1), **f, **{'in': s})
    n_exh = len(B.cases) - n_init
    # (3) seeded partitions of longer inputs (suite + benchmark files), every entry point
    per_type = 90 if quick else 700
    for t in ORDER:
        pool = suite[t]
        for j in range(per_type):
            data = rnd.choice(pool)
            reg = rnd.choice(REGS)
            mode = ['writer', 'reader', 'response', 'mw', 'mwerr', 'bytes', 'string'][j % 7]
            c = dict(mode=mode, reg=reg, chunks=rand_partition(len(data), rnd), tag='seeded:' + t, mt=mt_for(t, reg, rnd))
            c['in'] = data
            if mode == 'reader':
                c['rbufs'] = rnd.choice([[1], [2, 3], [5], [64], [4096], [1, 4096]])
                c['pace'] = rnd.choice(['', 'consumerfirst', 'workerfirst'])
            if mode in ('response', 'mw', 'mwerr'):
                ct = rnd.choice(['K1', 'K1', 'none', 'K2', 'U'])
                ext = rnd.choice(['K1', 'K1', 'U'])
                c.update(resp_fields(t, reg, rnd, ct, ext))
                c['mt'] = ''
                c['wh'] = rnd.choice(['no', 'first', 'last'])
                c['cl'] = len(data) if rnd.random() < 0.7 else -1
                c['status'] = rnd.choice([200, 404])
            if mode in ('writer', 'response', 'mw', 'mwerr'):
                c['gate'] = rnd.random() < 0.4
                c['after'] = mode in ('writer', 'response') and rnd.random() < 0.3
            if mode in ('bytes', 'string'):
                c['chunks'] = []
            B.add(**c)
        for data in bench[t]:
            for j in range(4 if quick else 24):
                reg = rnd.choice(REGS)
                mode = ['writer', 'reader', 'mw', 'bytes', 'response', 'string', 'mwerr'][j % 7]
                sizes = rand_partition(len(data), rnd) if j % 2 == 0 else [rnd.choice([1, 511, 512, 513, 4095, 4096, 4097, 32768])] * (len(data) // 511 + 1)
                c = dict(mode=mode, reg=reg, chunks=sizes, tag='bench:' + t, mt=mt_for(t, reg, rnd))
                c['in'] = data
                if mode == 'reader':
                    c['rbufs'] = rnd.choice([[512], [4096], [1, 4096], [100, 7]])
                if mode in ('response', 'mw', 'mwerr'):
                    c.update(resp_fields(t, reg, rnd, rnd.choice(['K1', 'none']), 'K1'))
                    c['mt'] = ''
                    c['wh'] = rnd.choice(['no', 'first', 'last'])
                    c['cl'] = len(data)
                if mode in ('writer', 'mw', 'mwerr', 'response'):
                    c['gate'] = j % 3 == 0
                if mode in ('bytes', 'string'):
                    c['chunks'] = []
                B.add(**c)
    n_seeded = len(B.cases) - n_init - n_exh
    # (4) every prefix of the representative documents through Bytes and String (outputs longer than the input occur:
    #     the helpers size their output buffer from the input), and a sample through the other entry points
    for t in ORDER:
        docs = list(TRUNC[t]) + ([] if quick else [x for x in suite[t] if len(x) <= 200])
        for j, p in enumerate(prefixes(docs)):
            reg = REGS[j % 3]
            B.add(mode='bytes', mt=mt_for(t, reg, rnd, params=False), reg=reg, chunks=[], tag='prefix:' + t, **{'in': p})
            B.add(mode='string', mt=mt_for(t, reg, rnd, params=False), reg=reg, chunks=[], tag='prefix:' + t, **{'in': p})
            if j % (6 if quick else 3) == 0:
                mode = ['writer', 'reader', 'mw'][(j // 3) % 3]
                c = dict(mode=mode, reg=reg, chunks=rand_partition(len(p), rnd), tag='prefix:' + t, mt=mt_for(t, reg, rnd, params=False))
                if mode == 'mw':
                    c.update(resp_fields(t, reg, rnd, 'K1', 'K1'))
                    c.update(mt='', cl=len(p), wh=rnd.choice(['no', 'first']))
                B.add(**c, **{'in': p})
    n_prefix = len(B.cases) - n_init - n_exh - n_seeded
    # (5) Close as the FIRST call on the wrapper (empty input, no Write call at all), many rounds, with and without the
    #     gate, with a healthy and a failing sink: Close must wait for a worker that may not even have started yet
    for t in ORDER:
        for r in range(24 if quick else 150):
            reg = REGS[r % 3]
            B.add(mode='writer', mt=mt_for(t, reg, rnd, params=False), reg=reg, chunks=[], tag='closefirst:' + t, rep=r,
                  gate=(r % 2 == 0), ff=(1 if r % 3 == 0 else 0), after=(r % 5 == 0), **{'in': b''})
    n_first = len(B.cases) - n_init - n_exh - n_seeded - n_prefix
    # (6) call histories on the helpers: calls that fail AFTER having produced output, then a call on valid input; the
    #     judged call must equal the plain call (nothing carried over from an earlier call)
    for t in ORDER:
        valid = [x for x in suite[t] if 0 < len(x) <= 120]
        for r in range(20 if quick else 120):
            data = rnd.choice(valid)
            reg = REGS[r % 3]
            pre = [dict(mode=rnd.choice(['bytes', 'string']), mt=TYPES[pt]['mt'], **{'in': list(rnd.choice(FAIL_AFTER_OUTPUT[pt]))})
                   for pt in [rnd.choice(sorted(FAIL_AFTER_OUTPUT)) for _ in range(rnd.choice([1, 1, 2, 3]))]]
            B.add(mode=['bytes', 'string'][r % 2], mt=mt_for(t, reg, rnd, params=False), reg=reg, chunks=[], tag='history:' + t,
                  pre=pre, **{'in': data})
    n_hist = len(B.cases) - n_init - n_exh - n_seeded - n_prefix - n_first
    stats = dict(sessions_from_initial_states=n_init, sessions_exhaustive_partitions=n_exh,
                 sessions_seeded_partitions=n_seeded, sessions_prefix_family=n_prefix, sessions_close_first=n_first, sessions_helper_history=n_hist,
                 short_inputs_exhausted=exh_inputs,
                 initial_states_enumerated=len(inits), initial_states_used=len(chosen))
    return B.cases, stats


# ---------------------------------------------------------------- RUN
def nprocs():
    return max(1, min(vlib.JOBS, 8))


CRASHED = []        # enumeration cases during which the driver process died: (case, stderr)


def run_driver(ctx, exe, cases, tag, procs=None, timeout=1500):
    """run the driver over the cases (several processes); returns the list of output lines (str), aligned with cases
    for non-enumerating cases.  A blocked session stops its process (exit 3): the rest is resumed in a new one.
    A crashed process (panic inside a goroutine of the code under test) yields a synthetic Panic line."""
    procs = procs or nprocs()
    n = len(cases)
    if n == 0:
        return []
    shards = [list(range(s, n, procs)) for s in range(procs)]
    shards = [s for s in shards if s]

    def one(si):
        idx = shards[si]
        out_lines = []
        start = 0
        rnd_n = 0
        nblocked = 0
        ncrash = 0
        while start < len(idx):
            rnd_n += 1
            cin = ctx.path('run', '%s-%d-%d-cases.ndjson' % (tag, si, rnd_n))
            cout = ctx.path('run', '%s-%d-%d-trace.ndjson' % (tag, si, rnd_n))
            vlib.write_ndjson(cin, [cases[i] for i in idx[start:]])
            try:
                # different degrees of real parallelism give the Go scheduler different interleavings to choose from
                env = dict(os.environ, GOMAXPROCS=str([1, 2, 4, 8][si % 4]))
                r = subprocess.run([exe, cin, cout], capture_output=True, text=True, timeout=timeout, env=env)
            except subprocess.TimeoutExpired:
                raise vlib.Infra('driver timeout (%s shard %d)' % (tag, si))
            lines = [l.rstrip('\n') for l in open(cout)] if os.path.exists(cout) else []
            if any(cases[i].get('enum') for i in idx[start:]):
                out_lines += lines
                if r.returncode == 0:
                    break
                if r.returncode == 3 and lines:
                    # a run blocked: its record is the last line; resume with the case after the one it belongs to
                    nblocked += 1
                    cid = json.loads(lines[-1])['cid']
                    pos = [k for k, i in enumerate(idx) if cases[i]['id'] == cid]
                    if nblocked >= 3 or not pos:
                        break
                    start = pos[0] + 1
                    continue
                if r.returncode == 2 and ('panic:' in r.stderr or 'fatal error:' in r.stderr):
                    # the process died (panic in a goroutine of the code under test) inside the case after the last
                    # completed one, or inside the case of the last record
                    done_ids = [json.loads(l)['cid'] for l in lines[-1:]]
                    ids = [cases[i]['id'] for i in idx]
                    pos = ids.index(done_ids[0]) if done_ids and done_ids[0] in ids else start - 1
                    # the crashing case is ids[pos] (died in the middle) or ids[pos+1] (died at its start): both are rerun alone
                    for q in (pos, pos + 1):
                        if 0 <= q < len(idx):
                            CRASHED.append((cases[idx[q]], r.stderr[-1500:]))
                    ncrash += 1
                    if ncrash >= 3 or pos + 2 >= len(idx):
                        break
                    start = pos + 2
                    continue
                raise vlib.Infra('driver failed on enumeration cases (%d): %s' % (r.returncode, r.stderr[-2000:]))
            out_lines += lines
            start += len(lines)
            if r.returncode == 0:
                if start != len(idx):
                    raise vlib.Infra('driver wrote %d lines for %d cases' % (start, len(idx)))
                break
            if r.returncode == 3:
                nblocked += 1
                if nblocked >= 4:
                    break         # enough blocked sessions on this shard; the remaining cases are not run
                continue          # a blocked session was recorded (last line); resume after it
            if r.returncode == 2 and ('panic:' in r.stderr or 'fatal error:' in r.stderr) and start < len(idx):
                c = cases[idx[start]]
                out_lines.append(json.dumps(crash_line(c, r.stderr)))
                start += 1
                continue
            raise vlib.Infra('driver failed (%d): %s' % (r.returncode, r.stderr[-2000:]))
        return out_lines

    with ThreadPoolExecutor(max_workers=len(shards)) as ex:
        res = list(ex.map(one, range(len(shards))))
    if any(c.get('enum') for c in cases):
        return [l for r in res for l in r]
    out = [None] * n
    for si, idx in enumerate(shards):
        if len(res[si]) > len(idx):
            raise vlib.Infra('driver output misaligned (%s shard %d: %d/%d)' % (tag, si, len(res[si]), len(idx)))
        for k, i in enumerate(idx[:len(res[si])]):
            out[i] = res[si][k]
    return out


def crash_line(c, stderr):
    """the process died inside this session: recorded as a Panic event (confirmed by the isolated rerun)"""
    w = dict(n=0, h='', b=[], e='', t='')
    return dict(id=c['id'], mode=c['mode'], mt=c.get('mt', ''), reg=c.get('reg', ''), tag=c.get('tag', ''), ff=c.get('ff', 0),
                sf=c.get('sf', -1), gate=bool(c.get('gate')), after=False, small=False, inn=len(c['in']), inh='', h0='', nwrite=0,
                want=w, ct=c.get('ct', ''), xt='', cl=c.get('cl', -1), wct=w, wxt=w, **{'in': []},
                ev=[dict(k='Panic', n=0, c=0, e='', t=stderr[-400:], b=[])])


def run_alone(ctx, exe, case, tag, nowatchdog=False):
    """one session in a fresh process.  With nowatchdog the driver uses no timers: if the session blocks, the Go
    runtime itself reports 'all goroutines are asleep - deadlock!' - a proof, not a timing guess."""
    cin = ctx.path('alone', '%s-case.ndjson' % tag)
    cout = ctx.path('alone', '%s-trace.ndjson' % tag)
    vlib.write_ndjson(cin, [case])
    args = ([nocgo_exe(ctx), '-nowatchdog'] if nowatchdog else [exe]) + [cin, cout]
    try:
        r = subprocess.run(args, capture_output=True, text=True, timeout=120)
    except subprocess.TimeoutExpired:
        raise vlib.Infra('isolated rerun neither finished nor deadlocked within 120 s (%s)' % tag)
    lines = [l.rstrip('\n') for l in open(cout)] if os.path.exists(cout) else []
    if nowatchdog and r.returncode == 2 and 'all goroutines are asleep' in r.stderr:
        return 'deadlock', lines, r.stderr
    if r.returncode == 2 and ('panic:' in r.stderr or 'fatal error:' in r.stderr):
        return 'crash', lines, r.stderr
    if r.returncode not in (0, 3):
        raise vlib.Infra('isolated rerun failed (%d): %s' % (r.returncode, r.stderr[-1500:]))
    return 'ok', lines, r.stderr


DRIFT_RE = re.compile(r'<<\s*"DRIFT",\s*(\d+),\s*"([^"]*)"\s*>>', re.S)
DRIFT = {}          # design-conformance mismatches seen by the last validations (information, never a verdict)
REJ_RE = re.compile(r'<<\s*"REJECT",\s*(\d+),\s*"([^"]*)"\s*>>', re.S)
_tv_n = [0]


def trace_validate(ctx, module, cfg, lines, linear, min_per_shard=150, heap='3g', timeout=1800):
    """Validate recorded lines against a trace spec with TLC (sharded).  Like vlib.tlc_trace, but REJECT tuples are
    parsed in TLC's multi-line layout as well (TLC wraps tuples wider than 80 columns) and the number of REJECT
    strings in the output must equal the number parsed - a rejection that cannot be parsed is an infrastructure
    error, never silence."""
    n = len(lines)
    if n == 0:
        return 0, []
    shards = max(1, min(vlib.JOBS, n // min_per_shard + 1))
    files, index = [], []
    _tv_n[0] += 1
    for s in range(shards):
        idx = list(range(s, n, shards))
        p = ctx.path('tv', '%s-%d-%d.ndjson' % (module, _tv_n[0], s))
        vlib.write_ndjson(p, [lines[i] for i in idx])
        files.append(p)
        index.append(idx)

    def one(s):
        return vlib.tlc(ctx, module, cfg, workers=1, heap=heap, timeout=timeout, env={'TRACE': files[s]})

    with ThreadPoolExecutor(max_workers=shards) as ex:
        results = list(ex.map(one, range(shards)))
    rejects = []
    for s, r in enumerate(results):
        bad = [e for e in r['errors'] if 'REJECT' not in e]
        if r['invariant_violations'] or bad or not r['completed']:
            raise vlib.Infra('trace validation run failed (%s/%s shard %d):\n%s' % (module, cfg, s, r['out'][-3000:]))
        if linear and r['distinct'] != len(index[s]) + 1:
            raise vlib.Infra('trace validation consumed %d of %d lines (%s shard %d)' % (r['distinct'] - 1, len(index[s]), module, s))
        found = REJ_RE.findall(r['out'])
        if len(found) != r['out'].count('"REJECT"'):
            raise vlib.Infra('unparsed REJECT output (%s shard %d):\n%s' % (module, s, r['out'][-2000:]))
        for l, why in found:
            rejects.append((index[s][int(l) - 1], ' '.join(why.split())))
        for l, what in DRIFT_RE.findall(r['out']):
            what = ' '.join(what.split())
            DRIFT[what] = DRIFT.get(what, 0) + 1
    rejects = sorted(set(rejects))
    accepted = n - len(set(i for i, _ in rejects))
    return accepted, rejects


def validate(ctx, lines):
    return trace_validate(ctx, 'C12Trace', 'C12Trace.cfg', lines, linear=False)


def describe(c, why):
    d = identity(c)
    inp = d.pop('in')
    return '%s %s input=%r (%d bytes): %s' % (c['mode'], json.dumps(d, sort_keys=True), inp[:60], len(inp), why)


def confirm_and_report(ctx, exe, cases, lines, rejects, limit=30):
    """every rejected session is re-run alone in a fresh process and re-validated (one TLC run for all) before it counts"""
    why = {}
    for i, w in rejects:
        why.setdefault(i, []).append(w)
    # sessions that carry their own call history first: they are self-contained witnesses
    bad = sorted(why, key=lambda i: (0 if cases[i].get('pre') else 1, i))
    reproduced = 0
    again = []          # (case index, line) of the reruns that completed
    for i in bad[:limit]:
        c = dict(cases[i])
        blocked = any('blocked' in w or 'did not return' in w or 'never saw the end' in w for w in why[i])
        status, l2, err = run_alone(ctx, exe, c, 'r%d' % i, nowatchdog=blocked)
        if status == 'deadlock':
            reproduced += 1
            ctx.report(identity(c), describe(c, 'blocks forever (Go runtime: all goroutines are asleep); first run: ' + '; '.join(why[i])),
                       dict(case=identity(c), stderr=err[-800:]))
            continue
        if status == 'crash':
            reproduced += 1
            ctx.report(identity(c), describe(c, 'process crashed (panic in the code under test): ' + err[-300:]),
                       dict(case=identity(c), stderr=err[-1500:]))
            continue
        if len(l2) != 1:
            raise vlib.Infra('isolated rerun of case %d produced %d lines' % (i, len(l2)))
        again.append((i, l2[0]))
    if again:
        acc, rej2 = validate(ctx, [l for _, l in again])
        why2 = {}
        for k, w in rej2:
            why2.setdefault(k, []).append(w)
        for k in sorted(why2):
            i, l = again[k]
            reproduced += 1
            c = cases[i]
            s = json.loads(l)
            ctx.report(identity(c), describe(c, '; '.join(sorted(set(why2[k])))),
                       dict(case=identity(c), events=[[e['k'], e['n'], e['c'], e['e'], e['t'][:80]] for e in s['ev']][:200]))
    if reproduced == 0 and again:
        # Not reproducible alone: the outcome may depend on what the same process did BEFORE this session (state carried
        # over between calls - itself a defect of an entry point that must equal the plain call).  Re-run the session
        # behind the sessions that preceded it in its process, shortest history first.
        P = nprocs()
        for i, _ in again[:6]:
            for H in (1, 4, 16, 64):
                pred = [j for j in range(i - H * P, i, P) if j >= 0]
                seq = [dict(cases[j]) for j in pred] + [dict(cases[i])]
                cin = ctx.path('alone', 'h%d-%d-cases.ndjson' % (i, H))
                cout = ctx.path('alone', 'h%d-%d-trace.ndjson' % (i, H))
                vlib.write_ndjson(cin, seq)
                r = subprocess.run([exe, cin, cout], capture_output=True, text=True, timeout=300,
                                   env=dict(os.environ, GOMAXPROCS=str([1, 2, 4, 8][(i % P) % 4])))
                lines2 = [l.rstrip('\n') for l in open(cout)] if os.path.exists(cout) else []
                if r.returncode != 0 or len(lines2) != len(seq):
                    break
                acc, rej2 = validate(ctx, lines2[-1:])
                if rej2:
                    reproduced += 1
                    c = cases[i]
                    ident = dict(identity(c), history=[identity(cases[j]) for j in pred])
                    ctx.report(ident, describe(c, 'only after %d earlier session(s) in the same process (state carried over between calls): %s'
                                               % (len(pred), '; '.join(sorted(set(w for _, w in rej2))))), dict(case=ident))
                    break
            if reproduced >= 3:
                break
    ctx.coverage['rejections'] = len(bad)
    ctx.coverage['rejections_reproduced'] = reproduced
    if reproduced == 0:
        raise vlib.Infra('rejections did not reproduce in isolation: %s' % ['%d:%s' % (i, why[i]) for i in bad[:5]])


def selftest(ctx, lines, rejected):
    """flip recorded fields of accepted sessions; TLC must reject every corrupted line with the expected clause"""
    drift_before = dict(DRIFT)
    bad = []

    def pick(pred):
        for i, l in enumerate(lines):
            if i in rejected:
                continue
            s = json.loads(l)
            if pred(s):
                return s
        return None
    s = pick(lambda s: s['mode'] == 'writer' and s['small'] and s['ff'] == 0 and s['want']['e'] == 'nil' and s['want']['n'] > 1)
    if s:
        a = json.loads(json.dumps(s))
        e = [x for x in a['ev'] if x['k'] == 'SinkWrite' and x['n'] > 0][0]
        e['b'][0] ^= 1
        bad.append((a, 'ChunkingInvariance'))
        a = json.loads(json.dumps(s))
        cr = [k for k, x in enumerate(a['ev']) if x['k'] == 'CloseRet'][0]
        sw = [k for k, x in enumerate(a['ev']) if x['k'] == 'SinkWrite' and x['n'] > 0][-1]
        ev = a['ev']
        x = ev.pop(cr)
        ev.insert(sw, x)
        bad.append((a, 'NoWriteAfterClose'))
        a = json.loads(json.dumps(s))
        a['ev'] = [x for x in a['ev'] if x['k'] != 'hook.writer.exit']
        bad.append((a, 'CloseWaits'))
        a = json.loads(json.dumps(s))
        [x for x in a['ev'] if x['k'] == 'CloseRet'][0]['e'] = 'other'
        bad.append((a, 'CloseWaits'))
    s = pick(lambda s: s['mode'] in ('mw', 'mwerr') and s['ff'] == 0 and any(x['k'] == 'Commit' for x in s['ev'])
             and any(x['k'] == 'hook.response.select' for x in s['ev']) and (s['wct'] if s['ct'] else s['wxt'])['e'] == 'nil')
    if s:
        a = json.loads(json.dumps(s))
        [x for x in a['ev'] if x['k'] == 'Commit'][0]['c'] = a['inn'] + 1000
        bad.append((a, 'ContentLengthGone'))
    s = pick(lambda s: s['mode'] == 'reader' and s['ff'] == 0 and s['sf'] < 0 and s['want']['e'] == 'nil' and s['want']['n'] > 0)
    if s:
        a = json.loads(json.dumps(s))
        [x for x in a['ev'] if x['k'] == 'Read' and x['e'] != 'nil'][0]['e'] = 'other'
        bad.append((a, 'ChunkingInvariance'))
    if len(bad) < 4:
        if ctx.violations:
            return      # (nearly) everything was rejected: the verdict stands, nothing accepted is left to corrupt
        raise vlib.Infra('binding self-test: no suitable accepted sessions to corrupt')
    acc, rej = validate(ctx, [json.dumps(a, separators=(',', ':')) for a, _ in bad])
    got = {}
    for k, w in rej:
        got.setdefault(k, []).append(w)
    for k, (a, clause) in enumerate(bad):
        if not any(clause in w for w in got.get(k, [])):
            raise vlib.Infra('binding self-test: corrupted session %d not rejected by %s (got %s)' % (k, clause, got.get(k)))
    DRIFT.clear()
    DRIFT.update(drift_before)
    ctx.coverage['selftest_corrupted_sessions_rejected'] = len(bad)


def profile_inputs(ctx, exe, suite):
    """number of sink calls of the fault-free plain call per suite input (to place abstract fault points)"""
    cases, keys = [], []
    for t in ORDER:
        for s in suite[t]:
            cases.append(dict(id=len(cases), mode='plain', mt=TYPES[t]['mt'], reg='literal', sum=True, **{'in': list(s)}))
            keys.append((t, s))
    lines = run_driver(ctx, exe, cases, 'profile')
    prof = {}
    for k, l in zip(keys, lines):
        prof[k] = json.loads(l)['nwrites']
    return prof


def phase(ctx, name):
    import time
    vlib.log('[%s %6.1fs] %s' % (ctx.pid, time.time() - ctx.t0, name))


def build(ctx):
    return vlib.build_harness(ctx, 'c12')


_nocgo = {}


def nocgo_exe(ctx):
    """pure-Go build of the driver, made only when a blocked session has to be confirmed: with cgo linked in (net), the
    Go runtime never reports "all goroutines are asleep - deadlock!", which is what proves the block in the isolated rerun"""
    if ctx.scratch not in _nocgo:
        out = ctx.path('bin', 'c12-nocgo')
        env = vlib.goenv()
        env['CGO_ENABLED'] = '0'
        args = ['go', 'build'] + vlib._modfile(ctx) + ['-tags', 'verif', '-o', out, './cmd/c12']
        r = subprocess.run(args, cwd=vlib.HARNESS, env=env, capture_output=True, text=True)
        if r.returncode != 0:
            raise vlib.Infra('pure-Go harness build failed:\n%s' % r.stderr[-3000:])
        _nocgo[ctx.scratch] = out
    return _nocgo[ctx.scratch]


def run(ctx):
    quick = ctx.quick()
    exe = build(ctx)
    vlib._speccopy(ctx)
    pool = ThreadPoolExecutor(max_workers=3 if quick else 4)
    # ---- GEN (TLC) while the suite inputs are extracted and profiled
    gen = pool.submit(generate, ctx, 'StreamGen_quick.cfg' if quick else 'StreamGen_thorough.cfg')
    suite = suite_inputs(ctx)
    bench = bench_inputs(ctx)
    profile = profile_inputs(ctx, exe, suite)
    phase(ctx, 'inputs profiled')
    inits, cuts, rg = gen.result()
    phase(ctx, 'generated')
    # ---- MC (runs concurrently with the real sessions and their validation)
    futs = [(n, pool.submit(f)) for n, f in model_check_jobs(ctx, 'quick' if quick else 'thorough', MUTANTS[:2] + MUTANTS[4:5] + MUTANTS[6:8] if quick else MUTANTS)]
    cases, stats = make_cases(ctx, inits, cuts, suite, bench, profile)
    pinned = vlib.known_cases(PID)
    for p in pinned:
        c = dict(p)
        c['in'] = list(c['in'].encode('latin1'))
        c['id'] = len(cases)
        c.setdefault('small', SMALL)
        c['tag'] = 'pinned'
        cases.append(c)
    phase(ctx, '%d cases built' % len(cases))
    # ---- RUN
    lines = run_driver(ctx, exe, cases, 'main')
    phase(ctx, 'sessions run')
    if any(l is None for l in lines):
        # only after several sessions blocked: the cases after them on the same shard were not run
        ctx.coverage['sessions_not_run_after_blocked'] = sum(1 for l in lines if l is None)
        cases = [c for c, l in zip(cases, lines) if l is not None]
        lines = [l for l in lines if l is not None]
    hooks = sum(l.count('"hook.writer.exit"') + l.count('"hook.reader.exit"') for l in lines)
    if hooks == 0:
        raise vlib.Infra('no hook events recorded: the harness was not built with -tags verif or the hooks are gone')
    # ---- TV
    accepted, rejects = validate(ctx, lines)
    phase(ctx, 'validated')
    if rejects:
        confirm_and_report(ctx, exe, cases, lines, rejects)
    phase(ctx, 'rejections confirmed')
    # ---- binding self-test: corrupted recordings of accepted sessions must be rejected
    selftest(ctx, lines, set(i for i, _ in rejects))
    phase(ctx, 'selftest done')
    # ---- collect MC
    for n, f in futs:
        info = f.result()
        if n == 'main':
            ctx.mc['states'] += info['design_states']
            ctx.mc['transitions'] += info['design_transitions']
        if n == 'empty':
            ctx.mc['states'] += info['design_states_empty_input']
            ctx.mc['transitions'] += info['design_transitions_empty_input']
        ctx.coverage.update(info)
    pool.shutdown()
    phase(ctx, 'MC collected')
    # ---- evidence
    nontrivial = set()
    grows = 0
    events = 0
    modes = {}
    samples = []
    for c, l in zip(cases, lines):
        s = json.loads(l)
        events += len(s['ev'])
        modes[s['mode']] = modes.get(s['mode'], 0) + 1
        ref = s['want'] if s['mode'] not in ('response', 'mw', 'mwerr') else (s['wct'] if s['ct'] else s['wxt'])
        multi = len([x for x in c.get('chunks', []) if True]) > 1 or c['mode'] in ('bytes', 'string')
        if s['mode'] in ('bytes', 'string') and ref['e'] == 'nil' and ref['n'] > s['inn']:
            grows += 1
        if ref['e'] == 'nil' and ref['h'] != s['inh'] and multi:
            nontrivial.add(vlib.case_key(identity(c)))
        if len(samples) < 5 and c['id'] % 997 == 3:
            d = identity(c)
            d['in'] = d['in'][:80]
            d['events'] = [e['k'] for e in s['ev']][:40]
            samples.append(d)
    if not samples:
        d = identity(cases[0])
        d['events'] = [e['k'] for e in json.loads(lines[0])['ev']][:40]
        samples.append(d)
    ctx.coverage.update(stats)
    ctx.coverage['helper_sessions_output_longer_than_input'] = grows
    ctx.coverage['design_drift'] = dict(DRIFT)   # event orders that the design model does not allow (information only)
    ctx.coverage.update(dict(
        traces_validated_against_impl=accepted,
        evaluations=len(lines),
        events_validated=events,
        sessions_by_entry_point=modes,
        distinct_nontrivial=len(nontrivial),
        rule='a case is one session (entry point, registry kind, mediatype spelling, input bytes, chunk sizes, consumer buffer '
             'sizes/pacing, fault points, gate, response headers/WriteHeader use). Sources: every initial state of Stream '
             '(TLC, %s), all partitions Cuts(n) of short real inputs up to %d bytes (TLC; quick tier: all partitions up to 5 bytes, seeded sample for 6), seeded partitions (incl. empty and '
             '1-byte chunks) of the test suites\' inputs and benchmark files for all six media types. Non-trivial = the plain '
             'call succeeds, changes the bytes, and the input is split over more than one call (or goes through Bytes/String). '
             'Nothing is excluded from generation; the witnesses of the two fixed findings (stale Content-Length, query string '
             'in the request URI) are replayed as regression cases.'
             % ('all of them' if not quick else 'seeded sample', max(cuts)),
        samples=samples,
        exhaustive=not quick,
        exhaustive_bound='all initial states of Stream (Input of %d abstract bytes) and all partitions with empty chunks of inputs up to %d bytes'
                         % (3, max(cuts)),
    ))
    ctx.assumptions += [
        'TLC evaluates spec/C12Trace.tla on the recorded events; byte equality is decided on the recorded bytes (inputs and '
        'outputs up to %d bytes) and on (length, SHA-1) of the delivered prefix otherwise' % SMALL,
        'hook events writer.exit / reader.exit (build tag verif) mark the point where the minifier has returned',
        'the sink gate is closed only after the last Write, immediately before Close: correct code cannot return from Close '
        'while it is closed, whatever the grace period',
        'mime.TypeByExtension / net/url of the standard library give the type of the request path extension',
    ]


def replay(ctx, obj):
    exe = build(ctx)
    c = dict(obj['case'])
    hist = c.pop('history', [])

    def concrete(x):
        x = dict(x)
        x['in'] = list(x['in'].encode('latin1')) if isinstance(x['in'], str) else x['in']
        for q in x.get('pre', []):
            q['in'] = list(q['in'].encode('latin1')) if isinstance(q['in'], str) else q['in']
        x.setdefault('id', 0)
        x.setdefault('small', SMALL)
        return x
    c = concrete(c)
    if hist:
        seq = [concrete(h) for h in hist] + [c]
        cin, cout = ctx.path('alone', 'replay-cases.ndjson'), ctx.path('alone', 'replay-trace.ndjson')
        vlib.write_ndjson(cin, seq)
        subprocess.run([exe, cin, cout], capture_output=True, text=True, timeout=300)
        lines = [l.rstrip('\n') for l in open(cout)][-1:] if os.path.exists(cout) else []
        status, err = ('ok' if lines else 'failed'), ''
    else:
        status, lines, err = run_alone(ctx, exe, c, 'replay')
    if status != 'ok' or not lines:
        print('session did not complete:', status, err[-500:])
        print('VIOLATION property=%s replay=given' % PID)
        return 1
    s = json.loads(lines[0])
    print(json.dumps({k: s[k] for k in s if k != 'ev'})[:1500])
    for e in s['ev']:
        print('  ', e['k'], e['n'], e['c'], e['e'], e['t'][:60])
    if any(e['k'] == 'Blocked' for e in s['ev']):
        status, _, err = run_alone(ctx, exe, c, 'replay2', nowatchdog=True)
        print('without watchdog:', status)
    acc, rej = validate(ctx, lines)
    for _, w in rej:
        print('rejected:', w)
    if rej:
        print('VIOLATION property=%s replay=given' % PID)
        return 1
    print('accepted')
    return 0


META = dict(
    category='model_checking',
    text='Stream.tla models the Writer, Reader, ResponseWriter/Middleware(WithError) and Bytes/String entry points over Go io.Pipe '
         'semantics with one action per linearisation point; TLC checks ChunkingInvariance, CloseWaits, NoWriteAfterClose, '
         'ContentLengthGone, SelectionRule, FaultSurfaces, deadlock freedom and <>CloseReturned for every chunking x fault '
         'position x gate x header choice and every interleaving, checks that the property relation StreamRel.tla never flags a '
         'behaviour of the design (D => A), and rejects deliberately wrong designs. Every initial state and every partition '
         'Cuts(n) enumerated by TLC is rendered on the real API for all six media types (plus seeded partitions of suite and '
         'benchmark inputs); the totally ordered event log of each real session (hook + harness events) is validated by TLC '
         'against C12Trace.tla, whose invariants are the clauses of StreamRel (= of the property).',
    design_ref='DESIGN.md section 4 C12, Appendix A.2',
    note='Trusted: TLC; the harness doubles (sink, source, ResponseWriter) and their event log; SHA-1 for outputs above 96 bytes; '
         'hook events behind build tag verif. Goroutine interleavings are those the Go scheduler and the gates produce (gated '
         'Close, consumer-first / worker-first pacing); the exhaustive interleaving argument is on the design model.',
    technique='TLA+ design model checked by TLC + TLC trace validation of event logs recorded from the real wrappers',
)
