"""C09  Accepted input yields syntactically valid output that is accepted again.

MC : Closure (one-step contract => closed under arbitrarily many passes, all minifier functions over a
     small universe) and JsLexAdj (ECMAScript lexical grammar in TLA+, the token-separation rule table
     checked against it over all class pairs and all generated sequences); JsLexAdj's reachable
     expressions are the adjacency programs.
RUN: harness/cmd/c09 drives the real minifiers (all six registered, default and non-default option sets)
     twice over: repository corpora and benchmark documents, the repository's own test inputs, seeded
     byte-level mutations and boundary splices of those, adjacency programs (bare and inside HTML hosts),
     and re-injected outputs.  Independent parsers judge input and output: V8 (--no-lazy; script, module and
     function-body goals) and acorn, encoding/json, encoding/xml, the x/net/html tokenizer (embedded scripts,
     styles, handlers), a CSS tokenizer written from css-syntax-3, an SVG path recogniser.
TV : C09Trace runs every record through the pipeline machine of Closure (PipeInv in every state) and adds the
     byte-level judgements written in TLA+ (path grammar, JS lexical grammar).
"""
import base64
import collections
import hashlib
import json
import os
import re
import subprocess
import threading
import time
from concurrent.futures import ThreadPoolExecutor

import vlib

LANGS = ('html', 'css', 'js', 'json', 'svg', 'xml')
OPTSETS = {
    'html': ['default', 'keep', 'quotes+endtags', 'ws+doctags+comments', 'special+defattr', 'es5+css2+p3'],
    'css': ['default', 'p3', 'css2', 'p1'],
    'js': ['default', 'names', 'es5', 'p3', 'es2019+names'],
    'json': ['default', 'p3', 'keepnum'],
    'svg': ['default', 'p2', 'comments', 'p6+css2'],
    'xml': ['default', 'ws'],
}
TESTDIRS = {'html': 'html', 'css': 'css', 'js': 'js', 'json': 'json', 'svg': 'svg', 'xml': 'xml'}

# Known findings (known/C09.txt).  Generators do not emit the narrow syntactic constructs below (matched on the
# INPUT bytes, never on the outcome); the pinned witnesses in known/C09.ndjson keep every defect visible.
_LT = r'(?:\\x3c|\\u003c|\\u\{0*3c\}|\\0?74)'
_SL = r'(?:/|\\/|\\x2f|\\u002f|\\u\{0*2f\}|\\0?57)'
# K1: an escape sequence in a JS literal that the JS minifier decodes so that "</script" appears inside an HTML script element
KNOWN_CONSTRUCT = re.compile(b'(?i:' + (_LT + _SL + r'script|<(?:\\x2f|\\u002f|\\u\{0*2f\}|\\0?57)script').encode() + b')' +
                             # ... or drops the backslash of  <\/SCRIPT>  /  <\/script >  (only the exact spelling <\/script> is kept)
                             rb'|<\\/(?!script>)(?i:script)')
# K2: a?.`tpl` printed for  (a===null||a===undefined)?undefined:a`tpl`   (tagged template on an optional chain is a SyntaxError)
K_OPTCHAIN_TPL = re.compile(rb'(?:null|undefined)\s*\)?\s*\?\s*(?:undefined|void 0)\s*:[^;]*`')
# K3: (++b)**2 is printed as ++b**2, which the minifier's own parser rejects on the second pass
K_UPDATE_POW = re.compile(rb'(?:\+\+|--)\s*[\w.$\[\]\'"]+\s*\)+\s*\*\*')
# K4: under KeepVarNames an else-block is dissolved into the enclosing block although it declares the same let/const name
K_ELSE_LET = re.compile(rb'else\s*\{\s*(?:let|const|class)\b')
# K5: the JSON minifier accepts a document that ends right after a colon and prints it without the colon
K_JSON_COLON = re.compile(rb':\s*(?:"(?:[^"\\]|\\.)*)?\Z')
# K6: the text of an SVG style element is handed to the CSS minifier with its entity references intact (&lt; loses its ;)
K_SVG_STYLE_ENT = re.compile(rb'<style\b[^>]*>[^<]*&', re.I)


# K7: the XML and SVG minifiers decode &#0; to a raw NUL byte, which their own lexer rejects on the second pass
K_XML_NUL = re.compile(rb'&#(?:0+|[xX]0+);')
# K8: export{} is printed as the bare keyword export (SyntaxError)
K_EXPORT_EMPTY = re.compile(rb'export\s*\{\s*\}')


# K9: SVG path coordinates beyond the float64 range are printed as "Inf" (invalid path data)
K_SVG_HUGE = re.compile(rb'\bd\s*=\s*["\'][^"\']*(?:[eE]\+?\d{3,}|\d{300,})')
# K13: SVG path: the "00 -> e2" shortening is applied to the exponent digits of a coordinate (1e100 -> 1e1e2)
K_SVG_EXP00 = re.compile(rb'\bd\s*=\s*["\'][^"\']*[eE][+-]?\d*00(?!\d)')
# K14: a parenthesised optional chain used as template tag loses its parentheses: (e?.f)`t` -> e?.f`t` (SyntaxError)
K_OPTCHAIN_TAG = re.compile(rb'\?\.[^()`;]*\)+\s*`')
# K15: export default (function(){}()) loses its parentheses: export default function(){}() (SyntaxError)
K_EXPORT_DEFAULT_FN = re.compile(rb'export\s+default\s*\(+\s*(?:async\s+)?(?:function|class)\b')
# K16: a string-key index on an integer literal is rewritten to a dot without the second dot: 1['s'] -> 1.s, (0x10)['s'] -> 16.s
_INT = rb'(?:0[xXbBoO][\da-fA-F]+|\d+)'
K_INT_INDEX = re.compile(rb'(?<![\w.$\])])(?:\(\s*)+' + _INT + rb'(?:\s*\))+\s*\[\s*["\'][A-Za-z_$]|(?<![\w.$(])' + _INT + rb'\s*\[\s*["\'][A-Za-z_$]')
# K17: regexp character class: the backslash of \\- is dropped after another escape was removed, turning literal characters into a range: /[(\\^\\--]/ -> /[(^--]/
K_REGEX_DASH = re.compile(rb'\[[^\]\n]*\\[^\]\n]\\-')
# K18: a bare yield in a template substitution loses its parentheses; the minifier's own parser rejects the result on the second pass
K_TPL_YIELD = re.compile(rb'\$\{\s*\(*\s*yield\s*\)*\s*\}')
# K19: regexp with the v flag: inside a character class the backslash of ( ) [ ] { } / - | is required (ClassSetSyntaxCharacter) but removed
K_REGEX_V_CLASS = re.compile(rb'/[^/\n]*\[[^\n]*\\[^\n]*/[dgimsuy]*v')
# K20: css url('data:...') in single quotes: DataURI re-encodes the payload and leaves a decoded ' literal: url('data:text/x,it's')
_SQ_DATA = re.compile(rb"url\(\s*'data:([^',]*),([^']*)'", re.I)


def sq_data_uri_with_quote(b):
    for m in _SQ_DATA.finditer(b):
        head, payload = m.group(1), m.group(2)
        if b'%27' in payload:
            return True
        if head.lower().endswith(b';base64'):
            try:
                if b"'" in base64.b64decode(payload + b'=' * (-len(payload) % 4)):
                    return True
            except Exception:
                pass
    return False


# K21: @import url(a\ ) with an escape right before the closing parenthesis is rewritten to the string "a\" whose quote is escaped
K_IMPORT_URL_ESC = re.compile(rb'@import\s+url\(\s*[^)"\'\s][^)"\']*\\\s?\)', re.I)
# K22: a block that contains only a bang comment loses its braces: if(a){//!k\n} -> if(a)//!k  ;  if(a){/*!k*/}else{b()} -> if(a)/*!k*/else b()
K_BANG_ONLY_BLOCK = re.compile(rb'\{\s*(?://!|/\*!)')
# K24: two adjacent CDATA sections are rewritten to text and joined: a]] + >b -> a]]>b (not allowed in character data)
K_CDATA_ADJ = re.compile(rb'\]\]><!\[CDATA\[')
# K10: a processing instruction whose content contains ">" before its "?>" is cut at that ">" by the XML/SVG minifiers
K_PI_GT = re.compile(rb'<\?(?:(?!\?>)[^>])*(?<!\?)>', re.S)


# K11: a script element whose type attribute spells a JavaScript MIME type with upper-case letters is left unminified (the
#      registry lookup is case-sensitive) while the attribute is dropped as a default; the second pass then parses the text as JS
K_SCRIPT_TYPE_CASE = re.compile(rb'(?i:<script\b[^>]*\btype\s*=\s*["\']?)[^"\'>]*[A-Z]')


# K12: with KeepVarNames hoistVars moves "var y" into a var statement that sits inside the scope of a "let y" (for(let y...){var x} ... var y)
_VARS = re.compile(rb'\bvar\s+([^;{}()]*)')
_LETS = re.compile(rb'\b(?:let|const)\s+([A-Za-z_$][\w$]*)')
_NAME = re.compile(rb'(?:^|,)\s*([A-Za-z_$][\w$]*)')


def same_name_var_and_let(b):
    lets = set(_LETS.findall(b))
    if not lets:
        return False
    for m in _VARS.finditer(b):
        if lets & set(_NAME.findall(m.group(1))):
            return True
    return False


# K25: a byte that is not valid UTF-8 inside an identifier is accepted, but decoded together with whatever follows it: after the
#      minifier has reordered the operands the same byte is rejected on the second pass (!a?t|ue:fal\xffe -> a?fal\xffe:t|ue)
def valid_utf8(b):
    try:
        b.decode('utf-8')
        return True
    except UnicodeDecodeError:
        return False


# constructs whose defect is fixed in /repo are no longer excluded: FIXED lists them permanently; VERIF_C09_LIFT=K5,K8 lifts more for a
# trial run against a patched tree (maintenance)
FIXED_NOTES = {
    'K1': 'fixed: property=C09 f235be9 K1 JS literal escapes decoded / backslash dropped so that "</script" appeared inside an HTML script element (\\x3C/script>, <\\/SCRIPT>, <\\/script >)',
    'K5': 'fixed: property=C09 badfec1 K5 JSON document ending right after a colon was accepted and printed without the colon',
    'K7': 'fixed: property=C09 fbe658d K7 XML/SVG &#0; was decoded to a raw NUL byte that the minifier\'s own lexer rejects',
    'K8': 'fixed: property=C09 b945f00 K8 export{} was printed as the bare keyword export',
    'K9': 'fixed: property=C09 8c62b44 K9 SVG path coordinate beyond the float64 range was printed as Inf',
    'K11': 'fixed: property=C09 4519604 K11 <script type="text/JavaScript"> was left unminified while its type attribute was dropped',
    'K13': 'fixed: property=C09 652de3f K13 SVG path: the trailing "00" -> "e2" shortening was applied to exponent digits (L1e100 5 -> 1e1e2 5)',
    'K16': 'fixed: property=C09 115c051 K16 1[\'s\'] was shortened to 1.s',
}
FIXED = set(FIXED_NOTES)
LIFTED = FIXED | set(filter(None, os.environ.get('VERIF_C09_LIFT', '').split(',')))


def has_known_construct(b):
    return KNOWN_CONSTRUCT.search(b) is not None


def excluded(lang, opts, b):
    """construct tags of known findings present in an input (generator exclusion)"""
    tags = []
    if lang == 'html' and KNOWN_CONSTRUCT.search(b):
        tags.append('K1')
    if lang in ('js', 'html') and not any(w in opts for w in ('es5', 'es2015', 'es2019')) and K_OPTCHAIN_TPL.search(b):
        tags.append('K2')
    if lang in ('js', 'html') and K_UPDATE_POW.search(b):
        tags.append('K3')
    if lang in ('js', 'html') and ('names' in opts or 'keep' in opts) and K_ELSE_LET.search(b):
        tags.append('K4')
    if lang == 'json' and K_JSON_COLON.search(b):
        tags.append('K5')
    if lang in ('svg', 'html') and K_SVG_STYLE_ENT.search(b):
        tags.append('K6')
    if lang in ('xml', 'svg', 'html') and K_XML_NUL.search(b):
        tags.append('K7')
    if lang in ('js', 'html') and K_EXPORT_EMPTY.search(b):
        tags.append('K8')
    if lang in ('svg', 'html') and K_SVG_HUGE.search(b):
        tags.append('K9')
    if lang in ('xml', 'svg') and K_PI_GT.search(b):
        tags.append('K10')
    if lang in ('svg', 'html') and K_SVG_EXP00.search(b):
        tags.append('K13')
    if lang in ('js', 'html') and K_OPTCHAIN_TAG.search(b):
        tags.append('K14')
    if lang in ('js', 'html') and K_EXPORT_DEFAULT_FN.search(b):
        tags.append('K15')
    if lang in ('js', 'html') and K_INT_INDEX.search(b):
        tags.append('K16')
    if lang in ('js', 'html') and K_REGEX_DASH.search(b):
        tags.append('K17')
    if lang in ('js', 'html') and K_TPL_YIELD.search(b):
        tags.append('K18')
    if lang in ('js', 'html') and K_REGEX_V_CLASS.search(b):
        tags.append('K19')
    if lang in ('css', 'html', 'svg') and sq_data_uri_with_quote(b):
        tags.append('K20')
    if lang in ('css', 'html', 'svg') and K_IMPORT_URL_ESC.search(b):
        tags.append('K21')
    if lang in ('js', 'html') and K_BANG_ONLY_BLOCK.search(b):
        tags.append('K22')
    if lang in ('xml', 'svg') and K_CDATA_ADJ.search(b):
        tags.append('K24')
    if lang == 'html' and K_SCRIPT_TYPE_CASE.search(b):
        tags.append('K11')
    if lang in ('js', 'html') and ('names' in opts or 'keep' in opts) and same_name_var_and_let(b):
        tags.append('K12')
    if lang == 'js' and not valid_utf8(b):
        tags.append('K25')
    return [t for t in tags if t not in LIFTED]


def sha(b):
    return hashlib.sha1(b).hexdigest()


class Cases:
    def __init__(self, ctx):
        self.ctx = ctx
        self.cases = []
        self.data = {}      # id -> bytes (for cases not backed by a repository file)
        self.seen = set()
        self.excluded = 0

    def add(self, lang, opts, data=None, file=None, origin='', inline=False, adj=None, allow_known=False):
        if data is None:
            data = open(file, 'rb').read()
        if not allow_known and excluded(lang, opts, data):
            self.excluded += 1
            return None
        k = (lang, opts, inline, sha(data))
        if k in self.seen:
            return None
        self.seen.add(k)
        cid = len(self.cases)
        if file is None:
            file = self.ctx.path('cases', '%d.bin' % cid)
            with open(file, 'wb') as f:
                f.write(data)
        c = dict(id=cid, lang=lang, opts=opts, file=file, origin=origin, inline=inline)
        self.cases.append(c)
        self.data[cid] = dict(sha=k[3], adj=adj, n=len(data))
        return cid

    def ident(self, cid):
        c = self.cases[cid]
        return dict(lang=c['lang'], opts=c['opts'], inline=c['inline'], sha1=self.data[cid]['sha'])


# ------------------------------------------------------------------------------------------- inputs
def repo_documents():
    """every file of /repo/tests/*/corpus (the six languages) and /repo/_benchmarks"""
    out = []
    for lang in LANGS:
        d = os.path.join(vlib.REPO, 'tests', lang, 'corpus')
        if os.path.isdir(d):
            for fn in sorted(os.listdir(d)):
                out.append((lang, os.path.join(d, fn), 'corpus:%s/%s' % (lang, fn)))
    d = os.path.join(vlib.REPO, '_benchmarks')
    for fn in sorted(os.listdir(d)):
        ext = fn.rsplit('.', 1)[-1]
        p = os.path.join(d, fn)
        if fn.startswith('sample_') and ext in LANGS and os.path.getsize(p) > 0:
            out.append((ext, p, 'bench:' + fn))
    return out


def test_strings(ctx):
    """input (and expected) strings of the repository's table-driven tests, per language"""
    out = collections.defaultdict(list)
    for lang, sub in TESTDIRS.items():
        seen = set()
        for row in vlib.test_inputs(ctx, sub):
            for k, s in enumerate(row['strings'][:2]):
                b = s.encode('utf-8', 'surrogateescape') if isinstance(s, str) else bytes(s)
                if b and b not in seen and len(b) < 20000:
                    seen.add(b)
                    out[lang].append((b, 'test:%s:%s:%d' % (row['file'].rsplit('/', 1)[-1], row['func'], k)))
    return out


INTERESTING = [b'<', b'>', b'&', b'"', b"'", b'\\', b'/', b'-', b'!', b'{', b'}', b'(', b')', b'[', b']', b';', b':', b',', b'.',
               b'=', b'+', b'*', b'\n', b'\t', b' ', b'\x00', b'\x80', b'\xff', b'0', b'9', b'a', b'e', b'<!--', b'-->', b'</', b'/*',
               b'*/', b'//', b'`', b'${', b'\r', b'#', b'@', b'%', b'?', b'|', b'~', b'^', b'\xe2\x80\xa8']
BOUNDARY = {
    'html': re.compile(rb'<|(?<=>)'), 'svg': re.compile(rb'<|(?<=>)'), 'xml': re.compile(rb'<|(?<=>)'),
    'css': re.compile(rb'(?<=[;{}])'), 'js': re.compile(rb'(?<=[;{}(),\n])'), 'json': re.compile(rb'(?<=[,\[\]{}:])'),
}
WS_INSERT = {
    'html': [b' ', b'\n', b'<!---->', b'\t'], 'svg': [b' ', b'\n', b'<!-- c -->'], 'xml': [b' ', b'\n', b'<!-- c -->'],
    'css': [b' ', b'\n', b'/**/', b'/*!x*/'], 'js': [b' ', b'\n', b'/**/', b'//c\n', b'\n\n', b'/*\n*/'], 'json': [b' ', b'\n', b'\t'],
}
NUMS = [b'0', b'1', b'00', b'0.0', b'.5', b'1.', b'1e3', b'1E-3', b'-0', b'100000', b'0.00001', b'9.99', b'1e21', b'0x1f', b'1_0']


_BCACHE = {}


def boundaries(lang, b, limit=4000):
    k = (lang, id(b), len(b))
    if len(b) > 50000 and k in _BCACHE:
        return _BCACHE[k]
    bs = [m.start() for m in BOUNDARY[lang].finditer(b)]
    if len(bs) > limit:
        step = len(bs) // limit + 1
        bs = bs[::step]
    bs = bs or [0]
    if len(b) > 50000:
        _BCACHE[k] = bs        # the large base documents live as long as the run, so id() is stable
    return bs


def mutate(rnd, lang, b, pool):
    """one seeded mutation of document b; returns (bytes, operator name)"""
    op = rnd.choice(['flip', 'insert', 'delete', 'dupchunk', 'delchunk', 'swapchunk', 'splice', 'ws', 'ws', 'num', 'trunc'])
    n = len(b)
    if n == 0:
        return rnd.choice(INTERESTING), 'insert'
    if op == 'flip':
        i = rnd.randrange(n)
        return b[:i] + rnd.choice(INTERESTING) + b[i + 1:], op
    if op == 'insert':
        i = rnd.randrange(n + 1)
        return b[:i] + b''.join(rnd.choice(INTERESTING) for _ in range(rnd.randint(1, 3))) + b[i:], op
    if op == 'delete':
        i = rnd.randrange(n)
        return b[:i] + b[i + rnd.randint(1, 8):], op
    if op == 'trunc':
        return b[:rnd.randrange(n)], op
    bs = boundaries(lang, b)
    if op in ('dupchunk', 'delchunk', 'swapchunk') and len(bs) >= 3:
        k = rnd.randrange(len(bs) - 2)
        i, j, m = bs[k], bs[k + 1], bs[k + 2]
        if op == 'dupchunk':
            return b[:j] + b[i:j] + b[j:], op
        if op == 'delchunk':
            return b[:i] + b[j:], op
        return b[:i] + b[j:m] + b[i:j] + b[m:], op
    if op == 'splice' and pool:
        o = rnd.choice(pool)
        ob = boundaries(lang, o)
        return b[:rnd.choice(bs)] + o[rnd.choice(ob):], op
    if op == 'num':
        ms = list(re.finditer(rb'\d+(?:\.\d+)?', b[:200000]))
        if ms:
            m = rnd.choice(ms)
            return b[:m.start()] + rnd.choice(NUMS) + b[m.end():], op
    i = rnd.choice(bs)
    return b[:i] + rnd.choice(WS_INSERT[lang]) + b[i:], 'ws'


def neutralize(b):
    """bases for mutation must not contain known constructs K1 / K11 (every mutant would re-find them)"""
    b = KNOWN_CONSTRUCT.sub(lambda m: m.group(0)[:-6] + b' script', b)
    return K_SCRIPT_TYPE_CASE.sub(lambda m: m.group(0).lower(), b)


def html_window(rnd, b, maxlen=6000):
    """a slice of a large HTML document that starts at a tag and contains whole script/style elements"""
    k = ('win', id(b), len(b))
    if k not in _BCACHE:
        _BCACHE[k] = [m.start() for m in re.finditer(rb'<(?:script|style|div|p|table|ul|a|svg|form)\b', b, re.I)]
    starts = _BCACHE[k]
    if not starts:
        return b[:maxlen]
    i = rnd.choice(starts)
    j = min(len(b), i + rnd.randint(400, maxlen))
    m = re.compile(rb'</(?:script|style)\s*>', re.I).search(b, j)
    if m and m.end() - i < 4 * maxlen and re.search(rb'<(?:script|style)\b[^>]*>(?:(?!</(?:script|style)).)*$', b[i:j], re.I | re.S):
        j = m.end()
    else:
        k = b.find(b'>', j)
        j = k + 1 if k >= 0 else j
    return b[i:j]


# ------------------------------------------------------------------------------------------- JsLexAdj
def parse_adj_dump(path):
    """complete expressions (st = "A", depth = 0) of a JsLexAdj state dump -> list of class index lists"""
    out = []
    cur = {}
    for line in open(path):
        line = line.rstrip('\n')
        if line.startswith('State '):
            cur = {}
        elif line.startswith('/\\ '):
            k, _, v = line[3:].partition(' = ')
            cur[k] = v
            if len(cur) == 4:
                if cur['st'] == '"A"' and cur['depth'] == '0' and cur['seq'] != '<<>>':
                    out.append(vlib.tla_seq_to_list(cur['seq']))
                cur = {}
    return out


def adj_classes():
    """spellings of the token classes, read from spec/JsLexAdj.tla (single source of truth)"""
    txt = open(os.path.join(vlib.SPEC, 'JsLexAdj.tla')).read()
    cls = []
    for m in re.finditer(r'\[n \|-> "(\w+)",\s*sp \|-> <<([\d, ]+)>>\]', txt):
        cls.append((m.group(1), bytes(int(x) for x in m.group(2).split(','))))
    return cls


def parse_ctx_dump(path):
    """states of a JsPrintCtx dump -> list of (context, [disturbers], payload)"""
    out, cur = [], {}
    for line in open(path):
        line = line.rstrip('\n')
        if line.startswith('/\\ '):
            k, _, v = line[3:].partition(' = ')
            cur[k] = v
            if len(cur) == 3:
                out.append((cur['ctx'][1:-1], re.findall(r'"([^"]*)"', cur['ds']), cur['p'][1:-1]))
                cur = {}
    return out


def ctx_sets():
    """Contexts, Disturbers, Payloads of spec/JsPrintCtx.tla (single source of truth; used to sample two-disturber programs)"""
    txt = open(os.path.join(vlib.SPEC, 'JsPrintCtx.tla')).read()
    res = []
    for name in ('Contexts', 'Disturbers', 'Payloads'):
        body = txt[txt.index(name + ' == {'):]
        body = body[:body.index('\n}')]
        res.append(re.findall(r'^\s*"([^"]*)"', body, re.M))
    return res


def tla_string_set(module, name):
    """members of a set of strings defined in spec/<module>.tla as  name == { "..", ".." }  (TLA+ escapes undone)"""
    txt = open(os.path.join(vlib.SPEC, module + '.tla')).read()
    body = txt[txt.index('\n' + name + ' == {'):]
    body = body[:body.index('\n}')]
    return [m.replace('\\\\', '\\') for m in re.findall(r'"((?:[^"\\]|\\.)*)"', re.sub(r'\\\*[^\n]*', '', body))]


HOT_OPERANDS = {'a??b', 'a||b', 'a&&b', 'a**b', '-a', '!a', 'a=>b', 'async a=>b', '()=>{}', 'yield a', 'yield', 'await a', 'a=b', 'a??=b', 'a,b',
                'a?b:d', 'a in b', '{}', 'function(){}', 'class{}', 'new a', 'a?.b', 'a`t`', 'typeof a', 'a++'}


def render_rewrite(rw, x, y, par):
    xs = '(%s)' % x if par & 1 else x
    ys = '(%s)' % y if par & 2 else y
    prog = rw.replace('@X', xs).replace('@Y', ys).replace('@Z', 'c')
    if 'yield' in prog:
        prog = 'function*g(){%s}' % prog
    elif 'await' in prog:
        prog = 'async function g(){%s}' % prog
    return prog.encode()


def rewrite_programs(rnd, quick):
    """(rewrite trigger, X, Y, parenthesisation) states of spec/JsRewrite.tla: the slice with a plain variable on one side completely
    (most rewrites need an operand they can compare), the rest sampled"""
    rws, ops = sorted(tla_string_set('JsRewrite', 'Rewrites')), sorted(tla_string_set('JsRewrite', 'Operands'))
    hot = [o for o in ops if o in HOT_OPERANDS]
    out = []
    if quick:
        out += [(r, 'a', y, 0) for r in rws for y in hot]
        out += vlib.sample([(r, 'a', y, 2) for r in rws for y in hot], 900, rnd)
        out += [(r, x, 'a', p) for r, x, p in vlib.sample([(r, x, p) for r in rws for x in hot for p in (0, 1)], 600, rnd)]
        out += [(rnd.choice(rws), rnd.choice(ops), rnd.choice(ops), rnd.randrange(4)) for _ in range(400)]
    else:
        out += [(r, 'a', y, p) for r in rws for y in ops for p in range(4)]
        out += [(r, x, 'a', p) for r in rws for x in ops for p in range(4)]
        out += [(rnd.choice(rws), rnd.choice(ops), rnd.choice(ops), rnd.randrange(4)) for _ in range(60000)]
    return out


def regex_programs(quick):
    """states of spec/JsRegex.tla rendered: an escaped punctuator outside / inside / at the edges of a character class x flags"""
    sub = {'DQ': '"', 'BS': '\\'}
    out = []
    for pc in sorted(tla_string_set('JsRegex', 'Puncts')):
        c = sub.get(pc, pc)
        for pos in sorted(tla_string_set('JsRegex', 'Positions')):
            body = {'out': 'a\\%sb', 'in': '[a\\%sb]', 'first': '[\\%sa]', 'last': '[a\\%s]', 'only': '[\\%s]', 'pair': '\\%s\\%s',
                    'range': '[\\%s-z]'}[pos]
            body = body.replace('%s', c)
            for fl in sorted(tla_string_set('JsRegex', 'Flags')):
                if quick and fl not in ('', 'u', 'v', 'gu'):
                    continue
                out.append(('x=/%s/%s;' % (body, fl)).encode() if True else None)
    return out


def strquote_programs(rnd, quick):
    """states of spec/JsStrQuote.tla rendered: x=Q<pressure><escape><follower>Q; (quick: a seeded 45% sample + every state whose
    escape writes "$" or a backtick and whose follower starts with a brace)"""
    sub = lambda t: t.replace('DQ', '"').replace('SQ', "'").replace('BT', '`').replace('BS', '\\')
    out = []
    for q in sorted(tla_string_set('JsStrQuote', 'Quotes')):
        for pr in sorted(tla_string_set('JsStrQuote', 'Pressures')):
            for esc in sorted(tla_string_set('JsStrQuote', 'Escapes')):
                for fo in sorted(tla_string_set('JsStrQuote', 'Followers')):
                    hot = ('24' in esc or '44' in esc or '$' in esc or '60' in esc or 'BT' in esc) and fo[:1] in ('{', 'B')
                    if quick and not hot and rnd.random() > 0.45:
                        continue
                    qq = sub(q)
                    body = sub(pr) + sub(esc) + sub(fo)
                    # the input literal must be closed by its own delimiter only: a literal delimiter inside is escaped
                    body = re.sub(r'(?<!\\)' + re.escape(qq), lambda m: '\\' + qq, body)
                    out.append(('x=%s%s%s;' % (qq, body, qq)).encode())
    return out


def css_string_documents():
    """states of spec/CssStrCtx.tla rendered: list of (lang, inline, bytes, origin)"""
    docs = []
    for c in sorted(tla_string_set('CssStrCtx', 'Constructs')):
        for q, o in (("'", '"'), ('"', "'")):
            decl = c.startswith('@D')
            body = (c[2:] if decl else c).replace('@Q', q).replace('@O', o)
            sheet = ('a{%s;color:red}b{margin:0}' % body) if decl else body + 'b{margin:0}'
            tag = 'cssstr:%s:%s' % ('sq' if q == "'" else 'dq', c[:40])
            docs.append(('css', False, sheet, tag + ':css'))
            docs.append(('html', False, '<!doctype html><title>t</title><style>%s</style><p>x' % sheet, tag + ':html-style'))
            if '<' not in sheet and '&' not in sheet:
                docs.append(('svg', False, '<svg xmlns="http://www.w3.org/2000/svg"><style>%s</style><path d="M0 0"/></svg>' % sheet, tag + ':svg-style'))
            if decl:
                docs.append(('css', True, body + ';color:red', tag + ':inline'))
                if o not in body:
                    docs.append(('html', False, '<p style=%s%s;color:red%s>x</p><p>y' % (o, body, o), tag + ':html-attr'))
                    if '<' not in body and '&' not in body:
                        docs.append(('svg', False, '<svg xmlns="http://www.w3.org/2000/svg"><g style=%s%s;color:red%s/></svg>' % (o, body, o), tag + ':svg-attr'))
    return docs


def render_ctx(ctx, ds, pay):
    return ctx.replace('@D', '+'.join(ds)).replace('@P', pay).encode()


def fusion_critical(cls):
    """predicate on class sequences: some neighbours may not be printed back to back.  Mirrors FusesPair / FusesTriple of
    spec/JsLexAdj.tla (pair and triple tables are read from the module text); used only to PRIORITISE programs in the quick tier."""
    txt = open(os.path.join(vlib.SPEC, 'JsLexAdj.tla')).read()
    body = txt[txt.index('PunctFuse == {'):txt.index('AbsorbsEq ==')]
    pairs = set(re.findall(r'<<"(\w+)", "(\w+)">>', body))
    triples = set(re.findall(r'<<"(\w+)", "(\w+)", "(\w+)">>', txt[txt.index('FusesTriple(x, y, z) =='):txt.index('Concat(sq) ==')]))
    wordy = {'id', 'this', 'typeof', 'void', 'in', 'inst'}
    nums = {'n1', 'n0', 'ndot', 'nfrac', 'nlead', 'nexp', 'nhex', 'nbig'}
    regex = {'re', 'reg', 'res'}
    idpart = set(b'abcdefghijklmnopqrstuvwxyzABCDEFGHIJKLMNOPQRSTUVWXYZ0123456789$_')

    def crit(p):
        names = [cls[c - 1][0] for c in p]
        for i in range(len(p) - 1):
            x, y = names[i], names[i + 1]
            fy = cls[p[i + 1] - 1][1][0]
            if (x, y) in pairs or (x in wordy | nums | regex and fy in idpart) or (x in ('n1', 'n0') and fy == 46) or \
               (x in ('dot', 'qdot') and 48 <= fy <= 57):
                return True
        return any(tuple(names[i:i + 3]) in triples for i in range(len(p) - 2))
    return crit


EMBED_PROBES = [
    b'x=(a< /script>/.test(b))', b'x=[a< /script>/]', b'if(a< /script>/.test(b)){c()}', b'f(a< /script>/,1)',
    b"x=('<\\/script>'+y)", b'x=("<\\/script>")', b'x=(`<\\/script>`)', b'x=(/<\\/script>/)', b"x=('<\\/script>')", b"x=['<\\/SCRIPT>']",
    b"x=('<'+'/script>')", b"x=('</scr'+'ipt>')", b"x=('<\\/scr'+'ipt>')", b"x=(a<!--b)", b"x=(a< !--b)", b"x=(a< ! --b)", b"x=('<!-'+'-')",
    b"x=(a-- >b)", b"x=('<\\!--')", b"x=`${'<'}/script>`", b"x=(a</script>/.test(b)?1:2)".replace(b'</script', b'< /script'),
]


# ------------------------------------------------------------------------------------------- running
NODE = ['node', '--expose-internals', '--experimental-vm-modules', '--no-lazy', '--no-warnings', '--stack-size=3900']


def run_driver(ctx, exe, cases, tag, workers=None):
    cin = ctx.path('run', tag + '-cases.ndjson')
    tout = ctx.path('run', tag + '-trace.ndjson')
    jobs = ctx.path('run', tag + '-jobs.ndjson')
    outdir = ctx.path('out-' + tag, 'x')
    outdir = os.path.dirname(outdir)
    vlib.write_ndjson(cin, cases)
    w = workers or min(12, vlib.JOBS)
    vlib.run([exe, cin, tout, jobs, outdir, str(w)], timeout=3000)
    recs = vlib.read_ndjson(tout)
    if len(recs) != len(cases):
        raise vlib.Infra('driver wrote %d records for %d cases' % (len(recs), len(cases)))
    # JavaScript judgements by V8 / acorn
    res = []
    if os.path.getsize(jobs) > 0:
        nsh = max(1, min(w, 8))
        script = os.path.join(vlib.HARNESS, 'cmd', 'c09', 'jsvalid.js')

        def one(s):
            rp = ctx.path('run', '%s-res-%d.ndjson' % (tag, s))
            vlib.run(NODE + [script, jobs, rp, str(s), str(nsh)], timeout=3000)
            return vlib.read_ndjson(rp)
        with ThreadPoolExecutor(max_workers=nsh) as ex:
            for part in ex.map(one, range(nsh)):
                res += part
        njobs = sum(1 for _ in open(jobs))
        if len(res) != njobs:
            raise vlib.Infra('node judged %d of %d jobs' % (len(res), njobs))
    by = collections.defaultdict(list)
    for r in res:
        by[r['case']].append(r)
    return recs, by, outdir


def merge(rec, jsres, adj):
    """add the JavaScript goals (counts of rejected parts per goal and oracle) to a driver record"""
    goals = list(rec['goals'])
    v8 = dict(v8s0=-1, v8s1=-1, v8m0=-1, v8m1=-1)
    if rec['acc1']:
        cnt = collections.defaultdict(lambda: [0, 0])
        unjudged = set()
        for r in jsres:
            for oracle in ('v8', 'acorn'):
                g = 'js.%s.%s' % (r['kind'], oracle)
                if r[oracle] is None:
                    unjudged.add(g)
                elif r[oracle] is False:
                    cnt[g][r['side']] += 1
                else:
                    cnt[g][r['side']] += 0
            if adj and r['kind'] in ('script', 'module') and r['v8'] is not None:
                v8['v8%s%d' % (r['kind'][0], r['side'])] = 1 if r['v8'] else 0
        for g in sorted(cnt):
            if g not in unjudged:
                goals.append(dict(g=g, bad0=cnt[g][0], bad1=cnt[g][1]))
    out = dict(rec)
    out['goals'] = goals
    out['adj'] = 1 if adj else 0
    out.update(v8)
    for k in ('err1', 'err2'):
        out[k] = out[k][:200]
    return out


def validate(ctx, exe, cs, ids, tag, workers=None):
    """run cases ids, merge, TLC; returns (lines, accepted, rejects[(pos, why)])"""
    cases = [dict(cs.cases[i], id=k) for k, i in enumerate(ids)]
    t0 = time.time()
    recs, by, outdir = run_driver(ctx, exe, cases, tag, workers)
    vlib.log('c09 %s: %d cases driven and judged in %.1fs' % (tag, len(cases), time.time() - t0))
    lines = [merge(r, by.get(k, []), cs.data[ids[k]]['adj'] is not None) for k, r in enumerate(recs)]
    t0 = time.time()
    accepted, rejects = vlib.tlc_trace(ctx, 'C09Trace', 'C09Trace.cfg', lines, min_per_shard=400)
    vlib.log('c09 %s: TLC validated %d records in %.1fs (%d rejections)' % (tag, len(lines), time.time() - t0, len(rejects)))
    return lines, accepted, rejects, outdir


def selftest(ctx, lines):
    """binding self-test: doctored copies of accepted records must be rejected by TLC with the right clause (else the relation is vacuous)"""
    base = next((l for l in lines if l['acc1'] and l['acc2'] and l['goals'] and all(g['bad0'] == 0 and g['bad1'] == 0 for g in l['goals'])), None)
    if base is None:
        raise vlib.Infra('self-test: no accepted record with goals')
    a = dict(base, acc2=False)
    b = dict(base, goals=[dict(base['goals'][0], bad1=1)] + base['goals'][1:])
    c = dict(base, acc1=False, ran2=False, acc2=False, goals=[])      # an input the minifier rejects: nothing is promised
    d = dict(base, adj=1, lang='js', **{'in': list(b'x=1 + +a;'), 'out': list(b'x=1++a;')}, v8s0=1, v8s1=0, v8m0=1, v8m1=0,
             goals=[])                                               # TLA+ lexer alone must see nothing wrong lexically ...
    e = dict(base, adj=1, lang='js', **{'in': list(b'x=1 in a;'), 'out': list(b'x=1in a;')}, v8s0=1, v8s1=0, v8m0=1, v8m1=0, goals=[])
    acc, rej = vlib.tlc_trace(ctx, 'C09Trace', 'C09Trace.cfg', [a, b, c, d, e, base])
    got = collections.defaultdict(set)
    for pos, w in rej:
        got[pos].add(w)
    ok = 'Accepted2' in got[0] and 'Valid1' in got[1] and not got[2] and not got[3] and 'tla.lex.script' in got[4] and not got[5]
    if not ok:
        raise vlib.Infra('binding self-test failed: %s' % dict(got))
    ctx.coverage['binding_selftest'] = 'doctored records rejected: acc2 flipped -> Accepted2; goal count raised -> Valid1; "1in a" -> tla.lex.script'


def describe(cs, cid, rec, whys):
    c = cs.cases[cid]
    data = open(c['file'], 'rb').read(401)
    shown = ' input=%r' % data.decode('latin1') if len(data) <= 400 else ''
    gs = ['%s %d->%d' % (g['g'], g['bad0'], g['bad1']) for g in rec['goals'] if g['bad1'] > g['bad0']]
    s = '%s[%s] %s (%d bytes): ' % (c['lang'], c['opts'], c['origin'], rec['n0'])
    if gs:
        s += 'output rejected by independent parser where the input was accepted: ' + ', '.join(gs) + '; '
    if rec['acc1'] and not rec['acc2']:
        s += 'second pass failed: ' + rec['err2'][:160].replace('\n', ' ') + '; '
    return s + 'clauses ' + '/'.join(sorted(set(whys))) + shown


def tlc_jobs(ctx):
    """design-level model checking (run in threads next to the driver)"""
    q = ctx.quick()
    jobs = [('Closure', 'Closure_mc.cfg' if q else 'Closure_mc4.cfg', None),
            ('JsRewrite', 'JsRewrite.cfg', None), ('CssStrCtx', 'CssStrCtx.cfg', None), ('JsRegex', 'JsRegex.cfg', None), ('JsStrQuote', 'JsStrQuote.cfg', None),
            ('JsPrintCtx', 'JsPrintCtx_1.cfg', 'printctx')] + ([] if q else [('JsPrintCtx', 'JsPrintCtx_2.cfg', None)]) + [
            ('JsLexAdj', 'JsLexAdj_full3.cfg' if q else 'JsLexAdj_full4.cfg', 'adj-full'),
            ('JsLexAdj', 'JsLexAdj_core4.cfg' if q else 'JsLexAdj_core6.cfg', 'adj-core')]
    res = {}

    def one(j):
        mod, cfg, dump = j
        dp = ctx.path('gen', dump) if dump else None
        r = vlib.tlc_mc(ctx, mod, cfg, workers=4 if q else 8, dump=dp, timeout=2400, heap='4g')
        return (cfg, r, dp)
    with ThreadPoolExecutor(max_workers=4) as ex:
        for cfg, r, dp in ex.map(one, jobs):
            res[cfg] = (r, dp)
    return res


def run(ctx):
    quick = ctx.quick()
    rnd = ctx.rnd
    exe = vlib.build_harness(ctx, 'c09')
    vlib._speccopy(ctx)
    mc_result = {}
    mc_err = []

    def mc_thread():
        try:
            mc_result.update(tlc_jobs(ctx))
        except Exception as e:      # re-raised in the main thread
            mc_err.append(e)
    th = threading.Thread(target=mc_thread)
    th.start()

    cs = Cases(ctx)
    only_fixed = os.environ.get('VERIF_C09_ONLY') == 'fixed'       # maintenance: fixed repository inputs x every option set
    only_ctx = os.environ.get('VERIF_C09_ONLY') == 'ctx'           # maintenance: every JsPrintCtx program, nothing else
    only_pinned = os.environ.get('VERIF_C09_ONLY') == 'pinned' or only_fixed or only_ctx     # maintenance switches used to (re)generate known/C09.txt
    docs = repo_documents() if not only_pinned or only_fixed else []
    tests = test_strings(ctx) if not only_pinned or only_fixed else collections.defaultdict(list)
    # (a) corpora and benchmark documents
    for lang, path, origin in docs:
        size = os.path.getsize(path)
        sets = OPTSETS[lang]
        if quick and size > 150000 and not only_fixed:
            sets = ['default', rnd.choice(sets[1:])]
        for o in sets:
            cs.add(lang, o, file=path, origin=origin, allow_known=True)     # fixed repository inputs are never excluded
    # (b) the repository's own test inputs
    for lang in LANGS:
        for b, origin in tests[lang]:
            sets = OPTSETS[lang] if not quick or only_fixed else [rnd.choice(OPTSETS[lang])] if rnd.random() < 0.7 else ['default', rnd.choice(OPTSETS[lang][1:])]
            for o in sets:
                cs.add(lang, o, data=b, origin=origin, allow_known=True)
    # JS test inputs inside HTML hosts (embedded languages): script element and event handler
    for b, origin in (tests['js'] if not only_pinned else []):
        low = b.lower()
        if b'</script' in low or b'<!--' in low or (quick and rnd.random() < 0.5):
            continue
        cs.add('html', 'default', data=b'<!doctype html><title>t</title><p>x<script>' + b + b'</script><p>y', origin='host-script:' + origin)
    for b, origin in (tests['css'] if not only_pinned else []):
        if b'</style' in b.lower() or (quick and rnd.random() < 0.5):
            continue
        cs.add('html', 'default', data=b'<style>' + b + b'</style><p style="color:red">x', origin='host-style:' + origin)
    # (c) seeded mutations and boundary splices
    pools = collections.defaultdict(list)
    big = collections.defaultdict(list)
    for lang, path, origin in docs:
        b = neutralize(open(path, 'rb').read()) if lang == 'html' else open(path, 'rb').read()
        if excluded(lang, 'default', b):
            continue
        (pools if len(b) <= 20000 else big)[lang].append(b)
    for lang in LANGS:
        for b, origin in tests[lang]:
            if not excluded(lang, 'names', b):
                pools[lang].append(b)
    nmut = 1500 if quick else 40000
    if only_pinned:
        nmut = 0
    for k in range(nmut):
        lang = LANGS[k % len(LANGS)]
        r = rnd.random()
        if lang == 'html' and big[lang] and r < 0.35:
            base = html_window(rnd, rnd.choice(big[lang]))
        else:
            base = rnd.choice(pools[lang])
        m, op = mutate(rnd, lang, base, pools[lang])
        if rnd.random() < 0.3:
            m, op2 = mutate(rnd, lang, m, pools[lang])
            op += '+' + op2
        o = 'default' if rnd.random() < 0.6 else rnd.choice(OPTSETS[lang][1:])
        cs.add(lang, o, data=m[:400000], origin='mut:' + op)
    # small edits of whole large documents (real-world size, embedded languages)
    nbig = 24 if quick else 600
    if only_pinned:
        nbig = 0
    for k in range(nbig):
        lang = LANGS[k % len(LANGS)]
        if not big[lang]:
            continue
        base = rnd.choice(big[lang])
        m, op = mutate(rnd, lang, base, [])
        cs.add(lang, 'default', data=m, origin='mutbig:' + op)

    # (d) adjacency programs of JsLexAdj
    vlib.log('c09: %d cases prepared in %.1fs' % (len(cs.cases), time.time() - ctx.t0))
    th.join()
    vlib.log('c09: model checking done at %.1fs' % (time.time() - ctx.t0))
    if mc_err:
        raise mc_err[0]
    cls = adj_classes()
    progs = []
    for cfg, (r, dp) in sorted(mc_result.items()):
        if dp and cfg.startswith('JsLexAdj'):
            seqs = parse_adj_dump(dp + '.dump')
            ctx.coverage['adjacency_' + cfg.replace('.cfg', '')] = len(seqs)
            progs += seqs
    uniq = sorted(set(tuple(p) for p in progs))
    crit = fusion_critical(cls)
    must = [p for p in uniq if crit(p)]
    mset = set(must)
    rest = [p for p in uniq if p not in mset]
    ctx.coverage['adjacency_fusion_critical'] = len(must)
    if quick:
        must = vlib.sample(must, 2200, rnd)
        rest = vlib.sample(rest, 600, rnd)
    else:
        must = vlib.sample(must, 80000, rnd)
        rest = vlib.sample(rest, 40000, rnd)
    chosen = must + rest if not only_pinned else []
    nadj = 0
    for p in chosen:
        src = b' '.join(cls[c - 1][1] for c in p)
        for wrap, wname in ((b'x=%s;', 'assign'), (b'%s;', 'stmt')):
            if wname == 'stmt' and (len(p) > 3 or quick and rnd.random() < 0.6):
                continue
            if cs.add('js', 'default', data=wrap % src, origin='adj:' + wname + ':' + '.'.join(cls[c - 1][0] for c in p), adj=list(p)) is not None:
                nadj += 1
        if len(p) <= 5 and (b'/script' in src or len(p) <= 4 and (not quick or rnd.random() < 0.25)):
            cs.add('html', 'default', data=b'<script>x=' + src + b';</script>', origin='adj-host:' + '.'.join(cls[c - 1][0] for c in p))
    ctx.coverage['adjacency_programs'] = nadj
    # printing-state programs of JsPrintCtx: context[ disturber(s), payload ]
    ctxprogs = []
    for cfg, (r, dp) in sorted(mc_result.items()):
        if dp and cfg.startswith('JsPrintCtx'):
            ctxprogs = parse_ctx_dump(dp + '.dump')
    ctx.coverage['printctx_states'] = len(ctxprogs)
    hot = [t for t in ctxprogs if 'for(' in t[0] and ' in' in t[2].replace("'in", ' in')]
    hotset = set(map(lambda t: (t[0], tuple(t[1]), t[2]), hot))
    cold = [t for t in ctxprogs if (t[0], tuple(t[1]), t[2]) not in hotset]
    if quick and not only_ctx:
        chosen_ctx = vlib.sample(hot, 1000, rnd) + vlib.sample(cold, 1000, rnd)
    else:
        cset, dset, pset = ctx_sets()
        two = [(rnd.choice(cset), [rnd.choice(dset), rnd.choice(dset)], rnd.choice(pset)) for _ in range(15000)]
        chosen_ctx = ctxprogs + two
    nctx = 0
    for c, ds, pay in (chosen_ctx if not only_pinned or only_ctx else []):
        if cs.add('js', 'default' if rnd.random() < 0.8 else rnd.choice(OPTSETS['js'][1:]), data=render_ctx(c, ds, pay),
                  origin='ctx:%s|%s|%s' % (c, '+'.join(ds), pay)) is not None:
            nctx += 1
    ctx.coverage['printctx_programs'] = nctx
    # rewrite triggers x operand precedence classes (JsRewrite) and CSS string constructs x quote x host (CssStrCtx)
    nrw = 0
    for rw, x, y, par in (rewrite_programs(rnd, quick) if not only_pinned else []):
        if cs.add('js', 'default' if rnd.random() < 0.85 else rnd.choice(OPTSETS['js'][1:]), data=render_rewrite(rw, x, y, par),
                  origin='rw:%s|%s|%s|%d' % (rw, x, y, par)) is not None:
            nrw += 1
    ctx.coverage['rewrite_programs'] = nrw
    nre = 0
    for prog in (regex_programs(quick) if not only_pinned else []):
        if cs.add('js', 'default', data=prog, origin='regex:' + prog.decode('latin1')) is not None:
            nre += 1
        if not quick or rnd.random() < 0.2:
            cs.add('html', 'default', data=b'<script>' + prog + b'</script>', origin='regex-host')
    ctx.coverage['regex_programs'] = nre
    nsq = 0
    for prog in (strquote_programs(rnd, quick) if not only_pinned else []):
        if cs.add('js', 'default' if rnd.random() < 0.8 else rnd.choice(OPTSETS['js'][1:]), data=prog, origin='strquote:' + prog.decode('latin1')) is not None:
            nsq += 1
        if b'/script' in prog or rnd.random() < (0.05 if quick else 0.3):
            cs.add('html', 'default', data=b'<script>' + prog + b'</script>', origin='strquote-host')
    ctx.coverage['strquote_programs'] = nsq
    ncss = 0
    for lang, inline, doc, origin in (css_string_documents() if not only_pinned else []):
        for o in (OPTSETS[lang] if not quick else ['default'] + ([rnd.choice(OPTSETS[lang][1:])] if rnd.random() < 0.3 else [])):
            if cs.add(lang, o, data=doc.encode(), origin=origin, inline=inline) is not None:
                ncss += 1
    ctx.coverage['css_string_documents'] = ncss
    # embedding probes: JavaScript whose printed form must not contain "</script" or "<!--" when it sits in an HTML script element
    for k, js in enumerate(EMBED_PROBES if not only_pinned else []):
        for o in OPTSETS['html'] if not quick else ['default', rnd.choice(OPTSETS['html'][1:])]:
            cs.add('html', o, data=b'<!doctype html><title>t</title><script>' + js + b'</script><p>y', origin='embed:%d' % k)
        cs.add('js', 'default', data=js, origin='embed-js:%d' % k)
    ctx.coverage['generator_exclusions_applied'] = cs.excluded

    # (f) pinned witnesses of known findings
    pinned = []
    for w in vlib.known_cases('C09'):
        if 'file' in w:
            data = open(os.path.join(vlib.REPO, w['file']), 'rb').read()
        else:
            data = w['src'].encode('latin1')
        cid = cs.add(w['lang'], w['opts'], data=data, origin='pinned:' + w.get('what', '')[:2], inline=w.get('inline', False), allow_known=True)
        if cid is not None:
            pinned.append(cid)

    ids = list(range(len(cs.cases)))
    lines, accepted, rejects, outdir = validate(ctx, exe, cs, ids, 'main')

    selftest(ctx, lines)
    # (e) outputs fed back as inputs (every output is itself an accepted input: the property applies to it again)
    re_ids = []
    cand = [i for i in ids if lines[i]['acc1'] and lines[i]['acc2'] and not lines[i]['same12']]
    for i in (vlib.sample(cand, 500, rnd) if quick else cand):
        c = cs.cases[i]
        p = os.path.join(outdir, '%d.out' % i)
        if os.path.exists(p):
            cid = cs.add(c['lang'], c['opts'], data=open(p, 'rb').read(), origin='re:' + c['origin'], inline=c['inline'])
            if cid is not None:
                re_ids.append(cid)
    lines2, accepted2, rejects2 = [], 0, []
    if re_ids:
        lines2, accepted2, rejects2, _ = validate(ctx, exe, cs, re_ids, 're')
    all_lines = {i: lines[i] for i in ids}
    all_lines.update({cid: lines2[k] for k, cid in enumerate(re_ids)})
    why = collections.defaultdict(list)
    for pos, w in rejects:
        why[ids[pos]].append(w)
    for pos, w in rejects2:
        why[re_ids[pos]].append(w)

    # every rejected record is re-run alone (fresh driver and node processes) and re-validated before it counts
    oracle = [i for i in why if any(w.startswith('oracle') for w in why[i])]
    if oracle:
        i = oracle[0]
        raise vlib.Infra('oracle disagreement (machinery error) on %s: %s' % (cs.cases[i]['origin'], why[i]))
    bad = sorted(why)
    reproduced = 0
    if bad:
        sub = bad[:400]
        l1, a1, r1, _ = validate(ctx, exe, cs, sub, 'rerun', workers=1)
        w1 = collections.defaultdict(list)
        for pos, w in r1:
            w1[pos].append(w)
        for pos in sorted(w1):
            i = sub[pos]
            reproduced += 1
            rec = l1[pos]
            c = cs.cases[i]
            data = open(c['file'], 'rb').read()
            if only_pinned:
                print('PINNED-FAILS %s' % json.dumps(dict(cs.ident(i), key=vlib.case_key(cs.ident(i)), origin=c['origin'], tags=excluded(c['lang'], c['opts'], data),
                                                          file=os.path.relpath(c['file'], vlib.REPO) if c['file'].startswith(vlib.REPO) else None,
                                                          src=data.decode('latin1') if not c['file'].startswith(vlib.REPO) else None)))
            detail = dict(record={k: v for k, v in rec.items() if k not in ('in', 'out', 'paths0', 'paths1')},
                          origin=c['origin'], input_b64=base64.b64encode(data).decode() if len(data) <= 4 << 20 else None,
                          input_file=c['file'] if c['file'].startswith(vlib.REPO) else None)
            verdict = ctx.report(cs.ident(i), describe(cs, i, rec, w1[pos]), detail)
            if verdict == 'violation' and os.environ.get('VERIF_C09_SAVE'):      # debugging aid: keep the witness input
                os.makedirs(os.environ['VERIF_C09_SAVE'], exist_ok=True)
                with open(os.path.join(os.environ['VERIF_C09_SAVE'], '%s-%s.%s' % (c['opts'], cs.data[i]['sha'][:10], c['lang'])), 'wb') as f:
                    f.write(data)
    if len(bad) > 400:
        vlib.log('c09: %d rejected records; only the first 400 were re-run' % len(bad))
        ctx.coverage['rejections_not_rerun'] = len(bad) - 400
    ctx.coverage['rejections'] = len(bad)
    ctx.coverage['rejections_reproduced'] = reproduced

    # ---- evidence
    nontrivial = set()
    per = collections.Counter()
    judged_pairs = 0
    for cid, e in all_lines.items():
        c = cs.cases[cid]
        if e['acc1']:
            per[c['lang'] + ':accepted'] += 1
            if e['n1'] != e['n0'] or not e['same12']:
                nontrivial.add((c['lang'], c['opts'], c['inline'], cs.data[cid]['sha']))
            judged_pairs += sum(1 for g in e['goals'] if g['bad0'] == 0)
        else:
            per[c['lang'] + ':rejected_by_minifier'] += 1
        per['origin:' + c['origin'].split(':')[0]] += 1
    samples = []
    for cid in vlib.sample(sorted(all_lines), 6, rnd):
        c, e = cs.cases[cid], all_lines[cid]
        samples.append(dict(lang=c['lang'], opts=c['opts'], origin=c['origin'][:80], n0=e['n0'], acc1=e['acc1'], n1=e['n1'], acc2=e['acc2'],
                            goals=[(g['g'], g['bad0'], g['bad1']) for g in e['goals']][:8]))
    ctx.coverage.update(dict(
        traces_validated_against_impl=accepted + accepted2,
        evaluations=len(all_lines),
        distinct_nontrivial=len(nontrivial),
        goal_judgements_with_valid_input=judged_pairs,
        by_kind=dict(per),
        rule='a case is (language, option set, inline flag, sha1 of the input bytes); inputs: every file of tests/*/corpus and _benchmarks, '
             'the first two strings of every row of the repository\'s table tests, those embedded in HTML hosts, seeded byte-level mutations / '
             'boundary splices / whitespace-comment insertions of them, JsLexAdj adjacency programs, re-injected outputs; non-trivial = accepted '
             'and the output differs from the input (or the second pass differs from the first). Generator exclusions (known findings, narrow '
             'regular expressions on the input bytes in tools/props/c09.py excluded()): K2 K3 K4 K6 K10 K12 K14 K15 K17; lifted because fixed in /repo: '
             + ' '.join(sorted(FIXED)),
        samples=samples,
    ))
    ctx.assumptions += [
        'validity is judged relative to the input: goal g is checked only when the independent parser accepts the input for g '
        '(count of rejected parts must not grow); acceptance of the output by the second pass is checked for every accepted input',
        'trusted: V8 (node --no-lazy) and acorn for JavaScript, encoding/json, encoding/xml (strict), x/net/html tokenizer for HTML raw text, '
        'CSS tokenizer and SVG path recogniser in harness/cmd/c09/judge written from the standards (the path recogniser is cross-checked '
        'against spec/C09Path.tla on every short path, V8 against spec/JsLexAdj.tla Lex on every adjacency program)',
        'level: exploration - the input space is open-ended; TLC decides the recorded judgements and the byte-level grammars only',
    ]
    ctx.level = 'exploration'
    ctx.coverage['states'] = ctx.mc['states']
    ctx.coverage['transitions'] = ctx.mc['transitions']


def replay(ctx, obj):
    exe = vlib.build_harness(ctx, 'c09')
    case = obj['case']
    det = obj.get('detail') or {}
    if det.get('input_b64'):
        data = base64.b64decode(det['input_b64'])
    elif det.get('input_file'):
        data = open(det['input_file'], 'rb').read()
    elif 'src' in obj:
        data = obj['src'].encode('latin1')
    else:
        raise vlib.Infra('replay file has no input')
    cs = Cases(ctx)
    cid = cs.add(case['lang'], case['opts'], data=data, origin='replay', inline=case.get('inline', False), allow_known=True)
    lines, accepted, rejects, _ = validate(ctx, exe, cs, [cid], 'replay')
    e = lines[0]
    print(json.dumps({k: v for k, v in e.items() if k not in ('in', 'out', 'paths0', 'paths1')}))
    if rejects:
        print('VIOLATION property=C09 replay=given  (%s)' % describe(cs, cid, e, [w for _, w in rejects]))
        return 1
    print('holds')
    return 0


META = dict(
    category='exploration',
    text='The two-pass pipeline Fresh -Minify-> Out1 -independent parse-> Judged -Minify-> Out2 is a TLA+ state machine (Closure); TLC '
         'checks at design level that the one-step contract closes the accepted set under arbitrarily many passes, and validates every '
         'recorded two-pass execution of the real minifiers against the invariant Accepted1 => Valid1 /\\ Accepted2. The ECMAScript '
         'lexical grammar and the SVG path grammar are written in TLA+ and evaluated by TLC on real output bytes; the token-separation '
         'rule table (Fuses) is model-checked against the lexer and its reachable expressions are the adjacency programs. Validity of '
         'large documents is the recorded verdict of independent parsers (V8, acorn, encoding/json, encoding/xml, x/net/html, CSS tokenizer).',
    design_ref='DESIGN.md section 4, C09',
    note='Claimed level: exploration (open-ended input space). Validity is relative: a goal is checked when the independent parser '
         'accepts the input. Trusted: V8/acorn, Go standard parsers, x/net/html, the harness CSS tokenizer and path recogniser.',
    technique='TLA+ pipeline machine + lexical grammars, TLC trace validation of two-pass records, independent parsers as judges',
)


def _regen_known():
    """maintenance: python3 tools/props/c09.py < output of `VERIF_C09_ONLY=pinned check.py --property C09`
    rewrites known/C09.txt (one line per pinned witness that fails) and prunes known/C09.ndjson to those witnesses"""
    import sys
    fails, extra = {}, {}
    for line in sys.stdin:
        if line.startswith('PINNED-FAILS '):
            o = json.loads(line[len('PINNED-FAILS '):])
            fails[(o['lang'], o['opts'], o['inline'], o['sha1'])] = o['key']
            extra[(o['lang'], o['opts'], o['inline'], o['sha1'])] = o
    rows = vlib.known_cases('C09')
    have = set()
    for w in rows:
        data = open(os.path.join(vlib.REPO, w['file']), 'rb').read() if 'file' in w else w['src'].encode('latin1')
        have.add((w['lang'], w['opts'], w.get('inline', False), sha(data)))
    what = {w['what'].split(' ')[0]: w['what'] for w in rows}
    for k, key in list(fails.items()):
        if k not in have:
            o = extra[k]
            tag = (o.get('tags') or ['K?'])[0]
            if tag not in what:
                print('UNTAGGED failing fixed input (triage it): %s' % json.dumps(o)[:300])
                continue
            w = dict(lang=k[0], opts=k[1], what=what[tag])
            if o.get('file'):
                w['file'] = o['file']
            else:
                w['src'] = o['src']
            rows.append(w)
    keep, lines = [], []
    for w in rows:
        data = open(os.path.join(vlib.REPO, w['file']), 'rb').read() if 'file' in w else w['src'].encode('latin1')
        k = (w['lang'], w['opts'], w.get('inline', False), sha(data))
        if k in fails:
            keep.append(w)
            lines.append('known: property=C09 key=%s %s [%s, options %s, witness %s]' % (
                fails[k], w['what'], w['lang'], w['opts'], w.get('file') or json.dumps(w['src'])))
    vlib.write_ndjson(os.path.join(vlib.ROOT, 'known', 'C09.ndjson'), keep)
    with open(os.path.join(vlib.ROOT, 'known', 'C09.txt'), 'w') as f:
        f.write('# C09 known findings: generated by tools/props/c09.py _regen_known from known/C09.ndjson; never written at run time\n')
        f.write('\n'.join(lines) + '\n')
        f.write('\n'.join(FIXED_NOTES[k] for k in sorted(FIXED_NOTES)) + '\n')
    print('kept %d of %d witnesses' % (len(keep), len(rows)))


if __name__ == '__main__':
    _regen_known()
