"""C06  XML minification preserves the infoset up to insignificant whitespace.

MC : XmlMachine (design model of the token loop of xml/xml.go: omitSpace, Peek loop, empty-element
     collapsing, CDATA-to-text) and XmlAttr (design model of the attribute branch) are checked
     exhaustively against the abstract relation of XmlInfoset (XmlEq / attribute clause); every
     complete behaviour is handed out (PrintT/ToJson) as a document for the real code.
GEN: the MC spaces, TLC -simulate walks of XmlMachine far beyond the bound, the same token streams
     re-rendered with richer syntax (names, attributes, references, PIs, DOCTYPE), the inputs of
     xml_test.go, tests/xml/corpus, _benchmarks/*.xml, pinned witnesses of known findings.
RUN: harness/cmd/c06 calls the real xml.Minifier and reads input and output with encoding/xml
     (Strict) + a raw start-tag scanner (XML 1.0 3.3.3 needs literal vs referenced characters).
TV : C06Trace evaluates the clauses of XmlInfoset on every recorded execution.
A mismatch between design model and code is DRIFT (evidence only); verdicts come from the real code.
"""
import json
import os

import vlib

BIG = 200 * 1024


# ---------------------------------------------------------------------------------------------
def emitted(out):
    """cases printed by the EmitCase invariant: TLA+ strings holding JSON"""
    res = []
    for line in out.splitlines():
        if line.startswith('"{') and line.endswith('}"'):
            res.append(json.loads(json.loads(line)))
    return res


def ident(c):
    return dict(keep=bool(c['keep']), **{'in': bytes(c['in']).decode('latin1')})


# ---- re-rendering of a token stream with richer syntax (same whitespace/CDATA structure) --------
NAMES = [b'r', b'ns:el', b'A', b'x-y.z_1', b'\xc3\xa9l']
TEXT_WORDS = [b'x', b'w&amp;z', b'&lt;tag', b'a&gt;b', b'&#65;', b'caf\xc3\xa9', b'&#x20AC;', b'&#8364;',
              b'it&apos;s', b'&quot;q&quot;', b'&#38;', b'&#60;', b'a]b', b'a]]b', b'&#x26;#38;', b'a=b;c', b'a>b']
CDATA_WORDS = [b'x', b'a<b', b'p&q', b'<<<<<', b']', b'a]]b', b'a>', b'&amp;', b'<!--n-->', b'\xc3\xa9']
PIS = [b'<?p?>', b'<?p a="1"?>', b'<?p a="1" b=\'2\'?>', b'<?xml-stylesheet href="s.xsl" type="text/xsl"?>',
       b'<?p  a = "1" ?>', b'<?p-q.r x=\'"\'?>']
COMMENTS = [b'<!--c-->', b'<!-- a - b -->', b'<!---->', b'<!--<x>&amp;&-->', b'<!--\n-->']
DOCTYPES = [b'<!DOCTYPE r>', b'<!DOCTYPE r SYSTEM "r.dtd">', b'<!DOCTYPE r PUBLIC "-//X//Y" "r.dtd">',
            b'<!DOCTYPE r [<!ELEMENT r ANY><!ATTLIST r b CDATA #IMPLIED>]>',
            b'<!DOCTYPE r [\n <!ENTITY e "v w">\n <!ENTITY f \'x  y\'>\n]>',
            b'<!DOCTYPE r SYSTEM "a>b" [ <!ENTITY e "]>"> ]>']
XMLDECLS = [b'', b'<?xml version="1.0"?>', b'<?xml version="1.0" encoding="UTF-8" standalone="yes"?>',
            b'<?xml  version = \'1.0\' ?>']
ATTR_NAMES = [b'b', b'c:d', b'xml:lang', b'Z_9']


def decorate(tk, rnd, attr_pool):
    """Same token kinds and the same blanks; names, attributes, words, PIs, comments, DOCTYPE varied.
    The constructs of the known findings that depend on spelling are not produced (see RULE)."""
    wx, wy = rnd.choice(TEXT_WORDS), rnd.choice(TEXT_WORDS)
    cx = rnd.choice(CDATA_WORDS)
    has_dt = any(t['k'] == 'DT' for t in tk)
    prolog = bool(tk) and tk[0]['k'] != 'TX'          # nothing may precede an XML declaration
    dt = rnd.choice(DOCTYPES)
    dt_front = prolog and not has_dt and rnd.random() < 0.5
    if b'<!ENTITY e ' in dt and (has_dt or dt_front) and rnd.random() < 0.5:
        wy = b'&e;'                                    # declared before the root, used inside it
    out = []
    if prolog:
        out.append(rnd.choice(XMLDECLS))
        if dt_front:
            out.append(dt)
    stack = []

    def attrs():
        n = rnd.choice([0, 0, 1, 1, 2])
        s = b''
        names = rnd.sample(ATTR_NAMES, n)
        for nm in names:
            s += rnd.choice([b' ', b'  ', b'\n ', b'\t']) + nm + rnd.choice([b'=', b'=', b' = ', b'=\n']) + rnd.choice(attr_pool)
        return s

    for t in tk:
        k, c = t['k'], t['c']
        if k == 'ST':
            nm = rnd.choice(NAMES)
            stack.append(nm)
            out.append(b'<' + nm + attrs() + rnd.choice([b'', b'', b' ', b'\n']) + b'>')
        elif k == 'ET':
            nm = stack.pop()
            out.append(b'</' + nm + rnd.choice([b'', b'', b' ', b'\n']) + b'>')
        elif k == 'VT':
            out.append(b'<' + rnd.choice(NAMES) + attrs() + rnd.choice([b'', b' ']) + b'/>')
        elif k == 'TX':
            s = b''
            for x in c:
                if x >= 1000:
                    s += b'&#%d;' % (x - 1000)
                elif x == 120:
                    s += wx
                elif x == 121:
                    s += wy
                else:
                    s += bytes([x])
            out.append(s)
        elif k == 'CD':
            s = b''
            for x in c:
                s += cx if x == 120 else bytes([x])
            out.append(b'<![CDATA[' + s + b']]>')
        elif k == 'CM':
            out.append(rnd.choice(COMMENTS))
        elif k == 'PI':
            out.append(rnd.choice(PIS))
        elif k == 'DT':
            out.append(dt)
    doc = b''.join(out)
    return doc


RULE = ('a case is (KeepWhitespace, document bytes). Documents: every complete behaviour of the design models '
        'XmlMachine (all well-formed token streams up to the length bound over its vocabulary of tags, text kinds, '
        'CDATA kinds, comment, PI, DOCTYPE; both KeepWhitespace values) and XmlAttr (all attribute values up to the '
        'length bound over literal characters and references, both quote kinds); TLC -simulate walks of XmlMachine '
        'to 14 tokens; the same token streams re-rendered with other names, attributes, references, PIs, comments, '
        'DOCTYPE/internal subsets; inputs of xml_test.go, tests/xml/corpus, _benchmarks/*.xml. Documents the '
        'independent reader does not accept as well-formed are outside the quantification and are not judged. '
        'Not generated (pinned as known findings instead): K1 numeric reference to "<" in a double-quoted attribute; '
        'K2 numeric reference to "&" there unless a letter/digit/# follows; K3 numeric reference to tab/LF/CR there; '
        'K4 literal CR LF inside an attribute value; K5 KeepWhitespace with blank-only element content; '
        'K7/K8 "]]" directly followed by a reference to ">" or by CDATA/text that starts with ">"; '
        'K9 PI content that is not name="value" pseudo-attributes; K10 "]" or an odd double quote inside a '
        'single-quoted literal or comment of an internal DTD subset; K11 a blank-initial text reached while omitSpace '
        'is still set from before a CDATA section that does not end in a blank (history variable `hit` of XmlMachine). '
        'non-trivial = the real minifier returned bytes different from its input')


# ---------------------------------------------------------------------------------------------
def generate(ctx):
    quick = ctx.quick()
    cases = []
    seen = set()
    stats = dict(mc_docs=0, mc_known_skipped=0, attr_docs=0, attr_known_skipped=0, sim_docs=0, sim_known_skipped=0,
                 decorated=0, repo_tests=0, corpus=0, pinned=0)

    def add(keep, data, src, pred=None):
        k = (bool(keep), bytes(data))
        if k in seen:
            return False
        seen.add(k)
        cases.append(dict(id=len(cases), keep=bool(keep), src=src, pred=pred, **{'in': list(data)}))
        return True

    # (MC) exhaustive design models; their behaviours are the documents
    r = vlib.tlc_mc(ctx, 'XmlMachine', 'XmlMachine_quick.cfg' if quick else 'XmlMachine_thorough.cfg',
                    workers=8 if quick else 16, heap='3g' if quick else '12g', timeout=3000)
    mc = emitted(r['out'])
    if not mc:
        raise vlib.Infra('XmlMachine emitted no behaviours')
    ctx.coverage['design_states_XmlMachine'] = r['distinct']
    pool_tk = []
    for e in mc:
        if e['known']:
            stats['mc_known_skipped'] += 1
            continue
        if not e['holds']:
            raise vlib.Infra('design counterexample outside the known constructs: %r' % bytes(e['in']))
        if add(e['keep'], e['in'], 'mc', e['out']):
            stats['mc_docs'] += 1
        pool_tk.append(e)
    r = vlib.tlc_mc(ctx, 'XmlAttr', 'XmlAttr_quick.cfg' if quick else 'XmlAttr_thorough.cfg', workers=4 if quick else 16,
                    heap='2g' if quick else '8g', timeout=3000)
    ctx.coverage['design_states_XmlAttr'] = r['distinct']
    attr_pool = []
    for e in emitted(r['out']):
        if e['known']:
            stats['attr_known_skipped'] += 1
            continue
        for keep in ((False,) if quick else (False, True)):
            if add(keep, e['in'], 'attr', e['out']):
                stats['attr_docs'] += 1
        b = bytes(e['in'])
        attr_pool.append(b[len(b'<a b='):-2])
    if not attr_pool:
        raise vlib.Infra('XmlAttr emitted no behaviours')
    attr_pool = sorted(set(attr_pool))
    # (GEN) random walks of the same machine far beyond the exhaustive bound
    nsim = 1500 if quick else 30000
    nproc = 1 if quick else 8
    sims = []
    for w in range(nproc):
        rs = vlib.tlc(ctx, 'XmlMachine', 'XmlMachine_sim.cfg', workers=1, simulate='num=%d' % (nsim // nproc), depth=40,
                      seed=ctx.seed * 100 + w, timeout=1500)
        if rs['errors'] or rs['invariant_violations'] or not rs['completed']:
            raise vlib.Infra('simulate failed: ' + rs['out'][-1500:])
        sims += emitted(rs['out'])
    for e in sims:
        if e['known']:
            stats['sim_known_skipped'] += 1
            continue
        if not e['holds']:
            # design-level counterexample beyond the bound that no known construct explains: the real code
            # decides (it is run like every other document)
            ctx.coverage['design_counterexamples_beyond_bound'] = ctx.coverage.get('design_counterexamples_beyond_bound', 0) + 1
        if add(e['keep'], e['in'], 'sim', e['out']):
            stats['sim_docs'] += 1
        pool_tk.append(e)
    # the same token streams with richer spelling
    ndec = 6000 if quick else 120000
    for i in range(ndec):
        e = pool_tk[ctx.rnd.randrange(len(pool_tk))]
        if add(e['keep'], decorate(e['tk'], ctx.rnd, attr_pool), 'decorated'):
            stats['decorated'] += 1
    # the repository's own inputs
    for row in vlib.test_inputs(ctx, 'xml'):
        if not row['strings'] or row['func'] not in ('TestXML', 'TestXMLKeepWhitespace'):
            continue
        s = row['strings'][0].encode('utf-8', 'surrogateescape')
        if add(row['func'] == 'TestXMLKeepWhitespace', s, 'xml_test.go'):
            stats['repo_tests'] += 1
    files = []
    d = os.path.join(vlib.REPO, 'tests', 'xml', 'corpus')
    if os.path.isdir(d):
        files += [os.path.join(d, f) for f in sorted(os.listdir(d))]
    d = os.path.join(vlib.REPO, '_benchmarks')
    if os.path.isdir(d):
        files += [os.path.join(d, f) for f in sorted(os.listdir(d)) if f.endswith('.xml')]
    for p in files:
        b = open(p, 'rb').read()
        if quick and len(b) > BIG:
            continue
        for keep in (False, True):
            if add(keep, b, 'file:' + os.path.relpath(p, vlib.REPO)):
                stats['corpus'] += 1
    for c in vlib.known_cases('C06'):
        if add(c['keep'], c['in'].encode('latin1'), 'pinned'):
            stats['pinned'] += 1
    return cases, stats


def run_cases(ctx, exe, cases, tag):
    cin = ctx.path('run', tag + '-cases.ndjson')
    tout = ctx.path('run', tag + '-trace.ndjson')
    with open(cin, 'w') as f:
        for i, c in enumerate(cases):
            f.write(json.dumps({'id': i, 'keep': c['keep'], 'in': c['in']}, separators=(',', ':')) + '\n')
    vlib.run([exe, cin, tout], timeout=1800)
    evs = vlib.read_ndjson(tout)
    if len(evs) != len(cases):
        raise vlib.Infra('harness wrote %d lines for %d cases' % (len(evs), len(cases)))
    for e, c in zip(evs, cases):
        if e['rerr']:
            raise vlib.Infra('the two XML readers of the harness disagree (machinery problem) on %r: %s'
                             % (bytes(c['in'])[:200], e['rerr']))
    return evs


TRACE_FIELDS = ('keep', 'panic', 'err', 'outwf', 'ein', 'eout')


def validate(ctx, evs):
    """TLC judges every execution whose input the reader accepts; returns (accepted, {index: [clauses]})"""
    idx = [i for i, e in enumerate(evs) if e['inwf']]
    small = [i for i in idx if len(evs[i]['ein']) <= 3000]
    large = [i for i in idx if len(evs[i]['ein']) > 3000]
    accepted = 0
    why = {}
    for part, mps in ((small, 400), (large, 1)):
        if not part:
            continue
        lines = [{k: evs[i][k] for k in TRACE_FIELDS} for i in part]
        acc, rej = vlib.tlc_trace(ctx, 'C06Trace', 'C06Trace.cfg', lines, min_per_shard=mps, heap='3g' if mps > 1 else '6g',
                                  timeout=2400)
        accepted += acc
        for j, w in rej:
            why.setdefault(part[j], []).append(w)
    return accepted, why


def describe(c, e, clauses):
    out = bytes(e['out']).decode('latin1')
    return '%s keepWhitespace=%s: %r -> %s  [%s]%s' % (
        c.get('src', ''), c['keep'], bytes(c['in']).decode('latin1')[:300],
        'PANIC' if e['panic'] else repr(out[:300]), '; '.join(clauses),
        (' (' + e['outwhy'] + ')') if not e['outwf'] and not e['panic'] else '')


def run(ctx):
    exe = vlib.build_harness(ctx, 'c06')
    cases, stats = generate(ctx)
    evs = run_cases(ctx, exe, cases, 'main')
    for c, e in zip(cases, evs):
        if c['src'] in ('mc', 'attr', 'sim', 'decorated') and not e['inwf']:
            raise vlib.Infra('generated document rejected by the reader (%s): %r' % (e['inwhy'], bytes(c['in'])))
    accepted, why = validate(ctx, evs)
    # DRIFT: does the design model still predict the code's bytes?  (information, never a verdict)
    drift = 0
    drift_samples = []
    compared = 0
    for c, e in zip(cases, evs):
        if c['pred'] is not None:
            compared += 1
            if list(e['out']) != list(c['pred']):
                drift += 1
                if len(drift_samples) < 5:
                    drift_samples.append(dict(keep=c['keep'], **{'in': bytes(c['in']).decode('latin1')},
                                              model=bytes(c['pred']).decode('latin1'), code=bytes(e['out']).decode('latin1')))
    # every rejected execution is repeated alone in a fresh process and judged again before it counts
    if why:
        bad = sorted(why)
        sub = [cases[i] for i in bad[:300]]
        evs2 = run_cases(ctx, exe, sub, 'rerun')
        acc2, why2 = validate(ctx, evs2)
        for k in sorted(why2):
            c, e = sub[k], evs2[k]
            ctx.report(ident(c), describe(c, e, why2[k]),
                       replay_obj=dict(out=bytes(e['out']).decode('latin1'), clauses=why2[k], outwhy=e['outwhy']))
        not_reproduced = [bad[k] for k in range(len(sub)) if k not in why2]
        if not_reproduced:
            raise vlib.Infra('rejections that do not reproduce in isolation: %r' % [bytes(cases[i]['in'])[:80] for i in not_reproduced[:5]])
        ctx.coverage['rejections'] = len(bad)
        ctx.coverage['rejections_reproduced'] = len(why2)
    nontrivial = set()
    judged = 0
    skipped = 0
    samples = []
    for c, e in zip(cases, evs):
        if not e['inwf']:
            skipped += 1
            continue
        judged += 1
        if list(e['out']) != list(c['in']):
            nontrivial.add((c['keep'], bytes(c['in'])))
        if len(samples) < 8 and c['id'] % 1777 == 5 and len(c['in']) < 400:
            samples.append(dict(src=c['src'], keep=c['keep'], **{'in': bytes(c['in']).decode('latin1')},
                                out=bytes(e['out']).decode('latin1')))
    if not samples:
        c, e = cases[len(cases) // 2], evs[len(cases) // 2]
        samples.append(dict(src=c['src'], keep=c['keep'], **{'in': bytes(c['in']).decode('latin1')[:400]},
                            out=bytes(e['out']).decode('latin1')[:400]))
    ctx.coverage.update(stats)
    ctx.coverage.update(dict(
        traces_validated_against_impl=accepted,
        evaluations=len(cases),
        judged=judged,
        not_wellformed_inputs_left_out=skipped,
        distinct_nontrivial=len(nontrivial),
        rule=RULE,
        samples=samples,
        design_predictions_compared=compared,
        design_drift=drift,
        design_drift_samples=drift_samples,
        exhaustive=True,
        exhaustive_bound='XmlMachine: all well-formed token streams with <= %d tokens over %d token kinds x KeepWhitespace; '
                         'XmlAttr: all values with <= %d items over %d items x 2 quote kinds'
                         % ((5, 18, 3, 22) if ctx.quick() else (6, 24, 4, 28)),
    ))
    ctx.assumptions += [
        'encoding/xml (Strict) + the raw start-tag scanner of harness/cmd/c06 define what a document says; the two are cross-checked against each other on every start tag (disagreement = exit 2)',
        'DTD attribute types/defaults are not applied (no ATTLIST-driven normalisation); internal general entities without markup are expanded, documents with other entity declarations are left out',
        'PI/DOCTYPE content is compared up to blanks outside quoted literals; KeepWhitespace clause read as: blanks at either end of the character data between two consecutive element tags (comments/PIs transparent)',
        'TLC evaluates XmlInfoset.XmlEq clause by clause (spec/C06Trace.tla)']


def replay(ctx, obj):
    exe = vlib.build_harness(ctx, 'c06')
    c = obj['case']
    case = dict(id=0, keep=c['keep'], src='replay', pred=None, **{'in': list(c['in'].encode('latin1'))})
    evs = run_cases(ctx, exe, [case], 'replay')
    e = evs[0]
    print('in : %r' % c['in'])
    print('out: %r' % bytes(e['out']).decode('latin1'))
    if not e['inwf']:
        print('input is not well-formed for the reader (%s): outside the property' % e['inwhy'])
        return 0
    acc, why = validate(ctx, evs)
    if why:
        print('rejected:', '; '.join(why[0]), e['outwhy'])
        print('VIOLATION property=C06 replay=%s' % 'given')
        return 1
    print('accepted')
    return 0


META = dict(
    category='model_checking',
    text='TLC checks two design models transcribed from xml/xml.go (token loop with omitSpace/Peek look-ahead/empty-element '
         'collapsing/CDATA-to-text; attribute decoding and re-quoting) exhaustively against the TLA+ infoset relation XmlEq '
         '(element tree, names, normalised attribute values per XML 1.0 3.3.3, PIs, DOCTYPE, per text run the NFA "collapse or '
         'trim ordinary blanks, CDATA characters exact", word sequences, KeepWhitespace clause, comments only removed, output '
         'well-formed). Every behaviour of the models, random walks beyond the bound, re-rendered variants and the '
         'repository inputs are executed by the real xml.Minifier; input and output are read by encoding/xml plus a raw '
         'start-tag scanner and TLC evaluates the same relation on every recorded execution.',
    design_ref='DESIGN.md section 4, C06',
    note='Trusted: TLC; encoding/xml as XML reader (laxer than XML 1.0 in places: the harness adds single-root, '
         'text-outside-root, duplicate-attribute, whitespace-between-attributes, DOCTYPE-position checks). ATTLIST-driven '
         'normalisation and external entities are not modelled. Beyond the exhaustive bound coverage is sampled.',
    technique='TLA+ design models + abstract infoset relation; TLC model checking, TLC-generated documents, TLC trace validation',
)
