"""C06  XML minification preserves the infoset up to insignificant whitespace.

MC : XmlMachine (design model of the token loop of xml/xml.go: omitSpace, Peek loop, empty-element
     collapsing, CDATA-to-text) and XmlAttr (design model of the attribute branch) are checked
     exhaustively against the abstract relation of XmlInfoset (XmlEq / attribute clause); every
     complete behaviour is handed out (PrintT/ToJson) as a document for the real code.
GEN: the MC spaces, TLC -simulate walks of XmlMachine far beyond the bound, the same token streams
     re-rendered with richer syntax (names, attributes, references, PIs, DOCTYPE), the inputs of
     xml_test.go, tests/xml/corpus, _benchmarks/*.xml, pinned witnesses of known findings.
RUN: harness/cmd/c06 calls the real xml.Minifier and reads input and output with encoding/xml
     (Strict) + a raw start-tag scanner (XML 1.0 3.3.3 needs literal vs referenced characters).
TV : C06Trace evaluates the clauses of XmlInfoset on every recorded execution.
A mismatch between design model and code is DRIFT (evidence only); verdicts come from the real code.
"""
import json
import os
import re
import time
from concurrent.futures import ThreadPoolExecutor

import vlib

BIG = 200 * 1024


# ---------------------------------------------------------------------------------------------
def emitted(out):
    """cases printed by the EmitCase invariant: TLA+ strings holding JSON"""
    res = []
    for line in out.splitlines():
        if line.startswith('"{') and line.endswith('}"'):
            res.append(json.loads(json.loads(line)))
    return res


def ident(c):
    return dict(keep=bool(c['keep']), **{'in': bytes(c['in']).decode('latin1')})


# ---- re-rendering of a token stream with richer syntax (same whitespace/CDATA structure) --------
NAMES = [b'r', b'ns:el', b'A', b'x-y.z_1', b'\xc3\xa9l']
TEXT_WORDS = [b'x', b'w&amp;z', b'&lt;tag', b'a&gt;b', b'&#65;', b'caf\xc3\xa9', b'&#x20AC;', b'&#8364;',
              b'it&apos;s', b'&quot;q&quot;', b'&#38;', b'&#60;', b'a]b', b'a]]b', b'&#x26;#38;', b'a=b;c', b'a>b']
CDATA_WORDS = [b'x', b'a<b', b'p&q', b'<<<<<', b'a]b', b'a]]b', b'a>', b'&amp;', b'<!--n-->', b'\xc3\xa9']
PIS = [b'<?p?>', b'<?p a="1"?>', b'<?p a="1" b=\'2\'?>', b'<?xml-stylesheet href="s.xsl" type="text/xsl"?>',
       b'<?p  a = "1" ?>', b'<?p-q.r x=\'"\'?>']
COMMENTS = [b'<!--c-->', b'<!-- a - b -->', b'<!---->', b'<!--<x>&amp;&-->', b'<!--\n-->']
DOCTYPES = [b'<!DOCTYPE r>', b'<!DOCTYPE r SYSTEM "r.dtd">', b'<!DOCTYPE r PUBLIC "-//X//Y" "r.dtd">',
            b'<!DOCTYPE r [<!ELEMENT r ANY><!ATTLIST r b CDATA #IMPLIED>]>',
            b'<!DOCTYPE r [\n <!ENTITY e "v w">\n <!ENTITY f \'x  y\'>\n]>',
            b'<!DOCTYPE r SYSTEM "a>b" [ <!ENTITY e "]>"> ]>']


def gen_doctype(rnd):
    """A DOCTYPE declaration from the XML 1.0 grammar (external id, internal subset with entity/element/
    attlist declarations, comments, PIs, both literal quote kinds).  Known construct K10 is not produced:
    none of  " [ ] >  inside a single-quoted literal, a comment or a PI of the declaration."""
    def lit(dq_pool=(b'x', b' ', b'>', b']', b'[', b"'", b'y', b'  '), sq_pool=(b'x', b' ', b'y', b'  ', b'=')):
        if rnd.random() < 0.6:
            return b'"' + b''.join(rnd.choice(dq_pool) for _ in range(rnd.randrange(0, 5))) + b'"'
        return b"'" + b''.join(rnd.choice(sq_pool) for _ in range(rnd.randrange(0, 5))) + b"'"
    ws = lambda: rnd.choice([b' ', b'\n', b'  ', b'\t'])
    s = b'<!DOCTYPE' + ws() + rnd.choice([b'r', b'ns:el', b'A'])
    x = rnd.random()
    if x < 0.25:
        s += ws() + b'SYSTEM' + ws() + lit()
    elif x < 0.4:
        s += ws() + b'PUBLIC' + ws() + rnd.choice([b'"-//X//Y"', b"'-//X//Y z'"]) + ws() + lit()
    has_e = False
    if rnd.random() < 0.7:
        s += rnd.choice([b'', b' ']) + b'['
        for _ in range(rnd.randrange(0, 5)):
            k = rnd.randrange(6)
            if k == 0:
                s += ws()
            elif k == 1:
                nm = rnd.choice([b'e', b'f', b'g.h'])
                if nm == b'e' and has_e:
                    nm = b'f'
                v = lit(dq_pool=(b'x', b' ', b'>', b']', b'[', b"'", b'y', b'  '))     # no < & % (reader limit)
                has_e = has_e or nm == b'e'
                s += b'<!ENTITY' + ws() + nm + ws() + v + rnd.choice([b'', b' ']) + b'>'
            elif k == 2:
                s += b'<!ELEMENT r ANY>'
            elif k == 3:
                s += b'<!ATTLIST r b CDATA #IMPLIED>'
            elif k == 4:
                s += rnd.choice([b'<!--c-->', b'<!-- a - b = c -->', b"<!-- it's -->"])
            else:
                s += rnd.choice([b'<?p?>', b'<?p a?>', b"<?p a='b' ?>"])
        s += b']' + rnd.choice([b'', b' ', b'\n'])
    return s + b'>', has_e


XMLDECLS = [b'', b'<?xml version="1.0"?>', b'<?xml version="1.0" encoding="UTF-8" standalone="yes"?>',
            b'<?xml  version = \'1.0\' ?>']
STRETCH = [1] * 12 + [2, 3, 9, 20]
ATTR_NAMES = [b'b', b'c:d', b'xml:lang', b'Z_9']


def decorate(tk, rnd, attr_pool):
    """Same token kinds and the same blanks; names, attributes, words, PIs, comments, DOCTYPE varied.
    The constructs of the known findings that depend on spelling are not produced (see RULE)."""
    wx, wy = rnd.choice(TEXT_WORDS), rnd.choice(TEXT_WORDS)
    cx = rnd.choice(CDATA_WORDS)
    has_dt = any(t['k'] == 'DT' for t in tk)
    prolog = bool(tk) and tk[0]['k'] != 'TX'          # nothing may precede an XML declaration
    if rnd.random() < 0.3:
        dt, has_e = rnd.choice(DOCTYPES), None
    else:
        dt, has_e = gen_doctype(rnd)
    if has_e is None:
        has_e = b'<!ENTITY e ' in dt
    dt_front = prolog and not has_dt and rnd.random() < 0.5
    if has_e and (has_dt or dt_front) and rnd.random() < 0.5:
        wy = b'&e;'                                    # declared before the root, used inside it
    out = []
    if prolog:
        out.append(rnd.choice(XMLDECLS))
        if dt_front:
            out.append(dt)
    stack = []

    use_e = wy == b'&e;'

    def attrs():
        n = rnd.choice([0, 0, 1, 1, 2])
        s = b''
        names = rnd.sample(ATTR_NAMES, n)
        for nm in names:
            v = rnd.choice(attr_pool)
            if use_e and rnd.random() < 0.3:          # reference to the entity declared in the internal subset
                v = v[:1] + rnd.choice([b'&e;', b'x&e;', b'&e; &e;']) + v[1:]
            s += rnd.choice([b' ', b'  ', b'\n ', b'\t']) + nm + rnd.choice([b'=', b'=', b' = ', b'=\n']) + v
        return s

    for t in tk:
        k, c = t['k'], t['c']
        if k == 'ST':
            nm = rnd.choice(NAMES)
            stack.append(nm)
            out.append(b'<' + nm + attrs() + rnd.choice([b'', b'', b' ', b'\n']) + b'>')
        elif k == 'ET':
            nm = stack.pop()
            out.append(b'</' + nm + rnd.choice([b'', b'', b' ', b'\n']) + b'>')
        elif k == 'VT':
            out.append(b'<' + rnd.choice(NAMES) + attrs() + rnd.choice([b'', b' ']) + b'/>')
        elif k == 'TX':
            s = b''
            for x in c:
                if x >= 1000:
                    s += b'&#%d;' % (x - 1000)
                elif x == 120:
                    s += wx
                elif x == 121:
                    s += wy
                else:
                    s += bytes([x])
            out.append(s)
        elif k == 'CD':
            s = b''
            for x in c:
                s += cx if x == 120 else bytes([x])
            out.append(b'<![CDATA[' + s + b']]>')
        elif k == 'CM':      # comments (and PIs) are transparent to the look-ahead: long stretches exercise TokenBuffer.Peek growth
            out.append(b''.join(rnd.choice(COMMENTS) for _ in range(rnd.choice(STRETCH))))
        elif k == 'PI':
            out.append(b''.join(rnd.choice(PIS) for _ in range(rnd.choice(STRETCH))))
        elif k == 'DT':
            out.append(dt)
    doc = b''.join(out)
    return doc


def has_cdata_end(doc):
    """syntactic detector of known constructs K7/K8: with comments and CDATA brackets taken away and references to
    '>' spelled out, the document contains "]]>" (over-approximation: safe to leave such documents out)"""
    s = re.sub(rb'<!--.*?-->', b'', doc, flags=re.S)
    s = s.replace(b'<![CDATA[', b'').replace(b']]>', b'')
    for r in (b'&gt;', b'&#62;', b'&#062;', b'&#x3e;', b'&#x3E;'):
        s = s.replace(r, b'>')
    return b']]>' in s


RULE = ('a case is (KeepWhitespace, document bytes). Documents: every complete behaviour of the design models '
        'XmlMachine (all well-formed token streams up to the length bound over its vocabulary of tags, text kinds, '
        'CDATA kinds, comment, PI, DOCTYPE; both KeepWhitespace values), XmlAttr (all attribute values up to the '
        'length bound over literal characters and references, both quote kinds) and XmlText (all texts up to the length '
        'bound over literal characters, blanks and decimal/hex/named references, in <a>TEXT</a>, both KeepWhitespace values); '
        'the window family of XmlMachine (documents that start <a>x, <a><![CDATA[x]]> or <a>x<a> followed by every '
        'continuation up to 7/6/8 tokens over 10 token kinds: look-ahead with history in the token buffer); TLC -simulate walks of XmlMachine '
        'to 14 tokens; the same token streams re-rendered with other names, attributes, references, PIs, comments, '
        'DOCTYPE/internal subsets; inputs of xml_test.go, tests/xml/corpus, _benchmarks/*.xml. Documents the '
        'independent reader does not accept as well-formed are outside the quantification and are not judged. '
        'Not generated (pinned as known findings instead): K4 literal CR LF inside an attribute value; '
        'K7/K8 "]]" directly followed by a reference to ">" or by CDATA/text that starts with ">"; '
        'K9 PI content that is not name="value" pseudo-attributes; K10 one of \" [ ] > inside a single-quoted '
        'literal, a comment or a PI of the DOCTYPE declaration. (K1-K3, K5, K11 were fixed in /repo - 83190a6, 68b0b86, '
        '9bd7820 - and are generated again; their former witnesses are regression inputs.) '
        'non-trivial = the real minifier returned bytes different from its input')


# ---------------------------------------------------------------------------------------------
def generate(ctx):
    quick = ctx.quick()
    cases = []
    seen = set()
    stats = dict(mc_docs=0, mc_known_skipped=0, attr_docs=0, attr_known_skipped=0, text_docs=0, text_known_skipped=0, window_docs=0, window_known_skipped=0, sim_docs=0, sim_known_skipped=0,
                 decorated=0, decorated_known_skipped=0, repo_tests=0, corpus=0, pinned=0)

    def add(keep, data, src, pred=None):
        k = (bool(keep), bytes(data))
        if k in seen:
            return False
        seen.add(k)
        # entry point: generated documents rotate over Minifier.Minify / xml.Minify / registry M.Bytes; fixed inputs use the first
        path = len(cases) % 3 if src in ('mc', 'attr', 'text', 'window', 'sim', 'decorated') else 0
        cases.append(dict(id=len(cases), keep=bool(keep), path=path, src=src, pred=None if pred is None else bytes(pred), **{'in': bytes(data)}))
        return True

    pool_tk = []
    npool = [0]

    def pool(e):
        # reservoir of token streams for re-rendering
        npool[0] += 1
        if len(pool_tk) < 30000:
            pool_tk.append((e['keep'], e['tk']))
        else:
            j = ctx.rnd.randrange(npool[0])
            if j < 30000:
                pool_tk[j] = (e['keep'], e['tk'])

    def take(out, src, skipped):
        n = 0
        for line in out.splitlines():
            if not (line.startswith('"{') and line.endswith('}"')):
                continue
            e = json.loads(json.loads(line))
            n += 1
            if e['known']:
                stats[skipped] += 1
                continue
            if not e['holds']:
                if src in ('mc', 'window'):
                    raise vlib.Infra('design counterexample outside the known constructs: %r' % bytes(e['in']))
                # beyond the bound, explained by no known construct: the real code decides (it is run like every other document)
                ctx.coverage['design_counterexamples_beyond_bound'] = ctx.coverage.get('design_counterexamples_beyond_bound', 0) + 1
            if add(e['keep'], e['in'], src, e['out']):
                stats[src + '_docs'] += 1
            pool(e)
        return n

    # (MC) exhaustive design models; their behaviours are the documents.  (GEN) random walks of the same
    # machine far beyond the exhaustive bound.  The three TLC jobs run side by side.
    nsim = 1500 if quick else 32000
    nproc = 1 if quick else min(8, vlib.JOBS)

    def mc(module, cfg, workers, heap):
        """vlib.tlc_mc, repeated when the JVM was killed from outside (kernel OOM killer on a crowded machine)"""
        for attempt in range(3):
            r = vlib.tlc(ctx, module, cfg, workers=min(workers, vlib.JOBS), heap=heap, timeout=3000,
                         extra=['-coverage', '1' if quick else '120'])
            if not r['completed'] and r['rc'] in (137, -9) and not r['invariant_violations'] and not r['errors']:
                vlib.log('C06: TLC on %s was killed (rc=%s), attempt %d' % (module, r['rc'], attempt + 1))
                time.sleep(15)
                continue
            break
        if r['invariant_violations'] or r['errors'] or not r['completed']:
            raise vlib.Infra('design-level model checking of %s/%s did not pass (rc=%s):\n%s' % (module, cfg, r['rc'], r['out'][-3000:]))
        ctx.add_mc(r)
        return r

    def job_machine():
        return mc('XmlMachine', 'XmlMachine_quick.cfg' if quick else 'XmlMachine_thorough.cfg', 6 if quick else 16, '3g' if quick else '5g')

    def job_attr():
        return mc('XmlAttr', 'XmlAttr_quick.cfg' if quick else 'XmlAttr_thorough.cfg', 3 if quick else 8, '2g' if quick else '4g')

    def job_text():
        return mc('XmlText', 'XmlText_quick.cfg' if quick else 'XmlText_thorough.cfg', 3 if quick else 8, '2g' if quick else '4g')

    def job_window(n):
        return mc('XmlMachine', 'XmlMachine_window%d.cfg' % n, 3 if quick else 6, '2g')

    def job_buffer():
        return mc('XmlBuffer', 'XmlBuffer_quick.cfg' if quick else 'XmlBuffer_thorough.cfg', 3 if quick else 8, '2g' if quick else '4g')

    def job_sim(w):
        rs = vlib.tlc(ctx, 'XmlMachine', 'XmlMachine_sim.cfg', workers=1, simulate='num=%d' % (nsim // nproc), depth=40,
                      seed=ctx.seed * 100 + w, timeout=1500)
        if rs['errors'] or rs['invariant_violations'] or not rs['completed']:
            raise vlib.Infra('simulate failed: ' + rs['out'][-1500:])
        return rs['out']

    t0 = time.time()
    vlib._speccopy(ctx)        # the scratch copy of spec/ must exist before TLC jobs start in parallel
    with ThreadPoolExecutor(max_workers=6 + nproc) as ex:
        fm = ex.submit(job_machine)
        fa = ex.submit(job_attr)
        ft = ex.submit(job_text)
        fw = [ex.submit(job_window, n) for n in (1, 2, 3)]
        fb = ex.submit(job_buffer)
        fs = [ex.submit(job_sim, w) for w in range(nproc)]
        r = fm.result()
        ra = fa.result()
        rt = ft.result()
        rw = [f.result() for f in fw]
        rb = fb.result()
        outs = [f.result() for f in fs]
    vlib.log('C06: TLC on XmlMachine, XmlAttr, XmlText, simulation %.0fs' % (time.time() - t0))
    # per-action coverage of the design models: an action that never fired would make the model vacuous there
    actions = {}
    for out in (r['out'], ra['out'], rt['out'], rb['out']):
        for m in re.finditer(r'^<(\w+) line \d+, col \d+ to line \d+, col \d+ of module (XmlMachine|XmlAttr|XmlText|XmlBuffer)>: (\d+):(\d+)', out, re.M):
            actions['%s.%s' % (m.group(2), m.group(1))] = int(m.group(4))
    dead = [a for a, n in actions.items() if n == 0]
    expected = ['XmlMachine.' + a for a in ('Gen', 'Start', 'StepText', 'StepCDATAEmpty', 'StepCDATA', 'StepComment', 'StepVerbatim',
                                           'StepStart', 'StepVoid', 'StepEnd', 'StepEOF')] + ['XmlAttr.Gen', 'XmlAttr.Rewrite', 'XmlText.Gen', 'XmlText.Rewrite', 'XmlBuffer.Shift', 'XmlBuffer.Peek']
    if dead or any(a not in actions for a in expected):
        raise vlib.Infra('design model action without coverage: %r / %r' % (dead, [a for a in expected if a not in actions]))
    ctx.coverage['design_action_coverage'] = actions
    if take(r['out'], 'mc', 'mc_known_skipped') == 0:
        raise vlib.Infra('XmlMachine emitted no behaviours')
    ctx.coverage['design_states_XmlMachine'] = r['distinct']
    r['out'] = ''
    ctx.coverage['design_states_XmlAttr'] = ra['distinct']
    attr_pool = set()
    for e in emitted(ra['out']):
        if e['known']:
            stats['attr_known_skipped'] += 1
            continue
        if not e['holds']:
            raise vlib.Infra('design counterexample outside the known constructs: %r' % bytes(e['in']))
        # the attribute branch does not look at KeepWhitespace: the other setting gets a fixed 1/8 sample
        for keep in ((False, True) if sum(e['in']) % 8 == 0 else (False,)):
            if add(keep, e['in'], 'attr', e['out']):
                stats['attr_docs'] += 1
        b = bytes(e['in'])
        attr_pool.add(b[len(b'<a b='):-2])
    ra['out'] = ''
    if not attr_pool:
        raise vlib.Infra('XmlAttr emitted no behaviours')
    attr_pool = sorted(attr_pool)
    ctx.coverage['design_states_XmlText'] = rt['distinct']
    for e in emitted(rt['out']):
        if e['known']:
            stats['text_known_skipped'] += 1
            continue
        if not e['holds']:
            raise vlib.Infra('design counterexample outside the known constructs: %r' % bytes(e['in']))
        if add(e['keep'], e['in'], 'text', e['out']):
            stats['text_docs'] += 1
    rt['out'] = ''
    # call histories of the TokenBuffer design model, replayed on the real xml.TokenBuffer (DRIFT information only)
    ctx.coverage['design_states_XmlBuffer'] = rb['distinct']
    ctx.buffer_histories = [json.loads(l) for l in rb['out'].splitlines() if l.startswith('"{') and l.endswith('}"')]
    rb['out'] = ''
    # window family: open root + non-blank character data, then every continuation over a small vocabulary
    ctx.coverage['design_states_XmlMachine_windows'] = sum(x['distinct'] for x in rw)
    for x in rw:
        if take(x['out'], 'window', 'window_known_skipped') == 0:
            raise vlib.Infra('window configuration emitted no behaviours')
        x['out'] = ''
    for o in outs:
        take(o, 'sim', 'sim_known_skipped')
    del outs
    t0 = time.time()
    # the same token streams with richer spelling
    ndec = 6000 if quick else 100000
    for i in range(ndec):
        keep, tk = pool_tk[ctx.rnd.randrange(len(pool_tk))]
        doc = decorate(tk, ctx.rnd, attr_pool)
        if has_cdata_end(doc):          # re-rendering must not introduce known construct K7/K8
            stats['decorated_known_skipped'] += 1
            continue
        if add(keep, doc, 'decorated'):
            stats['decorated'] += 1
    # the repository's own inputs
    for row in vlib.test_inputs(ctx, 'xml'):
        if not row['strings'] or row['func'] not in ('TestXML', 'TestXMLKeepWhitespace'):
            continue
        s = row['strings'][0].encode('utf-8', 'surrogateescape')
        if add(row['func'] == 'TestXMLKeepWhitespace', s, 'xml_test.go'):
            stats['repo_tests'] += 1
    files = []
    d = os.path.join(vlib.REPO, 'tests', 'xml', 'corpus')
    if os.path.isdir(d):
        files += [os.path.join(d, f) for f in sorted(os.listdir(d))]
    d = os.path.join(vlib.REPO, '_benchmarks')
    if os.path.isdir(d):
        files += [os.path.join(d, f) for f in sorted(os.listdir(d)) if f.endswith('.xml')]
    for p in files:
        b = open(p, 'rb').read()
        if quick and len(b) > BIG:
            continue
        for keep in (False, True):
            if add(keep, b, 'file:' + os.path.relpath(p, vlib.REPO)):
                stats['corpus'] += 1
    vlib.log('C06: re-rendering + repository inputs %.0fs' % (time.time() - t0))
    for c in vlib.known_cases('C06'):
        if add(c['keep'], c['in'].encode('latin1'), 'pinned'):
            stats['pinned'] += 1
    return cases, stats


def run_cases(ctx, exe, cases, tag):
    """real code on every case; returns (metas, trace_lines) - trace lines stay unparsed JSON text for TLC"""
    cin = ctx.path('run', tag + '-cases.ndjson')
    tout = ctx.path('run', tag + '-trace.ndjson')
    mout = ctx.path('run', tag + '-meta.ndjson')
    with open(cin, 'w') as f:
        for i, c in enumerate(cases):
            f.write(json.dumps({'id': i, 'keep': c['keep'], 'path': c.get('path', 0), 'in': list(c['in'])}, separators=(',', ':')) + '\n')
    vlib.run([exe, cin, tout, mout], timeout=3000)
    metas = vlib.read_ndjson(mout)
    lines = open(tout).read().splitlines()
    os.remove(cin)
    os.remove(tout)
    os.remove(mout)
    if len(metas) != len(cases) or len(lines) != len(cases):
        raise vlib.Infra('harness wrote %d/%d lines for %d cases' % (len(metas), len(lines), len(cases)))
    for e, c in zip(metas, cases):
        if e['rerr']:
            raise vlib.Infra('the two XML readers of the harness disagree (machinery problem) on %r: %s'
                             % (c['in'][:200], e['rerr']))
        if e['keep'] != c['keep']:
            raise vlib.Infra('harness lines out of order')
    return metas, lines


def validate(ctx, metas, lines):
    """TLC judges every execution whose input the reader accepts; returns (accepted, {index: [clauses]})"""
    idx = [i for i, e in enumerate(metas) if e['inwf']]
    small = [i for i in idx if metas[i]['nin'] <= 3000]
    large = [i for i in idx if metas[i]['nin'] > 3000]
    accepted = 0
    why = {}
    for part, mps in ((small, 400), (large, 1)):
        if not part:
            continue
        acc, rej = vlib.tlc_trace(ctx, 'C06Trace', 'C06Trace.cfg', [lines[i] for i in part], min_per_shard=mps,
                                  heap='3g' if mps > 1 else '6g', timeout=2400)
        accepted += acc
        for j, w in rej:
            why.setdefault(part[j], []).append(w)
        tv = os.path.join(ctx.scratch, 'tv')           # shard files are not needed any more (keeps scratch small)
        if os.path.isdir(tv) and not os.environ.get('VERIF_KEEP'):
            for f in os.listdir(tv):
                if f.startswith('C06Trace-'):
                    os.remove(os.path.join(tv, f))
    return accepted, why


def describe(c, e, clauses):
    out = bytes(e['out']).decode('latin1')
    return '%s keepWhitespace=%s: %r -> %s  [%s]%s' % (
        c.get('src', ''), c['keep'], c['in'].decode('latin1')[:300],
        'PANIC' if e['panic'] else repr(out[:300]), '; '.join(clauses),
        (' (' + e['outwhy'] + ')') if not e['outwf'] and not e['panic'] else '')


CHUNK = 120000


def replay_buffer(ctx, exe):
    """XmlBuffer's call histories on the real xml.TokenBuffer, judged by C06BufTrace (plain queue).  A deviation is
    DRIFT information in the evidence, never a verdict: the property is about documents (see XmlBuffer.tla)."""
    hs = ctx.buffer_histories
    if not hs:
        raise vlib.Infra('XmlBuffer emitted no histories')
    cin = ctx.path('run', 'buffer-cases.ndjson')
    tout = ctx.path('run', 'buffer-trace.ndjson')
    with open(cin, 'w') as f:
        for h in hs:
            f.write(h + '\n')
    vlib.run([exe, '-buffer', cin, tout], timeout=1200)
    lines = open(tout).read().splitlines()
    if len(lines) != len(hs):
        raise vlib.Infra('buffer replay wrote %d lines for %d histories' % (len(lines), len(hs)))
    acc, rej = vlib.tlc_trace(ctx, 'C06BufTrace', 'C06BufTrace.cfg', lines, min_per_shard=10000, timeout=1200)
    bad = sorted(set(i for i, _ in rej))
    ctx.coverage['token_buffer_histories_replayed'] = len(lines)
    ctx.coverage['token_buffer_drift'] = len(bad)
    ctx.coverage['token_buffer_drift_samples'] = [json.loads(lines[i]) for i in bad[:5]]
    if bad:
        vlib.log('C06: DRIFT (information, not a verdict): the real xml.TokenBuffer differs from a queue on %d of %d call '
                 'histories, e.g. %s' % (len(bad), len(lines), lines[bad[0]]))
    os.remove(cin)
    os.remove(tout)


def run(ctx):
    t0 = time.time()
    exe = vlib.build_harness(ctx, 'c06')
    vlib.log('C06: build %.0fs' % (time.time() - t0))
    cases, stats = generate(ctx)
    replay_buffer(ctx, exe)
    vlib.log('C06: %d cases generated' % len(cases))
    accepted = judged = skipped = drift = compared = 0
    drift_samples, samples = [], []
    nontrivial = set()
    rejected = []          # (case, clauses)
    t0 = time.time()
    for lo in range(0, len(cases), CHUNK):
        part = cases[lo:lo + CHUNK]
        metas, lines = run_cases(ctx, exe, part, 'main%d' % lo)
        for c, e in zip(part, metas):
            if c['src'] in ('mc', 'attr', 'text', 'window', 'sim', 'decorated') and not e['inwf']:
                raise vlib.Infra('generated document rejected by the reader (%s): %r' % (e['inwhy'], c['in']))
            if not e['inwf']:
                skipped += 1
                continue
            judged += 1
            out = bytes(e['out'])
            if out != c['in']:
                nontrivial.add((c['keep'], c['in']))
            # DRIFT: does the design model still predict the code's bytes?  (information, never a verdict)
            if c['pred'] is not None:
                compared += 1
                if out != c['pred']:
                    drift += 1
                    if len(drift_samples) < 5:
                        drift_samples.append(dict(keep=c['keep'], **{'in': c['in'].decode('latin1')},
                                                  model=c['pred'].decode('latin1'), code=out.decode('latin1')))
            if len(samples) < 8 and c['id'] % 1777 == 5 and len(c['in']) < 400:
                samples.append(dict(src=c['src'], keep=c['keep'], **{'in': c['in'].decode('latin1')}, out=out.decode('latin1')))
        acc, why = validate(ctx, metas, lines)
        accepted += acc
        for i in sorted(why):
            rejected.append((part[i], why[i]))
        del metas, lines
    vlib.log('C06: run + trace validation %.0fs, %d executions judged' % (time.time() - t0, judged))
    # every rejected execution is repeated alone in a fresh process and judged again before it counts
    t0 = time.time()
    if rejected:
        ctx.coverage['rejections'] = len(rejected)
        # each one alone in a fresh process of the driver; their traces are judged by one TLC run
        rejected.sort(key=lambda cw: cw[0]['src'] != 'pinned')      # pinned witnesses first (stable)
        sub = [c for c, _ in rejected[:40]]
        metas2, lines2 = [], []
        for c in sub:
            m, l = run_cases(ctx, exe, [c], 'rerun')
            metas2 += m
            lines2 += l
        acc2, why2 = validate(ctx, metas2, lines2)
        for k, c in enumerate(sub):
            if k not in why2:
                raise vlib.Infra('rejection does not reproduce in isolation: %r' % c['in'][:200])
            e = metas2[k]
            ctx.report(ident(c), describe(c, e, why2[k]),
                       replay_obj=dict(out=bytes(e['out']).decode('latin1'), clauses=why2[k], outwhy=e['outwhy'], path=c.get('path', 0)))
        reproduced = len(why2)
        ctx.coverage['rejections_reproduced'] = reproduced
    vlib.log('C06: re-runs %.0fs' % (time.time() - t0))
    if not samples:
        c = cases[len(cases) // 2]
        samples.append(dict(src=c['src'], keep=c['keep'], **{'in': c['in'].decode('latin1')[:400]}))
    ctx.coverage.update(stats)
    ctx.coverage.update(dict(
        traces_validated_against_impl=accepted,
        evaluations=len(cases),
        judged=judged,
        not_wellformed_inputs_left_out=skipped,
        distinct_nontrivial=len(nontrivial),
        rule=RULE,
        samples=samples,
        design_predictions_compared=compared,
        design_drift=drift,
        design_drift_samples=drift_samples,
        exhaustive=True,
        exhaustive_bound='XmlMachine: all well-formed token streams with <= %d tokens over %d token kinds x KeepWhitespace%s; '
                         'XmlAttr: all values with <= %d items over %d items x 2 quote kinds%s; '
                         'XmlText: all texts with <= %d items over %d items x KeepWhitespace%s'
                         % ((5, 18, '', 3, 22, '', 3, 22, '') if ctx.quick() else
                            (6, 22, ' (model-checked completely; of the 6-token streams a fixed 1/4 is also executed on the real code)',
                             4, 28, ' (same, 1/8)', 4, 30, ' (same, 1/12)')),
    ))
    ctx.assumptions += [
        'encoding/xml (Strict) + the raw start-tag scanner of harness/cmd/c06 define what a document says; the two are cross-checked against each other on every start tag (disagreement = exit 2)',
        'DTD attribute types/defaults are not applied (no ATTLIST-driven normalisation); internal general entities without markup are expanded, documents with other entity declarations are left out',
        'PI/DOCTYPE content is compared up to blanks outside quoted literals; KeepWhitespace clause read as: blanks at either end of the character data between two consecutive element tags (comments/PIs transparent)',
        'TLC evaluates XmlInfoset.XmlEq clause by clause (spec/C06Trace.tla)']


def replay(ctx, obj):
    exe = vlib.build_harness(ctx, 'c06')
    c = obj['case']
    case = dict(id=0, keep=c['keep'], path=(obj.get('detail') or {}).get('path', 0), src='replay', pred=None, **{'in': c['in'].encode('latin1')})
    metas, lines = run_cases(ctx, exe, [case], 'replay')
    e = metas[0]
    print('in : %r' % c['in'])
    print('out: %r' % bytes(e['out']).decode('latin1'))
    if not e['inwf']:
        print('input is not well-formed for the reader (%s): outside the property' % e['inwhy'])
        return 0
    acc, why = validate(ctx, metas, lines)
    if why:
        print('rejected:', '; '.join(why[0]), e['outwhy'])
        print('VIOLATION property=C06 replay=%s' % 'given')
        return 1
    print('accepted')
    return 0


META = dict(
    category='model_checking',
    text='TLC checks two design models transcribed from xml/xml.go (token loop with omitSpace/Peek look-ahead/empty-element '
         'collapsing/CDATA-to-text; attribute decoding and re-quoting) exhaustively against the TLA+ infoset relation XmlEq '
         '(element tree, names, normalised attribute values per XML 1.0 3.3.3, PIs, DOCTYPE, per text run the NFA "collapse or '
         'trim ordinary blanks, CDATA characters exact", word sequences, KeepWhitespace clause, comments only removed, output '
         'well-formed). Every behaviour of the models, random walks beyond the bound, re-rendered variants and the '
         'repository inputs are executed by the real xml.Minifier; input and output are read by encoding/xml plus a raw '
         'start-tag scanner and TLC evaluates the same relation on every recorded execution.',
    design_ref='DESIGN.md section 4, C06',
    note='Trusted: TLC; encoding/xml as XML reader (laxer than XML 1.0 in places: the harness adds single-root, '
         'text-outside-root, duplicate-attribute, whitespace-between-attributes, DOCTYPE-position checks). ATTLIST-driven '
         'normalisation and external entities are not modelled. Beyond the exhaustive bound coverage is sampled.',
    technique='TLA+ design models + abstract infoset relation; TLC model checking, TLC-generated documents, TLC trace validation',
)
