"""C15  Media type dispatch follows the documented matching rules.

MC : spec/Registry.tla - registry state machine (literal map, ordered pattern list, six
     registration actions) checked exhaustively against the reference model of the documented
     rules stated over the registration history (LiteralWins, FirstPatternWins,
     ReRegisterReplaces, NotExistIffNothing, AgreesWithRef); Split (the documented media type
     form) checked against the construction of every query string.
GEN: the same TLC run prints every reachable history (always-true invariant Emit) and the
     query table; TLC -simulate walks to 8 registrations.
RUN: harness/cmd/c15 replays every behaviour (history + queries) on a real minify.M with
     recording stubs and real external commands and logs what the real code returned per action.
TV : spec/C15Trace.tla - TLC steps through every behaviour carrying the abstract registry and
     judges every Match/Minify against Lookup/Split on that state.
"""
import json
import os
import re
import time

import vlib

PID = 'C15'
KINDS = {1: 'Add', 2: 'AddFunc', 3: 'AddCmd', 4: 'AddRegexp', 5: 'AddFuncRegexp', 6: 'AddCmdRegexp'}
# index -> regular expression registered by the driver (meaning: spec/Registry.tla PatMatch)
PAT_SRC = {1: r'^text/', 2: r'[/+]xml$', 3: r'.*', 4: r'^(application|text)/(x-)?(java|ecma)script$',
           5: r'image/.*', 6: r'[/+]json$'}


# clause codes printed by spec/C15Trace.tla (PrintT wraps long tuples, so the spec prints short codes)
CLAUSES = {
    'WRONGMIN': 'served by the wrong minifier (literal first, else first-registered matching pattern)',
    'PARAMS': 'parameters after the first ; not passed to the minifier as the key/value map',
    'INPUT': 'the selected minifier did not receive the input',
    'OUTPUT': 'output is not what the selected minifier wrote',
    'ERROR': 'error of the selected minifier not returned as is',
    'ORACLE': 'Split differs from parse.Mediatype (oracle disagreement)',
    'NOTEXIST': 'no minifier: the call must fail with ErrNotExist and write nothing',
    'MATCHNOTNIL': 'Match returned a minifier although a call would fail with ErrNotExist',
    'MATCHNIL': 'Match returned nil although a call would be served',
    'MATCHPARAMS': 'Match returned parameters that differ from the ones a call passes',
    'MATCHPAT': 'Match reports the wrong pattern string',
    'PANIC': 'panic',
}


def seq(s):
    s = s.strip()
    return [int(x) for x in s.split(',')] if s else []


def parse_gen(out):
    """histories, literal table and query table printed by TLC (PrintT wraps long tuples)."""
    hists = [seq(m.group(1)) for m in re.finditer(r'<<\s*"HIST",\s*<<([^>]*)>>\s*>>', out)]
    lits = {int(m.group(1)): seq(m.group(2)) for m in re.finditer(r'<<\s*"LIT",\s*(\d+),\s*<<([^>]*)>>\s*>>', out)}
    queries = {}
    for m in re.finditer(r'<<\s*"QUERY",\s*(\d+),\s*(\d+),\s*<<([^>]*)>>,\s*<<([^>]*)>>\s*>>', out, re.S):
        queries[(int(m.group(1)), int(m.group(2)))] = dict(mime=seq(m.group(3)), q=seq(m.group(4)))
    return hists, lits, queries


def predict(regs, mime):
    """generation-side only (never a verdict): index of the registration expected to serve mime, and
    the number of registrations that compete for it (used to keep $in/$out commands to one
    invocation - known finding - and to count non-trivial cases for the evidence)."""
    ms = bytes(mime).decode('latin1')
    lit = [i for i, r in enumerate(regs) if r['pat'] == 0 and bytes(r['lit']) == bytes(mime)]
    pat = [i for i, r in enumerate(regs) if r['pat'] != 0 and re.search(PAT_SRC[r['pat']], ms)]
    comp = len(lit) + len(pat)
    if lit:
        return lit[-1], comp
    if pat:
        return pat[0], comp
    return None, comp


def random_query(rnd, lits):
    """a media type string of the documented form with random blanks/parameters, beyond the table"""
    mimes = [bytes(v) for v in lits.values()] + [b'text/html', b'application/xml', b'application/ld+json', b'TEXT/XML',
                                                 b'text/x', b'image/png', b'a/b', b'text/css2', b'xtext/css',
                                                 b'application/javascript', b'text/*', b'*/*', b'image/svg']
    sp = lambda: b' ' * rnd.choice([0, 0, 1, 2])
    q = sp() + rnd.choice(mimes)
    keys = [b'charset', b'q', b'inline', b'a', b'KEY', b'x-y']
    vals = [b'utf-8', b'1', b'', b'"x"', b'A/b', b'0.5']
    rnd.shuffle(keys)
    for kk in keys[:rnd.choice([0, 0, 1, 2, 3])]:
        q += sp() + b';' + sp() + kk
        v = rnd.choice(vals)
        if v or rnd.random() < 0.5:
            q += sp() + b'=' + sp() + v
    q += sp()
    mime = q.strip().split(b';')[0].strip()
    return dict(mime=list(mime), q=list(q))


def build(ctx, hist, lits, qtable, nq_per_mime, extra, full, interleave=False, both=False, nmimes=None):
    """one behaviour: registrations of `hist` and queries (after the last registration, or in between)"""
    rnd = ctx.rnd
    regs = []
    for code in hist:
        k, t = KINDS[code // 10], code % 10
        regs.append(dict(k=k, lit=lits[t] if code // 10 <= 3 else [], pat=t if code // 10 > 3 else 0, cmd=0))
    qs = []
    mimes = sorted(set(i for i, _ in qtable))
    decs = sorted(set(d for _, d in qtable))
    if nmimes:
        mimes = sorted(rnd.sample(mimes, nmimes))
    for i in mimes:
        ds = decs if full else rnd.sample(decs, nq_per_mime)
        for d in ds:
            ops = ['Match', 'Minify'] if (full or both) else [rnd.choice(['Match', 'Minify'])]
            for op in ops:
                qs.append(dict(op=op, **qtable[(i, d)]))
        if full or rnd.random() < 0.25:
            m = qtable[(i, decs[0])]['mime']
            qs.append(dict(op='MinifyMimetype', mime=m, q=m))       # already split by the caller
    for _ in range(extra):
        qs.append(dict(op=rnd.choice(['Match', 'Minify']), **random_query(rnd, lits)))
    inputs = [b'ab', b'', b'x y\n', b'E!', b'Ez']
    for q in qs:
        q['inp'] = list(rnd.choice(inputs) if rnd.random() < 0.5 else b'ab')
    # order of actions
    if interleave:
        rnd.shuffle(qs)
        cuts = sorted(rnd.randint(0, len(qs)) for _ in regs)
        items, prev = [], 0
        for r, c in zip(regs, cuts):        # queries [prev:c] run before registration r
            items += qs[prev:c] + [r]
            prev = c
        items += qs[prev:]
    else:
        items = regs + qs
    for r in regs:
        if r['k'] in ('AddCmd', 'AddCmdRegexp'):
            # stdin/stdout form or the $in / $in $out / $in.ext --o=$out.ext temp-file forms, invoked as often as the
            # queries happen to reach them (the shell forms cost two processes per call, hence the weights)
            r['cmd'] = rnd.choice([1, 1, 1, 1, 2, 2, 3, 4])
    return dict(items=items)


def lat(x):
    return bytes(x).decode('latin1')


def ident(b):
    return dict(items=[[it['k'], lat(it['lit']), it['pat'], it['cmd']] if 'k' in it else [it['op'], lat(it['q']), lat(it['inp'])]
                       for it in b['items']])


def from_ident(c):
    items = []
    for it in c['items']:
        if len(it) == 4:
            items.append(dict(k=it[0], lit=list(it[1].encode('latin1')), pat=it[2], cmd=it[3]))
        else:
            items.append(dict(op=it[0], q=list(it[1].encode('latin1')), inp=list(it[2].encode('latin1')), mime=[]))
    return dict(items=items)


def wire(it):
    return dict(k=it['k'], lit=it['lit'], pat=it['pat'], cmd=it['cmd']) if 'k' in it else dict(op=it['op'], q=it['q'], inp=it['inp'])


def drive(ctx, exe, behaviours, tag):
    cin = ctx.path('run', tag + '-cases.ndjson')
    tout = ctx.path('run', tag + '-trace.ndjson')
    tmp = ctx.path('tmp', 'x')
    tmp = os.path.dirname(tmp)          # temp files of the command minifier land in the scratch dir
    with open(cin, 'w') as f:
        for i, b in enumerate(behaviours):
            f.write(json.dumps(dict(id=i, items=[wire(it) for it in b['items']]), separators=(',', ':')) + '\n')
    env = dict(os.environ)
    env['TMPDIR'] = tmp
    t0 = time.time()
    vlib.run([exe, cin, tout, str(min(vlib.JOBS, 8))], timeout=3000, env=env)
    vlib.log('c15 driver: %d behaviours in %.1fs' % (len(behaviours), time.time() - t0))
    lines = [l.rstrip('\n') for l in open(tout)]
    if len(lines) != len(behaviours):
        raise vlib.Infra('driver wrote %d lines for %d behaviours' % (len(lines), len(behaviours)))
    return lines


def validate(ctx, exe, behaviours, tag):
    lines = drive(ctx, exe, behaviours, tag)
    t0 = time.time()
    accepted, rejects = vlib.tlc_trace(ctx, 'C15Trace', 'C15Trace.cfg', lines, linear=False, min_per_shard=40,
                                       timeout=3000)
    vlib.log('c15 trace validation: %d behaviours in %.1fs' % (len(lines), time.time() - t0))
    oracle = [r for r in rejects if r[1].startswith('ORACLE')]
    if oracle:
        i, why = oracle[0]
        raise vlib.Infra('oracle disagreement (Split vs parse.Mediatype), behaviour %d: %s\n%s' % (i, why, lines[i][:600]))
    return lines, accepted, rejects


def describe(line, whys):
    o = json.loads(line)
    steps = o['steps']
    b = lambda x: bytes(x).decode('latin1')
    regs = ['%s(%s)' % (s['op'], b(s['lit']) if s['pat'] == 0 else PAT_SRC[s['pat']]) + ('[cmd form %d]' % s['cmd'] if s['cmd'] else '')
            for s in steps if s['op'].startswith('Add')]
    out = []
    for w in whys:
        code, _, at = w.partition('@')
        text = CLAUSES.get(code, code)
        if at.isdigit() and 1 <= int(at) <= len(steps):
            s = steps[int(at) - 1]
            out.append('step %s %s(%r, in=%r) -> ran=%d out=%r err=%s rpat=%r rnil=%s: %s' % (
                at, s['op'], b(s['q']), b(s['inp']), s['ran'], b(s['out']), s['err'], b(s['rpat']), s['rnil'], text))
        else:
            out.append(text)
    return 'history [%s]: %s' % (', '.join(regs), ' | '.join(out[:3]))


def cmd_protocol(ctx):
    """Design model of the command minifier's temp-file protocol (spec/CmdProto.tla).  CmdProto.cfg is the protocol
    of the code (argument vector copied per call, fix fd040d4): EachCallOwnInput must hold for every argument form.
    CmdProto_shared.cfg is the earlier wrong design (shared vector): TLC must find it violating the invariant,
    otherwise the invariant is vacuous (machinery problem, exit 2)."""
    res = {}
    r = vlib.tlc_mc(ctx, 'CmdProto', 'CmdProto.cfg', workers=1, heap='1g', timeout=300)
    res['argument vector copied per call (the code), forms: $in $out | $in | $out | none'] = 'EachCallOwnInput holds (%d states)' % r['distinct']
    r = vlib.tlc(ctx, 'CmdProto', 'CmdProto_shared.cfg', workers=1, heap='1g', timeout=300)
    if 'EachCallOwnInput' not in r['invariant_violations']:
        raise vlib.Infra('vacuity guard: CmdProto with the shared argument vector does not violate EachCallOwnInput:\n' + r['out'][-1500:])
    res['wrong design (shared argument vector) - vacuity guard'] = 'EachCallOwnInput violated, as it must be'
    return res


def system_spec(ctx):
    """spec/Minify.tla: the composition of the registry (C15), the call stack of nested minifier calls (C11) and the
    entry points (C12) with the cross-cutting invariants; three wrong designs must be caught (vacuity guards)."""
    t0 = time.time()
    r = vlib.tlc_mc(ctx, 'Minify', 'Minify_mc.cfg', workers=4, heap='3g', timeout=900)
    res = {'Minify_mc (<= 2 registrations, nesting <= 2, input in <= 2 chunks, 6 entry points)':
           'SameDispatch ServedByLookup RegistryStable ErrorLocated SameBytes hold (%d states)' % r['distinct']}
    for cfg, inv, what in (('Minify_nolock.cfg', 'RegistryStable', 'registration allowed during a call'),
                           ('Minify_nopos.cfg', 'ErrorLocated', 'nested error position not shifted'),
                           ('Minify_perchunk.cfg', 'SameBytes', 'worker minifies the last chunk only')):
        g = vlib.tlc(ctx, 'Minify', cfg, workers=2, heap='2g', timeout=600)
        if inv not in g['invariant_violations']:
            raise vlib.Infra('vacuity guard: Minify/%s does not violate %s:\n%s' % (cfg, inv, g['out'][-1500:]))
        res['wrong design: ' + what] = inv + ' violated, as it must be'
    res['wall_s'] = round(time.time() - t0, 1)
    return res


def apalache(ctx):
    """Optional: inductive invariant of spec/RegistryTyped.tla for histories of any length (Apalache).
    Unavailable tool or a timeout is noted in the evidence and never a verdict."""
    import shutil
    import subprocess
    exe = shutil.which('apalache-mc')
    if not exe:
        return dict(skipped='apalache-mc not on PATH')
    d = ctx.path('apalache', 'RegistryTyped.tla')
    shutil.copy(os.path.join(vlib.SPEC, 'RegistryTyped.tla'), d)
    wd = os.path.dirname(d)
    obligations = [('base: Init => IndInv', ['--init=Init', '--inv=IndInv', '--length=0'], 'NoError'),
                   ('step: IndInv /\\ Next => IndInv\'', ['--init=IndInit', '--inv=IndInv', '--length=1'], 'NoError'),
                   ('IndInv => LiteralWins /\\ ReRegisterReplaces /\\ FirstPatternWins /\\ NotExistIffNothing',
                    ['--init=IndInit', '--inv=Safety', '--length=0'], 'NoError'),
                   ('guard: the step fails for the wrong design "last registered pattern wins"',
                    ['--init=IndInit', '--next=NextLastWins', '--inv=IndInv', '--length=1'], 'Error')]
    res = dict(tool='apalache-mc', obligations=0, discharged=0, detail={})
    t0 = time.time()
    for name, args, want in obligations:
        try:
            r = subprocess.run(['timeout', '600', exe, 'check'] + args + ['--out-dir=' + os.path.join(wd, 'out'), 'RegistryTyped.tla'],
                               cwd=wd, capture_output=True, text=True, timeout=650)
        except subprocess.TimeoutExpired:
            res['detail'][name] = 'timeout'
            res['skipped'] = 'timeout'
            break
        m = re.search(r'The outcome is: (\w+)', r.stdout + r.stderr)
        got = m.group(1) if m else ('timeout' if r.returncode == 124 else 'no outcome (rc %d)' % r.returncode)
        res['detail'][name] = got
        if got in ('timeout',) or not m:
            res['skipped'] = 'apalache did not finish: ' + got
            break
        if want == 'NoError':
            res['obligations'] += 1
            res['discharged'] += got == 'NoError'
        if got != want:
            raise vlib.Infra('apalache: %s: expected %s, got %s\n%s' % (name, want, got, (r.stdout + r.stderr)[-1500:]))
    res['wall_s'] = round(time.time() - t0, 1)
    return res


def run(ctx):
    exe = vlib.build_harness(ctx, 'c15')
    quick = ctx.quick()
    # (MC)+(GEN) exhaustive histories
    r = vlib.tlc_mc(ctx, 'Registry', 'Registry_quick.cfg' if quick else 'Registry_thorough.cfg',
                    workers=8, heap='4g', timeout=1500)
    hists, lits, qtable = parse_gen(r['out'])
    if len(hists) != r['distinct'] or len(lits) != 3 or len(qtable) < 40:
        raise vlib.Infra('could not read the generated histories (%d of %d) / tables' % (len(hists), r['distinct']))
    ctx.coverage['histories_enumerated'] = len(hists)
    ctx.coverage['cmd_protocol_design'] = cmd_protocol(ctx)
    if not quick:
        ctx.coverage['system_spec'] = system_spec(ctx)
        ctx.coverage['unbounded_registry_apalache'] = apalache(ctx)
    else:
        ctx.coverage['system_spec'] = 'thorough tier only (Minify.tla takes more than 10 s)'
    # random walks beyond the exhaustive bound
    nsim = 80 if quick else 1500
    rs = vlib.tlc(ctx, 'Registry', 'Registry_sim.cfg', workers=1, simulate='num=%d' % nsim, depth=9, seed=ctx.seed,
                  timeout=900)
    if rs['errors'] or rs['invariant_violations']:
        raise vlib.Infra('simulation of Registry failed:\n' + rs['out'][-2000:])
    maxlen = max(len(h) for h in hists)
    sims = sorted(set(tuple(h) for h in parse_gen(rs['out'])[0] if len(h) > maxlen))
    ctx.coverage['histories_simulated'] = len(sims)

    behaviours = []
    if quick:
        # every history up to 2 registrations and a seeded 2500 of the 5832 of length 3 (all of them are model-checked);
        # 5 of the 9 query mimetypes each with a seeded decoration and operation
        short = [h for h in hists if len(h) <= 2]
        long = vlib.sample([h for h in hists if len(h) == 3], 2500, ctx.rnd)
        ctx.coverage['histories_len3_replayed'] = len(long)
        for h in short + long:
            behaviours.append(build(ctx, h, lits, qtable, 1, 1, False, nmimes=5))
        for h in sims:
            behaviours.append(build(ctx, list(h), lits, qtable, 1, 3, False, interleave=True))
    else:
        long = [h for h in hists if len(h) == 4]
        long = vlib.sample(long, 15000, ctx.rnd)
        ctx.coverage['histories_len4_replayed'] = len(long)
        for h in hists:
            if len(h) <= 2:
                behaviours.append(build(ctx, h, lits, qtable, 0, 4, True))      # the full 45 x {Match, Minify} product
            elif len(h) == 3:
                behaviours.append(build(ctx, h, lits, qtable, 2, 2, False, both=True))
        for h in long:
            behaviours.append(build(ctx, h, lits, qtable, 1, 1, False))
        for h in sims:
            behaviours.append(build(ctx, list(h), lits, qtable, 2, 4, False, interleave=True))
    ngen = len(behaviours)
    pinned = [from_ident(c) for c in vlib.known_cases(PID)]
    behaviours += pinned

    lines, accepted, rejects = validate(ctx, exe, behaviours, 'main')

    why = {}
    for i, w in rejects:
        why.setdefault(i, []).append(w)
    bad = sorted(why)
    reproduced = 0
    if bad:
        # the rejected behaviours are re-run in a fresh driver process and validated again
        sub = bad[:40]
        l2, a2, r2 = validate(ctx, exe, [behaviours[i] for i in sub], 'rerun')
        why2 = {}
        for k, w in r2:
            why2.setdefault(k, []).append(w)
        for k, i in enumerate(sub):
            if k not in why2:
                raise vlib.Infra('rejection of behaviour %d did not reproduce on re-run: %s' % (i, why[i]))
            reproduced += 1
            ctx.report(ident(behaviours[i]), describe(l2[k], why2[k]),
                       replay_obj=dict(trace=json.loads(l2[k]), clauses=why2[k]))
    if bad:
        ctx.coverage['rejections'] = len(bad)
        ctx.coverage['rejections_reproduced'] = reproduced

    # evidence, measured on this run
    nsteps = 0
    nontrivial = set()
    cmdcalls = 0
    samples = []
    for bi, line in enumerate(lines):
        o = json.loads(line)
        sofar = []
        picked = False
        for s in o['steps']:
            if s['op'].startswith('Add'):
                sofar.append(dict(k=s['op'], lit=s['lit'], pat=s['pat']))
                continue
            nsteps += 1
            mime = s['q'] if s['op'] == 'MinifyMimetype' else s['pmime']
            _, comp = predict(sofar, mime)
            if comp >= 2 or s['pparams']:
                nontrivial.add((tuple((r['k'], bytes(r['lit']), r['pat']) for r in sofar), s['op'], bytes(s['q'])))
            if s['ran'] and s['out'][:1] == [67]:
                cmdcalls += 1
            if not picked and len(samples) < 5 and bi % max(1, len(lines) // 5) == 3 and comp >= 2:
                picked = True
                samples.append(dict(history=['%s %s' % (r['k'], lat(r['lit']) or PAT_SRC[r['pat']]) for r in sofar],
                                    op=s['op'], mediatype=lat(s['q']), served_by=s['ran'], out=lat(s['out']), err=s['err'],
                                    params={lat(k): lat(v) for k, v in s['gparams']}))
    if not samples:
        samples.append(dict(note='no sampled behaviour had competing registrations', behaviours=len(lines)))
    ctx.coverage.update(dict(
        traces_validated_against_impl=accepted,
        behaviours=len(behaviours),
        evaluations=nsteps,
        external_command_runs=cmdcalls,
        distinct_nontrivial=len(nontrivial),
        rule='a case is (registration history, operation, media type string); non-trivial = at least two registrations '
             'compete for the mimetype (literal vs pattern, overlapping patterns, re-registration) or the media type '
             'carries parameters.  Histories: every sequence of <= %d registrations over 6 kinds x 3 targets (TLC), '
             'plus TLC -simulate walks to 8 registrations.  Commands come in four argument forms (stdin/stdout, $in, $in $out, '
             '$in.ext --o=$out.ext) and are invoked repeatedly; the former witnesses of the shared-Args defect (fixed: '
             'fd040d4) are replayed as ordinary regression cases.' % maxlen,
        samples=samples,
        exhaustive=not quick,
        exhaustive_bound=('model checking: all registration histories of length <= %d over {Add,AddFunc,AddCmd,AddRegexp,'
                          'AddFuncRegexp,AddCmdRegexp} x 3 targets.  Replay on the real object: ' % maxlen) +
                         ('all histories of length <= 2 and a seeded 2500 of length 3, 5 of the 9 query mimetypes each (sampled, not exhaustive)'
                          if quick else
                          'every history of length <= 3 x every one of the 9 query mimetypes x {Match, Minify} (full 45-string table x '
                          '{Match,Minify,MinifyMimetype} up to length 2, two decorations per mimetype at length 3); length 4: seeded 15000 of 104976'),
    ))
    ctx.assumptions += [
        'TLC evaluates Registry.Lookup/Split; Split is cross-checked against parse.Mediatype on every query (disagreement = exit 2)',
        'which minifier ran is observed through recording stubs (id, params, input) and through the C<id>: tag written by the external commands',
        'pattern semantics PatMatch are transcriptions of six fixed regular expressions (RE2 semantics)']


def replay(ctx, obj):
    exe = vlib.build_harness(ctx, 'c15')
    b = from_ident(obj['case'])
    lines, accepted, rejects = validate(ctx, exe, [b], 'replay')
    print(describe(lines[0], [w for _, w in rejects]) if rejects else 'behaviour accepted')
    if rejects:
        print('VIOLATION property=C15 replay=given')
        return 1
    return 0


META = dict(
    category='model_checking',
    text='TLC model-checks the registry state machine (literal map + ordered pattern list, six registration actions) '
         'against the reference formulation of the documented rules over all registration histories within the bound, '
         'prints every history, and the Go driver replays each of them on a real minify.M with recording stub '
         'minifiers and real external commands; TLC then steps through every recorded behaviour with the abstract '
         'registry carried along and judges each Match/Minify result (who ran, params map, bytes written, error '
         'identity, pattern string) against Lookup and Split.',
    design_ref='DESIGN.md section 4, C15',
    note='Trusted: TLC; spec/Registry.tla as the meaning of the documented rules; six fixed regular expressions '
         'transcribed as predicates; recording stubs. Beyond 4 registrations coverage is sampled (TLC -simulate).',
    technique='TLA+ registry model, exhaustive history generation by TLC, replay on the real object, TLC trace validation',
)
