"""Generators and spec-side machinery of C01 (see c01.py)."""
import json
import os
import re

import vlib

EXCLUSION_NOTES = []
_EXCL = []


def fixed_ids():
    """ids of known findings that have been fixed in /repo (known/C01-fixed.txt, one id per line): their generator
    exclusions are lifted and their former witnesses become ordinary regression programs.  C01_ASSUME_FIXED=K14,K15 adds
    ids for trial runs against a patched worktree."""
    ids = set()
    p = os.path.join(vlib.ROOT, 'known', 'C01-fixed.txt')
    if os.path.exists(p):
        for line in open(p):
            line = line.split('#')[0].strip()
            if line:
                ids.add(line.split()[0])
    ids |= set(x for x in os.environ.get('C01_ASSUME_FIXED', '').split(',') if x)
    return ids


FIXED = fixed_ids()
# witnesses (known/C01.ndjson ids) that a fix id covers when it is not simply the same id
FIX_COVERS = {'K09': ['K09a', 'K09b'], 'K13': ['K13a', 'K13b'], 'K15': ['K15a', 'K15b'], 'K19': ['K19a', 'K19b'], 'K17': ['K17d', 'K17e'],
              'K08': ['K08a', 'K08b']}


def witness_fixed(wid):
    return any(wid == f or wid in FIX_COVERS.get(f, []) for f in FIXED)


def _ex(pattern, note):
    if note.split()[0] in FIXED:
        return
    _EXCL.append(re.compile(pattern).search if isinstance(pattern, str) else pattern)
    EXCLUSION_NOTES.append(note)


def excluded(src):
    return any(p(src) for p in _EXCL)


def _comma_group_binop(src):
    """a GROUPING parenthesis with a comma at its own nesting level, followed by a binary operator other than && || ?? , = ?"""
    stack = []
    n = len(src)
    for i, ch in enumerate(src):
        if ch == '(':
            j = i - 1
            while j >= 0 and src[j] in ' \t\n':
                j -= 1
            prev = src[j] if j >= 0 else ''
            grouping = not (prev.isalnum() or (prev != '' and prev in '_$)]`'))
            if prev.isalnum() or (prev != '' and prev in '_$'):
                k = j
                while k >= 0 and (src[k].isalnum() or src[k] in '_$'):
                    k -= 1
                if src[k + 1:j + 1] in ('return', 'typeof', 'void', 'delete', 'in', 'of', 'throw', 'case', 'await', 'yield', 'instanceof', 'else', 'do'):
                    grouping = True
            stack.append([grouping, False])
        elif ch == ')':
            if stack:
                grouping, has = stack.pop()
                if grouping and has:
                    rest = src[i + 1:i + 14].lstrip()
                    if re.match(r'(\*\*|[-+*/%](?!=)|<<|>>|[<>]=?|[!=]==?|&(?![&=])|\^(?!=)|\|(?![|=])|instanceof\b|in\b)', rest):
                        return True
        elif ch == ',' and stack:
            stack[-1][1] = True
        elif ch in '[{' :
            stack.append([False, False])
        elif ch in ']}' and stack:
            stack.pop()
    return False


def _k30(src):
    """a function body that assigns NAME and has a var declaration of its own, while `var NAME` is declared AFTER that function"""
    decls = [(m.start(), n) for m in re.finditer(r'\bvar\s+([^;{}()]*)', src) for n in re.findall(r'(?:^|,)\s*([A-Za-z_$][\w$]*)', m.group(1))]
    if not decls:
        return False
    for m in re.finditer(r'\bfunction\b[^{]*\{', src):
        depth, j = 1, m.end()
        while j < len(src) and depth:
            depth += (src[j] == '{') - (src[j] == '}')
            j += 1
        body = src[m.end():j]
        if not re.search(r'\bvar\b', body):
            continue
        for pos, name in decls:
            if pos >= j and re.search(r'(?<![\w$.])' + re.escape(name) + r'\s*=(?!=)', body):
                return True
    return False


def _paren_optchain(src):
    """a GROUPING parenthesis (not a call's) that contains `?.` at its own nesting level and is continued by . [ ( or `"""
    stack = []
    n = len(src)
    for i, ch in enumerate(src):
        if ch == '(':
            j = i - 1
            while j >= 0 and src[j] in ' \t\n':
                j -= 1
            prev = src[j] if j >= 0 else ''
            grouping = not (prev.isalnum() or (prev != '' and prev in '_$)]`') or (prev == '.' and j > 0 and src[j - 1] == '?'))
            if prev.isalnum() or (prev != '' and prev in '_$'):
                k = j
                while k >= 0 and (src[k].isalnum() or src[k] in '_$'):
                    k -= 1
                if src[k + 1:j + 1] in ('return', 'typeof', 'void', 'delete', 'new', 'in', 'of', 'throw', 'case', 'await', 'yield',
                                        'instanceof', 'else', 'do'):
                    grouping = True
            stack.append([grouping, False])
        elif ch == ')':
            if stack:
                grouping, has = stack.pop()
                if grouping and has:
                    k = i + 1
                    while k < n and src[k] in ' \t\n':
                        k += 1
                    if k < n and (src[k] in '[(`' or (src[k] == '.' and not src[k + 1:k + 2].isdigit()) or src[k:k + 2] == '?.'):
                        return True
        elif ch == '?' and src[i + 1:i + 2] == '.' and not src[i + 2:i + 3].isdigit():
            if stack:
                stack[-1][1] = True
    return False


# ---------------------------------------------------------------------------------------------------
# spec side: JsLaws / JsGen model checking, rendering of generated programs, C01Ast trace validation
_LEAF = {"''": '""', "'s'": '"s"'}
_BIN = {'&&', '||', '??', '==', '!=', '===', '!==', '+', '-', '<'}


def _paren(txt, leaf):
    return txt if leaf else '(' + txt + ')'


def render(sym):
    """prefix production sequence (spec/JsGen.tla) -> JavaScript text; every compound operand is parenthesised"""
    pos = [0]

    def nxt():
        t = sym[pos[0]]
        pos[0] += 1
        return t

    def E():
        t = nxt()
        if t in ('a', 'b', 'x', 'y', 'p', 'undefined', 'null', 'true', 'false', '0', '1', 'NaN', 'typeof zz', 'a()', 'b()', 'a.b',
                 'a?.b', 'a?.b.c', 'a?.b()', 'a?.()'):
            return t, True
        if t in _LEAF:
            return _LEAF[t], True
        if t in ('!', 'neg', 'typeof', 'void'):
            a, l = E()
            op = {'!': '!', 'neg': '-', 'typeof': 'typeof ', 'void': 'void '}[t]
            return op + _paren(a, l), False
        if t in _BIN:
            a, la = E()
            b, lb = E()
            return _paren(a, la) + t + _paren(b, lb), False
        if t == '?:':
            a, la = E()
            b, lb = E()
            c, lc = E()
            return _paren(a, la) + '?' + _paren(b, lb) + ':' + _paren(c, lc), False
        if t == ',':
            a, la = E()
            b, lb = E()
            return '(' + _paren(a, la) + ',' + _paren(b, lb) + ')', True
        if t in ('x=', 'y=', 'p=', 'a.b='):
            a, l = E()
            return t + _paren(a, l), False
        if t in ('a(_)', 'out(_)', 'f(_)'):
            a, l = E()
            return t[:-3] + '(' + a + ')', True
        if t == '_.b':
            a, l = E()
            return _paren(a, l) + '.b', True
        if t == '_?.b':
            a, l = E()
            return _paren(a, l) + '?.b', True
        if t == '==null':
            a, l = E()
            return _paren(a, l) + '==null', False
        if t == '===undefined':
            a, l = E()
            return _paren(a, l) + '===undefined', False
        raise ValueError('unknown expression production ' + t)

    def S():
        t = nxt()
        if t == 'expr;':
            return E()[0] + ';'
        if t == 'if':
            c = E()[0]
            return 'if(' + c + '){' + S() + '}'
        if t == 'ifelse':
            c = E()[0]
            a = S()
            b = S()
            return 'if(' + c + '){' + a + '}else{' + b + '}'
        if t == 'var x=':
            return 'var x=' + E()[0] + ';'
        if t == 'var x':
            return 'var x;'
        if t == 'let y=':
            return 'let y=' + E()[0] + ';'
        if t == 'block':
            return '{' + L() + '}'
        if t == 'throw':
            return 'throw ' + E()[0] + ';'
        if t == 'try':
            a = S()
            b = S()
            return 'try{' + a + '}catch(e){' + b + '}'
        if t == 'for2':
            return 'for(var i=0;i<2;i=i+1){' + S() + '}'
        if t == 'while2':
            return '{w=0;while(w<2){w=w+1;' + S() + '}}'
        if t == 'empty;':
            return ';'
        if t == 'break?':
            return 'for(var j=0;j<2;j=j+1){if(a)break;out(j)}'
        if t == 'return':
            return 'return ' + E()[0] + ';'
        if t == 'return;':
            return 'return;'
        raise ValueError('unknown statement production ' + t)

    def L():
        t = nxt()
        if t == 'one':
            return S()
        if t == 'cons':
            a = S()
            return a + '\n' + L()
        raise ValueError('unknown list production ' + t)

    t = nxt()
    if t == 'prog':
        src = L()
    elif t == 'progf':
        body = L()
        src = 'function f(p){' + body + '}\n' + L()
    else:
        raise ValueError('not a program: ' + t)
    if pos[0] != len(sym):
        raise ValueError('trailing productions')
    return src


def _programs_from_tlc(out):
    progs = []
    for line in out.splitlines():
        line = line.strip()
        if line.startswith('"[\\"PROG\\"'):
            arr = json.loads(json.loads(line))
            progs.append(arr[1:])
    return progs


def _mc(ctx, module, cfg, **kw):
    """exhaustive TLC run that must pass (like vlib.tlc_mc, but thread friendly: statistics are added by the caller)"""
    r = vlib.tlc(ctx, module, cfg, **kw)
    if r['invariant_violations'] or r['errors'] or not r['completed']:
        raise vlib.Infra('design-level model checking of %s/%s did not pass:\n%s' % (module, cfg, r['out'][-3000:]))
    return r


def model_check(ctx):
    """(MC) design level: rewrite laws for all operand instantiations and environments (JsLaws), generator automata with
    their invariants (JsGen, NumGen); the complete programs TLC prints are the generated inputs.  The TLC runs are
    independent and run side by side."""
    from concurrent.futures import ThreadPoolExecutor
    quick = ctx.quick()
    info = {'evidence': {}, 'mc_results': []}
    vlib._speccopy(ctx)
    w = max(2, min(6, vlib.JOBS // 2))
    gencfgs = ['JsGen_flow_quick.cfg', 'JsGen_expr_quick.cfg', 'JsGen_nest_quick.cfg'] if quick else \
        ['JsGen_flow.cfg', 'JsGen_expr.cfg', 'JsGen_nullish.cfg', 'JsGen_nest.cfg']
    nsim = 40 if quick else 1500          # (every walk checks ~20 complete successor programs)

    def laws():
        return _mc(ctx, 'JsLaws', 'JsLaws_quick.cfg' if quick else 'JsLaws_thorough.cfg', workers=w, heap='3g', timeout=3000)

    def gens():
        return [_mc(ctx, 'JsGen', cfg, workers=max(2, w // 2), heap='4g', timeout=3000) for cfg in gencfgs]

    def sim():
        return vlib.tlc(ctx, 'JsGenSim', 'JsGenSim.cfg', workers=1, simulate='num=%d' % nsim, depth=60, seed=ctx.seed, timeout=1200)

    def numgen():
        return numgen_lexemes(ctx)

    with ThreadPoolExecutor(max_workers=4) as ex:
        fl, fg, fs, fn = ex.submit(laws), ex.submit(gens), ex.submit(sim), ex.submit(numgen)
        rl, rg, rs, rn = fl.result(), fg.result(), fs.result(), fn.result()
    if 'LAW FAILS' in rl['out']:
        raise vlib.Infra('a rewrite law fails in the design model:\n' + '\n'.join(l for l in rl['out'].splitlines() if 'LAW FAILS' in l)[:2000])
    info['evidence']['laws_instantiations_checked'] = rl['distinct']
    info['mc_results'].append(rl)
    progs = []
    info['by_cfg'] = {}
    for cfg, r in zip(gencfgs, rg):
        ps = _programs_from_tlc(r['out'])
        info['evidence'][cfg] = dict(states=r['distinct'], programs=len(ps))
        info['mc_results'].append(r)
        info['by_cfg'][cfg.split('_')[1].split('.')[0]] = ps
        progs += ps
    sims = _programs_from_tlc(rs['out'])
    if not sims:
        raise vlib.Infra('JsGen simulate produced no programs: ' + rs['out'][-1500:])
    info['evidence']['simulated_programs'] = len(sims)
    info['mc_results'].append(rn['mc'])
    ctx.numgen_lexemes = rn['lexemes']
    info['exhaustive'] = progs
    info['simulated'] = sims
    return info


def fragment_programs(ctx, specinfo):
    quick = ctx.quick()
    seen = set()
    out = []
    sims = sorted(specinfo.get('simulated', []))
    # seeded sample of every exhaustively enumerated production set (quick) / larger samples (thorough)
    quota = dict(flow=130, expr=90, nest=130, nullish=0) if quick else dict(flow=2000, expr=1500, nullish=2000, nest=2500)
    ex = []
    for name, ps in sorted(specinfo.get('by_cfg', {}).items()):
        ps = sorted(ps)
        if name == 'nest':
            # half of the nesting sample: an if-else whose THEN-branch is itself an if or a loop (dangling else)
            hot = [p for p in ps if any(p[i] == 'ifelse' and p[i + 2] in ('if', 'for2') for i in range(len(p) - 2))]
            ex += vlib.sample(hot, quota.get(name, 0) // 2, ctx.rnd)
            ex += vlib.sample(ps, quota.get(name, 0) - quota.get(name, 0) // 2, ctx.rnd)
        else:
            ex += vlib.sample(ps, quota.get(name, 0), ctx.rnd)
    sims = vlib.sample(sims, 120 if quick else 4000, ctx.rnd)
    if os.environ.get('C01_FRAG_N'):
        ex, sims = ex[: int(os.environ['C01_FRAG_N'])], sims[: int(os.environ['C01_FRAG_N'])]
    used = {}
    for sym in ex + sims:
        try:
            src = render(sym)
        except (ValueError, IndexError):
            continue
        if src not in seen:
            seen.add(src)
            out.append(src)
            for t in sym:
                used[t] = used.get(t, 0) + 1
    # per-production coverage of the generator automaton by the programs handed to the real minifier
    specinfo.setdefault('evidence', {})['productions_used'] = dict(sorted(used.items()))
    return out


def _tlc_ast(ctx, lines, tag):
    """C01Ast over recorded AST lines, sharded over JVMs.  Returns (stats, rejects[(index, why)])"""
    n = len(lines)
    if n == 0:
        return dict(ok=0, bad=0, skip_in=0, skip_out=0), []
    from concurrent.futures import ThreadPoolExecutor
    shards = max(1, min(vlib.JOBS, n // 25 + 1))
    files, index = [], []
    for sh in range(shards):
        idx = list(range(sh, n, shards))
        p = ctx.path('tv', 'C01Ast-%s-%d.ndjson' % (tag, sh))
        vlib.write_ndjson(p, [lines[i] for i in idx])
        files.append(p)
        index.append(idx)
    vlib._speccopy(ctx)

    def one(sh):
        return vlib.tlc(ctx, 'C01Ast', 'C01Ast.cfg', workers=1, heap='2g', timeout=3000, env={'TRACE': files[sh]})

    with ThreadPoolExecutor(max_workers=shards) as exr:
        results = list(exr.map(one, range(shards)))
    stats = dict(ok=0, bad=0, skip_in=0, skip_out=0)
    rejects = []
    for sh, r in enumerate(results):
        bad = [e for e in r['errors'] if 'REJECT' not in e]
        if r['invariant_violations'] or bad or not r['completed'] or r['distinct'] != len(index[sh]) + 1:
            raise vlib.Infra('C01Ast run failed (shard %d):\n%s' % (sh, r['out'][-3000:]))
        for m in re.finditer(r'<<"STAT", (\d+), (\d+), (\d+), (\d+), (\d+)>>', r['out']):
            stats['ok'] += int(m.group(2))
            stats['bad'] += int(m.group(3))
            stats['skip_in'] += int(m.group(4))
            stats['skip_out'] += int(m.group(5))
        wit = dict((int(m.group(1)), m.group(2)) for m in re.finditer(r'<<"WITNESS", (\d+), (<<[^>]*>>)>>', r['out']))
        for (l, why) in r['rejects']:
            rejects.append((index[sh][l - 1], why, wit.get(l, '')))
    return stats, sorted(set(rejects))


def validate_asts(ctx, pairs, astlines, stats):
    """spec recorder: C01Ast over the AST lines of the fragment programs (input AST, output AST, V8 cross-check records)"""
    res = dict(evaluations=0, violations=[], spec_accepted=0)
    byid = dict((p['id'], p) for p in pairs)
    inlines = [a for a in astlines if a.get('frag')]
    stats['fragment_pairs_outside_the_tla_fragment'] = sum(1 for a in astlines if not a.get('frag'))
    why = {}
    for a in astlines:
        if not a.get('frag'):
            why[a.get('why', '?')[:60]] = why.get(a.get('why', '?')[:60], 0) + 1
    stats['outside_fragment_reasons'] = why
    tl = [dict(id=a['id'], free=a['free'], vary=a['vary'], inp=a['inp'], outp=a['outp'], v8=a['v8']) for a in inlines]
    st, rejects = _tlc_ast(ctx, tl, 'main')
    stats['spec_env_runs_ok'] = st['ok']
    stats['spec_env_runs_outside_model_input'] = st['skip_in']
    stats['spec_env_runs_outside_model_output'] = st['skip_out']
    stats['spec_v8_crosschecks'] = sum(len(a['v8']) for a in inlines)
    res['evaluations'] = st['ok'] + st['bad']
    bugs = [(i, w) for i, w, _ in rejects if w == 'SPECBUG']
    if bugs:
        ex = '; '.join('%r -> %r' % (byid[inlines[i]['id']]['in'], byid[inlines[i]['id']]['out']) for i, _ in bugs[:12])
        raise vlib.Infra('TLA+ semantics (JsCore.Run) disagrees with V8 on %d fragment program(s): specification bug, not a verdict: %s'
                         % (len(bugs), ex))
    badlines = set()
    seen = set()
    for i, w, wit in rejects:
        a = inlines[i]
        badlines.add(i)
        p = byid[a['id']]
        if p['in'] in seen:
            continue
        seen.add(p['in'])
        res['violations'].append((p['in'], p['cfgs'][0], 'TLA+ semantics: ' + w, 'environment %s over %s' % (wit, a['vary']), p['out']))
    res['spec_accepted'] = len(inlines) - len(badlines)
    stats['spec_ast_lines'] = len(inlines)
    stats['spec_ast_lines_rejected'] = len(badlines)
    return res


def first_difference_text(line):
    a, b = line['a'], line['b']
    if a['comp'] != b['comp']:
        return 'completion %s vs %s' % (a['comp'], b['comp'])
    for i, (x, y) in enumerate(zip(a['calls'], b['calls'])):
        if x != y:
            return 'host call #%d %s vs %s' % (i + 1, x, y)
    if len(a['calls']) != len(b['calls']):
        return 'host call count %d vs %d' % (len(a['calls']), len(b['calls']))
    return 'final globals'


def confirm_fragment_alone(ctx, exe, src, cfg, run_sources):
    """re-run ONE program with ONE configuration through the spec recorder (fresh processes)"""
    pairs, lines, rej, astlines = run_sources(ctx, exe, [src], 'frag-alone-%d' % confirm_fragment_alone.n, nenv=1, probe=0, ast=True,
                                             cfgs=[cfg], stats={})
    confirm_fragment_alone.n += 1
    inlines = [a for a in astlines if a.get('frag')]
    if not inlines:
        return None
    tl = [dict(id=a['id'], free=a['free'], vary=a['vary'], inp=a['inp'], outp=a['outp'], v8=a['v8']) for a in inlines]
    st, rejects = _tlc_ast(ctx, tl, 'alone-%d' % confirm_fragment_alone.n)
    rejects = [r for r in rejects if r[1] != 'SPECBUG']
    if not rejects:
        return None
    return 'Run(input) and Run(output) differ under environment %s over %s' % (rejects[0][2], inlines[rejects[0][0]]['vary'])


confirm_fragment_alone.n = 0


# ---------------------------------------------------------------------------------------------------
def test_inputs(ctx):
    rows = vlib.test_inputs(ctx, 'js')
    out = []
    for r in rows:
        if not r['strings']:
            continue
        out.append(r['strings'][0])
    return out


def with_strict(srcs):
    out = []
    for s in srcs:
        out.append(s)
        out.append('"use strict";\n' + s)
    return out


# ===================================================================================================
# Known findings on the unchanged tree: narrow syntactic exclusions (pinned witnesses in known/C01.ndjson)
_ex(r'\bisNaN\s*\(\s*[A-Za-z_$][\w$]*\s*\)', 'K02 isNaN(identifier) (rewritten to x!=x: wrong for non-number operands; other argument forms are not rewritten)')
_ex(r'\bMath\s*\.\s*trunc\s*\([^,()]*(\([^()]*\)[^,()]*)*\)', 'K03 Math.trunc(one argument) (rewritten to x|0: wrong beyond int32, NaN, -0)')
_ex(r'\bMath\s*\.\s*abs\s*\(\s*[A-Za-z_$][\w$]*\s*\)', 'K04 Math.abs(identifier) (rewritten to x<0?-x:x: wrong for -0 and non-numbers; other argument forms are not rewritten)')
_ex(r'\breturn\b[^;{}]*\b(undefined|void\s*\(?\s*0\s*\)?)\s*;?\s*\}',
    'K01 a function body ending in `return ...,undefined` / `return void 0` after expression statements (return a,b,void 0 -> return a,b)')
_ex(_paren_optchain, 'K06 a parenthesised optional chain continued by a member/call ((a?.b.c).d -> a?.b.c.d)')
_ex(r'(null|undefined|void\s*0)[^;\n]*\?[^;\n]*:[^;\n]*`', 'K07 a nullish-test conditional with a tagged template branch (-> a?.`tpl`, SyntaxError)')
_ex(r'\belse\s*\{[^{}]*\b(let|const|class)\b', 'K08 an else-block that declares let/const/class after an if-branch ending in a flow statement '
                                               '(block is merged into the enclosing scope: redeclaration / leaked global lexical binding)')


def needs_nobig(src):
    """K05 Math.pow(a,b) is rewritten to a**b, which differs for BigInt operands (known finding): environments of
    programs that mention Math.pow carry no BigInt values; BigInt literals with Math.pow are excluded."""
    return bool(re.search(r'\bMath\s*\.\s*pow\b', src))


_ex(r'\bMath\s*\.\s*pow\s*\([^;\n]*\d_?n\b', 'K05 Math.pow applied to BigInt literals (Math.pow(a,b) -> a**b: TypeError becomes a value for BigInt operands)')
_ex(r'\bMath\s*\.\s*pow\s*\([^;\n]*\.\.\.', 'K05b Math.pow with a spread argument (Math.pow(a,...b) -> a**b)')
_ex(r'\(\s*[-+]?[0-9.][0-9a-fA-FxXoObBn_.]*([eE][-+]?\d+)?\s*\)\s*\.', 'K09 a parenthesised numeric literal followed by a member access ((1n).b -> 1n..b, (1.0).b -> 1.b: SyntaxError)')
_ex(r'\(\s*async\s*\)\s*of\b', 'K10 for((async) of ...) (parentheses dropped: SyntaxError)')
_ex(r'(\)|\belse)\s*\{\s*(async\s+)?function\b', 'K11 a block whose first statement is a function declaration as body of if/else/loop (braces dropped: SyntaxError in strict mode)')
_ex(r'catch\s*\(\s*(\w+)\s*\)\s*\{[^}]*\bvar\s+\1\b', 'K12 catch(b){var b=...} (catch parameter and var of the same name are renamed apart / binding dropped)')
_ex(r'[{,]\s*(undefined|Infinity)\s*[,}]|\b(undefined|Infinity)\s*(=(?!=)|\+\+|--|[-+*/%&|^]=|<<=|>>=|\*\*=)|(\+\+|--)\s*(undefined|Infinity)\b',
    'K13 undefined/Infinity as shorthand property or assignment/update target ({undefined} -> {0[0]}, Infinity=1 -> 1/0=1: SyntaxError)')
_EMPTY = r"""(?:""|'')"""
# statement bodies that the minifier reduces to nothing: ; {} {;} {var x;} {let y=...;}
_EMPTY1 = r'(?:[;\s]*(?:var\s[^{};=]*|(?:let|const)\s[^{};]*)?[;\s]*(?:var\s[^{};=]*[;\s]*)*)'
_EMPTYBODY = r'(?:;|\{' + _EMPTY1 + r'\}|\{[;\s]*\{' + _EMPTY1 + r'\}[;\s]*\}|\{[;\s]*\{[;\s]*\{' + _EMPTY1 + r'\}[;\s]*\}[;\s]*\})'
_ex(r"""(?<![\\"'])""" + _EMPTY + r"""(?=\s*\?(?![.?]))|\b(if|while)\s*\(\s*[!(\s]*""" + _EMPTY + r"""[)\s]*\)|!\s*\(*\s*""" + _EMPTY +
    r"""|[?:]\s*\(*""" + _EMPTY + r"""\s*\)*\s*[:;)]""",
    'K14 the empty string literal as a condition (treated as truthy: ""?a:b -> a)')
_ex(r'0[xX][0-9a-fA-F_]*[eEbB][0-9a-fA-F_]*n?\s*(\?|\)|&&|\|\||:)|!\s*0[xX][0-9a-fA-F_]*[eEbB]|\d[eE]-\d{3,}',
    'K15 hexadecimal literals containing e/E/b/B digits and underflowing decimals as conditions (0xe?a:b -> b, 1e-400?a:b -> a)')
_ex(r'function\b[^(]*\([^)]*\b(undefined|NaN|Infinity)\b[^)]*\)\s*\{|\b(var|let|const)\s+([^;=]*,\s*)?(undefined|NaN|Infinity)\b|'
    r'\(([^()]*)\b(undefined|NaN|Infinity)\b[^()]*\)\s*=>|\b(undefined|NaN|Infinity)\s*=>',
    'K16 local bindings named undefined/NaN/Infinity (treated as the global constants)')
_K17_VOID = r'\bvoid\s*(\((?!\s*0\s*\))[^;\n]*|class\b[^;\n]*|[\w.$]+\s*(?:[-+*/%<>&|^]|instanceof\b|in\b|[!=]=)[^;\n]*|[-+~!][^;\n]*|typeof\b[^;\n]*|[\[{`][^;\n]*)'
_K17_IF = r'\bif\s*\(([^;{}]*[-+*/%<>&|^!~=][^;{}]*)\)\s*' + _EMPTYBODY + r'(?:\s*else\s*' + _EMPTYBODY + r')?(?!\s*else)'
_K17_LET = r'\{[;\s]*(?:let|const)\s+\w+\s*=\s*([^;{}]*[-+*/%<>&|^!~=?][^;{}]*)[;\s]*(?:var\s[^{};=]*[;\s]*)*\}'
_K17_EFFECT = re.compile(r'[\w$)\]]\s*\(|[\w$)\]]\s*\??\.\s*[A-Za-z_$#]|[\w$)\]]\s*\[|(?<![=!<>])=(?![=>])|\+\+|--|\bnew\b|\bdelete\b|`|\byield\b|\bawait\b')


def _void_operands(src):
    """operands of void that are not a bare literal/identifier/call: the parenthesised group, or the unary/class/... phrase up to
    the next , ; ) } at the same nesting level"""
    for m in re.finditer(_K17_VOID, src):
        i = m.start(1)
        depth = 0
        j = i
        while j < len(src):
            ch = src[j]
            if ch in '([{':
                depth += 1
            elif ch in ')]}':
                if depth == 0:
                    break
                depth -= 1
                if depth == 0 and src[i] == '(':
                    j += 1
                    break
            elif ch in ',;\n' and depth == 0:
                break
            j += 1
        yield src[i:j]


def _k17(src, residual_only):
    """operator/class/literal expressions in discarded position.  residual_only: only those that are still dropped once
    hasSideEffects looks into operands (fix C01-K17), i.e. expressions without any call/member access/assignment/update/new"""
    exprs = list(_void_operands(src))
    for rx in (_K17_IF, _K17_LET):
        exprs += [m.group(1) for m in re.finditer(rx, src)]
    for e in exprs:
        if not residual_only:
            return True
        # (a keyword followed by a parenthesis is not a call)
        e2 = re.sub(r'\b(void|typeof|in|instanceof|return|throw|case|of|else|do)\s*\(', ' (', e)
        if re.search(r'\bclass\b', e) or not _K17_EFFECT.search(e2):
            return True
    return False


if 'K17' in FIXED:
    _ex(lambda src: _k17(src, True), 'K17r operator expressions over bare identifiers/literals, and class expressions, in discarded position '
        '(void X, if(X);, if(X){let y=..}, {let x=X}): still dropped although they can call valueOf / throw (undeclared identifier, '
        'instanceof, BigInt mixing) / run static initialisers (util_test.go pins a+5 as side-effect free)')
else:
    _ex(lambda src: _k17(src, False), 'K17 operator/class/literal expressions in discarded position (void X, if(X);, if(X){let y=..}, {let x=X}): '
        'hasSideEffects does not look into the operands of a binary expression, so calls/valueOf/throws/static initialisers inside are dropped')
_ex(r'(\|\||&&|\?\?)=', 'K19 logical assignment operators ||= &&= ??= (missing from the precedence tables: a||=(b,c) -> a||=b,c; '
                        'not counted as side effect: void(a||=b) -> void 0)')
_ex(r"""(-|\*|/|%)\s*("[^"\n]*"|'[^'\n]*')\s*\+\s*["'`]""", 'K18 string literal + string literal after a non-additive operator (a-"1"+"2" -> a+"12")')
_ex(r'\bvar\s+let\b|\(\s*let\s*[)\[.]|\blet\s*[.(`:]|function\s+let\b|\blet\s*\[[^\]]*\]\s*($|[^=\s]|=\S*=)|\bin\s+let\b|\blet\s*\n\s*\[', 'K20 `let` used as an identifier')
_ex(r'class\b[^{]*\{[^}]*\basync\s*\n', 'K21 class field named async followed by a newline (parsed as async method)')
_ex(r'\\u005[cC]|\\u\{0*5[cC]\}', 'K22a \\u005c / \\u{5c} in string literals (decoded to an unescaped backslash)')
_ex(r'\\[23][0-7][0-7]', 'K22b legacy octal escapes \\200..\\377 in string literals (written as one raw byte: invalid UTF-8)')
_ex(r'\\000[0-9]', "K22c \\000 followed by a digit in string literals ('\\0007' -> \"\\07\")")
_ex(r'\\00?[89]', 'K22d \\0 / \\00 followed by 8 or 9 in string literals (kept as \\08, \\09 inside a template literal: SyntaxError)')
_ex(r'\\0{1,3}\\(x3[0-9]|u003[0-9]|u\{0*3[0-9]\}|6[0-7]|7[01])', "K22g a NUL escape followed by an escape that decodes to a digit ('\\0\\x31' -> \"\\01\")")
_ex(r"""\\[0-7]{1,2}["']\s*\+\s*["'][0-9]""", "K22e a string ending in a short octal escape + a string starting with a digit ('\\0'+'1' merged to \"\\01\", '\\1'+'2' to \"\\12\")")
_ex(r'0[xX][0-9a-fA-F_]{11,}n|0[bB][01_]{64,}n|0[oO][0-7_]{22,}n', 'K24 long hexadecimal/binary/octal BigInt literals (the n suffix is dropped)')
_ex(r'\?\s*\(?\s*([A-Za-z_$][\w$]*)\(([^(),]*)\)\s*\)?\s*:\s*\(?\s*\1\(([^(),]*)\)', 'K25 cond?f(x):f(y) (rewritten to f(cond?x:y): the callee is read before the condition is evaluated)')
_ex(r'\\x24|\\u0024|\\u\{0*24\}|\\44', 'K22f escapes of the dollar sign (\\x24, \\u0024, \\44) in string literals (decoded to $ before { inside a template literal)')
_ex(r'\([^()]*\?\?[^()]*\)\s*\|(?![|=])', 'K26 a parenthesised ?? expression as left operand of | ((a??b)|c -> a??b|c)')
_ex(r'\belse\s*' + _EMPTYBODY + r'\s*\}\s*else\b', 'K27 if(a){if(b)S else{}}else T: the empty inner else is dropped and the outer else captures the inner if (dangling else)')
_ex(lambda src: _comma_group_binop(src), 'K28 a parenthesised comma expression as left operand of an arithmetic/relational/bitwise operator '
    '((a,b==c)+d -> a,b==c+d in statement position)')
_ex(r'\btypeof\s*\(\s*\(?[^()]*(\?[^()]*\)?\s*:|,)', 'K29 typeof of a parenthesised conditional/comma expression that reduces to a bare identifier '
    '(typeof (c?b:b) -> typeof b: no ReferenceError for an undeclared b)')
_ex(_k30, 'K30 a function that assigns a global `var` declared LATER in the source and has a var declaration of its own '
    '(the assignment is merged into the function\'s declaration: function f(){x=1;var y=2}var x -> function f(){var x=1,e=2}var x)')
_ex(r'\bvar\s+[^;\[{]*=[^;]*,\s*[\[{]', 'K31 a var statement whose destructuring declarator follows an initialised declarator (var a=f(),[b]=g() -> var[b]=g(),a=f(): '
    'initialisers run in another order)')
_ex(r'[,(]\s*[A-Za-z_$][\w$]*\s*=\s*[^,()=]*\([^()]*\)\s*\)\s*(\{|=>)', 'K32 a trailing parameter with a default value that calls something (dropped when unused, together with the call)')
_ex(r'''["'](\d+\.\d*0|\d+\.|\.\d+)["']''', 'K33 string property keys / indices that spell a number non-canonically ("1.0", "1.", ".5" are turned into the number: o["1.0"] -> o[1])')
_ex(r'\bfor\s*\(\s*(var|let|const)?\s[^;]*\{[^}]*\bfor\b[^}]*\}[^;]*\bin\b', 'K34 an `in` expression in a for-initialiser after a function whose body contains a for statement (parentheses dropped: SyntaxError)')
_ex(r'\bstatic\s+[0-9.]', 'K23 static class fields with numeric names (static 1=2 -> static1=2)')

# ===================================================================================================
# Operator table transcribed from ECMA-262 (13th ed., sections 13.5-13.16), NOT from js/util.go:
# (operator, precedence level [higher binds tighter], associativity)
BINOPS = [
    (',', 1, 'L'),
    ('=', 2, 'R'), ('+=', 2, 'R'), ('-=', 2, 'R'), ('*=', 2, 'R'), ('/=', 2, 'R'), ('%=', 2, 'R'), ('**=', 2, 'R'), ('<<=', 2, 'R'),
    ('>>=', 2, 'R'), ('>>>=', 2, 'R'), ('&=', 2, 'R'), ('^=', 2, 'R'), ('|=', 2, 'R'), ('&&=', 2, 'R'), ('||=', 2, 'R'), ('??=', 2, 'R'),
    ('??', 4, 'L'), ('||', 4, 'L'), ('&&', 5, 'L'), ('|', 6, 'L'), ('^', 7, 'L'), ('&', 8, 'L'),
    ('==', 9, 'L'), ('!=', 9, 'L'), ('===', 9, 'L'), ('!==', 9, 'L'),
    ('<', 10, 'L'), ('<=', 10, 'L'), ('>', 10, 'L'), ('>=', 10, 'L'), (' instanceof ', 10, 'L'), (' in ', 10, 'L'),
    ('<<', 11, 'L'), ('>>', 11, 'L'), ('>>>', 11, 'L'),
    ('+', 12, 'L'), ('-', 12, 'L'), ('*', 13, 'L'), ('/', 13, 'L'), ('%', 13, 'L'), ('**', 14, 'R'),
]
UNOPS = ['!', '~', '+', '-', 'typeof ', 'void ', 'delete ', '++', '--']
# operand preambles: values for which the two groupings of most operator pairs differ
OPERANDS = [
    'var a=2,b=3,c=5;',
    'var a="7",b=2,c="3";',
    'var a={valueOf(){out("a");return 4}},b={valueOf(){out("b");return 2}},c={valueOf(){out("c");return 3}};',
    'var a=0,b=null,c=1;',
    'var a=void 0,b=false,c="";',
    'var a="x",b={x:1,3:1,true:1,false:1},c=Object;',
    'var a=-1,b=0.5,c=-2;',
]


def valid_js(ctx, snippets):
    """syntactic validity of each snippet as a sloppy script, judged by acorn (so that one invalid member does not take a
    whole batch out of the domain)"""
    if not snippets:
        return []
    valid_js.n += 1
    pin = ctx.path('gen', 'syntax-%d-in.json' % valid_js.n)
    pout = ctx.path('gen', 'syntax-%d-out.json' % valid_js.n)
    json.dump(snippets, open(pin, 'w'))
    vlib.run(['node', '--expose-internals', os.path.join(vlib.ROOT, 'js', 'c01_syntax.js'), pin, pout], timeout=600)
    return json.load(open(pout))


valid_js.n = 0


def _wrap(expr):
    return 'try{out(%s,a,b,c)}catch(e){out("E",a,b,c)}' % expr


def precedence_matrix(ctx):
    """every ordered pair of binary operators in both groupings (COMPLETE in both tiers); unary x binary; conditional /
    arrow / new / call / member / optional chain / tagged template / `in` inside for(;;) combinations (sampled in quick)"""
    binbin = []
    for (o1, p1, a1) in BINOPS:
        for (o2, p2, a2) in BINOPS:
            binbin.append('(a%sb)%sc' % (o1, o2))
            binbin.append('a%s(b%sc)' % (o1, o2))
    exprs = []
    for u in UNOPS:
        for (o, p, a) in BINOPS:
            exprs.append('(%sa)%sb' % (u, o))
            exprs.append('%s(a%sb)' % (u, o))
            exprs.append('a%s(%sb)' % (o, u))
            exprs.append('a%s%sb' % (o, u) if not (o.strip() and u[0] == o.strip()[-1]) else 'a%s %sb' % (o, u))
        for u2 in UNOPS:
            exprs.append('%s(%sa)' % (u, u2))
            exprs.append('%s %sa' % (u, u2))
        exprs.append('(a%s)+b' % u if u in ('++', '--') else '(%sa).x' % u)
        if u in ('++', '--'):
            for (o, p, a) in BINOPS:
                exprs.append('(a%s)%sb' % (u, o))
                exprs.append('a%s(b%s)' % (o, u))
                exprs.append('a%s %sb' % (u, o) if o[0] in '+-' else 'a%s%sb' % (u, o))
    for (o, p, a) in BINOPS:
        exprs += ['(a%sb)?c:1' % o, 'a%s(b?c:1)' % o, '(a?b:c)%s1' % o, 'a?b:(c%s1)' % o, 'a?(b%sc):1' % o,
                  '(x=>x%sb)(a)' % o, 'a%s(x=>b)(c)' % o, '(a%sb).x' % o, '(a%sb)[0]' % o,
                  '[a%sb][0]' % o, 'out((a%sb),c)' % o, '`${a%sb}`' % o, '[...[a%sb]]' % o,
                  '({x:a%sb}).x' % o, '({[a%sb]:1})' % o, '(a%sb,c)' % o, '(c,a%sb)' % o]
    progs = []
    quick = ctx.quick()
    rnd = ctx.rnd

    def valid(xs):
        # (known constructs are excluded per expression, not per batch; so are syntactically invalid members)
        xs = [e for e in xs if not excluded(_wrap(e))]
        ok = valid_js(ctx, [_wrap(e) for e in xs])
        return [e for e, v in zip(xs, ok) if v]

    binbin = valid(binbin)
    exprs = valid(exprs)
    for pi, pre in enumerate(OPERANDS):
        if quick and pi not in (0, 2) and pi != 3 + ctx.seed % 4:
            bb = []                      # quick: the complete pair matrix under 3 of the 7 operand preambles
        else:
            bb = binbin
        per = 40 if quick else 10
        for i in range(0, len(bb), per):
            progs.append(pre + '\n' + '\n'.join(_wrap(e) for e in bb[i:i + per]))
        ex = exprs
        if quick:
            ex = [e for e in exprs if rnd.random() < 0.06]
        for i in range(0, len(ex), 10):
            progs.append(pre + '\n' + '\n'.join(_wrap(e) for e in ex[i:i + 10]))
    return progs


STRUCTURAL = r'''
new(a.b)
new(a.b)()
new(a())
new(a())()
(new a).b
new a.b
(new a)()
new(a)()
new a()()
new(a`x`)
(new a)`x`
new(a.b`x`)
new(a[b])
new(a,b)
new(a||b)
new(a?b:c)
new(a=b)
new(function(){this.x=1})
new(function(){this.x=1})()
new(class{constructor(){this.x=1}})
(new a).b()
new a().b
new(a().b)
new new a
new new a()()
new(new a)
(a.b)()
(0,a.b)()
(a.b,a.b)()
(a||a.b)()
(a?a.b:a.c)()
(a.b)`x`
(0,a.b)`x`
(a,b)()
(a,b).c
(a,b)[c]
(a,b)`t`
(a=b).c
(a=b)()
(a||b).c
(a||b)()
(a&&b)()
(a??b)()
(a??b).c
(-a).b
(a++).b
(typeof a).b
(typeof a)()
(void a).b
(!a).b
(1).b
(1.5).b
(1e3).b
(0x10).b
(-1).b
(1n).b
(1000).b
(1.0).b
1..b
1.5.b
1e3.b
1 .b
1..toString()
(1).toString()
1e21.toString()
("s").b
(/r/).b
(`t`).b
(function(){}).b
(function(){})()
(function(){return this}).call(a)
(()=>{}).b
(()=>a)()
(()=>{return a})()
(a=>a)(b)
(async()=>a)()
(async a=>a)(b)
(async function(){return a})()
({}).b
({a:1}).a
({}).toString()
({a}).a
({a,b}).b
({a:b}=c)
({a:b}=c).d
[a,b]=c
([a,b]=c)
([a,b]=c).d
[a][0]
([]).b
(class{}).b
(class{static x=1}).x
(this).b
(null).b
(void 0).b
a?.b
a?.b()
a?.[b]
a?.(b)
a?.b.c
a?.b.c()
a?.b?.c
a?.[b]?.[c]
a?.b[c]
a.b?.c
a.b?.()
a.b?.[c]
(a.b)?.c
a?.b.c(d).e
a?.b=c
delete a?.b
delete a.b
delete a[b]
delete(a,b)
delete(a.b)
typeof a?.b
a?.b?c:d
a?.5:1
a?.1:2
a?.9.toString():1
a?[b]:c
a?(b):c
a??b
a??b??c
(a??b)||c
a??(b||c)
(a||b)??c
a||(b??c)
(a&&b)??c
a??(b&&c)
(a??b)&&c
a=b??c
a??=b
a||=b
a&&=b
a=b=c
a=(b,c)
(a=b),c
a=b?c:d
(a=b)?c:d
a?b:c?d:e
(a?b:c)?d:e
a?(b?c:d):e
a?b?c:d:e
a?b:(c,d)
a?(b,c):d
(a,b)?c:d
a?b=c:d=e
a?b:c=d
x=>({})
x=>({}).a
(x=>({}))()
x=>({a:1})
x=>(a,b)
(x=>a),b
x=>a?b:c
(x=>a)?b:c
x=>y=>z
(x=>x)(a)
x=>x=a
(x,y)=>x
(...x)=>x
([x])=>x
({x})=>x
(x=1)=>x
(x=(a,b))=>x
async x=>x
async(x)=>x
async()=>{}
f(...(a,b))
f(...a,b)
[...(a,b)]
[...a,...b]
({...(a,b)})
({...a,...b})
({[(a,b)]:c})
({[a]:b})
({[a+b]:c})
`${(a,b)}`
`${a}${b}`
`a${b}c`
`${`${a}`}`
[a=(b,c)]=d
({a=(b,c)}=d)
[a,,b]=c
[,a]=b
[a,...b]=c
({a,...b}=c)
({a:{b}}=c)
({a:[b]}=c)
[{a}]=b
[a.b,a[c]]=d
({a:b.c}=d)
({"a":b}=c)
({1:b}=c)
({[a]:b}=c)
a.b=c
a[b]=c
a.b+=c
a[b]++
++a.b
a.b.c=d
a["b"]
a["b-c"]
a["1"]
a["01"]
a["1.5"]
a[1]
a[1.0]
a[1e3]
a["class"]
a["if"]
a["a"]
a["a b"]
a[""]
a.class
a.if
({class:1}).class
({"a":1,"b-c":2,"1":3,"01":4,class:5})
({get a(){return 1},set a(x){}})
({a(){},*b(){},async c(){},async*d(){},get e(){},set e(v){},[a](){},"s"(){},1(){}})
({__proto__:a})
({"__proto__":a})
({["__proto__"]:a})
({__proto__:a}).x
class A{}
class A extends B{}
class A extends(a,b){}
class A extends(a?b:c){}
class A extends(a||b){}
class A extends a.b{}
class A extends a(){}
class A extends(a=b){}
class A extends class{}{}
class A extends function(){}{}
class A extends(()=>{}){}
class A{a(){}b(){}}
class A{a=1;b=2}
class A{a;b}
class A{static a=1;static b}
class A{static{out(1)}}
class A{"a"(){}}
class A{1(){}}
class A{[a](){}}
class A{get a(){return 1}set a(v){}}
class A{static get a(){return 1}}
class A{*a(){}}
class A{async a(){}}
class A{async*a(){}}
class A{static async*a(){}}
class A{#a=1;b(){return this.#a}}
class A{#a(){return 1}b(){return this.#a()}}
class A{static #a=1;static b(){return A.#a}}
class A{#a;static b(x){return #a in x}}
class A{constructor(){this.x=1}}
class A extends B{constructor(){super();this.x=1}}
class A extends B{a(){return super.a()}}
class A{static a(){return this}}
class A{get(){}set(){}static(){}async(){}}
class A{get=1;set=2;static=3;async=4}
class A{static static(){}}
class A{static async(){}}
class A{static get(){}}
class A{'constructor'(){}}
var A=class{}
var A=class B{}
var A=class B extends C{}
(class A{})
!class{}
if(a)class A{}
{class A{}}
function*g(){yield}
function*g(){yield a}
function*g(){yield a,b}
function*g(){yield(a,b)}
function*g(){(yield a)+b}
function*g(){yield a+b}
function*g(){yield*a}
function*g(){yield yield a}
function*g(){yield(yield a)}
function*g(){a?yield b:c}
function*g(){(yield)?a:b}
function*g(){var x=yield}
function*g(){var x=yield a}
function*g(){x=yield a,y=yield b}
function*g(){return yield a}
function*g(){yield\na}
function*g(){yield/a/g}
function*g(){yield[a]}
function*g(){yield{a}}
function*g(){yield`a`}
function*g(){yield-a}
function*g(){yield+a}
function*g(){yield!a}
function*g(){yield(a)}
function*g(){yield"a"}
function*g(){yield undefined}
function*g(){f(yield a)}
function*g(){f(yield a,yield b)}
function*g(){[yield a]}
function*g(){({a:yield a})}
function*g(){`${yield a}`}
function*g(){try{yield a}finally{out(1)}}
function*g(){for(var x of yield a);}
var g=function*(){yield a}
({*g(){yield a}})
async function f(){await a}
async function f(){await a,b}
async function f(){await(a,b)}
async function f(){(await a).b}
async function f(){await a.b}
async function f(){await a()}
async function f(){(await a)()}
async function f(){await a+b}
async function f(){await(a+b)}
async function f(){-await a}
async function f(){await-a}
async function f(){await await a}
async function f(){return await a}
async function f(){return a}
async function f(){for await(var x of a)out(x)}
async function f(){await a**b}
async function f(){(await a)**b}
async function f(){try{await a}catch(e){out(e)}}
async function f(){var x=await a;return x}
async function f(){a=await b}
async function f(){if(await a)b}
async function f(){await new a}
async function f(){new(await a)}
async function*f(){yield await a}
async function*f(){await(yield a)}
var f=async function(){await a}
var f=async()=>await a
var f=async()=>{await a}
var f=async x=>await x
({async f(){await a}})
for(var x=(a in b);;)break
for(var x=(a in b)?1:2;c;)break
for(x=(a in b);;)break
for((a in b);;)break
for(var x=[a in b];;)break
for(var x=function(){return a in b};;)break
for(var x=(y=>a in b);;)break
for(var x=(y=>(a in b));;)break
for(let x=(a in b),y=c;;)break
for(var x=(a in b)||c;;)break
for(var x=c||(a in b);;)break
for(var x=!(a in b);;)break
for(var x=`${a in b}`;;)break
for(var x={a:b in c};;)break
for(var x=f(a in b);;)break
for(var x=a[b in c];;)break
for(var x=(a,b in c);;)break
for(x=a?b in c:d;;)break
for(var x in(a in b));
for(var x in a,b);
for(var x of(a,b));
for(var x of[a,b]);
for(x of a);
for(x.y of a);
for(x[y]of a);
for([x,y]of a);
for({x,y}of a);
for(var[x,y]of a);
for(let[x,y]of a);
for(const{x,y}of a);
for(let x of a)out(x)
for(let of of a);
for(async of a);
for((async)of a);
for(let in a);
for(let.x in a);
for(var x=0,y=1;x<y;x++)out(x)
for(let x=0;x<2;x++)setTimeout(()=>out(x))
for(let x=0;x<2;x++)f.push(()=>x)
for(var x=0;x<2;x++);
for(;a;);
for(;;)break
for(a;b;c)d
for(a,b;c,d;e,f)g
for(var a in b)c
for(var a in b){c;d}
for(a in b)c
for(a.b in c)d
while(a)b
while(a){b;c}
while(a)if(b)c;else d
do a;while(b)
do{a;b}while(c)
do a;while(b);c
do;while(a)
do if(a)b;else c;while(d)
do while(a)b;while(c)
do do a;while(b);while(c)
do for(;a;)b;while(c)
if(a)do b;while(c);else d
if(a)b
if(a)b;else c
if(a){b}else{c}
if(a){b;c}else{d;e}
if(a)b;else if(c)d;else e
if(a){if(b)c}else d
if(a){if(b)c;else d}else e
if(a)if(b)c;else d
if(a){for(;b;)if(c)d}else e
if(a){while(b)if(c)d}else e
if(a){x:if(b)c}else e
if(a){with(b)if(c)d}else e
if(a){for(x in b)if(c)d}else e
if(a){for(x of b)if(c)d}else e
if(a){if(b)c;else if(d)e}else f
if(a);else b
if(a);
if(a){}else{}
if(!a)b
if(!a)b;else c
if(!a){b;c}
if(a)return
if(a&&b)c
if(a||b)c
if(a)b,c
if(a,b)c
if(a=b)c
if(a?b:c)d
if(a)b=c
if(a)b=c;else d=e
if(a)b();else c()
if(a)x.b();else x.c()
if(a)f(b);else f(c)
if(a)f(b,c);else f(d,e)
if(a)f(...b);else f(c)
if(a)x=b;else x=c
if(a)x.y=b;else x.y=c
if(a)var x=b;else x=c
if(a)var x=1
if(a)let
if(a)function f(){}
if(a){function f(){}}
if(a){let x=1}
if(a){const x=1}
if(a){let x=b()}
if(a){const x=b(),y=c()}
if(a){var x=1}
if(a){class X{}}
if(a)throw b;else throw c
if(a)throw b;throw c
if(a){b}
x:a
x:{a;break x;b}
x:for(;;){break x}
x:for(;;){continue x}
x:for(;;)for(;;)break x
x:for(;a;)for(;b;)continue x
x:y:for(;;)break x
x:{y:{break x}}
x:if(a)break x;else b
x:{if(a)break x;b}
x:while(a){if(b)continue x;c}
x:do{if(b)continue x;c}while(a)
switch(a){}
switch(a){case 1:}
switch(a){case 1:b}
switch(a){case 1:b;break}
switch(a){case 1:b;break;case 2:c}
switch(a){case 1:case 2:b}
switch(a){default:b}
switch(a){case 1:b;default:c;case 2:d}
switch(a){case b:c;case d():e}
switch(a){case 1:{b}}
switch(a){case 1:let x=1;case 2:x}
switch(a){case 1:var x=1;case 2:out(x)}
switch(a){case 1:if(b)break;c}
switch(a){case 1:if(b)c;else break;d}
switch(a){case 1:return}
switch(a,b){case c,d:e}
switch(a){case"a":b}
switch(a){case-1:b}
switch(a){case(1):b}
switch(a){case 1:b;c;d}
switch(a){case 1:function f(){}}
switch(a){case 1:class A{}}
try{a}catch(e){b}
try{a}catch{b}
try{a}finally{b}
try{a}catch(e){b}finally{c}
try{a}catch(e){}
try{}catch(e){a}
try{}finally{a}
try{a}catch(e){e}
try{a}catch(e){out(e)}
try{a}catch({message}){out(1)}
try{a}catch([x]){out(x)}
try{a}catch(e){var e=1}
try{a}catch(e){let x=e;out(x)}
try{throw a}catch(e){out(e)}
try{throw a}catch(e){e=1;out(e)}
try{try{a}finally{b}}catch(e){c}
try{a;b}catch(e){c;d}
try{if(a)b}catch(e){}
try{var x=1}catch(e){}
try{let x=1}catch(e){}
try{return}finally{}
throw a
throw a,b
throw(a,b)
throw a?b:c
throw new a
throw new Error("x")
throw"a"
throw-a
throw/a/
throw[a]
throw{a}
throw`a`
throw!a
with(a)b
with(a){b;c}
with(a)with(b)c
with(a)var x=b
with(a)x=b
with(a,b)c
with({x:1})out(x)
with(a)function f(){}
with(a){function f(){return x}}
with(a)(function(y){return x+y})
with(a)(function(){var x=1;return x})
with(a){let x=1;out(x)}
function f(){with(a){var x=1;return x}}
function f(x){with(a)return x}
function f(x){with(a)return function(y){return x+y}}
function f(x){return function(y){with(a)return x+y}}
var a;var b
var a,b
var a=1;var b=2
var a=1,b=2
var a;a=1
var a;b;var c
var a=1;b;var c=2
var a;var a
var a=1;var a=2
var a=1;a=2;var a=3
var a;for(var b;;)break
var a;for(var b=1;;)break
var a=1;for(var b=2;;)break
var a;for(var b in c);
var a;for(var b of c);
for(var a in b);var c
for(var a=1;;)break;var b=2
var a;for(;;)break;var b
var a;while(b)c;var d
var a;if(b)var c
var a;if(b){var c=1}
var a;{var b}
var a;x:{var b}
var a;try{var b}catch(e){var c}finally{var d}
var a;switch(b){case 1:var c}
var a;with(b)var c=1
var a;function f(){var b}
var a;function f(){var a}
var[a]=b;var c
var{a}=b;var c
var[a]=b;var{c}=d
var a;var[b]=c
var a;var{b}=c
var a=1;var[b,c]=[a,a]
var a=b;var[c,d]=[a,a];var e=c
var[a,b]=[1,2];var[b,a]=[a,b]
var a=1;var{b=a}={}
var a;[a]=b
var a;({a}=b)
var a;[a]=b;var c
var a;({a}=b);var c
a=1;var a
a=1;var a=2
a;var b=1
a();var b=c()
a(),b();var c=1
a=1;var b=2
a=1;b=2;var c=3
a=1;var a;var b=2
a=1;var b;b=2
var a;b=1;a=2
var a;a=1;b=2
var a;a=b;a=c
var a=1;a=2
var a;a=1,b=2
var a;a=1,a=2
var a,b;a=1,b=2
var a,b;b=1,a=2
var a,b;a=b,b=1
var a,b;a=1;b=a
var a;a=a
var a;a=a+1
var a;a+=1
var a;a.b=1
var a;[a.b]=c
var a;for(a=1;;)break
var a;for(a=1,b=2;;)break
var a,b;for(a=1,b=2;;)break
var a;for(a in b);
var a=1;for(;a<2;a++);
a=1;for(var b=2;;)break
a=1;for(b=2;;)break
a=1;for(;b;)c
a=1;for(var b in c);
a=1;for(b in c);
a=1;for(let b=2;;)break
a=1;while(b)c
a=1;do c;while(b)
a=1;if(b)c
a=1;if(b)c;else d
a=1;switch(b){}
a=1;with(b)c
a=1;return
a=1;throw b
a=1;try{b}catch(e){}
a=1;x:b
a=1;{b}
a=1;function f(){}
a=1;class A{}
a=1;let b=2
a=1;const b=2
a=1;var b=2
a=1;;b=2
a;b;c
a,b;c,d
a;if(b)c;d
a;if(b)return;c
if(a)return;b
if(a)return;else b
if(a)return b;else return c
if(a)return b;return c
if(a)return b;else c
if(a)b;else return c
if(a)return;return
if(a)return b;if(c)return d;return e
if(a)return b;if(c)return d
if(a){b;return c}return d
if(a){return b}else{return c}
if(a){return}else{return}
if(a){return}else{b}
if(a){b}else{return}
if(!a)return b;return c
if(!a)return;b
if(a)return b;c;return d
if(a)throw b;return c
if(a)return b;throw c
if(a)return;b;c
if(a){return}b;c
if(a)return;else{b;c}
if(a)return;else{let b=1;out(b)}
if(a)return;else{var b=1}
if(a)return;else{function b(){}}
if(a)return;else if(b)return;else c
if(a){b}else if(c){return}else{d}
for(;;){if(a)break;else b}
for(;;){if(a)continue;else b}
for(;;){if(a)continue;b}
for(;;){if(a)b;else continue}
for(;;){a;continue}
for(;;){if(a){b;continue}c}
for(;a;){if(b)continue;c}
while(a){if(b)continue;c}
while(a){b;continue}
do{if(b)continue;c}while(a)
do{b;continue}while(a)
for(x in a){b;continue}
for(x of a){b;continue}
x:for(;;){a;continue x}
for(;;){a;break}
return
return a
return a,b
return(a,b)
return a?b:c
return void 0
return undefined
return void a
return void a()
return a,void 0
return a(),void 0
return!a
return-a
return+a
return~a
return"a"
return'a'
return`a`
return/a/
return[a]
return{a}
return(a)
return function(){}
return class{}
return new a
return typeof a
return a in b
return void 0===a
a;return
a;return b
a();return b()
a=1;return a
var a=1;return a
var a=1;return
let a=1;return a
if(a)b;return
function f(){return}
function f(){return;}
function f(){a;return}
function f(){if(a)return;b}
function f(){if(a)return}
function f(){if(a){return}}
function f(){if(a){b;return}}
function f(){if(a)return;else return}
function f(){a;if(b)return;c;return}
function f(){for(;;){return}}
function f(){try{return}catch(e){return}}
function f(){try{return a}finally{b}}
function f(){try{return a}finally{return b}}
function f(){x:{return}}
function f(){switch(a){case 1:return}}
function f(){return a;b}
function f(){return a;var b}
function f(){return a;function b(){}}
function f(){return b;function b(){}}
function f(){return b;var b=1}
function f(){throw a;b}
function f(){a;throw b}
function f(){if(a)throw b;c}
function f(a){a=1;return arguments[0]}
function f(a){arguments[0]=1;return a}
function f(a,b){return arguments.length}
function f(a,b){return b}
function f(a,b){return a}
function f(a,b){}
function f(a,b,c){return a+c}
function f(a=1,b){return a}
function f(a,b=a){return b}
function f(a,b=()=>a){return b()}
function f(a,...b){return b}
function f(...a){return a}
function f({a},[b]){return a+b}
function f({a=1}={}){return a}
function f([a,b]=[1,2]){return a+b}
function f(a,a){return a}
function f(a){var a;return a}
function f(a){var a=1;return a}
function f(a){function a(){}return a}
function f(){var f=1;return f}
function f(){f=1}
function f(){return f}
function f(a){return function(b){return a+b}}
function f(a){return b=>a+b}
function f(a){var b=a;return function(){return b++}}
function f(){var a=1;function g(){return a}return g}
function f(){var a=1;return()=>a}
function f(){let a=1;{let a=2;out(a)}return a}
function f(){let a=1;{let b=2;out(a,b)}return a}
function f(){var a=1;{let a=2;out(a)}return a}
function f(){let a=1;if(b){let a=2;out(a)}return a}
function f(){let a=1;for(let a=2;;){out(a);break}return a}
function f(){const a=1;return a}
function f(){let a;a=1;return a}
function f(){let a;return a}
function f(){let a=1,b=2;return a+b}
function f(){let a=1;let b=2;return a+b}
function f(){const a=1;const b=2;return a+b}
function f(){let a=1;const b=2;return a+b}
function f(){let a=1;var b=2;return a+b}
function f(){var a=1;let b=2;var c=3;return a+b+c}
function f(){var a;let b;var c}
function f(){let a=1;out(a);let b=2;out(b)}
function f(){class A{}return A}
function f(){class A{}class B extends A{}return B}
function f(){class A{m(){return A}}return new A().m()}
function f(){var A=class{};return A}
function f(){return function g(){return g}}
function f(){return function g(){return 1}}
function f(){var g=function g(){return g};return g}
function f(){var g=function h(){return h};return g}
function f(){return typeof g;function g(){}}
function f(){g();function g(){out(1)}}
function f(){{function g(){}}return typeof g}
function f(){if(a){function g(){return 1}}return g}
function f(a){if(a){var b=1}return b}
function f(a){if(a)var b=1;return b}
function f(a){for(var b in a);return b}
function f(a){for(var b of a);return b}
function f(a){try{throw a}catch(b){var c=b}return c}
function f(a){try{throw a}catch(b){return b}}
function f(a){try{throw a}catch(a){return a}}
function f(a){try{throw 1}catch(b){a=b}return a}
function f(a){try{throw 1}catch(b){var b=2}return b}
function f(a){try{a()}catch{return 1}return 2}
function f(a){try{a()}catch(e){return 1}return 2}
function f(a){try{a()}catch(e){return e}return 2}
function f(a){try{a()}catch(e){try{a()}catch(e){return e}}}
function f(a){try{a()}catch(e){try{a()}catch(g){return[e,g]}}}
function f(a){switch(a){case 1:let b=1;return b;default:return 0}}
function f(a,b){return a?.b}
function f(a,b){return a??b}
function f(a){return a==null?void 0:a.b}
function f(a){return a==null?undefined:a.b}
function f(a){return a===null||a===undefined?undefined:a.b}
function f(a){return a===null||a===void 0?void 0:a.b}
function f(a){return a!==null&&a!==undefined?a.b:undefined}
function f(a){return a!=null?a.b:void 0}
function f(a){return a!=null?a.b.c:void 0}
function f(a){return a!=null?a.b():void 0}
function f(a){return a!=null?a():void 0}
function f(a){return a!=null?a[0]:void 0}
function f(a){return a==null?void 0:a.b.c.d}
function f(a){return a==null?void 0:a.b(1).c}
function f(a,b){return a==null?b:a}
function f(a,b){return a!=null?a:b}
function f(a,b){return a===null||a===undefined?b:a}
function f(a,b){return a===undefined||a===null?b:a}
function f(a,b){return a===null||a===void 0?b:a}
function f(a,b){return null===a||void 0===a?b:a}
function f(a,b){return a===null||b===undefined?b:a}
function f(a,b){return a===undefined?b:a}
function f(a,b){return a===null?b:a}
function f(a,b){return a==undefined?b:a}
function f(a,b){return a==null?a:b}
function f(a){return a===null||a===undefined}
function f(a){return a!==null&&a!==undefined}
function f(a){return a===null||a===void 0}
function f(a){return a===undefined||a===null}
function f(a){return null===a||undefined===a}
function f(a){return a==null||a==undefined}
function f(a){return a===null||a==undefined}
function f(a){return a===null&&a===undefined}
function f(a){return a!==null||a!==undefined}
function f(a,b){return a===null||b===undefined}
function f(a){var undefined=1;return a===null||a===undefined}
function f(a,undefined){return a===null||a===undefined}
function f(a,undefined){return a==null?undefined:a.b}
function f(undefined){return undefined}
function f(undefined){return void 0===undefined}
function f(){var undefined=1;return undefined}
function f(){var Infinity=1;return Infinity}
function f(){var NaN=1;return NaN}
function f(NaN){return NaN?1:2}
function f(NaN){return!NaN}
function f(NaN){if(NaN)return 1;return 2}
function f(a){return a?a:1}
function f(a){return a?1:a}
function f(a,b){return a?a:b}
function f(a,b){return a?b:a}
function f(a,b){return a?b:b}
function f(a,b){return a()?b:b}
function f(a,b){return a?a:b()}
function f(a,b,c){return a?b:c}
function f(a,b,c){return!a?b:c}
function f(a,b,c){return!!a?b:c}
function f(a,b,c){return a?true:false}
function f(a,b,c){return a?false:true}
function f(a,b,c){return a?!0:!1}
function f(a,b,c){return a==b?true:false}
function f(a,b,c){return a==b?false:true}
function f(a,b,c){return a<b?true:false}
function f(a,b,c){return a<b?false:true}
function f(a,b,c){return a&&b?true:false}
function f(a,b,c){return!a?true:false}
function f(a,b,c){return a?true:b}
function f(a,b,c){return a?b:true}
function f(a,b,c){return a?false:b}
function f(a,b,c){return a?b:false}
function f(a,b,c){return a<b?true:c}
function f(a,b,c){return a<b?c:true}
function f(a,b,c){return a<b?false:c}
function f(a,b,c){return a<b?c:false}
function f(a,b,c){return a==b?c:false}
function f(a,b,c){return a==b?false:c}
function f(a,b,c){return a?b?c:1:1}
function f(a,b,c){return a?b?c:2:1}
function f(a,b,c){return a?(b?c:a):a}
function f(a,b,c){return a?g(b):g(c)}
function f(a,b,c){return a?g(b):h(c)}
function f(a,b,c){return a?g(b,c):g(c,b)}
function f(a,b,c){return a?g(...b):g(c)}
function f(a,b,c){return a?a.g(b):a.g(c)}
function f(a,b,c){return a?b(1):b(2)}
function f(a,b,c){return a?b(a):b(c)}
function f(a,b,c){return(a,b)?c:1}
function f(a,b,c){return(a=b)?a:c}
function f(a,b,c){return(a=b)?c:a}
function f(a,b,c){return a?(b,c):1}
function f(a,b,c){return 1?a:b}
function f(a,b,c){return 0?a:b}
function f(a,b,c){return""?a:b}
function f(a,b,c){return"a"?a:b}
function f(a,b,c){return null?a:b}
function f(a,b,c){return undefined?a:b}
function f(a,b,c){return void 0?a:b}
function f(a,b,c){return void a()?b:c}
function f(a,b,c){return NaN?a:b}
function f(a,b,c){return 0n?a:b}
function f(a,b,c){return 1n?a:b}
function f(a,b,c){return 0x0?a:b}
function f(a,b,c){return 0.0?a:b}
function f(a,b,c){return 0e5?a:b}
function f(a,b,c){return.0?a:b}
function f(a,b,c){return 0b0?a:b}
function f(a,b,c){return 1e-400?a:b}
function f(a,b,c){return 0.1?a:b}
function f(a,b,c){return 00?a:b}
function f(a,b,c){return 0_0?a:b}
function f(a,b,c){return 0xe?a:b}
function f(a,b,c){return 0xE?a:b}
function f(a,b,c){return 0x0e0?a:b}
function f(a,b,c){return 0b00?a:b}
function f(a,b,c){return 0o0?a:b}
function f(a,b,c){return 0e0?a:b}
function f(a,b,c){return 0.0e1?a:b}
function f(a,b,c){return 0xen?a:b}
function f(a,b,c){return 0x0n?a:b}
function f(a,b,c){return!0?a:b}
function f(a,b,c){return!1?a:b}
function f(a,b,c){return!""?a:b}
function f(a,b,c){return!!""?a:b}
function f(a,b,c){return!null?a:b}
function f(a,b,c){return[]?a:b}
function f(a,b,c){return{}?a:b}
function f(a,b,c){return/a/?a:b}
function f(a,b,c){return(function(){})?a:b}
function f(a,b,c){return true?a:b}
function f(a,b,c){return false?a:b}
function f(a,b,c){return!a?b:c}
function f(a,b,c){return!(a&&b)?c:1}
function f(a,b,c){return!(a||b)}
function f(a,b,c){return!(a&&b)}
function f(a,b,c){return!(a||b||c)}
function f(a,b,c){return!(a&&b&&c)}
function f(a,b,c){return!(a||b&&c)}
function f(a,b,c){return!(a&&b||c)}
function f(a,b,c){return!((a||b)&&c)}
function f(a,b,c){return!(a==b||c)}
function f(a,b,c){return!(a==b||b==c)}
function f(a,b,c){return!(a===b&&b!==c)}
function f(a,b,c){return!(a!=b)}
function f(a,b,c){return!(a==b)}
function f(a,b,c){return!(a===b)}
function f(a,b,c){return!(a!==b)}
function f(a,b,c){return!(a<b)}
function f(a,b,c){return!(a>=b)}
function f(a,b,c){return!(a<b||b<c)}
function f(a,b,c){return!(a in b)}
function f(a,b,c){return!(a instanceof b)}
function f(a,b,c){return!(a,b)}
function f(a,b,c){return!(a=b)}
function f(a,b,c){return!(a?b:c)}
function f(a,b,c){return!(a??b)}
function f(a,b,c){return!(a||b)&&c}
function f(a,b,c){return!(a||b)||c}
function f(a,b,c){return c&&!(a||b)}
function f(a,b,c){return c||!(a&&b)}
function f(a,b,c){return!(a||b)==c}
function f(a,b,c){return!(a||b)+c}
function f(a,b,c){return!(a||b)?c:1}
function f(a,b,c){return-!(a||b)}
function f(a,b,c){return!!(a||b)}
function f(a,b,c){return!!a}
function f(a,b,c){return!!!a}
function f(a,b,c){return!!(a==b)}
function f(a,b,c){return!!(a<b)}
function f(a,b,c){return!!(a&&b)}
function f(a,b,c){return!!(!a&&!b)}
function f(a,b,c){return!!(a<b&&b<c)}
function f(a,b,c){return!!(a<b&&c)}
function f(a,b,c){return!!(a,b)}
function f(a,b,c){return!(!a||!b)}
function f(a,b,c){return!(!a&&!b)}
function f(a,b,c){if(!(a||b))c()}
function f(a,b,c){if(!(a&&b))c()}
function f(a,b,c){if(!a)b();else c()}
function f(a,b,c){if(!a==b)c()}
function f(a,b,c){if(!(a==b))c()}
function f(a,b,c){if(!(a==b))c();else a()}
function f(a,b,c){if(!a&&!b)c()}
function f(a,b,c){if(!!a)b()}
function f(a,b,c){if(!!a)b();else c()}
function f(a,b,c){while(!(a||b))c()}
function f(a,b,c){return typeof a==="string"}
function f(a,b,c){return typeof a!=="string"}
function f(a,b,c){return"string"===typeof a}
function f(a,b,c){return"string"!==typeof a}
function f(a,b,c){return typeof a===b}
function f(a,b,c){return typeof a===typeof b}
function f(a,b,c){return typeof a==="str"+"ing"}
function f(a,b,c){return typeof a===`string`}
function f(a,b,c){return typeof(a)==="undefined"}
function f(a,b,c){return typeof x==="undefined"}
function f(a,b,c){return typeof a.b==="function"}
function f(a,b,c){return(typeof a)==="object"}
function f(a,b,c){return!(typeof a==="string")}
function f(a,b,c){return a===void 0}
function f(a,b,c){return void 0===a}
function f(a,b,c){return a===undefined}
function f(a,b,c){return a==void 0}
function f(a,b,c){return a==undefined}
function f(a,b,c){return a===null}
function f(a,b,c){return a==null}
function f(a,b,c){return a+"b"+"c"}
function f(a,b,c){return"a"+"b"+c}
function f(a,b,c){return a+("b"+"c")}
function f(a,b,c){return"a"+(b+"c")}
function f(a,b,c){return a+b+"c"+"d"}
function f(a,b,c){return"a"+"b"}
function f(a,b,c){return"a"+'b'+`c`}
function f(a,b,c){return'a"'+"b'"}
function f(a,b,c){return"a\n"+'b"'+"c'"}
function f(a,b,c){return 1+"a"+"b"}
function f(a,b,c){return 1+2+"a"+"b"}
function f(a,b,c){return"a"+"b"+1+2}
function f(a,b,c){return"a"+1+"b"}
function f(a,b,c){return a+"a"+"b"+b+"c"+"d"}
function f(a,b,c){return a+"</scr"+"ipt>"}
function f(a,b,c){return"\\"+"n"}
function f(a,b,c){return"\x5c"+"n"}
function f(a,b,c){return"a\\"+"\"b"}
function f(a,b,c){return"$"+"{a}"}
function f(a,b,c){return"`$"+"{a}`'\"\n\n"}
function f(a,b,c){return a-"1"+"2"}
function f(a,b,c){return a*("1"+"2")}
function f(a,b,c){a+="b"+"c";return a}
function f(a,b,c){return void 0}
function f(a,b,c){return void a}
function f(a,b,c){return void a()}
function f(a,b,c){return void(a,b)}
function f(a,b,c){return void a.b}
function f(a,b,c){return void"s"}
function f(a,b,c){return void 1}
function f(a,b,c){return void function(){}}
function f(a,b,c){return void(()=>{})}
function f(a,b,c){return void[a]}
function f(a,b,c){return void[a()]}
function f(a,b,c){return void{a:b}}
function f(a,b,c){return void{a:b()}}
function f(a,b,c){return void{[a()]:b}}
function f(a,b,c){return void`a${b}`}
function f(a,b,c){return void`a${b()}`}
function f(a,b,c){return void a`b`}
function f(a,b,c){return void!a}
function f(a,b,c){return void-a}
function f(a,b,c){return void(a+b)}
function f(a,b,c){return void(a?b:c)}
function f(a,b,c){return void(a=b)}
function f(a,b,c){return void a++}
function f(a,b,c){return void delete a.b}
function f(a,b,c){return void typeof a}
function f(a,b,c){return void new a}
function f(a,b,c){return void class{}}
function f(a,b,c){return void class{static x=a()}}
function f(a,b,c){return void class{[a()](){}}}
function f(a,b,c){return(void 0).a}
function f(a,b,c){return(void 0)()}
function f(a,b,c){return undefined.a}
function f(a,b,c){return undefined()}
function f(a,b,c){return new undefined}
function f(a,b,c){return undefined`a`}
function f(a,b,c){return-undefined}
function f(a,b,c){return undefined**2}
function f(a,b,c){return 2**undefined}
function f(a,b,c){return typeof undefined}
function f(a,b,c){return undefined?.a}
function f(a,b,c){return undefined??a}
function f(a,b,c){return a??undefined}
function f(a,b,c){return[undefined]}
function f(a,b,c){return{undefined}}
function f(a,b,c){return{undefined:1}}
function f(a,b,c){return a.undefined}
function f(a,b,c){undefined=1}
function f(a,b,c){return undefined++}
function f(a,b,c){return Infinity}
function f(a,b,c){return-Infinity}
function f(a,b,c){return Infinity.a}
function f(a,b,c){return Infinity*2}
function f(a,b,c){return 2*Infinity}
function f(a,b,c){return 2/Infinity}
function f(a,b,c){return Infinity/2}
function f(a,b,c){return 2**Infinity}
function f(a,b,c){return Infinity**2}
function f(a,b,c){return 2%Infinity}
function f(a,b,c){return typeof Infinity}
function f(a,b,c){return!Infinity}
function f(a,b,c){return Infinity()}
function f(a,b,c){return new Infinity}
function f(a,b,c){return Infinity`a`}
function f(a,b,c){return Infinity[0]}
function f(a,b,c){return a.Infinity}
function f(a,b,c){return{Infinity}}
function f(a,b,c){return Infinity++}
function f(a,b,c){Infinity=1}
function f(a,b,c){return true}
function f(a,b,c){return false}
function f(a,b,c){return true.a}
function f(a,b,c){return true+1}
function f(a,b,c){return-true}
function f(a,b,c){return!true}
function f(a,b,c){return true**2}
function f(a,b,c){return 2**true}
function f(a,b,c){return true()}
function f(a,b,c){return typeof true}
function f(a,b,c){return true[0]}
function f(a,b,c){return new true}
function f(a,b,c){return true`a`}
function f(a,b,c){return{true:1}}
function f(a,b,c){return a.true}
function f(a,b,c){return true in a}
function f(a,b,c){return true instanceof a}
function f(a,b,c){return false.a}
function f(a,b,c){return Number(a)}
function f(a,b,c){return Number("1")}
function f(a,b,c){return Number(1)}
function f(a,b,c){return Number(1.5)}
function f(a,b,c){return Number(1e3)}
function f(a,b,c){return Number(1000)}
function f(a,b,c){return Number(0x10)}
function f(a,b,c){return Number(0b11)}
function f(a,b,c){return Number(0o17)}
function f(a,b,c){return Number(1n)}
function f(a,b,c){return Number(0x10n)}
function f(a,b,c){return Number(10000n)}
function f(a,b,c){return Number(1_000n)}
function f(a,b,c){return Number(true)}
function f(a,b,c){return Number(false)}
function f(a,b,c){return Number(null)}
function f(a,b,c){return Number(undefined)}
function f(a,b,c){return Number()}
function f(a,b,c){return Number(1,2)}
function f(a,b,c){return Number(1).a}
function f(a,b,c){return Number(1000).toString()}
function f(a,b,c){return Number(1)+1}
function f(a,b,c){return-Number(1)}
function f(a,b,c){return Number(1)**2}
function f(a,b,c){return 2**Number(1)}
function f(a,b,c){return new Number(1)}
function f(a,b,c){return Number(true).a}
function f(a,b,c){return Number(null)[0]}
function f(a,b,c){return Number(undefined).a}
function f(a,b,c){return Number(123456789012345678901234567890n)}
function f(a,b,c){return Number(0xFFFFFFFFFFFFFFFFn)}
function f(a,b,c){return Number(9007199254740993n)}
function f(Number){return Number(1)}
function f(Math){return Math.pow(1,2)}
function f(a,b,c){return Math.pow(a,b)}
function f(a,b,c){return Math.pow(a,b)*c}
function f(a,b,c){return c*Math.pow(a,b)}
function f(a,b,c){return Math.pow(a,b)**c}
function f(a,b,c){return c**Math.pow(a,b)}
function f(a,b,c){return-Math.pow(a,b)}
function f(a,b,c){return Math.pow(-a,b)}
function f(a,b,c){return Math.pow(a,-b)}
function f(a,b,c){return Math.pow(a+b,c)}
function f(a,b,c){return Math.pow(a,b+c)}
function f(a,b,c){return Math.pow(a*b,c)}
function f(a,b,c){return Math.pow(a,b*c)}
function f(a,b,c){return Math.pow(a**b,c)}
function f(a,b,c){return Math.pow(a,b**c)}
function f(a,b,c){return Math.pow(Math.pow(a,b),c)}
function f(a,b,c){return Math.pow(a,Math.pow(b,c))}
function f(a,b,c){return Math.pow(a?b:c,2)}
function f(a,b,c){return Math.pow(2,a?b:c)}
function f(a,b,c){return Math.pow((a,b),c)}
function f(a,b,c){return Math.pow(a,(b,c))}
function f(a,b,c){return Math.pow(a=b,c)}
function f(a,b,c){return Math.pow(a,b=c)}
function f(a,b,c){return Math.pow(a++,b)}
function f(a,b,c){return Math.pow(++a,b)}
function f(a,b,c){return Math.pow(a,b++)}
function f(a,b,c){return Math.pow(!a,b)}
function f(a,b,c){return Math.pow(typeof a,b)}
function f(a,b,c){return Math.pow(void a,b)}
function f(a,b,c){return Math.pow(await,b)}
function f(a,b,c){return Math.pow(a.b,c.d)}
function f(a,b,c){return Math.pow(a(),b())}
function f(a,b,c){return Math.pow(new a,b)}
function f(a,b,c){return Math.pow(a,b).c}
function f(a,b,c){return Math.pow(a,b)[c]}
function f(a,b,c){return Math.pow(a,b)()}
function f(a,b,c){return typeof Math.pow(a,b)}
function f(a,b,c){return!Math.pow(a,b)}
function f(a,b,c){return Math.pow(a,b)+c}
function f(a,b,c){return Math.pow(a,b)?c:1}
function f(a,b,c){return Math.pow(a)}
function f(a,b,c){return Math.pow(a,b,c)}
function f(a,b,c){return Math.pow(...a)}
function f(a,b,c){return Math.pow(a,...b)}
function f(a,b,c){return Math.pow(2,3)}
function f(a,b,c){return Math.pow(-2,3)}
function f(a,b,c){return Math.pow(2,-3)}
function f(a,b,c){return Math.pow(2,0.5)}
function f(a,b,c){return Math.pow("2","3")}
function f(a,b,c){return Math.pow(()=>1,2)}
function f(a,b,c){return Math.pow(a=>a,2)}
function f(a,b,c){return Math.pow(2,a=>a)}
function f(a,b,c){return Math.pow(function(){},2)}
function f(a,b,c){return Math.pow(class{},2)}
function f(a,b,c){return Math.pow({},2)}
function f(a,b,c){return Math.pow({valueOf(){return 2}},3)}
function f(a,b,c){return Math.pow(yield,2)}
function*f(a,b,c){return Math.pow(yield a,2)}
function*f(a,b,c){return Math.pow(2,yield a)}
async function f(a,b,c){return Math.pow(await a,2)}
async function f(a,b,c){return Math.pow(2,await a)}
function f(a,b,c){return Math["pow"](a,b)}
function f(a,b,c){return Math?.pow(a,b)}
function f(a,b,c){return Math.pow?.(a,b)}
function f(a,b,c){return(Math.pow)(a,b)}
function f(a,b,c){return new Math.pow(a,b)}
function f(a,b,c){return Math.pow`a`}
function f(a,b,c){var Math={pow(){return 1}};return Math.pow(a,b)}
'''


def structural_list():
    return [l for l in STRUCTURAL.split('\n') if l.strip()]


def structural_programs(ctx):
    """hand-enumerated syntactic forms (new/call/member/optional chain/arrow/class/generator/async/for-in/label/switch/try/
    with/var merging/return merging/conditional folding/builtin rewrites): each form as a top-level script, wrapped
    in a function whose free names are parameters (renaming + probes), and as an argument of a host call"""
    progs = []
    for s in structural_list():
        progs.append(s)
        progs.append('function t(a,b,c,d){' + s + '}')
        progs.append('"use strict";\nfunction t(a,b,c,d){' + s + '}')
        progs.append('out((' + s.rstrip(';') + '))')
        progs.append('var t=(a,b,c,d)=>{' + s + '}')
        progs.append('function t(a,b,c,d){try{return(' + s.rstrip(';') + ')}catch(e){return out(e)}}')
    return progs


# ===================================================================================================
# literal matrix
ESCAPES = [
    r'\0', r'\00', r'\000', r'\x00', r'\u0000', r'\u{0}', r'\u{000000}', r'\1', r'\7', r'\12', r'\15', r'\101', r'\377', r'\400',
    r'\42', r'\47', r'\140', r'\134', r'\8', r'\9', r'\x41', r'\x0a', r'\x0A', r'\x0d', r'\x22', r'\x27', r'\x60', r'\x5c', r'\x5C',
    r'\x7f', r'\x80', r'\xff', r'\xe9', r'\x24', r'\x31', r'\x38', r'\61', r'\u0037', r'\u0041', r'\u000a', r'\u000A', r'\u000d', r'\u0022', r'\u0027', r'\u0060',
    r'\u005c', r'\u0024', r'\u00e9', r'\u2028', r'\u2029', r'\ud83d\ude00', r'\ud800', r'\udc00', r'\ufeff', r'\uffff',
    r'\u{41}', r'\u{a}', r'\u{A}', r'\u{d}', r'\u{22}', r'\u{27}', r'\u{60}', r'\u{5c}', r'\u{24}', r'\u{000041}', r'\u{1F600}',
    r'\u{10FFFF}', r'\u{10ffff}', r'\u{D800}', r'\u{2028}',
    r'\n', r'\r', r'\t', r'\v', r'\f', r'\b', '\\\\', r"\'", r'\"', r'\`', r'\$', r'\${', r'\{', r'\a', r'\c', r'\-', r'\/', r'\ ',
    '\\\n', '\\\r\n', '\\\r', '\\\u2028', '\\\u2029', '\u2028', '\u2029', '\u00e9', '\U0001F600', '\t', '\x0b', '\x0c', '\x7f',
    '$', '${', '$', '{', '`', "'", '"', '</script>', r'<\/script>', r'\x3C/script>', r'\x3c/script', '<!--', '-->', '</SCRIPT>',
    '<script', ']]>', r'\u003c/script>', '</scrip', r'\074/script>',
]
FOLLOW = ['', '0', '7', '8', '9', 'a', 'f', '{', '}', '\\\\', "'", '"', '`', '$', '\\n', '1', 'x41', 'u0041', '/script>']
CONTEXTS = ['%s', "'\"%s", "\\n\\n'\"%s", "\\n%s\\n", "'%s'", '"%s"', "''%s", '""%s']


def string_literals(ctx):
    lits = []
    quick = ctx.quick()
    rnd = ctx.rnd
    for e in ESCAPES:
        for fo in FOLLOW:
            for cx in CONTEXTS:
                if quick and rnd.random() > 0.03:
                    continue
                body = cx % (e + fo)
                for q in ("'", '"'):
                    # quotes of the same kind inside the body must be escaped to keep the literal well-formed
                    b = re.sub(r'(?<!\\)' + q, '\\\\' + q, body)
                    lits.append(q + b + q)
    # pairs of escapes
    for e1 in ESCAPES:
        for e2 in ESCAPES:
            if quick and rnd.random() > 0.015:
                continue
            for q in ("'", '"'):
                b = re.sub(r'(?<!\\)' + q, '\\\\' + q, e1 + e2)
                lits.append(q + b + q)
    return lits


def template_literals(ctx):
    lits = []
    rnd = ctx.rnd
    quick = ctx.quick()
    tesc = [e for e in ESCAPES if not re.match(r'\\[1-9]|\\0\d', e) and '`' not in e.replace('\\`', '') and '${' not in e.replace('\\${', '')]
    for e in tesc:
        if e in ('$', '{'):
            pass
        for fo in ['', '0', 'a', '{', "'", '"', '\\n', '$', '\\\\']:
            if quick and rnd.random() > 0.08:
                continue
            if e.endswith('$') and fo == '{':
                continue
            lits.append('`' + e + fo + '`')
            lits.append('`${x}' + e + fo + '${y}' + e + '`')
            lits.append('String.raw`' + e + fo + '`')
            lits.append('tag`' + e + fo + '${x}' + e + '`')
    return lits


CONCATS = [
    "'a\"'+\"b'\"+'c`'", "\"a'\"+'b\"'", "'\\''+\"\\\"\"", "'a'+'b'+x", "x+'a'+'b'", "'a'+x+'b'+'c'", "'a\\\n'+'b'", "'\\0'+'1'", "'\\x00'+'1'",
    "'\\u0000'+'1'", "'\\1'+'2'", "'\\12'+'3'", "'\\\\'+'n'", "'\\\\'+\"'\"", "'$'+'{x}'", "'\\$'+'{x}'", "'`'+'${x}'+\"'\"+'\"'+'\\n\\n'",
    "'<'+'/script>'", "'</scr'+'ipt>'", "'<!-'+'-'", "'a'+'b'+'c'+'d'", "('a'+'b')+('c'+'d')", "'a'+('b'+x)", "1+'a'+'b'", "'a'+1+'b'",
    "'\\x5c'+'x41'", "'\\u00'+'41'", "'\\u'+'0041'", "'\\x4'+'1'", "'\\1'+'1'", "'\\u{4'+'1}'", "'a'+`b`", "`a`+'b'", "`a${x}`+'b'", "'a'+`${x}b`",
    "'a'+'b'in x", "'a'+'b'.length", "('a'+'b').length", "'a'+'b'+'c'.length", "typeof'a'+'b'", "-'1'+'2'", "'\\ud83d'+'\\ude00'",
]

NUMBERS = [
    '0', '1', '-0', '-1', '0.0', '0.', '.0', '1.', '.1', '1.0', '1.50', '01', '00', '07', '08', '09', '010', '0777', '0888', '09.5', '08.0', '00.5'.replace('00.5', '0.50'),
    '100', '1000', '10000', '1e3', '1E3', '1e+3', '1e-3', '1.5e3', '1.5E+3', '15e2', '150e1', '1e0', '1e00', '1e01', '1.0e1', '0e0', '0.0e0', '.0e0', '0e5',
    '1e21', '1e22', '1e-7', '1e-6', '123456789012345678901234567890', '12345678901234567890', '9007199254740992', '9007199254740993', '0.1e-320',
    '5e-324', '4e-324', '2e-324', '1.7976931348623157e308', '1.7976931348623159e308', '1e308', '1e309', '2e308', '0.00000000000000000001', '0.000001', '0.0000001',
    '1_000', '1_0.0_1', '1_0e1_0', '0.0_1', '1e1_0', '1_2_3', '0x0', '0x1F', '0X1f', '0xff', '0xFF', '0x10', '0x100', '0xdeadbeef', '0xDEADBEEF', '0xFFFFFFFF', '0x100000000',
    '0xFFFFFFFFFFFF', '0xFFFFFFFFFFFFF', '0x1FFFFFFFFFFFFF', '0x20000000000000', '0x20000000000001', '0xFFFFFFFFFFFFFFFF', '0x1_0', '0xF_F', '0xe', '0xE', '0x0e0', '0xe0',
    '0xa', '0xA', '0xEe', '0xf00d', '0x7fffffff', '0x80000000', '0xDfffffffff', '0xE000000000', '0xd00000000f', '0xDFFFFFFFFFF', '0xE0000000000', '0xdffffffffff',
    '0o0', '0o7', '0O17', '0o17', '0o777', '0o1_7', '0o1777777777777777777777', '0o777777777777777777777', '0o7777777777777777777777', '0o17777777777',
    '0b0', '0b1', '0B1', '0b101', '0b1_0', '0b' + '1' * 31, '0b' + '1' * 32, '0b' + '1' * 53, '0b' + '1' * 54, '0b' + '1' * 62, '0b' + '1' * 63, '0b' + '1' * 64, '0b1' + '0' * 63, '0b1' + '0' * 64,
    '0n', '1n', '10n', '1000n', '1_000n', '0x1Fn', '0xFFn', '0b11n', '0o7n', '0o17n', '123456789012345678901234567890n', '0xFFFFFFFFFFFFFFFFn', '0b' + '1' * 64 + 'n',
    '0x1_0n', '1_0n', '1000000n', '0XAn', '0B1n', '0O7n', '9007199254740993n', '00n'.replace('00n', '0n'),
    '1.e3', '1.e-3', '.5e1', '5.e0', '0.5', '0.50', '.50', '00.5'.replace('00.5', '0.05'), '1.0000000000000001', '1.00000000000000011', '0.30000000000000004', '1.005', '1.15',
    '4.35', '0.000035', '123.456e-7', '123456e-3', '100e-2', '1200e-2', '0.12e2', '0.12e3', '12e-1', '1e1', '10e0', '1e2', '1e-1', '1e-2', '10e-1', '100e-3', '1000e-3', '1000e-4',
    '999999999999999999999', '1000000000000000000000', '1e+21', '0.1e22', '18446744073709551615', '18446744073709551616', '4294967295', '4294967296', '2147483647', '2147483648',
    '9.5', '99.5', '999.5', '0.95', '0.995', '9.99e2', '99e5', '990000', '9900000', '1e5', '100000', '1000000', '12345e3', '12300000', '123e5', '1230e4',
]
NUM_CONTEXTS = ['out(%s)', 'out(-%s)', 'out(- -%s)', 'out(+%s)', 'out(%s .toString())', 'out((%s).toString())', 'out((%s).a)', 'out(%s+1)', 'out(1+%s)', 'out(1- -%s)',
                'out(1-%s)', 'out(%s in x)', 'out(typeof %s)', 'out(!%s)', 'out(!!%s)', 'out(%s?1:2)', 'out(x?%s:.5)', 'out(x?.5:%s)', 'out(x?.1:%s)', 'out([%s,%s])',
                'out({%s:1})', 'out({a:%s})', 'out(x[%s])', 'out(x.a<%s)', 'out(1<!--%s)'.replace('<!--', '<! --'), 'out(1/ %s)', 'out(%s/1)', 'out(%s**2)', 'out((-%s)**2)',
                'out(2**%s)', 'out(2**-%s)', 'out(%s>>>0)', 'out(%s|0)', 'out(~%s)', 'out(%s==1)', 'out(1==%s)', 'out(void %s)', 'out(x=%s)', 'out(%s,1)', 'out(`${%s}`)',
                'out(Number(%s))', 'out(String(%s))', 'if(%s)out(1);else out(2)', 'switch(1){case %s:out(1)}', 'for(var i=%s;i<1;i++)out(i)', 'out(class{static %s=1})',
                'out(class{%s(){}})', 'out({%s(){}})', 'out({get %s(){return 1}})', 'out(x?.[%s])', 'out(x?.%s:1)'.replace('?.%s:1', '?%s:1'), 'var{%s:y}=x;out(y)',
                'out(a => %s)', 'out(%s instanceof x)', 'out(new x(%s))', 'out(x`${%s}`)', 'out(%s.5)'.replace('%s.5', '%s,.5'), 'out(.5+%s)', 'out(5..a+%s)', 'out(1e3+%s)']

REGEX_BODIES = None


def regexes(ctx):
    quick = ctx.quick()
    rnd = ctx.rnd
    out = []
    chars = [chr(c) for c in range(33, 127)]
    forms = ['/\\%s/', '/[\\%s]/', '/[a\\%s]/', '/[\\%s-z]/', '/[!-\\%s]/', '/[^\\%s]/', '/[\\%sa]/', '/a\\%s+/', '/[a\\%sz]/', '/[a-c\\%se]/', '/[\\%s\\%s]/', '/\\%s\\%s/']
    for ch in chars:
        for fm in forms:
            if quick and rnd.random() > 0.1:
                continue
            body = fm.replace('%s', ch)
            for fl in ('', 'g', 'u', 'i', 'y', 's', 'm'):
                if quick and fl not in ('', 'u') and rnd.random() > 0.1:
                    continue
                out.append(body + fl)
    out += ['/\\//', '/[/]/', '/[\\/]/', '/[\\]]/', '/[[]/', '/[\\[]/', '/[]]/', '/[^]/', '/[]/', '/[\\^]/', '/[a^]/', '/[\\^a]/', '/[^\\^]/', '/[a\\-z]/', '/[a-z\\-]/', '/[\\-a-z]/',
            '/[a-\\-]/', '/[+\\--a]/', '/[\\--\\-]/', '/[a\\-]/', '/[\\-]/', '/[a-c\\-e]/', '/[\\d\\-a]/', '/[\\w\\-\\.]/', '/[a\\-\\-z]/', '/[---]/', '/[--\\-]/', '/[\\---]/',
            '/[!--]/', '/[!-\\-]/', '/[\\!-\\-]/', '/a\\/b/', '/a[/]b/', '/\\\\/', '/\\\\\\//', '/[\\\\]/', '/\\x41/', '/\\u0041/', '/\\u{41}/u', '/\\cA/', '/\\0/', '/\\1(a)/',
            '/(a)\\1/', '/(?<n>a)\\k<n>/', '/\\k/', '/\\p{L}/u', '/\\P{L}/u', '/\\p/', '/\\8/', '/\\_/', '/\\-/', '/\\-/u', '/[\\-]/u', '/\\=/', '/\\:/', '/\\#/', '/\\ /', '/\\\t/',
            '/</script>/', '/<\\/script>/', '/a|<\\/script>/', '/[<]/script>/', '/\\<\\/script>/', '/=/', '/ /', '/$/', '/^/', '/a$/', '/\\$/', '/[$]/', '/{/', '/\\{/', '/a{1}/',
            '/a{,1}/', '/a\\{1\\}/', '/}/', '/]/', '/\\]/', '/(?:a)/', '/(?=a)/', '/(?!a)/', '/(?<=a)/', '/(?<!a)/', '/a*?/', '/a+?/', '/\\b/', '/\\B/', '/[\\b]/', '/[\\B]/',
            '/\\d\\D\\s\\S\\w\\W/', '/[\\d\\D\\s\\S\\w\\W]/', '/\\t\\n\\v\\f\\r/', '/[\\t\\n\\v\\f\\r]/', '/\\./', '/[.]/', '/[\\.]/', '/\\*/', '/[*]/', '/\\?/', '/\\+/', '/\\(/', '/\\)/',
            '/\\[/', '/\\|/', '/[|]/', '/\\a\\e\\g\\h\\i\\j\\l\\m\\o\\q\\y\\z/', '/[\\a\\e\\g\\h\\i\\j\\l\\m\\o\\q\\y\\z]/', '/\\A\\C\\E\\F\\G\\H\\I\\J\\K\\L\\M\\N\\O\\Q\\R\\T\\U\\V\\X\\Y\\Z/',
            '/[\\A\\C\\E\\F\\G\\H\\I\\J\\K\\L\\M\\N\\O\\Q\\R\\T\\U\\V\\X\\Y\\Z]/', '/\\é/', '/[\\é]/', '/é/u', '/\\u00e9/', '/\\//g', '/a/gimsuy', '/a/dgimsuy', '/[a-z]/i']
    return out


def literal_programs(ctx):
    progs = []
    strs = [x for x in string_literals(ctx) if not excluded('out(%s)' % x)]
    ok = valid_js(ctx, ['out(%s)' % x for x in strs])
    strs = [x for x, v in zip(strs, ok) if v]
    for i in range(0, len(strs), 12):
        progs.append('\n'.join('out(%s)' % s for s in strs[i:i + 12]))
    # legacy octal escapes are sloppy only; the same literals in strict mode (invalid ones are outside the domain)
    for i in range(0, len(strs), 12):
        if ctx.rnd.random() < (0.1 if ctx.quick() else 0.5):
            progs.append('"use strict";\n' + '\n'.join('out(%s)' % s for s in strs[i:i + 12] if not re.search(r'\\[0-9]', s)))
    tl = [x for x in template_literals(ctx) if not excluded('out(%s)' % x)]
    ok = valid_js(ctx, ['out(%s)' % x for x in tl])
    tl = [x for x, v in zip(tl, ok) if v]
    for i in range(0, len(tl), 8):
        progs.append('var x="X",y=1;function tag(s,...v){out(s,s.raw,v)}\n' + '\n'.join('out(%s)' % s for s in tl[i:i + 8]))
    concats = [x for x in CONCATS if not excluded('out(%s)' % x)]
    for i in range(0, len(concats), 6):
        progs.append('var x="X";\n' + '\n'.join('out(%s)' % s for s in concats[i:i + 6]))
        progs.append('function t(x){\n' + '\n'.join('out(%s)' % s for s in concats[i:i + 6]) + '}')
    nums = list(NUMBERS) + ctx.numgen_lexemes
    rnd = ctx.rnd
    stmts = []
    for n in nums:
        for c in NUM_CONTEXTS:
            if c != 'out(%s)' and rnd.random() > (0.04 if ctx.quick() else 0.6):
                continue
            stmts.append(c.replace('%s', n))
    stmts = [x for x in stmts if not excluded(x)]
    ok = valid_js(ctx, ['try{%s}catch(e){}' % x for x in stmts])
    stmts = [x for x, v in zip(stmts, ok) if v]
    for i in range(0, len(stmts), 10):
        progs.append('var x={a:1,1:2,10:3};\n' + '\n'.join('try{%s}catch(e){out("E")}' % s for s in stmts[i:i + 10]))
    rx = [x for x in regexes(ctx) if not excluded('out(%s)' % x)]
    ok = valid_js(ctx, ['out(%s)' % x for x in rx])
    rx = [x for x, v in zip(rx, ok) if v]
    for i in range(0, len(rx), 10):
        progs.append('\n'.join('out(%s)' % s for s in rx[i:i + 10]))
    return progs


# ===================================================================================================
ASI = r'''
a
(b)
--
a
[b]
--
a
+b
--
a
-b
--
a
/b/g
--
a
`t`
--
a++
b
--
a
++b
--
a
++
b
--
a--
b
--
a
--b
--
function f(){return
a}
--
function f(){return;
a}
--
function f(){return a
+b}
--
function f(){return(
a)}
--
x:for(;;){break
x}
--
x:for(;;){continue
x}
--
x:for(;;){for(;;){break
x}}
--
function*g(){yield
a}
--
var async
function f(){}
--
async
function f(){}
--
async function f(){}
--
let
[a]=b
--
var let
let
[a]=b
--
let
a
--
x=>{}
(y)
--
var f=x=>{}
(y)
--
var a
=1
--
var a,
b
--
var a
,b
--
if(a)
b
else c
--
if(a)b
else c
--
do a
while(b) c
--
do a;while(b)c
--
do;while(a)b
--
do{}while(a)b
--
do a;while(b)
(c)
--
a
?.b
--
a?.
b
--
class A{a
b}
--
class A{a
*b(){}}
--
class A{a;*b(){}}
--
class A{a=1
*b(){}}
--
class A{a
[b]}
--
class A{a;[b]}
--
class A{a=1;[b]=2}
--
class A{get
a(){}}
--
class A{get;a(){}}
--
class A{static
a}
--
class A{static;a}
--
class A{a
static b}
--
class A{async
a(){}}
--
class A{a="b"
"c"}
--
class A{a=b
in}
--
class A{in
a}
--
class A{a=1;in}
--
a=b
++c
--
a=b++
c
--
for(;;)
;
--
;[1].x
--
a;[1].x
--
var f=function(){}
(1)
--
var f=function(){};
(1)
--
a
!b
--
a
!function(){}()
--
!function(){}()
!function(){}()
--
(function(){})()
(function(){})()
--
a
(function(){})()
--
a;(function(){})()
--
a
;(b)
--
var a=1
var b=2
--
var a=1
(b)
--
let a=1
let b=2
--
const a=1
;[b]=c
--
a=function(){}
b=1
--
a=()=>{}
b=1
--
a={}
b=1
--
a=[]
b=1
--
a=class{}
b=1
--
if(a){}
b
--
if(a){}
(b)
--
{}
(b)
--
{a}
[b]
--
{a}
/b/g
--
function f(){}
(b)
--
function f(){}
/b/g
--
class A{}
(b)
--
class A{}
[b]
--
x:{}
(b)
--
try{}catch(e){}
(b)
--
try{}finally{}
[b]
--
switch(a){}
(b)
--
for(;;){break}
(b)
--
while(a){}
(b)
--
with(a){}
(b)
--
a
in b
--
a
instanceof b
--
a
of
--
typeof
a
--
void
a
--
new
a
--
delete
a.b
--
-
a
--
!
a
--
a
,b
--
a,
b
--
a
=b
--
a
.b
--
a.
b
--
a
=>b
--
(a)
=>b
--
throw a
--
function f(){throw a
;b}
--
a+ +b
--
a+ ++b
--
a++ +b
--
a+ + +b
--
a- -b
--
a- --b
--
a-- -b
--
a- - -b
--
a+ -b
--
a- +b
--
a-- >b
--
a-->b
--
a-- >=b
--
a<!--b
--
a<! --b
--
a< !--b
--
a<!b
--
a<!-b
--
x=a<!--b
--
x=a-- >b
--
x=a
-->b
--
a / /b/
--
a / /b/.test(c)
--
a/ /b/g.lastIndex
--
a/b/c
--
a / b / c
--
a/ /[/]/
--
a / (/b/)
--
a in b
--
"a"in b
--
a in"b"
--
a in{b}
--
a in[b]
--
a in/b/
--
a in!b
--
a in-b
--
a in+b
--
a in~b
--
a in(b)
--
1 in a
--
1.in
--
a instanceof b
--
a instanceof(b)
--
a instanceof[b]
--
a instanceof{}
--
"a"instanceof b
--
typeof a
--
typeof"a"
--
typeof(a)
--
typeof[a]
--
typeof{}
--
typeof/a/
--
typeof-a
--
typeof!a
--
typeof typeof a
--
typeof void a
--
void a
--
void-a
--
void"a"
--
void(a)
--
void typeof a
--
delete a.b
--
delete(a.b)
--
delete a[b]
--
new a
--
new(a)
--
new a.b
--
new a[b]
--
new a(b)
--
new"a"
--
1 .a
--
1..a
--
1.0.a
--
1e3.a
--
1.5.a
--
0x1.a
--
0b1.a
--
0o1.a
--
1n.a
--
1000 .a
--
1e1 .a
--
10 .a
--
10..a
--
x=1 .a
--
x=10 .toString()
--
x=1e3 .toString()
--
function f(){return"a"}
--
function f(){return/a/}
--
function f(){return[a]}
--
function f(){return{a}}
--
function f(){return`a`}
--
function f(){return-a}
--
function f(){return+a}
--
function f(){return!a}
--
function f(){return~a}
--
function f(){return(a)}
--
function f(){return typeof a}
--
function f(){return.5}
--
function f(){return 1}
--
function f(){return a}
--
function f(){return\u0061}
--
function f(){return a.b}
--
function f(){return--a}
--
function f(){return++a}
--
function f(){return...a}
--
function f(){return new a}
--
function f(){return function(){}}
--
function f(){return async function(){}}
--
function f(){return class{}}
--
function f(){return this}
--
function f(){return null}
--
function f(){return true}
--
function f(){return false}
--
function f(){return void 0}
--
function f(){return $}
--
function f(){return _}
--
function f(){return é}
--
function f(){return\u00e9}
--
switch(a){case"a":b}
--
switch(a){case-1:b}
--
switch(a){case/a/:b}
--
switch(a){case[a]:b}
--
switch(a){case{}:b}
--
switch(a){case!a:b}
--
switch(a){case(a):b}
--
switch(a){case typeof a:b}
--
switch(a){case a:b}
--
switch(a){case.5:b}
--
switch(a){case`a`:b}
--
if(a)b;else{}
--
if(a)b;else c
--
if(a)b;else"c"
--
if(a)b;else-c
--
if(a)b;else(c)
--
if(a)b;else[c]
--
if(a)b;else/c/
--
if(a)b;else!c
--
if(a)b;else++c
--
if(a)b;else typeof c
--
if(a)b;else if(c)d
--
if(a)b;else for(;;)break
--
if(a)b;else var c
--
if(a)b;else{c;d}
--
if(a)b;else;
--
if(a)b;else function f(){}
--
do a;while(b)
--
do"a";while(b)
--
do-a;while(b)
--
do(a);while(b)
--
do[a];while(b)
--
do/a/;while(b)
--
do!a;while(b)
--
do++a;while(b)
--
do{a}while(b)
--
do typeof a;while(b)
--
do if(a)b;while(c)
--
do var a;while(b)
--
do x=1;while(b)
--
for(var a in b);
--
for(var a in"b");
--
for(var a in[b]);
--
for(var a in{b});
--
for(var a in/b/);
--
for(var a in-b);
--
for(var a in!b);
--
for(var a in(b));
--
for(a in b);
--
for(a.b in c);
--
for(a[b]in c);
--
for(a["b"]in c);
--
for(a()[b]in c);
--
for(var a of b);
--
for(var a of"b");
--
for(var a of[b]);
--
for(var a of(b));
--
for(var a of-b);
--
for(var a of!b);
--
for(var a of/b/);
--
for(var a of`b`);
--
for(a of b);
--
for(a.b of c);
--
for(a[b]of c);
--
for(var[a]of b);
--
for(var{a}of b);
--
for(let a of b);
--
for(const a of b);
--
for(var a of b=>c);
--
for(var a of function(){});
--
for(var a of class{});
--
for(var a of async()=>{});
--
for(var a of async function(){});
--
for(var a of new b);
--
for(var a of typeof b);
--
for(var a of void b);
--
for(var a of yield);
--
for(var a of{});
--
var a=1,b=2
--
var[a]=b
--
var{a}=b
--
var a
--
var $
--
var _
--
var é
--
var\u0061
--
let a
--
let[a]=b
--
let{a}=b
--
let $
--
const a=1
--
const[a]=b
--
const{a}=b
--
!function(){}()
--
+function(){}()
--
-function(){}()
--
~function(){}()
--
void function(){}()
--
(function(){})()
--
(function(){}())
--
(function(){}).call()
--
(function(){})
--
(function(){}),a
--
(function(){})?a:b
--
(function(){})||a
--
(function(){})=a
--
(function(){}).a=b
--
(function(){})[a]
--
(function(){})`a`
--
(function(){})in a
--
(function(){})instanceof a
--
(function(){})+a
--
(function f(){})
--
(function*(){})
--
(async function(){})
--
(async function(){})()
--
(async()=>{})()
--
(class{})
--
(class{}).a
--
(class{}),a
--
(class{})?a:b
--
(class A{})
--
({})
--
({}).a
--
({}),a
--
({})?a:b
--
({})=a
--
({}=a)
--
({a}=b)
--
({a}=b).c
--
({a}=b),c
--
({a}),b
--
({a})?b:c
--
({a}).b=c
--
({a})[b]
--
({a})`b`
--
({a})in b
--
({a})+b
--
({a}+b)
--
({a})()
--
({a}())
--
({}.a)
--
({}[a])
--
({}`a`)
--
({}.a=b)
--
({}.a)()
--
({}.a(),b)
--
x=>({})
--
x=>({}.a)
--
x=>({}).a
--
x=>({}=a)
--
x=>({a}=b)
--
x=>({a}=b,c)
--
x=>({}),a
--
x=>{}
--
x=>{a}
--
x=>function(){}
--
x=>function(){}()
--
x=>(function(){})()
--
x=>(function(){}())
--
x=>class{}
--
x=>(class{}).a
--
(let)[0]
--
(let[0])
--
(let)[0]=1
--
let[0]
--
var let;let[0]=1
--
var let;(let)[0]=1
--
var let;(let[0])=1
--
var let;(let)[a]
--
var let;(let[a]).b
--
var let;(let[a]=b)
--
var let;(let[a],b)
--
var let;(let[a]?b:c)
--
var let;x=let[a]
--
var let;(let).a
--
var let;let.a
--
var let;let(a)
--
var let;let`a`
--
var let;let
--
var let;let=1
--
var let;if(a)let[0]
--
var let;if(a)(let)[0]
--
var let;for(let.a in b);
--
var let;for((let)[a]in b);
--
var let;for((let)[a];;)break
--
var let;for(let;;)break
--
var let;for(let.a;;)break
--
var let;for((let.a);;)break
--
var let;for(let in a);
--
var let;for((let)of a);
--
var let;for((let.a)of b);
--
var let;for((let).a of b);
--
var let;do(let)[a];while(0)
--
var let;x:(let)[a]
--
var let;a;(let)[a]
--
var async;async
--
var async;async()
--
var async;async(a)
--
var async;async(a,b)
--
var async;async.a
--
var async;async=>a
--
var async;async=1
--
var async;async in a
--
var async;async instanceof a
--
var async;async
(a)
--
var async;async
(a)=>b
--
var async;async
a=>b
--
var async;(async)=>a
--
var async;(async())
--
var async;for(async in a);
--
var async;for((async)of a);
--
var async;for(async.a of b);
--
var async;for(async of=>a;;)break
--
var async;for(async;;)break
--
var of;for(of of of);
--
var of;for(of in of);
--
var of;for(of;;)break
--
var of;for(var of of of);
--
var of;of
--
var of;of=1
--
var get,set,static,await,yield,as,from;get;set;static;await;yield;as;from
--
var yield;yield
--
var yield;yield*a
--
var yield;yield+a
--
var yield;yield/a/g
--
var yield;yield[a]
--
var yield;yield(a)
--
var yield;yield`a`
--
var await;await
--
var await;await+a
--
var await;await/a/g
--
var await;await[a]
--
var await;await(a)
--
var await;await`a`
--
var await;-await
--
var yield;-yield
--
var yield;a?yield:b
--
var yield;a?b:yield
--
var yield;yield?a:b
--
var yield;yield,a
--
var yield;a=yield
--
var yield;yield=a
--
function yield(){}
--
function await(){}
--
function async(){}
--
function let(){}
--
function static(){}
--
function get(){}
--
function of(){}
--
a:b
--
a:b:c
--
a:{}
--
a:;
--
a:for(;;)break a
--
yield:a
--
await:a
--
async:a
--
let:a
--
of:a
--
static:a
--
get:a
--
<!--a
b
--
a
-->b
c
--
a
-->b
--
a;/*
*/-->b
c
--
a
/*
*/-->b
c
--
#!a
b
--
/*a*/b
--
b/*a*/
--
a/**/b
--
a/*
*/b
--
a/*
*/(b)
--
a/*
*/++b
--
a//
b
--
a//
(b)
--
a//c
++b
--
function f(){return/*
*/a}
--
function f(){return//
a}
--
function f(){return/**/a}
--
x:for(;;){break/*
*/x}
--
x:for(;;){continue/**/x}
--
a++/*
*/b
--
a/*
*/++
b
--
x=>/*
*/y
--
x/*
*/=>y
--
x=>//
y
--
async/*
*/function f(){}
--
async/**/function f(){}
--
async/*
*/x=>y
--
async/**/x=>y
--
function*g(){yield/*
*/a}
--
function*g(){yield/**/a}
--
throw/**/a
--
function f(){throw/**/a}
--
/*! bang */a
--
a/*! bang */
--
a;/*! bang */b
--
//! bang
a
--
a//! bang
--
a
//! bang
b
--
function f(){/*! bang */return a}
--
function f(){return/*! bang */a}
--
function f(){return a/*! bang */}
--
a=/*! bang */b
--
a/*! bang */=b
--
if(a)/*! bang */b
--
a?/*! bang */b:c
--
/*! a */ /*! b */c
--
/*!a*/
/*!b*/
--
//!a
//!b
--
/*!a*/
//!b
c
--
//!a
/*!b*/c
--
"use strict"
--
"use strict";a
--
'use strict'
--
'use strict';a
--
"use strict"
a
--
"use strict"
(a)
--
"use strict"
[a]
--
"use strict"
+a
--
"use strict",a
--
"use strict".a
--
("use strict")
--
"use\x20strict"
--
"use strict";"use strict"
--
"a";"b"
--
"a";'b';c
--
"a"
"b"
--
'a"b'
--
'a\'b'
--
"use asm";a
--
"\u0041";a
--
"\101";a
--
'\0';a
--
"a\
b";c
--
function f(){"use strict"}
--
function f(){"use strict";return this}
--
function f(){'use strict';return this}
--
function f(){"use strict"
return this}
--
function f(){"use strict"
;[a]}
--
function f(){"a";"b";return this}
--
function f(){"use strict";"use strict";return this}
--
function f(){a;"use strict";return this}
--
function f(){("use strict");return this}
--
function f(){"use strict",a;return this}
--
function f(){"use strict".a;return this}
--
function f(){"use\x20strict";return this}
--
function f(){'\x75se strict';return this}
--
function f(){'use strict';with(a)b}
--
function f(){"use strict";var public}
--
function f(){"use strict";x=010}
--
function f(){"use strict";delete x}
--
function f(a,a){"use strict"}
--
function f(a=1){"use strict"}
--
()=>{"use strict";return this}
--
x=>{"use strict"}
--
({f(){"use strict";return this}})
--
class A{f(){"use strict";return this}}
--
class A{static{"use strict"}}
'''


def asi_list():
    return [p.strip('\n') for p in ASI.split('\n--\n') if p.strip()]


def asi_programs(ctx):
    progs = []
    for s in asi_list():
        progs.append(s)
        progs.append('function t(a,b,c){' + s + '\n}')
        progs.append('"use strict";\n' + s)
        progs.append('a;' + s + '\n;b')
        progs.append('if(x){' + s + '\n}else{' + s + '\n}')
    return progs


# ===================================================================================================
def test_variants(ctx):
    """the inputs of the repository's own tests as they are, in strict mode, as a function body with the free names as
    parameters (renaming, return merging; probed by calling), and as an argument expression"""
    base = test_inputs(ctx)
    out = []
    for s in base:
        out.append(s)
        out.append('"use strict";\n' + s)
        if not re.search(r'\b(import|export)\b', s):
            out.append('function t(a,b,c,d,x,y,z){' + s + '\n}')
            out.append('out((' + s.rstrip().rstrip(';') + '\n))')
            out.append('var t=function*(a,b,c,x){' + s + '\n}')
    return out


def corpus_programs(ctx):
    """tests/js/corpus: the whole files, and every function of them as a standalone program (js/c01_corpus.js)"""
    d = os.path.join(vlib.REPO, 'tests', 'js', 'corpus')
    out = []
    if not os.path.isdir(d):
        return out
    files = [os.path.join(d, fn) for fn in sorted(os.listdir(d))]
    for fn in files:
        try:
            out.append(open(fn, encoding='utf-8').read())
        except UnicodeDecodeError:
            pass
    p = ctx.path('gen', 'corpus-functions.ndjson')
    vlib.run(['node', '--expose-internals', '--stack-size=8000', os.path.join(vlib.ROOT, 'js', 'c01_corpus.js'), p] + files, timeout=300)
    fns = sorted(set(o['src'] for o in vlib.read_ndjson(p)))
    ctx.rnd.shuffle(fns)
    out += fns[: 80 if ctx.quick() else 6000]
    return out


def numgen_lexemes(ctx):
    """number lexemes enumerated by TLC from the shared NumGen automaton (decimal literal forms)"""
    dump = ctx.path('gen', 'c01numgen')
    r = _mc(ctx, 'NumGen', 'C01NumGen.cfg', dump=dump, workers=2, timeout=600)
    lex = []
    cur = None
    for line in open(dump + '.dump'):
        if line.startswith('/\\ lex = '):
            cur = vlib.tla_seq_to_list(line[len('/\\ lex = '):])
        elif line.startswith('/\\ st = '):
            if int(line[len('/\\ st = '):]) in (2, 3, 4, 8) and cur:
                s = bytes(cur).decode()
                if s[0] not in '+-':
                    lex.append(s)
    lex.sort()
    ctx.rnd.shuffle(lex)
    return dict(mc=r, lexemes=sorted(lex[: 150 if ctx.quick() else 2500]))


# ===================================================================================================
# statement-nesting matrix (dangling else): every statement form S that can END in an if without else, nested to depth 3,
# as the braced THEN-branch of an outer if-else; branch bodies that cannot become expressions (loops, var, try, switch,
# break/continue) and ones that can; every branch calls out(k) and the function is run under all truth assignments.
_NEST_BODIES = [
    'for(var i%d=0;i%d<1;i%d++)out(%d)', 'out(%d)', 'try{out(%d)}catch(e){}', 'switch(%d){case %d:out(%d)}', '{var v%d=%d;out(v%d)}',
    'for(var j%d=0;j%d<2;j%d++){if(j%d)break;out(%d)}', 'for(var k%d=0;k%d<2;k%d++){if(k%d)continue;out(%d)}', 'while(w++<%d)out(%d)',
    'do out(%d);while(0)', 'throw out(%d)',
]


def _nest_body(n, kind):
    t = _NEST_BODIES[kind % len(_NEST_BODIES)]
    return t.replace('%d', str(n))


class _Nest:
    """statements that END in an if without else, with fresh out() numbers; choices drawn from rnd"""

    def __init__(self, rnd):
        self.rnd = rnd
        self.n = 0

    def body(self):
        self.n += 1
        return _nest_body(self.n, self.rnd.randrange(len(_NEST_BODIES)))

    def cond(self):
        return self.rnd.choice(['c2', 'c3', 'c2&&c3', '!c3', 'c2||c3'])

    NFORMS = 15

    def form(self, fi, d):
        """form number fi (0..NFORMS-1); forms >= 4 nest another form of depth d-1 (chosen at random)"""
        sub = (lambda: self.form(self.rnd.randrange(self.NFORMS if d > 1 else 4), d - 1))
        self.n += 1
        k = self.n
        sm = (lambda b: b if b.endswith('}') else b + ';')
        if fi == 0:
            return 'if(%s)%s' % (self.cond(), self.body())
        if fi == 1:
            return 'if(c2)%selse if(c3)%s' % (sm(self.body()), self.body())
        if fi == 2:
            return 'if(c2){%s}else if(c3){%s}' % (self.body(), self.body())
        if fi == 3:
            return 'if(c2)%selse if(c3)%selse if(c2==c3)%s' % (sm(self.body()), sm(self.body()), self.body())
        if fi == 4:
            return 'if(%s)%s' % (self.cond(), sub())
        if fi == 5:
            return 'if(c2)%selse %s' % (sm(self.body()), sub())
        if fi == 6:
            return 'if(c2){%s}else %s' % (sub(), sub())
        if fi == 7:
            return 'for(var n%d=0;n%d<1;n%d++)%s' % (k, k, k, sub())
        if fi == 8:
            return 'for(;w++<%d;)%s' % (k, sub())
        if fi == 9:
            return 'while(w++<%d)%s' % (k, sub())
        if fi == 10:
            return 'for(var p%d in{a:1})%s' % (k, sub())
        if fi == 11:
            return 'for(var q%d of[1])%s' % (k, sub())
        if fi == 12:
            return 'l%d:%s' % (k, sub())
        if fi == 13:
            return 'with(o)%s' % sub()
        return '{%s%s}' % (sm(self.body()), sub())


def nesting_programs(ctx):
    rnd = ctx.rnd
    progs = []
    reps = 1 if ctx.quick() else 8
    for depth, forms in ((0, range(4)), (1, range(4, _Nest.NFORMS)), (2, range(4, _Nest.NFORMS))):
        for fi in forms:
            for rep in range(reps * (3 if depth == 0 else 1)):
                g = _Nest(rnd)
                inner = g.form(fi, depth)
                else_body = g.body()
                for outer in ('if(c1){%s}else %s', 'if(c1){%s}else{%s}', 'if(!c1){%s}else %s'):
                    fn = 'function t(c1,c2,c3){var w=0,o={};' + (outer % (inner, else_body)) + '}'
                    progs.append(fn + '\nfor(var m=0;m<8;m++){try{t(m&1,m&2,m&4)}catch(e){out("E")}}')
    seen = set()
    out = []
    for p in progs:
        if p not in seen:
            seen.add(p)
            out.append(p)
    return out


# ===================================================================================================
# size-scaling lists: everything the minifier reorders or merges (var declarators, adjacent declarations, expression
# statements, switch cases, properties, arguments, parameters, class members, else-if chains, string concatenations,
# comma / conditional chains) with 13..60 elements and observable elements f(k)
def scaling_programs(ctx):
    quick = ctx.quick()
    rnd = ctx.rnd
    sizes = [13, 40] if quick else [13, 14, 16, 17, 25, 33, 40, 60]
    progs = []
    pre = 'var f=function(k){out(k);return k};\n'

    def noinit_patterns(n):
        pats = [set(), {1}, {n}, {2}, set(range(2, n + 1, 3)), set(range(1, n + 1, 2)), {n // 2}, {n - 1, n}]
        return pats if not quick else [pats[i] for i in (1, 3, 4, 6)]

    for n in sizes:
        ks = list(range(1, n + 1))
        for kw in ('var', 'let'):
            for pat in noinit_patterns(n):
                decls = ['a%d' % k if k in pat else 'a%d=f(%d)' % (k, k) for k in ks]
                use = 'out(' + ','.join('a%d' % k for k in ks[:6] + ks[-3:]) + ')'
                progs.append(pre + kw + ' ' + ','.join(decls) + ';' + use)
                progs.append(pre + ';'.join(kw + ' ' + d for d in decls) + ';' + use)
                progs.append(pre + 'function t(p){' + kw + ' ' + ','.join(decls) + ';' + use + '}t()')
                if kw == 'var':
                    progs.append(pre + 'function t(p){' + ';'.join(('var ' + d) if k % 3 else ('f(-%d);var %s' % (k, d)) for k, d in zip(ks, decls)) + ';' + use + '}t()')
                    progs.append(pre + 'function t(p){for(var i=0;i<1;i++){' + ';'.join('var ' + d for d in decls) + '}' + use + '}t()')
                if quick and kw == 'let':
                    break
        progs.append(pre + ';'.join('f(%d)' % k for k in ks))
        progs.append(pre + 'function t(){' + ';'.join('f(%d)' % k for k in ks) + ';return f(0)}out(t())')
        progs.append(pre + 'out(' + ','.join('f(%d)' % k for k in ks) + ')')
        progs.append(pre + 'out([' + ','.join('f(%d)' % k if k % 7 else '' for k in ks) + '])')
        progs.append(pre + 'out({' + ','.join(('p%d:f(%d)' % (k, k)) if k % 5 else ('[f(%d)]:f(-%d)' % (k, k)) for k in ks) + '})')
        progs.append(pre + 'out({' + ','.join('"%d":f(%d)' % (k % 9, k) for k in ks) + '})')
        progs.append(pre + 'function t(' + ','.join('p%d' % k for k in ks) + '){return p1+p%d}out(t(' % (n // 2) + ','.join('f(%d)' % k for k in ks) + '))')
        progs.append(pre + 'function t(v){switch(v){' + ''.join('case %d:f(%d);%s' % (k, k, 'break;' if k % 4 else '') for k in ks) + 'default:f(0)}}' +
                     ';'.join('t(%d)' % k for k in (1, 4, n // 2, n, n + 1)))
        progs.append(pre + 'function t(v){' + 'else '.join('if(v==%d)return f(%d);' % (k, k) for k in ks) + 'return f(0)}' +
                     'out(' + ','.join('t(%d)' % k for k in (1, 2, n // 2, n, n + 1)) + ')')
        progs.append(pre + 'function t(v){' + ''.join('if(v==%d)return f(%d);' % (k, k) for k in ks) + 'return f(0)}' +
                     'out(' + ','.join('t(%d)' % k for k in (1, 2, n // 2, n, n + 1)) + ')')
        progs.append(pre + 'function t(v){' + ''.join('if(v==%d)f(%d);else ' % (k, k) for k in ks) + 'f(0)}' + ';'.join('t(%d)' % k for k in (1, n // 2, n, n + 1)))
        progs.append(pre + 'var g=f;function t(v){return ' + ''.join('v==%d?%s(%d):' % (k, 'fg'[k % 2], k) for k in ks) + 'out(0)}out(t(1),t(%d),t(%d))' % (n, n + 1))
        progs.append(pre + 'var x=3;out(' + '+'.join(('"s%d"' % k) if k % 4 else 'x' for k in ks) + ')')
        progs.append(pre + 'var x=3;out(' + '+'.join("'%s'" % ('"' if k % 2 else 'q') for k in ks) + ',x+' + '+'.join('"%d"' % k for k in ks) + ')')
        progs.append(pre + 'out((' + ','.join('f(%d)' % k for k in ks) + '))')
        progs.append(pre + 'out(' + '&&'.join('f(%d)' % k for k in ks) + ',' + '||'.join('f(-%d)' % k for k in ks) + ')')
        progs.append(pre + 'class A{' + ''.join(('m%d(){return f(%d)}' % (k, k)) if k % 3 else ('static s%d=f(%d);' % (k, k)) for k in ks) + '}out(new A().m1(),A.s3)')
        progs.append(pre + 'var[' + ','.join('b%d' % k for k in ks) + ']=[' + ','.join('f(%d)' % k for k in ks) + '];out(b1,b%d)' % n)
        progs.append(pre + 'var{' + ','.join('p%d:c%d=f(%d)' % (k, k, k) for k in ks) + '}={p2:0};out(c1,c2,c%d)' % n)
        progs.append(pre + 'out(`' + ''.join('${f(%d)}-' % k for k in ks) + '`)')
        progs.append(pre + 'function t(){' + ''.join('var v%d=f(%d);' % (k, k) if k % 2 else 'v%d=f(%d);' % (k - 1, k) for k in ks) + 'return v1}out(t())')
        progs.append(pre + 'function t(){' + ''.join('try{f(%d)}catch(e%d){f(-%d)}' % (k, k, k) for k in ks[:13]) + '}t()')
    seen = set()
    out = []
    for q in progs:
        if q not in seen:
            seen.add(q)
            out.append(q)
    return out


# ===================================================================================================
# `with` next to renaming: renaming must stay off for everything a with body can see.  An expression-bodied arrow (or other
# construct that switches renaming on for its own body) BEFORE a block scope whose binding is read inside a with body; the
# with-object has properties named like the binding AND like the first short names the renamer hands out.
def with_programs(ctx):
    short = 'etnsoiarcl'
    objprops = ','.join('%s:"%s!"' % (c, c) for c in short)
    arrows = ['', 'var h=x=>x+1;', 'var h=()=>{return 1};', 'var h=(x,y)=>x;h(x=>x);', 'var h=async x=>x;', 'var h=function(q){return q};',
              'var h=x=>{out(x)};', 'var h=x=>y=>x+y;', '[1].map(x=>x);', 'var h={m:x=>x};', 'var h=(x=>x)(1);', 'class K{m(){return 1}}',
              'var h=x=>({a:x});']
    scopes = [
        'for(let item of o.items)with(o)out(item)',
        'for(const item of o.items){with(o){out(item)}}',
        'for(let item in o)with(o){out(item);break}',
        'for(let item=0;item<2;item++)with(o)out(item)',
        '{let item=o.items[0];with(o)out(item)}',
        '{const item=5;with(o)out(item,typeof item)}',
        'try{throw 7}catch(item){with(o)out(item)}',
        'switch(1){case 1:let item=3;with(o)out(item)}',
        '{let item=1;{let inner=2;with(o)out(item,inner)}}',
        'for(let item of o.items){let g=function(){with(o)return item};out(g())}',
        'for(let item of o.items){with(o)out(item);let h2=y=>y;with(o)out(item,h2(1))}',
        'if(o){let item=4;with(o)out(item)}',
        '{class item{};with(o)out(typeof item)}',
        '{function item(){}with(o)out(typeof item)}',
    ]
    progs = []
    for variant in (0, 1, 2):
        for sc in scopes:
            for ar in arrows:
                if ctx.quick() and (variant == 1 or ctx.rnd.random() > 0.1) and ar not in ('var h=x=>x+1;', 'var h=()=>{return 1};'):
                    continue
                oo = 'var o={items:[1,2],%s};' % objprops if variant != 1 else 'var o={items:[1,2],item:"ITEM",inner:"INNER",%s};' % objprops
                body = ar + sc
                if variant == 2:
                    progs.append(oo + 'function t(p){' + body + '}t(1)')
                    progs.append(oo + 'function t(p){' + sc + ';' + ar + '}t(1)')
                else:
                    progs.append(oo + body)
    seen = set()
    out = []
    for q in progs:
        if q not in seen:
            seen.add(q)
            out.append(q)
    return out


# ===================================================================================================
# flow-statement merge matrix: {empty, var-only, let-only, expr} THEN-branch x {return v, return, throw v, break, continue} ELSE-branch
# (and the mirrored form) x following {return, return v, nothing, expr, throw} in functions and in loops; observed by return value
def flowmerge_programs(ctx):
    thens = ['{}', ';', '{;}', '{var v}', '{var v;var u}', '{let l}', 'out(1)', '{out(1)}', '{out(1);out(11)}', '{var v=out(1)}']
    flows_fn = ['return 5', 'return', 'throw 6', 'return out(7)', 'return void 0', '{return 5}', '{out(8);return 9}']
    flows_loop = ['break', 'continue', '{break}', '{out(8);continue}', 'return 5', 'throw 6']
    follows_fn = ['return', 'return 3', '', 'out(4)', 'throw 2', 'return void 0', 'out(4);return', 'var z=1;return z']
    follows_loop = ['', 'out(4)', 'continue', 'break', 'out(4);continue']
    progs = []
    if ctx.quick():
        # quick: the complete product over the short lists (the cells where merges fire), not a random sample
        thens = ['{}', '{var v}', 'out(1)']
        follows_fn = ['return', 'return 3', '', 'out(4)']
        follows_loop = ['', 'out(4)']

    def sm(b):
        return b if b.endswith('}') or b == ';' else b + ';'

    for t in thens:
        for fl in flows_fn:
            for fo in follows_fn:
                bodies = ['if(a)%selse %s' % (sm(t), sm(fl)), 'if(a)%selse %s' % (sm(fl), sm(t))]
                if not ctx.quick():
                    bodies += ['if(!a)%selse %s' % (sm(t), sm(fl)), 'if(a)%s' % sm(fl), 'if(a){}else if(b)%selse %s' % (sm(t), sm(fl))]
                for b in bodies:
                    progs.append('function t(a,b){' + b + fo + '}\nfor(var m=0;m<4;m++){try{out("r",t(m&1,m&2))}catch(e){out("E",e)}}')
        for fl in flows_loop:
            for fo in follows_loop:
                for b in ('if(a)%selse %s' % (sm(t), sm(fl)), 'if(a)%selse %s' % (sm(fl), sm(t))):
                    loops = ('for(var i=0;i<2;i++){%s}', 'var i=0;while(i++<2){%s}', 'var i=0;do{%s}while(i++<1)', 'for(var i of[0,1]){%s}',
                             'x:for(var i=0;i<2;i++){%s}')
                    for loop in (loops[:1] if ctx.quick() else loops):
                        progs.append('function t(a,b){' + (loop % (b + fo)) + 'return i}\nfor(var m=0;m<4;m++){try{out("r",t(m&1,m&2))}catch(e){out("E",e)}}')
    seen = set()
    out = []
    for q in progs:
        if q not in seen:
            seen.add(q)
            out.append(q)
    return out


# ===================================================================================================
# quote-switch matrix: string literals over the alphabet {other quote, backtick, escaped ', escaped ", escaped `, a} for both quote
# kinds, as property names (never a template) and as ordinary strings, compared by VALUE.  Complete up to length 4 (quick) /
# 5 (thorough) over the full alphabet and up to length 6 (quick) / 7 (thorough) over the reduced alphabet {escaped own quote, other
# quote, a} on which the in-place rewriting of dropped escapes and inserted backslashes interacts.
def quote_programs(ctx):
    import itertools
    quick = ctx.quick()
    lits = []
    for q, other in (("'", '"'), ('"', "'")):
        full = [other, '`', "\\'", '\\"', '\\`', 'a']
        red = ['\\' + q, other, 'a']
        for n in range(1, (4 if quick else 5) + 1):
            for t in itertools.product(full, repeat=n):
                lits.append(q + ''.join(t) + q)
        for n in range(1, (6 if quick else 7) + 1):
            for t in itertools.product(red, repeat=n):
                lits.append(q + ''.join(t) + q)
    lits = sorted(set(lits))
    if quick:
        lits = [x for x in lits if len(x) <= 6 or ctx.rnd.random() < 0.5]
    progs = []
    per = 50
    for i in range(0, len(lits), per):
        chunk = lits[i:i + per]
        progs.append('\n'.join('out(Object.keys({%s:1})[0])' % x for x in chunk))
        progs.append('\n'.join('out(%s)' % x for x in chunk))
    return progs


# Printing state (spec/JsPrintCtx.tla, shared with C09): context[ disturber(s), payload ].  The printer carries flags from
# token to token (inFor: `in` must stay parenthesised inside a for-initialiser; expectExpr/groupedStmt; precedence); a
# sub-expression that clears a flag and does not restore it changes how what FOLLOWS is printed.  C09 judges the syntax of
# those programs; here they are EXECUTED: identifiers are bound by a preamble, loops are made finite, and the completion
# (value flow into out(), thrown error class, SyntaxError of the minified text) is compared with the input's.
# (source-text reflection of functions is outside the observation: every function/class stringifies to "F" in both runs)
PRINTCTX_PRE = ('Object.getPrototypeOf(function(){}).toString=function(){return"F"};'
                'var a,d,x,b=function(){return b},c=1,e="e",f={e:1,1:2},g=0;b.c=b;b[1]=b;b["c d"]=b;b.e=1;\n')
PRINTCTX_POST = '\nout(typeof a,typeof d,d===true,d===false,typeof x,x===true,x===false)'


def _spec_set(module, name):
    txt = open(os.path.join(vlib.SPEC, module + '.tla')).read()
    body = txt[txt.index(name + ' == {'):]
    body = body[:body.index('\n}')]
    return re.findall(r'^\s*"([^"]*)"', body, re.M)


def printctx_programs(ctx):
    cset, dset, pset = (_spec_set('JsPrintCtx', n) for n in ('Contexts', 'Disturbers', 'Payloads'))
    rnd, quick = ctx.rnd, ctx.quick()
    usable = []
    for c in cset:
        if c.startswith(('while(', 'do ', 'export ')) or c == 'for(var a=@D;d=@P;)c()':
            continue                                 # would not terminate with truthy operands / module-only
        usable.append(c.replace(';;);', ';;)break;').replace('for(;;);', 'for(;;)break;'))
    hasin = lambda t: ' in ' in t.replace("'in", "' in").replace('in(', 'in (')
    hot = [(c, [d], p) for c in usable if 'for(' in c for d in dset for p in pset if hasin(p)]
    cold = [(c, [d], p) for c in usable for d in dset for p in pset if not ('for(' in c and hasin(p))]
    two = [(rnd.choice(usable), [rnd.choice(dset), rnd.choice(dset)], rnd.choice(pset)) for _ in range(600 if quick else 4000)]
    chosen = (vlib.sample(hot, 1400, rnd) + vlib.sample(cold, 700, rnd) + two) if quick else (hot + vlib.sample(cold, 9000, rnd) + two)
    bodies = sorted(set(c.replace('@D', '+'.join(ds)).replace('@P', p) for c, ds, p in chosen))
    # known finding C09 K14 (optional chain as template tag loses its parentheses) is pinned there, not re-reported here
    bodies = [b for b in bodies if not excluded(b) and not re.search(r'\?\.[^`;]*\)+`', b)]
    ok = valid_js(ctx, bodies)
    return [PRINTCTX_PRE + b + PRINTCTX_POST for b, v in zip(bodies, ok) if v]


# Re-quoted string literals (spec/JsStrQuote.tla, shared with C09 which judges the syntax): here the VALUE is observed.
# x0=Q..Q;x1=Q..Q;... (8 per program; the globals are part of the observation), quick: a seeded quarter + every hot state.
def strquote_value_programs(ctx):
    import c09
    progs = [p.decode('latin1') for p in c09.strquote_programs(ctx.rnd, False)]
    if ctx.quick():
        hot = [p for p in progs if re.search(r'(\$|24\}?|44)(\\?\{|\\x7b|\\u007B|\\u\{7b\})', p)]
        progs = sorted(set(hot + [p for p in progs if ctx.rnd.random() < 0.25]))
    progs = [p for p in progs if not excluded(p)]
    ok = valid_js(ctx, progs)
    progs = [p for p, v in zip(progs, ok) if v]
    out = []
    for i in range(0, len(progs), 8):
        out.append('\n'.join('x%d=%s' % (k, p[2:]) for k, p in enumerate(progs[i:i + 8])))
    return out


def families(ctx, exe):
    quick = ctx.quick()
    rnd = ctx.rnd

    def some(lst, frac):
        return lst if not quick else [x for x in lst if rnd.random() < frac]

    fams = []
    fams.append(dict(name='tests', sources=some(test_variants(ctx), 0.08), nenv=4 if quick else 6, probe=1))
    fams.append(dict(name='structural', sources=some(structural_programs(ctx), 0.04), nenv=4 if quick else 6, probe=1))
    fams.append(dict(name='precedence', sources=precedence_matrix(ctx), nenv=1, probe=0, batched=True))
    fams.append(dict(name='literals', sources=literal_programs(ctx), nenv=1, probe=1, batched=True))
    fams.append(dict(name='asi', sources=some(asi_programs(ctx), 0.09), nenv=3 if quick else 5, probe=1))
    fams.append(dict(name='nesting', sources=nesting_programs(ctx), nenv=1, probe=0))
    fams.append(dict(name='flowmerge', sources=flowmerge_programs(ctx), nenv=1, probe=0))
    fams.append(dict(name='quotes', sources=quote_programs(ctx), nenv=1, probe=0, batched=True))
    fams.append(dict(name='scaling', sources=scaling_programs(ctx), nenv=1, probe=0))
    fams.append(dict(name='with', sources=with_programs(ctx), nenv=1, probe=0))
    fams.append(dict(name='strquote', sources=strquote_value_programs(ctx), nenv=1, probe=0, batched=True))
    fams.append(dict(name='printctx', sources=printctx_programs(ctx), nenv=1, probe=0))
    fams.append(dict(name='corpus', sources=corpus_programs(ctx), nenv=3 if quick else 4, probe=1))
    return fams
