"""C16  Options only restrict minification and are honoured.

MC : spec/OptGen.tla - the option product of every minifier crossed with fragment sequences;
     TLC checks that every generated document is discriminating for every active option
     (no relation antecedent is vacuous) and its state dump / -simulate walks ARE the test cases.
     spec/CliFlagsGen.tla - the documented flag table of cmd/minify, every flag and flag pair.
     spec/NumGen.tla (shared) - number lexemes for the Precision / KeepNumbers slots.
RUN: harness/cmd/c16 calls the real minifiers through the registry (as cmd/minify builds it)
     under the configuration, and the real `minify` binary for the flag cases; input and output
     are projected to token streams by independent tokenizers (x/net/html, encoding/xml, acorn
     via js/c16_features.js, small JSON / CSS lexers).
TV : spec/C16Trace.tla evaluates the option relations of spec/Options.tla on every line,
     spec/CliFlagsTrace.tla the relations of spec/CliFlags.tla.
"""
import json
import os
import random
import re
import time
from concurrent.futures import ThreadPoolExecutor

import vlib

LANGS = ['html', 'xml', 'json', 'css', 'svg', 'js']
MAX_ISOLATED = 16
DELIMS = {0: [], 1: ['<%', '%>'], 2: ['<?', '?>'], 3: ['{{', '}}']}

# ---- fragment table (identifiers and guard sets are defined in spec/OptGen.tla) -----------------
# {O} {C}: template delimiters of the configuration; %N: number lexeme (language specific pool),
# %P: unsigned number lexeme
FRAG = {
    'html': {
        'p': '<p>one</p><p>two</p>',
        'ptxt': '<p>x</p>tail ',
        'ul': '<ul><li>a</li> <li>b</li></ul>',
        'table': '<table><thead><tr><th>h</th></tr></thead><tbody><tr><td colspan="1">c</td>'
                 '<td rowspan=1 class="k">d</td></tr></tbody></table>',
        'dl': '<dl><dt>t</dt><dd>d</dd></dl>',
        'sel': '<select name="s"><optgroup label="g"><option value="1">o1</option><option>o2</option></optgroup></select>',
        'ruby': '<ruby>k<rp>(</rp><rt>r</rt><rp>)</rp></ruby>',
        'inl': 'x <b>y</b> <i>z</i> w',
        'span': ' <span> s </span> ',
        'emp': 'a <em></em> b',
        'blk': '<div> a </div> <div> b </div>',
        'nl': 'l1\n <b>bold</b>\n l2',
        'img': '<img src="i.png" alt=""> <input type="text" value="v" disabled="disabled"> t',
        'cmt': '<!-- plain -->',
        'cmtws': 'a <!-- c --> b',
        'cc': '<!--[if IE 6]><p>ie  x</p><![endif]-->',
        'ccrev': '<![if !IE]><em>n</em><![endif]>',
        'ssi': '<!--#include file="h.html" -->',
        'script': '<script type="text/javascript">var a = 1;</script>',
        'style': '<style type="text/css" media="all">a { color: red }</style>',
        'link': '<link type="text/css" rel="stylesheet" href="s.css">',
        'form': '<form method="get" action="a" enctype="application/x-www-form-urlencoded">'
                '<button type="submit">ok</button></form>',
        'aq': '<a href="http://x/y" class="k" title=\'t t\'>l</a> m',
        'auq': '<a id=i class=c href=u>l</a>',
        'area': '<map name="m"><area shape="rect" coords="0,0,1,1" href="u"></map>',
        'col': '<table><colgroup><col span="1"></colgroup><tr><td>x</td></tr></table>',
        'pre': '<pre>  p  \n q </pre>',
        'ta': '<textarea> t  t </textarea>',
        'ent': 'a &amp; b &lt; c',
        'br': 'x<br> y',
        'h': '<h1> T <small>s</small> </h1>',
        'styleattr': '<p style="color: red" class="k">s</p>',
        'onattr': '<p onclick="x()" class="k">e</p><button type="button" onclick=\'return false\'>b</button>',
        # KeepWhitespace next to every element html.go treats specially for white space: text on both sides, with blanks
        'kw_template': 'a <template>x</template> b',
        'kw_noscript': 'a <noscript>x</noscript> b',
        'kw_pre': 'a <pre> p  q </pre> b',
        'kw_textarea': 'a <textarea> t </textarea> b',
        'kw_br': 'a <br> b',
        'kw_select': 'a <select><option>o</option></select> b',
        'kw_span': 'a <span>x</span> b',
        'kw_div': 'a <div>x</div> b',
        'kw_img': 'a <img src="i.png" alt=""> b',
        'kw_button': 'a <button type="button">k</button> b',
        'kw_script': 'a <script>var s=1</script> b',
        'kw_style': 'a <style>s{top:0}</style> b',
        'kw_iframe': 'a <iframe src="f.html"></iframe> b',
        'kw_label': 'a <label>x</label> b',
        'kw_custom': 'a <my-el>x</my-el> b',
        'kw_code': 'a <code> c </code> b',
        'kw_q': 'a <q>x</q> b',
        'kw_ins': 'a <ins>x</ins> b',
        'tstmt': '{O} if  x {C}<p>y</p>{O}  end {C}',
        'tattr': '<a href="{O}= u {C}" class="k" title="{O}  t  {C}">t</a>',
        'tmix': 'a {O}  x  {C} b <b>{O}y{C}</b>',
    },
    'xml': {
        'mix': '<p>The <em>quick</em> <b>brown</b> fox</p>',
        'nest': '<a> x <b>y</b> z </a>',
        'cm': '<a>p <!-- c --> q</a>',
        'cd': '<a> <![CDATA[ x ]]> </a>',
        'pi': '<a> <?pi x?> t</a>',
        'attr': '<a k="v  w" j=\'s\'> t </a>',
        'nl': '<r>\n  <i>1</i>\n  <i>2</i>\n</r>',
        'void': '<a> u <b/> v <c></c> w </a>',
        'ent': '<a> x &amp; y &#65; </a>',
        'tight': '<a><b>1</b><c>2</c></a>',
        'wsonly': '<a> u <c> </c> v<d>\n</d></a>',
    },
    'json': {
        'arr': '[ %N , %N ]',
        'obj': '{"a": %N, "b": {"c": [%N]}}',
        'top': '%N',
        'mixed': '["1.500", %N, true, null, "x"]',
        'neg': '{ "x" : -%P }',
        'nonum': '{"k": "v", "l": [true, false, null]}',
    },
    'css': {
        'w': 'a{width:%Npx}',
        'two': 'b { margin-left : %Nem ; line-height : %N }',
        'pct': 'c{top:%N%}',
        'fn': 'd{transform:scale(%N)}',
        'big': 'e{width:1000000px;height:%Npx}',
        'small': 'f{left:0.00001em}',
        'transp': 'g{background-color:transparent}',
        'zidx': 'h{z-index:10}',
        'media': '@media (min-width:%Ppx){i{left:%Npx}}',
        'color': 'j{color:#ff0000}',
        # regression (fixed d86a82e): leading-zero mantissa x exponent too large for Number, as dimension / percentage / number
        'bigexp': 'k{width:04E338353804338273503554px;height:03E61251115074035972130px;top:05e12345678901234567890%;'
                  'line-height:0.5e1234567890123456789012;left:%Ne9223372036854775808px;bottom:00.25E-1234567890123456789em}',
    },
    'svg': {
        'rect': '<rect x="%N" y="%Npx" width="%P" height="%Pem"/>',
        'circle': '<circle cx="%N" cy="%N" r="%P"/>',
        'cmt': '<!-- note -->',
        'gcmt': '<g><!-- c2 --><text x="%N" y="%N">t</text></g>',
        'unit': '<line x1="%N%" y1="%Ncm" x2="%N" y2="%NPX"/>',
        'text': '<text>hello  world</text>',
        'vb': '<symbol id="s" viewBox="%N %N %P %P"><rect width="%P"/></symbol>',
        'poly': '<polygon points="%N,%N %N,%N %N,%N"/>',
        'bigexp': '<rect x="04E338353804338273503554" y="03e61251115074035972130px" width="0.5e1234567890123456789012"/>',
    },
    'js': {
        'nullish': 'var alpha = beta == null ? gamma : beta;',
        'optchain': 'var delta = (beta === null || beta === undefined) ? undefined : beta.prop;',
        'catch': 'try { risky() } catch (problem) { recover() }',
        'tmpl': 'var text = "say \\"hi\\" and \'ho\'";',
        'fn': 'function outer(first, second) { var local = first + second; return local * 2 }',
        'closure': 'var make = function (seed) { var count = seed; return function inner(step) '
                   '{ count += step; return count } };',
        'hoist': 'function hoisted(param) { var one = param; if (one) { var two = one + 1; return two } '
                 'var three = 3; return three }',
        'num': 'var number = %P;',
        'nums': 'var list = [%P, %P, -%P];',
        'arrow': 'var arrowed = (left, right) => left + right;',
        'letc': '{ let block = 1; const fixed = block + 1; use(fixed) }',
        'cls': 'class Shape$ { constructor(size) { this.size = size } area() { return this.size } }',
        'in2020': 'var already = beta ?? gamma?.prop;',
        'cond': 'if (flag) { run() } else { stop() }',
        'loop': 'function looper(limit) { var total = 0; for (var index = 0; index < limit; index++) '
                '{ total += index } while (total > 10) { total-- } return total }',
        'obj': 'var record = { key: value, "other": 1, method: function () { return 1 } };',
        'str': 'var plain = \'it\\\'s "q"\';',
        'pow': 'var power = Math.pow(alpha, 2) + Math.pow(beta, gamma);',
        # things that are NOT numeric literals and must not change under Precision
        'strkey': 'lookup["12345"] = lookup["1.2345"] + lookup["0.000123456"]; var table = { "67891": %P, plain: lookup["98765.4321"] };',
        'strdig': 'var digits = "3.14159 and 12345.678"; var quoted = \'0.000123456\'; label12345: for (;;) { break label12345 }',
        'tpldig': 'var templ = `v${%P}:12345.678 ${beta}`;',
        'bigint': 'var huge = 12345678901234567890n + %P;',
        'optkey': 'var picked = lookup?.["12345"] ?? other.p12345678;',
        'short': 'function pack(alpha, beta) { return { alpha: alpha, beta: beta, other: alpha } }\nvar shown = { gamma: gamma };',
    },
}

# rich inputs for the command line table: each contains the constructs of every option of its language
RICH = {
    'html': ['<!doctype html><html><head><title>T</title></head><body><!-- c --><!--[if IE 6]><p>ie</p><![endif]-->'
             '<ul><li>a</li> <li>b</li></ul><p>x <b>y</b> <i>z</i> w</p>'
             '<form method="get" action="a"><input type="text" name="n" class="k"></form></body></html>',
             '<html><body>\n<!-- c -->\n<![if !IE]><em>n</em><![endif]>\n<table><tr><td colspan="1">c</td></tr></table>\n'
             '<a href="u" title="t t">l</a> <span> s </span> <script type="text/javascript">var a = 1;</script>\n'
             '<!--[if IE]>x<![endif]--></body></html>'],
    'xml': ['<doc> <a> x <b>y</b> z </a> <p>The <em>quick</em> fox</p> </doc>',
            '<?xml version="1.0"?>\n<doc>\n  <i>1</i>\n  <i> 2 </i>\n</doc>\n'],
    'json': ['{"a": 1.23456789, "b": [100000, 0.000123456, 3.14159]}', '[ 12345.6789 , 1000000 , 2.50 ]'],
    'css': ['a{width:1.23456px;height:0.000123456em;top:12.3456%}', 'b { margin-left : 3.14159em ; line-height : 1.23456 }'],
    'svg': ['<svg xmlns="http://www.w3.org/2000/svg"><!-- note --><rect x="1.23456" y="0.000123456" width="12.3456" height="5"/></svg>',
            '<svg xmlns="http://www.w3.org/2000/svg"><g><!-- c2 --><circle cx="3.14159" cy="2.71828" r="1.41421"/></g></svg>'],
    'js': ['function outer(first, second) { var local = first + second; return local * 3.14159 }\n'
           'var alpha = beta == null ? gamma : beta; try { risky() } catch (problem) { recover() }\n'
           'var text = "say \\"hi\\" and \'ho\'"; var number = 0.000123456;',
           'var make = function (seed) { var count = seed * 1.23456; return function inner(step) { count += step; return count } };\n'
           'var delta = (beta === null || beta === undefined) ? undefined : beta.prop; var q = "a\\"b\'c"; '
           'try { x() } catch (err) { }'],
}

HAND_NUMBERS = ['04E338353804338273503554', '03E61251115074035972130', '0.5e9223372036854775808', '00.25E-12345678901234567890',
                '007e1234567890123456789', '3.14159265358979', '0.000123456789', '123456.789', '99.95', '0.0999', '1234567890123', '1e21',
                '2.5e-7', '100000', '0.5', '12.3456e3', '0.00001', '9.9999', '14.9', '495.1', '1.00', '0.10',
                '123456789012345678', '0.123456789012345678', '5e-324', '1.5', '10', '0', '0.0', '1000', '1e3',
                '271828.1828', '4.4445', '0.95', '9.5', '19.99', '1234.5', '0.045', '7', '45000', '1.0e10']

NUM_RE = {
    'json': re.compile(r'^-?(0|[1-9]\d*)(\.\d+)?([eE][+-]?\d+)?\Z'),
    'css': re.compile(r'^[+-]?(\d+\.\d+|\d+|\.\d+)([eE][+-]?\d+)?\Z'),
    'svg': re.compile(r'^[+-]?(\d+\.\d+|\d+|\.\d+)([eE][+-]?\d+)?\Z'),
    'js': re.compile(r'^((0|[1-9]\d*)(\.\d*)?([eE][+-]?\d+)?|\.\d+([eE][+-]?\d+)?)\Z'),
}

# rows of CliFlags!TypeTable (type, mimetype) in table order; the lang comes from the TLC state
TYPE_ROWS = [('css', 'text/css'), ('htm', 'text/html'), ('html', 'text/html'), ('js', 'application/javascript'),
             ('json', 'application/json'), ('mjs', 'application/javascript'), ('rss', 'application/rss+xml'),
             ('svg', 'image/svg+xml'), ('webmanifest', 'application/manifest+json'), ('xhtml', 'application/xhtml+xml'),
             ('xml', 'text/xml')]

BOOL_OPTS = ['KeepComments', 'KeepConditionalComments', 'KeepSpecialComments', 'KeepDefaultAttrVals',
             'KeepDocumentTags', 'KeepEndTags', 'KeepQuotes', 'KeepWhitespace', 'KeepCSS2', 'KeepVarNames', 'KeepNumbers']


def default_opts():
    o = {k: False for k in BOOL_OPTS}
    o.update(Delims=[], Precision=0, Version=0)
    return o


_MC = []
NOT_JUDGED = [0]


def mc(ctx, module, cfg, **kw):
    """exhaustive TLC run that must pass (as vlib.tlc_mc); statistics are added to the evidence by
    the main thread (the generators run side by side)"""
    r = vlib.tlc(ctx, module, cfg, **kw)
    if r['invariant_violations'] or r['errors'] or not r['completed']:
        raise vlib.Infra('design-level model checking of %s/%s did not pass:\n%s' % (module, cfg, r['out'][-3000:]))
    _MC.append(r)
    return r


# ---- TLC output parsing ---------------------------------------------------------------------
def parse_states(text):
    """states of a TLC -dump file or a -simulate trace file: list of {var: raw text}"""
    out = []
    for block in re.split(r'^(?:State \d+:|STATE_\d+ ==)\s*$', text, flags=re.M)[1:]:
        st = {}
        for m in re.finditer(r'^/\\ (\w+) = (.*?)(?=^/\\ |^\s*$|^\\\*|^=+|\Z)', block, flags=re.M | re.S):
            st[m.group(1)] = m.group(2).strip()
        if st:
            out.append(st)
    return out


def strs(raw):
    return re.findall(r'"([^"]*)"', raw)


def lexeme_pool(ctx):
    """number lexemes: every lexeme of NumGen up to its bound (TLC state dump), lexemes met on
    -simulate walks (long digit strings for the higher precisions), and a hand list"""
    dump = ctx.path('gen', 'num')
    r = mc(ctx, 'NumGen', 'NumGen_c16.cfg', dump=dump, workers=2, timeout=600)
    lex = set()
    for st in parse_states(open(dump + '.dump').read()):
        if int(st['st']) in (2, 3, 4, 8):
            lex.add(bytes(vlib.tla_seq_to_list(st['lex'])).decode())
    n_exh = len(lex)
    simdir = os.path.dirname(ctx.path('numsim', 'x'))
    rs = vlib.tlc(ctx, 'NumGen', 'NumGen_sim.cfg', workers=1, simulate='file=%s/b,num=%d' % (simdir, 40 if ctx.quick() else 300),
                  depth=24, seed=ctx.seed, timeout=600)
    if rs['errors']:
        raise vlib.Infra('NumGen simulate failed: ' + rs['out'][-1500:])
    for fn in sorted(os.listdir(simdir)):
        for st in parse_states(open(os.path.join(simdir, fn)).read()):
            if int(st['st']) in (2, 3, 4, 8) and len(vlib.tla_seq_to_list(st['lex'])) >= 6:
                lex.add(bytes(vlib.tla_seq_to_list(st['lex'])).decode())
    lex.update(HAND_NUMBERS)
    ctx.coverage['number_lexemes'] = len(lex)
    ctx.coverage['number_lexemes_exhaustive'] = n_exh
    pools = {}
    for lang, rx in NUM_RE.items():
        ok = sorted(x for x in lex if rx.match(x))
        pools[lang] = dict(N=ok, P=[x for x in ok if x[0] not in '+-'])
    return pools


def state_case(st):
    return dict(lang=strs(st['lang'])[0], on=strs(st['on']), dl=int(st['dl']), wrap=int(st['wrap']),
                ver=int(st['ver']), prec=int(st['prec']), fr=strs(st['fr']), inp=strs(st['inp']))


def gen_states(ctx):
    cfg = 'OptGen_quick.cfg' if ctx.quick() else 'OptGen_thorough.cfg'
    dump = ctx.path('gen', 'opt')
    r = mc(ctx, 'OptGen', cfg, dump=dump, workers=4, heap='4g', timeout=1500)
    exh = [state_case(s) for s in parse_states(open(dump + '.dump').read())]
    exh = [s for s in exh if s['fr']]
    ctx.coverage['generator_states'] = r['distinct']
    simdir = os.path.dirname(ctx.path('optsim', 'x'))
    nsim = 100 if ctx.quick() else 2500
    rs = vlib.tlc(ctx, 'OptGen', 'OptGen_sim.cfg', workers=1, simulate='file=%s/b,num=%d' % (simdir, nsim),
                  depth=8, seed=ctx.seed, timeout=900)
    if rs['errors'] or rs['invariant_violations']:
        raise vlib.Infra('OptGen simulate failed: ' + rs['out'][-1500:])
    sim = []
    for fn in sorted(os.listdir(simdir)):
        for s in parse_states(open(os.path.join(simdir, fn)).read()):
            c = state_case(s)
            if len(c['fr']) >= 2:
                sim.append(c)
    return exh, sim


def select(ctx, exh, sim):
    """a seeded, stratified part of the exhaustive product: every boolean configuration with every
    single fragment first, then the rest up to the quota (thorough: everything for xml/json/css/svg)"""
    if ctx.quick():
        quota = dict(html=2600, js=1200, css=800, json=500, svg=500, xml=250)
    else:
        quota = dict(html=110000, js=60000, css=10**9, json=10**9, svg=10**9, xml=10**9)
    out = []
    for lang in LANGS:
        part = [s for s in exh if s['lang'] == lang]
        ctx.rnd.shuffle(part)
        seen, first, rest = set(), [], []
        for s in part:
            k = (tuple(s['on']), s['ver'], s['prec'] if lang != 'js' else 0, s['fr'][0] if len(s['fr']) == 1 else None)
            if k[-1] is not None and k not in seen:
                seen.add(k)
                first.append(s)
            else:
                rest.append(s)
        q = quota[lang]
        out += first[:q] + rest[:max(0, q - len(first))]
    return out + sim


HTML_BITS = ['KeepComments', 'KeepSpecialComments', 'KeepDefaultAttrVals', 'KeepDocumentTags', 'KeepEndTags',
             'KeepQuotes', 'KeepWhitespace']          # bit order of spec/OptDesign.tla (Opt)
DESIGN_BRANCHES = 18
DESIGN_FAULTS = ['ws', 'wsblock', 'ssi', 'doc', 'defaults', 'quotes', 'endtag', 'crosstalk']


def render_sym(toks):
    """bytes of one symbol of OptDesign!Sigma (a start tag brings its attributes)"""
    out, open_tag = '', False
    for t in toks:
        if t['k'] != 'A' and open_tag:
            out += '>'
            open_tag = False
        if t['k'] == 'S':
            out += '<' + t['n']
            open_tag = True
        elif t['k'] == 'A':
            q = {0: '', 1: '', 2: '"', 3: "'"}[t['q']]
            out += ' ' + t['n'] + ('' if t['q'] == 0 else '=' + q + t['v'] + q)
        elif t['k'] == 'E':
            out += '</' + t['n'] + '>'
        elif t['k'] == 'T':
            out += bytes(t['b']).decode()
        elif t['k'] == 'C':
            out += '<!--' + bytes(t['b']).decode() + '-->'
    return out + ('>' if open_tag else '')


def design(ctx):
    """spec/OptDesign.tla: D => A over every symbol sequence x option set (TLC), the seeded design
    faults (thorough), and its state space as documents for the real code"""
    dump = ctx.path('gen', 'design')
    # quick: <= 2 symbols x a strength-3 covering array of the 2^7 option sets; thorough: <= 2 symbols x all 128
    # option sets (dumped: documents for the real code) and <= 3 symbols x the covering array
    r = mc(ctx, 'OptDesign', 'OptDesign_quick.cfg' if ctx.quick() else 'OptDesign_mid.cfg', dump=dump, workers=4, heap='4g', timeout=1500)
    m = re.search(r'<<"SIGMA", "(.*)">>', r['out'])
    if not m:
        raise vlib.Infra('OptDesign did not print its alphabet')
    sigma = json.loads(json.loads('"' + m.group(1) + '"'))
    branches = set(re.findall(r'"([a-z-]+)"', ' '.join(re.findall(r'<<"BRANCH", \{([^}]*)\}>>', r['out']))))
    info = dict(design_states=r['distinct'], design_branches_taken=len(branches))
    if len(branches) != DESIGN_BRANCHES:
        raise vlib.Infra('design model: %d of %d branches taken: %s' % (len(branches), DESIGN_BRANCHES, sorted(branches)))
    states = [(int(st['bits']), vlib.tla_seq_to_list(st['syms'])) for st in parse_states(open(dump + '.dump').read())]
    states = [x for x in states if x[1]]
    simdir = os.path.dirname(ctx.path('dessim', 'x'))
    rs = vlib.tlc(ctx, 'OptDesign', 'OptDesign_sim.cfg', workers=1, simulate='file=%s/b,num=%d' % (simdir, 80 if ctx.quick() else 1500),
                  depth=7, seed=ctx.seed, timeout=900)
    if rs['errors'] or rs['invariant_violations']:
        raise vlib.Infra('OptDesign simulate failed: ' + rs['out'][-1500:])
    sim = []
    for fn in sorted(os.listdir(simdir)):
        for st in parse_states(open(os.path.join(simdir, fn)).read()):
            sy = vlib.tla_seq_to_list(st['syms'])
            if len(sy) >= 3:
                sim.append((int(st['bits']), sy))
    if not ctx.quick():
        r3 = mc(ctx, 'OptDesign', 'OptDesign_thorough.cfg', workers=min(8, vlib.JOBS), heap='6g', timeout=2400)
        info['design_states_thorough'] = r3['distinct']
        killed = []
        for f in DESIGN_FAULTS:
            rf = vlib.tlc(ctx, 'OptDesign', 'OptDesign_fault_%s.cfg' % f, workers=2, timeout=600)
            if 'Refines' in rf['invariant_violations']:
                killed.append(f)
        info['design_faults_killed'] = killed
        if len(killed) != len(DESIGN_FAULTS):
            raise vlib.Infra('the option relations do not reject the seeded design faults %s'
                             % sorted(set(DESIGN_FAULTS) - set(killed)))
    return sigma, states, sim, info


PREC_FAULTS = ['trunc', 'short', 'digit']


def prec_design(ctx):
    """spec/PrecDesign.tla: the Precision relation accepts half-up rounding built digit by digit for every
    lexeme x precision in the bound, and (thorough) rejects truncation / one digit less / a changed digit"""
    r = mc(ctx, 'PrecDesign', 'PrecDesign_quick.cfg' if ctx.quick() else 'PrecDesign_thorough.cfg', workers=2, timeout=1500)
    info = dict(precision_design_states=r['distinct'])
    if not ctx.quick():
        killed = [f for f in PREC_FAULTS
                  if 'Rounds' in vlib.tlc(ctx, 'PrecDesign', 'PrecDesign_fault_%s.cfg' % f, workers=1, timeout=600)['invariant_violations']]
        info['precision_faults_killed'] = killed
        if len(killed) != len(PREC_FAULTS):
            raise vlib.Infra('PrecisionOK does not reject the seeded rounding faults %s' % sorted(set(PREC_FAULTS) - set(killed)))
    return info


def design_cases(ctx, sigma, states, sim):
    quota = 1500 if ctx.quick() else 40000
    pick = vlib.sample(states, quota, ctx.rnd) + sim
    out = []
    for bits, syms in pick:
        o = default_opts()
        for i, name in enumerate(HTML_BITS):
            o[name] = bool((bits >> i) & 1)
        out.append(dict(mode='lib', lang='html', o=o, flags=[], exp=dict(syms=syms),
                        **{'in': ''.join(render_sym(sigma[k - 1]) for k in syms)}))
    return out


SUITE_CFG = [(5, True), (2015, False), (2016, True), (2018, False), (2019, True), (2020, False), (2021, True), (0, True)]


def suite_cases(ctx):
    """the repository's own JS test inputs under Version x KeepVarNames (judged on those two clauses)"""
    ins = []
    for r in vlib.test_inputs(ctx, 'js'):
        if r['func'] in ('TestJS', 'TestJSVarRenaming') and r['strings'] and r['strings'][0] not in ins:
            ins.append(r['strings'][0])
    out = []
    for s in ins:
        for v, kv in SUITE_CFG:
            out.append(dict(mode='lib', lang='js', o=dict(default_opts(), Version=v, KeepVarNames=kv), flags=[],
                            exp=dict(suite=True), **{'in': s}))
    if ctx.quick():
        out = vlib.sample(out, 400, ctx.rnd)
    return out


def fill(tpl, pools, rnd):
    def sub(m):
        return rnd.choice(pools[m.group(1)])
    return re.sub(r'%([NP])', sub, tpl)


def render(case, pools, rnd):
    lang = case['lang']
    parts = []
    occ = {}
    for fid in case['inp']:
        t = FRAG[lang][fid]
        occ[fid] = occ.get(fid, 0) + 1
        t = t.replace('$', '' if occ[fid] == 1 else str(occ[fid]))      # redeclarable names only once
        if lang == 'html':
            d = DELIMS[case['dl']]
            if d:
                t = t.replace('{O}', d[0]).replace('{C}', d[1])
        else:
            t = fill(t, pools.get(lang, {}), rnd)
        parts.append(t)
    if lang == 'html':
        body = ''.join(parts)
        if case['wrap'] == 1:
            return '<!doctype html><html><head><title>T</title></head><body>' + body + '</body></html>'
        if case['wrap'] == 2:
            return ('<!DOCTYPE html>\n<html lang="en">\n<head>\n<meta charset="utf-8">\n</head>\n<body class="c">\n'
                    + body + '\n</body>\n</html>\n')
        return body
    if lang == 'xml':
        if case['wrap'] == 1:
            return '<?xml version="1.0" encoding="UTF-8"?>\n<doc>\n' + '\n'.join(parts) + '\n</doc>\n'
        return '<doc>' + ''.join(parts) + '</doc>'
    if lang == 'json':
        return parts[0] if len(parts) == 1 else '[' + ', '.join(parts) + ']'
    if lang == 'css':
        return '\n'.join(parts)
    if lang == 'svg':
        return '<svg xmlns="http://www.w3.org/2000/svg" width="100" height="100">' + ''.join(parts) + '</svg>'
    return '\n'.join(parts)


def opts_of(case):
    o = default_opts()
    for k in case['on']:
        o[k] = True
    o['Delims'] = DELIMS[case['dl']]
    o['Precision'] = case['prec']
    o['Version'] = case['ver']
    return o


def ident(c):
    """identity of a witness: language, the non-default options, the exact input"""
    d = default_opts()
    r = dict(lang=c['lang'], mode=c['mode'], o={k: v for k, v in c['o'].items() if v != d[k]},
             flags=c.get('flags', []), **{'in': c['in']})
    if c.get('typeargs'):
        r.update(typeargs=c['typeargs'], exp=c['exp'])
    return r


def cli_cases(ctx):
    dump = ctx.path('gen', 'cli')
    mf = 'CliFlagsGen.cfg' if ctx.quick() else 'CliFlagsGen_thorough.cfg'
    mc(ctx, 'CliFlagsGen', mf, dump=dump, workers=2, timeout=600)
    out = []
    for st in parse_states(open(dump + '.dump').read()):
        fl = re.findall(r'\[flag \|-> "([^"]+)", val \|-> (\d+)\]', st['fl'])
        op = re.findall(r'\[opt \|-> "([^"]+)", val \|-> (\d+)\]', st['opts'])
        if int(st['ty']) > 0:                       # a row of the documented type table
            row = TYPE_ROWS[int(st['ty']) - 1]
            how = int(st['how'])
            arg = row[0] if how == 1 else row[1]
            out.append(dict(mode='cli', lang=strs(st['lang'])[0], o=default_opts(), flags=[],
                            typeargs=[('--mime=' if how == 3 else '--type=') + arg],
                            exp=dict(ty=int(st['ty']), how=how, arg=arg), **{'in': RICH[strs(st['lang'])[0]][int(st['inp']) - 1]}))
            continue
        if not fl:
            continue
        lang = strs(st['lang'])[0]
        o = default_opts()
        for name, val in op:
            o[name] = (int(val) == 1) if name in BOOL_OPTS else int(val)
        flags = []
        for (f, v), (name, _) in zip(fl, op):
            flags.append('--' + f if name in BOOL_OPTS else '--%s=%s' % (f, v))
        out.append(dict(mode='cli', lang=lang, o=o, flags=flags, exp=dict(fl=[dict(flag=f, val=int(v)) for f, v in fl]),
                        **{'in': RICH[lang][int(st['inp']) - 1]}))
    # the table of spec/CliFlags.tla covers every minifier flag of the usage text in cmd/minify/README.md
    table = set(c['exp']['fl'][0]['flag'] for c in out if len(c['flags']) == 1 and 'fl' in c['exp'])
    readme = open(os.path.join(vlib.REPO, 'cmd', 'minify', 'README.md')).read()
    documented = set(re.findall(r'^\s+--((?:css|html|js|json|svg|xml)-[a-z0-9-]+)', readme, flags=re.M))
    if not documented or documented - table:
        raise vlib.Infra('spec/CliFlags.tla lacks documented flags: %s' % sorted(documented - table))
    return out


# ---- running ------------------------------------------------------------------------------------
def run_driver(ctx, exe, cli, cases, tag):
    cin = ctx.path('run', tag + '-cases.ndjson')
    tout = ctx.path('run', tag + '-trace.ndjson')
    for i, c in enumerate(cases):
        c['id'] = i
    vlib.write_ndjson(cin, cases)
    vlib.run([exe, cin, tout, cli], timeout=3000)
    lines = [l.rstrip('\n') for l in open(tout) if l.strip()]
    js = [i for i, c in enumerate(cases) if c['lang'] == 'js' and c['mode'] == 'lib']
    if js and len(lines) == len(cases):
        nproc = max(1, min(vlib.JOBS, len(js) // 400 + 1))

        def annotate(k):
            part = js[k::nproc]
            a, b = ctx.path('run', '%s-js%d.in' % (tag, k)), ctx.path('run', '%s-js%d.out' % (tag, k))
            vlib.write_ndjson(a, [lines[i] for i in part])
            vlib.run(['node', '--expose-internals', os.path.join(vlib.ROOT, 'js', 'c16_features.js'), a, b], timeout=3000)
            res = [l.rstrip('\n') for l in open(b) if l.strip()]
            if len(res) != len(part):
                raise vlib.Infra('node runner wrote %d lines for %d' % (len(res), len(part)))
            return part, res
        with ThreadPoolExecutor(max_workers=nproc) as ex:
            for part, res in ex.map(annotate, range(nproc)):
                for i, l in zip(part, res):
                    lines[i] = l
    if len(lines) != len(cases):
        raise vlib.Infra('driver wrote %d lines for %d cases' % (len(lines), len(cases)))
    return lines


def validate(ctx, exe, cli, cases, tag):
    """run the cases on the real code and let TLC judge every line; returns (events, accepted, rejects)"""
    lines = run_driver(ctx, exe, cli, cases, tag)
    if len(cases) > 50:
        vlib.log('ran', len(cases), round(time.time() - ctx.t0, 1))
    evs = [json.loads(l) for l in lines]
    for c, e in zip(cases, evs):
        if e['mode'] == 'lib' and e['tierr'] and not c.get('pinned') and not c.get('exp', {}).get('suite'):
            raise vlib.Infra('independent tokenizer rejects a generated input (%s): %r' % (e['lang'], e['in'][:200]))
    # a repository test input that the independent parser (or the minifier) does not accept is not a valid input: not judged
    skip = set(i for i, (c, e) in enumerate(zip(cases, evs)) if c.get('exp', {}).get('suite') and (e['tierr'] or e['err']))
    NOT_JUDGED[0] += len(skip)
    lib_idx = [i for i, e in enumerate(evs) if e['mode'] == 'lib' and i not in skip]
    cli_idx = [i for i, e in enumerate(evs) if e['mode'] == 'cli']
    rejects, accepted = [], 0
    if lib_idx:
        a, rj = vlib.tlc_trace(ctx, 'C16Trace', 'C16Trace.cfg', [lines[i] for i in lib_idx], timeout=3000, min_per_shard=150)
        accepted += a
        rejects += [(lib_idx[k], w) for k, w in rj]
    if cli_idx:
        a, rj = vlib.tlc_trace(ctx, 'CliFlagsTrace', 'CliFlagsTrace.cfg', [lines[i] for i in cli_idx], timeout=1200,
                               shards=2, min_per_shard=100)
        accepted += a
        rejects += [(cli_idx[k], w) for k, w in rj]
    return evs, accepted, rejects


def describe(c, e, whys):
    d = default_opts()
    o = {k: v for k, v in c['o'].items() if v != d[k]}
    if c['mode'] == 'cli':
        return 'minify %s on %r: binary %r, library %r, default %r; rejected by %s' % (
            ' '.join(c.get('typeargs', []) + c['flags']), c['in'][:120], e['cli'][:120], e['out'][:120], e['dflt'][:120], ' / '.join(whys))
    return '%s %s: %r -> %r rejected by %s' % (c['lang'], json.dumps(o, sort_keys=True), c['in'][:300], e['out'][:300],
                                               ' / '.join(whys))


CHUNK = 12000


class Tally:
    """evidence counters, filled chunk by chunk (events are not kept)"""

    def __init__(self):
        self.nontrivial, self.per_opt, self.samples, self.sampled = set(), {}, [], set()
        self.accepted = self.total = self.drift_same = self.drift_diff = 0

    def add(self, cases, evs):
        d = default_opts()
        for c, e in zip(cases, evs):
            self.total += 1
            act = sorted(k for k, v in c['o'].items() if v != d[k])
            if act and e['out'] != e['in']:
                self.nontrivial.add(vlib.case_key(ident(c)))
            for k in act:
                self.per_opt[c['lang'] + '.' + k] = self.per_opt.get(c['lang'] + '.' + k, 0) + 1
            kind = (c['mode'], c['lang'], 'design' if 'syms' in c.get('exp', {}) else 'frag')
            if kind not in self.sampled and act and e['out'] != e['in'] and not c.get('pinned'):
                self.sampled.add(kind)
                o = {k: v for k, v in c['o'].items() if v != d[k]}
                if c['mode'] == 'cli':
                    self.samples.append(dict(flags=c.get('typeargs', []) + c['flags'], lang=c['lang'], **{'in': c['in'][:100]},
                                             binary_out=e['cli'][:100], default_out=e['dflt'][:100]))
                else:
                    self.samples.append(dict(lang=c['lang'], o=o, source=kind[2], **{'in': c['in'][:160]}, out=e['out'][:160]))


def run(ctx):
    exe = vlib.build_harness(ctx, 'c16')
    cli = vlib.build_cli(ctx)
    vlib.log('built', round(time.time() - ctx.t0, 1))
    vlib._speccopy(ctx)
    with ThreadPoolExecutor(max_workers=5) as ex:      # five different modules: no clash of TLC metadirs
        f1 = ex.submit(lexeme_pool, ctx)
        f2 = ex.submit(gen_states, ctx)
        f3 = ex.submit(cli_cases, ctx)
        f4 = ex.submit(design, ctx)
        f5 = ex.submit(prec_design, ctx)
        pools, (exh, sim), clic = f1.result(), f2.result(), f3.result()
        sigma, dstates, dsim, dinfo = f4.result()
        dinfo.update(f5.result())
    for r in _MC:
        ctx.add_mc(r)
    ctx.coverage.update(dinfo)
    vlib.log('generated', len(exh), len(sim), len(dstates), len(dsim), round(time.time() - ctx.t0, 1))
    # the renderer of the design alphabet agrees with the independent tokenizer, symbol by symbol
    probe = [dict(mode='lib', lang='html', o=default_opts(), flags=[], exp={}, **{'in': render_sym(sy)}) for sy in sigma]
    for sy, l in zip(sigma, run_driver(ctx, exe, cli, probe, 'sigma')):
        if json.loads(l)['ti'] != sy:
            raise vlib.Infra('renderer/tokenizer disagree on design symbol %r: %r' % (sy, json.loads(l)['ti']))
    cases, seen = [], set()
    for p in vlib.known_cases('C16'):
        cases.append(dict(mode=p.get('mode', 'lib'), lang=p['lang'], o=dict(default_opts(), **p['o']), flags=p.get('flags', []),
                          exp=p.get('exp', {}), pinned=True, **{'in': p['in']}))
        if p.get('typeargs'):
            cases[-1]['typeargs'] = p['typeargs']
    cases += clic
    n_cli = len(clic)
    for s in select(ctx, exh, sim):
        c = dict(mode='lib', lang=s['lang'], o=opts_of(s), flags=[], exp=dict(fr=s['inp']),
                 **{'in': render(s, pools, ctx.rnd)})
        k = vlib.case_key(ident(c))
        if k not in seen:
            seen.add(k)
            cases.append(c)
    n_frag = len(cases) - n_cli
    for c in design_cases(ctx, sigma, dstates, dsim):
        k = vlib.case_key(ident(c))
        if k not in seen:
            seen.add(k)
            cases.append(c)
    n_design = len(cases) - n_cli - n_frag
    cases += suite_cases(ctx)
    n_suite = len(cases) - n_cli - n_frag - n_design
    del exh, sim, dstates, dsim, seen
    tally = Tally()
    bad = []                      # (case, [clauses])
    for k in range(0, len(cases), CHUNK):
        part = cases[k:k + CHUNK]
        evs, accepted, rejects = validate(ctx, exe, cli, part, 'main%d' % (k // CHUNK))
        tally.accepted += accepted
        tally.add(part, evs)
        why = {}
        for i, w in rejects:
            why.setdefault(i, []).append(w)
        bad += [(part[i], sorted(set(ws))) for i, ws in sorted(why.items())]
        vlib.log('validated', k + len(part), 'of', len(cases), 'rejected so far', len(bad), round(time.time() - ctx.t0, 1))
    # every rejected case is re-run ALONE (fresh driver process, fresh TLC) before it counts; with many
    # rejections the pinned witnesses, then one witness per (language, clause), at most MAX_ISOLATED others
    pinned = [x for x in bad if x[0].get('pinned')]
    rest = [x for x in bad if not x[0].get('pinned')]
    first, later, kinds = [], [], set()
    for c, ws in rest:
        kd = (c['lang'], c['mode'], tuple(ws))
        (later if kd in kinds else first).append((c, ws))
        kinds.add(kd)
    reproduced = 0
    # the pinned witnesses of known findings: one fresh driver process and one fresh TLC for the group
    if pinned:
        grp = [dict(c) for c, _ in pinned]
        evs2, acc2, rej2 = validate(ctx, exe, cli, grp, 'pinned')
        again = {}
        for i, w in rej2:
            again.setdefault(i, []).append(w)
        for i, ws in sorted(again.items()):
            reproduced += 1
            ctx.report(ident(grp[i]), describe(grp[i], evs2[i], sorted(set(ws))), replay_obj=dict(case=ident(grp[i])))
        if len(again) != len(grp):
            raise vlib.Infra('rejection of a pinned witness did not reproduce')
    for n, (c, ws) in enumerate((first + later)[:MAX_ISOLATED]):
        evs2, acc2, rej2 = validate(ctx, exe, cli, [dict(c)], 'rerun%d' % n)
        if not rej2:
            raise vlib.Infra('rejection did not reproduce in isolation: %s %s' % (ws, describe(c, evs2[0], ws)))
        reproduced += 1
        ctx.report(ident(c), describe(c, evs2[0], sorted(set(w for _, w in rej2))), replay_obj=dict(case=ident(c)))
    ctx.coverage.update(dict(
        traces_validated_against_impl=tally.accepted,
        evaluations=tally.total,
        fragment_cases=n_frag, design_state_cases=n_design, cli_cases=n_cli, repository_test_input_cases=n_suite,
        distinct_nontrivial=len(tally.nontrivial),
        lines_per_active_option=tally.per_opt,
        rejections=len(bad), rejections_reproduced=reproduced, repository_inputs_not_valid_not_judged=NOT_JUDGED[0],
        rule='a case is (language, option configuration, document) or (flag set, document); documents are '
             '(a) fragment sequences enumerated by TLC from spec/OptGen.tla (exhaustive to the bound, -simulate beyond) '
             'with a guarding construct for every active option, (b) for HTML also the symbol sequences of the design '
             'model spec/OptDesign.tla (state dump and -simulate walks) under its 2^7 option sets; non-trivial = at '
             'least one option differs from its default and the output differs from the input; distinct by sha1 of '
             '(language, options, flags, exact input); (c) the repository\'s own JS test inputs under 8 Version x KeepVarNames '
             'settings, judged on those two clauses. No generator exclusions at present: the constructs of the seven fixed findings (known/C16.txt) are generated again.',
        samples=tally.samples,
    ))
    ctx.assumptions += [
        'tokenizers trusted as independent readers: golang.org/x/net/html Tokenizer, encoding/xml RawToken, acorn (Node), '
        'purpose-written JSON and CSS lexers in harness/cmd/c16',
        'TLC evaluates spec/Options.tla (relations), spec/NumVal.tla + BigNat.tla (meaning of number lexemes)',
        'reference for every clause is README.md / cmd/minify/README.md and the standards tables in the spec, not the code',
        'semantic guarantees of C01-C07 under option combinations are those properties\' own checks; here only the option relations',
    ]


def replay(ctx, obj):
    exe = vlib.build_harness(ctx, 'c16')
    cli = vlib.build_cli(ctx)
    c = obj['case']
    case = dict(mode=c.get('mode', 'lib'), lang=c['lang'], o=dict(default_opts(), **c['o']), flags=c.get('flags', []),
                exp=dict(fl=[dict(flag=f.lstrip('-').split('=')[0], val=int(f.split('=')[1]) if '=' in f else 1)
                             for f in c.get('flags', [])]), **{'in': c['in']})
    if c.get('typeargs'):
        case.update(typeargs=c['typeargs'], exp=c['exp'])
    evs, accepted, rejects = validate(ctx, exe, cli, [case], 'replay')
    e = evs[0]
    print(json.dumps(dict(lang=e['lang'], o=c['o'], out=e['out'], cli=e.get('cli'), **{'in': e['in']})))
    for _, w in rejects:
        print('rejected by:', w)
    if rejects:
        print('VIOLATION property=C16 replay=given')
        return 1
    return 0

# ---- binding self-test (not part of the tiers): python3 -c "import props.c16 as m; m.selftest_main()" -------------
def selftest(ctx):
    """Corrupt ONE recorded field of an accepted line per clause and require TLC to reject exactly that clause.
    Shows that no clause is vacuous on the generated documents and that the inner implications bite."""
    exe = vlib.build_harness(ctx, 'c16')
    cli = vlib.build_cli(ctx)
    H = '<!doctype html><html><head><title>T</title></head><body><!-- c --><!--#include file="h" --><ul><li>a</li> <li>b</li></ul>' \
        'x <b>y</b> <i>z</i> w<a href="u" title="t t">l</a><form method="get" action="a"></form>a <% x %> b</body></html>'
    allon = dict(default_opts(), KeepComments=True, KeepSpecialComments=True, KeepDefaultAttrVals=True, KeepDocumentTags=True,
                 KeepEndTags=True, KeepQuotes=True, KeepWhitespace=True, Delims=['<%', '%>'])
    base = [
        dict(mode='lib', lang='html', o=allon, **{'in': H}),
        dict(mode='lib', lang='html', o=dict(default_opts(), KeepSpecialComments=True), **{'in': H}),
        dict(mode='lib', lang='xml', o=dict(default_opts(), KeepWhitespace=True), **{'in': '<doc><a> x <b>y</b> z </a></doc>'}),
        dict(mode='lib', lang='json', o=dict(default_opts(), KeepNumbers=True), **{'in': '[ 1.50 , 100000 ]'}),
        dict(mode='lib', lang='json', o=dict(default_opts(), Precision=3), **{'in': '[ 1.23456 , 100000 ]'}),
        dict(mode='lib', lang='css', o=dict(default_opts(), KeepCSS2=True, Precision=3), **{'in': 'a{width:1000000px;height:1.23456px}'}),
        dict(mode='lib', lang='svg', o=dict(default_opts(), KeepComments=True, Precision=3),
             **{'in': '<svg xmlns="http://www.w3.org/2000/svg"><!-- n --><rect x="1.23456" width="5"/></svg>'}),
        dict(mode='lib', lang='js', o=dict(default_opts(), KeepVarNames=True, Version=2015, Precision=3),
             **{'in': 'function outer(first) { var local = first + 1.23456; return local }\nvar alpha = beta == null ? gamma : beta; lookup["12345"] = "6.54321";'}),
        dict(mode='cli', lang='css', o=dict(default_opts(), Precision=2), flags=['--css-precision=2'],
             exp=dict(fl=[dict(flag='css-precision', val=2)]), **{'in': RICH['css'][0]}),
        dict(mode='cli', lang='xml', o=default_opts(), flags=[], typeargs=['--mime=application/rss+xml'],
             exp=dict(ty=7, how=3, arg='application/rss+xml'), **{'in': RICH['xml'][0]}),
        dict(mode='lib', lang='html', o=dict(default_opts(), KeepWhitespace=True, KeepEndTags=True), **{'in': '<div> a </div><p>b <b>c</b> </p>'}),
        dict(mode='lib', lang='svg', o=dict(default_opts(), Precision=3),
             **{'in': '<svg xmlns="http://www.w3.org/2000/svg"><symbol viewBox="0.12345 1.23456 100.5678 200"><rect width="5"/></symbol></svg>'}),
    ]
    for c in base:
        c.setdefault('flags', [])
        c.setdefault('exp', {})
    evs = [json.loads(l) for l in run_driver(ctx, exe, cli, base, 'selftest')]

    def drop(toks, pred, last=False):
        idx = [i for i, t in enumerate(toks) if pred(t)]
        if not idx:
            raise vlib.Infra('selftest: nothing to corrupt')
        i = idx[-1] if last else idx[0]
        return toks[:i] + toks[i + 1:]

    def change(toks, pred, **kw):
        out, done = [], False
        for t in toks:
            if not done and pred(t):
                t = dict(t, **kw)
                done = True
            out.append(t)
        if not done:
            raise vlib.Infra('selftest: nothing to corrupt')
        return out

    def after(toks, pred, **kw):
        i = [k for k, t in enumerate(toks) if pred(t)][0] + 1
        if toks[i]['k'] != 'T' or toks[i]['b'] != [32]:
            raise vlib.Infra('selftest: unexpected token after marker')
        return toks[:i] + [dict(toks[i], **kw)] + toks[i + 1:]

    h, hs, x, jk, jp, cs, sv, js, cl, ct, hb, sl = evs
    muts = [
        ('KeepEndTags', dict(h, to=drop(h['to'], lambda t: t['k'] == 'E' and t['n'] == 'li'))),
        ('KeepDocumentTags', dict(h, to=drop(h['to'], lambda t: t['k'] == 'S' and t['n'] == 'head'))),
        ('KeepQuotes', dict(h, to=change(h['to'], lambda t: t['k'] == 'A' and t['q'] == 2, q=1))),
        ('KeepDefaultAttrVals', dict(h, to=drop(h['to'], lambda t: t['k'] == 'A' and t['n'] == 'method'))),
        ('KeepWhitespace', dict(h, to=after(h['to'], lambda t: t['k'] == 'E' and t['n'] == 'b', b=[]))),      # the blank between </b> and <i>
        ('Comments', dict(h, to=drop(h['to'], lambda t: t['k'] == 'C'))),
        ('Comments', dict(hs, to=hs['to'] + [dict(k='C', n='', t='', v='', q=0, b=[32, 99, 32])])),
        ('Comments', dict(hs, to=drop(hs['to'], lambda t: t['k'] == 'C' and t['b'][:1] == [35]))),
        ('TemplateDelims', dict(h, so=[h['so'][0].replace(' x ', ' x')])),
        ('KeepWhitespace', dict(x, to=change(x['to'], lambda t: t['k'] == 'T' and t['b'][:1] == [32], b=[120]))),
        ('KeepNumbers', dict(jk, to=change(jk['to'], lambda t: t['k'] == 'num', b=[49, 46, 53]))),
        ('Precision', dict(jp, to=change(jp['to'], lambda t: t['k'] == 'num', b=[49, 46, 50]))),
        ('KeepCSS2', dict(cs, to=change(cs['to'], lambda t: t['k'] == 'num', b=[49, 101, 54]))),
        ('Precision', dict(cs, to=change(cs['to'], lambda t: t['k'] == 'num' and t['b'][:1] == [49] and len(t['b']) < 7, b=[49, 46, 51]))),
        ('KeepComments', dict(sv, to=drop(sv['to'], lambda t: t['k'] == 'C'))),
        ('Precision', dict(sv, to=change(sv['to'], lambda t: t['k'] == 'AN' and t['n'] == 'x', b=[49, 46, 51]))),
        ('Version (features)', dict(js, fo=js['fo'] + ['nullish'])),
        ('Version (edition)', dict(js, pvo=2020)),
        ('KeepVarNames', dict(js, ido=js['ido'] + ['e'])),
        ('KeepVarNames', dict(js, dco=js['dco'] + ['t'])),
        ('Precision', dict(js, no=[[49, 46, 51]] + js['no'][1:])),
        # the number made from the string key "12345" rounded, a string literal changed
        ('Precision (nothing else)', dict(js, nos=[(x if x != [49, 50, 51, 52, 53] else [49, 50, 51, 48, 48]) for x in js['nos']])),
        ('Precision (nothing else)', dict(js, sk=[x.replace('6.54321', '6.54') for x in js['sk']])),
        ('binary output differs from library output under the documented options', dict(cl, cli=cl['cli'] + ' ')),
        ('flag has no effect on a discriminating input', dict(cl, dflt=cl['cli'])),
        ('library run does not use the documented options', dict(cl, o=dict(cl['o'], Precision=3))),
        ("binary output differs from the documented minifier's output", dict(ct, cli=ct['cli'] + ' ')),
        ('documented type is not minified', dict(ct, cli=ct['in'], out=ct['in'])),
        ('type case does not follow the documented table', dict(ct, lang='json')),
        # the blank between the block tag <div> and the text a (not claimed by the inline-only part)
        ('KeepWhitespace', dict(hb, to=change(hb['to'], lambda t: t['k'] == 'T' and t['b'] == [32, 97, 32], b=[97, 32]))),
        ('Precision', dict(sl, to=change(sl['to'], lambda t: t['k'] == 'AN' and t['n'] == 'viewBox#2', b=[49, 46, 51]))),
    ]
    ok = True
    acc, rej = vlib.tlc_trace(ctx, 'C16Trace', 'C16Trace.cfg', [e for e in evs if e['mode'] == 'lib'], shards=1)
    acc2, rej2 = vlib.tlc_trace(ctx, 'CliFlagsTrace', 'CliFlagsTrace.cfg', [cl, ct], shards=1)
    print('uncorrupted lines rejected:', rej + rej2)
    ok = ok and not rej and not rej2
    lib = [(w, e) for w, e in muts if e['mode'] == 'lib']
    clis = [(w, e) for w, e in muts if e['mode'] == 'cli']
    for spec, group in (('C16Trace', lib), ('CliFlagsTrace', clis)):
        acc, rej = vlib.tlc_trace(ctx, spec, spec + '.cfg', [e for _, e in group], shards=1)
        got = {}
        for i, w in rej:
            got.setdefault(i, set()).add(w)
        for i, (want, e) in enumerate(group):
            hit = want in got.get(i, set())
            ok = ok and hit
            print('%-8s corrupt -> expect %-40s got %s %s' % (e['lang'], want[:40], sorted(got.get(i, [])), 'OK' if hit else 'MISSED'))
    return ok


def selftest_main():
    import random
    ctx = vlib.Ctx('C16', 'quick', 1)
    ctx.rnd = random.Random(1)
    print('selftest', 'PASSED' if selftest(ctx) else 'FAILED')


META = dict(
    category='model_checking',
    text='TLC enumerates the option product of every minifier (2^7 HTML options x 4 delimiter sets x 3 document shapes, '
         'JS versions {0,5,2015..2022} x KeepVarNames x precisions 0..17, KeepCSS2/KeepNumbers/KeepComments x precisions, '
         'XML KeepWhitespace) crossed with fragment sequences (spec/OptGen.tla; invariant: every active option meets a '
         'construct it guards), and the documented flag table of cmd/minify (spec/CliFlags.tla). Each case is executed on '
         'the real library / real binary; TLC evaluates one TLA+ relation per option (spec/Options.tla) on the token '
         'streams of input and output produced by independent tokenizers.',
    design_ref='DESIGN.md section 4, C16',
    note='Trusted: TLC, the independent tokenizers, the documentation as reference. KeepCSS2 is checked for exponents and '
         '`initial` only (its documentation disclaims completeness). Path data is outside the SVG Precision clause (C05).',
    technique='TLA+ option-product generator + TLC trace validation of per-option token-stream relations; CLI vs library',
)
